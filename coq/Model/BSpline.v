(* Hand-written executable model of core/bspline.py around the generated closed forms (Gen/BSpline.v):
   evaluation of a cubic B-spline from its coefficients by the two algorithms of evaluate_cubic_bspline,
   subdivision of the control grid, refinement of a free-form deformation's image grid.
   Definitions only.  Lists are indexed from 0; tensors are nested lists in tensor order (.., Y, X). *)
From Coq Require Import ZArith List Bool.
From DV Require Import Base.Field Base.LinAlg Model.BSplineBase Gen.BSpline.
Import ListNotations.
Local Open Scope fld_scope.

Section BSplineModel.
Context {K : fld}.

Fixpoint sumf (n : nat) (f : nat -> K) : K :=
  match n with O => 0 | S m => sumf m f + f m end.

Definition zn (n : nat) : K := of_Z (Z.of_nat n).

(* row o of cubic_bspline_interpolation_weights(stride=s, derivative=d): offset o / s *)
Definition wrow (d s o : nat) : list K := gen_w d (zn o / zn s).

(* four weights applied to four consecutive coefficients f q .. f (q+3) *)
Definition spl_f (w : list K) (f : nat -> K) (q : nat) : K :=
  nth 0 w 0 * f q + nth 1 w 0 * f (q + 1)%nat + nth 2 w 0 * f (q + 2)%nat + nth 3 w 0 * f (q + 3)%nat.
Definition spl (w c : list K) (q : nat) : K := spl_f w (fun i => nth i c 0) q.

(* ---- closed form (tensor product, gather form) of evaluate_cubic_bspline, cropped to the first m samples:
        sample x lies in cell x / s at offset (x mod s) / s ---- *)
Definition ev1 (d s : nat) (c : list K) (m : nat) : list K :=
  map (fun x => spl (wrow d s (x mod s)) c (x / s)) (seq 0 m).

Definition at2 (c : list (list K)) (j i : nat) : K := nth i (nth j c []) 0.
Definition at3 (c : list (list (list K))) (k j i : nat) : K := nth i (nth j (nth k c []) []) 0.

(* D = 2: derivative orders (dx, dy), strides (sx, sy), data[y][x], output size (mx, my) *)
Definition ev2_at (dx dy sx sy : nat) (c : list (list K)) (y x : nat) : K :=
  spl_f (wrow dy sy (y mod sy))
        (fun j => spl_f (wrow dx sx (x mod sx)) (fun i => at2 c j i) (x / sx)) (y / sy).
Definition ev2 (dx dy sx sy : nat) (c : list (list K)) (mx my : nat) : list (list K) :=
  map (fun y => map (fun x => ev2_at dx dy sx sy c y x) (seq 0 mx)) (seq 0 my).

Definition ev3_at (dx dy dz sx sy sz : nat) (c : list (list (list K))) (z y x : nat) : K :=
  spl_f (wrow dz sz (z mod sz))
        (fun k => spl_f (wrow dy sy (y mod sy))
                        (fun j => spl_f (wrow dx sx (x mod sx)) (fun i => at3 c k j i) (x / sx)) (y / sy)) (z / sz).
Definition ev3 (dx dy dz sx sy sz : nat) (c : list (list (list K))) (mx my mz : nat) : list (list (list K)) :=
  map (fun z => map (fun y => map (fun x => ev3_at dx dy dz sx sy sz c z y x) (seq 0 mx)) (seq 0 my)) (seq 0 mz).

(* spatial_derivatives(mode='bspline'): derivative of the spline with coefficient tensor c w.r.t. physical coordinates,
   (hx, hy, hz) = spacing of the coefficient grid: the order-(dx, dy, dz) weights, divided by spacing^order *)
Fixpoint fpow (h : K) (d : nat) : K := match d with O => 1 | S e => h * fpow h e end.
Definition bsd2_at (dx dy sx sy : nat) (hx hy : K) (c : list (list K)) (y x : nat) : K :=
  ev2_at dx dy sx sy c y x / (fpow hx dx * fpow hy dy).
Definition bsd3_at (dx dy dz sx sy sz : nat) (hx hy hz : K) (c : list (list (list K))) (z y x : nat) : K :=
  ev3_at dx dy dz sx sy sz c z y x / (fpow hx dx * fpow hy dy * fpow hz dz).
Definition bsd2 dx dy sx sy hx hy (c : list (list K)) (mx my : nat) : list (list K) :=
  map (fun y => map (fun x => bsd2_at dx dy sx sy hx hy c y x) (seq 0 mx)) (seq 0 my).
Definition bsd3 dx dy dz sx sy sz hx hy hz (c : list (list (list K))) (mx my mz : nat) : list (list (list K)) :=
  map (fun z => map (fun y => map (fun x => bsd3_at dx dy dz sx sy sz hx hy hz c z y x) (seq 0 mx)) (seq 0 my)) (seq 0 mz).

(* ---- structure of the default algorithm in 1-D: one 4-tap correlation per offset (output channel o),
        then transpose(2, 3).flatten(2, 3): out[j * s + o] = channel_o[j] ---- *)
Fixpoint conv4 (w c : list K) : list K :=
  match c with
  | a :: r =>
      match r with
      | b :: c2 :: d :: _ => (nth 0 w 0 * a + nth 1 w 0 * b + nth 2 w 0 * c2 + nth 3 w 0 * d) :: conv4 w r
      | _ => []
      end
  | [] => []
  end.
Definition interleave (chans : list (list K)) (n : nat) : list K :=
  flat_map (fun j => map (fun ch => nth j ch 0) chans) (seq 0 n).
Definition eval_mirtk1 (d s : nat) (c : list K) (m : nat) : list K :=
  firstn m (interleave (map (fun o => conv4 (wrow d s o) c) (seq 0 s)) (length c - 3)).

(* default algorithm in N-D: one pass (all (n - 3) s samples of every line, no crop) per axis, x first, crop at the end *)
Definition mirtk_pass (d s : nat) (c : list K) : list K :=
  interleave (map (fun o => conv4 (wrow d s o) c) (seq 0 s)) (length c - 3).
(* spline cells for the subdivision statements: value of the cell starting at coefficient Q, local coordinate u *)
Definition cellv (d : nat) (u : K) (f : nat -> K) (Q : nat) : K := spl_f (gen_w d u) f Q.
Definition half_u (second : bool) (u : K) : K := if second then (1 + u) / (1 + 1) else u / (1 + 1).
Definition half_Q (second : bool) (q : nat) : nat := if second then (2 * q + 2)%nat else (2 * q + 1)%nat.

(* ---- transposed-convolution algorithm ---- *)
(* cubic_bspline1d(s)[i] = cubic_bspline_value((i - radius) / s), radius = (4 s - 1) // 2; 0 outside the kernel *)
Definition kerT (s : nat) (i : Z) : K :=
  let sz := Z.of_nat s in
  if ((0 <=? i)%Z && (i <? 4 * sz - 1)%Z)%bool then
    let z := (i - (4 * sz - 1) / 2)%Z in gen_B0 (piece_of_Z z sz) (of_Z z / of_Z sz)
  else 0.
(* F.conv_transpose1d(stride s, padding p), gather form: out[y] = sum_j f j * ker[y + p - j s], n inputs *)
Definition convT_at (s : nat) (p : Z) (ker : Z -> K) (n : nat) (f : nat -> K) (y : nat) : K :=
  sumf n (fun j => f j * ker (Z.of_nat y + p - Z.of_nat j * Z.of_nat s)%Z).
(* same_padding(4 s - 1) = (4 s - 1 - 1) / 2; output length n s; then output[s : s + m] *)
Definition padT (s : nat) : Z := ((4 * Z.of_nat s - 1 - 1) / 2)%Z.
Definition evT1_at (s : nat) (n : nat) (f : nat -> K) (x : nat) : K :=
  convT_at s (padT s) (kerT s) n f (s + x).
Definition evT1 (s : nat) (c : list K) (m : nat) : list K :=
  map (fun x => evT1_at s (length c) (fun j => nth j c 0) x) (seq 0 m).
Definition evT2 (sx sy : nat) (c : list (list K)) (mx my : nat) : list (list K) :=
  map (fun y => map (fun x =>
         evT1_at sy (length c) (fun j => evT1_at sx (length (nth j c [])) (fun i => at2 c j i) x) y)
       (seq 0 mx)) (seq 0 my).
Definition evT3 (sx sy sz : nat) (c : list (list (list K))) (mx my mz : nat) : list (list (list K)) :=
  map (fun z => map (fun y => map (fun x =>
         evT1_at sz (length c) (fun k =>
           evT1_at sy (length (nth k c [])) (fun j =>
             evT1_at sx (length (nth j (nth k c []) [])) (fun i => at3 c k j i) x) y) z)
       (seq 0 mx)) (seq 0 my)) (seq 0 mz).

(* ---- subdivision (zero padding at both ends, as conv1d(padding=1) does) ---- *)
Fixpoint subdiv_from (l : K) (c : list K) : list K :=
  match c with
  | [] => []
  | b :: r =>
      match r with
      | [] => [gen_sub_even l b 0]
      | cn :: _ => gen_sub_even l b cn :: gen_sub_odd b cn :: subdiv_from b r
      end
  end.
Definition subdiv1 (c : list K) : list K := subdiv_from 0 c.

(* BSplineTransform.grid_: the image grid goes from m to 2 m - 1 samples on the same domain, the stride stays;
   coefficients are subdivided, the first one is dropped and gen_ctrl_size (2 m - 1) s are kept *)
Definition refine1 (s m : nat) (c : list K) : list K :=
  firstn (Z.to_nat (gen_ctrl_size (2 * Z.of_nat m - 1) (Z.of_nat s))) (skipn 1 (subdiv1 c)).
Fixpoint refine_n (k s m : nat) (c : list K) : list K :=
  match k with O => c | S k' => refine_n k' s (2 * m - 1) (refine1 s m c) end.
Fixpoint size_n (k m : nat) : nat := match k with O => m | S k' => size_n k' (2 * m - 1) end.

(* apply a 1-D operation along one axis of a nested-list tensor (tensor order [z][y][x]) *)
Definition along_x2 (f : list K -> list K) (c : list (list K)) : list (list K) := map f c.
Definition along_y2 (f : list K -> list K) (c : list (list K)) : list (list K) :=
  let nx := length (nth 0 c []) in
  let cols := map (fun i => f (map (fun r => nth i r 0) c)) (seq 0 nx) in
  map (fun j => map (fun cl => nth j cl 0) cols) (seq 0 (length (nth 0 cols []))).
Definition along_x3 (f : list K -> list K) (c : list (list (list K))) : list (list (list K)) := map (map f) c.
Definition along_y3 (f : list K -> list K) (c : list (list (list K))) : list (list (list K)) := map (along_y2 f) c.
Definition along_z3 (f : list K -> list K) (c : list (list (list K))) : list (list (list K)) :=
  let ny := length (nth 0 c []) in
  let nx := length (nth 0 (nth 0 c []) []) in
  let cols := map (fun j => map (fun i => f (map (fun pl => at2 pl j i) c)) (seq 0 nx)) (seq 0 ny) in
  map (fun k => map (fun row => map (fun cl => nth k cl 0) row) cols)
      (seq 0 (length (nth 0 (nth 0 cols []) []))).

Definition eval_mirtk2 (dx dy sx sy : nat) (c : list (list K)) (mx my : nat) : list (list K) :=
  firstn my (map (firstn mx) (along_y2 (mirtk_pass dy sy) (along_x2 (mirtk_pass dx sx) c))).
Definition eval_mirtk3 (dx dy dz sx sy sz : nat) (c : list (list (list K))) (mx my mz : nat) : list (list (list K)) :=
  firstn mz (map (fun pl => firstn my (map (firstn mx) pl))
                 (along_z3 (mirtk_pass dz sz) (along_y3 (mirtk_pass dy sy) (along_x3 (mirtk_pass dx sx) c)))).

(* coefficients that are an affine function of the control point position (j - 1) * s (image index units) *)
Definition affine_coeffs (s n : nat) (a b : K) : list K :=
  map (fun j => a + b * (of_Z (Z.of_nat j - 1) * zn s)) (seq 0 n).
End BSplineModel.

(* the control grid size as a function on nat *)
Definition ctrl_size (m s : nat) : nat := Z.to_nat (gen_ctrl_size (Z.of_nat m) (Z.of_nat s)).
