"""Gen/MutSkeleton.v -- effect skeletons of the public functions of deepali.core.functional and
deepali.losses.functional (and of every deepali function they call).

Fail-closed Python-`ast` analysis: a function body is abstracted to a list of
  IAssign strong v [sources]   v = expr, where expr may refer to the tensors of the listed variables
                               (SVar: certainly, SMaybe _ bit: only on some branch, e.g. `.to()`, `.reshape()`,
                               `as_tensor(x)`, an unknown call that may return its argument)
  IInplace v                   trailing-underscore method / function on v, `v += ..`, `v[..] = ..`, `out=v`
and anything outside the vocabulary (global / nonlocal, exec, star-assignment to attributes of parameters,
`setattr`, ...) aborts the translation of that function (it is then listed as refused and covered only by
the runtime sweep).  Model/Heap.v gives the skeletons their meaning; Props/C15.v proves no_arg_mutation
for every translated function over all branch vectors.
"""
import ast
import os

NAMESPACES = ["deepali/core/functional.py", "deepali/losses/functional.py"]
# methods whose result may share storage with the receiver
VIEW_METHODS = {"view", "view_as", "reshape", "reshape_as", "expand", "expand_as", "permute", "transpose", "squeeze", "unsqueeze",
                "flatten", "unflatten", "narrow", "select", "t", "contiguous", "to", "type", "type_as", "float", "double", "half",
                "int", "long", "bool", "detach", "as_subclass", "tensor", "unbind", "split", "chunk", "movedim", "moveaxis",
                "swapaxes", "swapdims", "unfold", "diagonal", "cpu", "cuda", "requires_grad_", "index_select_view", "T", "mT",
                "real", "imag", "data", "values", "indices", "rename", "align_to", "refine_names", "batch", "items", "get",
                "pop", "copy", "tolist", "__getitem__"}
# methods that certainly return new storage (or no tensor at all)
FRESH_METHODS = {"clone", "new_tensor", "new_zeros", "new_ones", "new_empty", "new_full", "sum", "mean", "prod", "min", "max", "amin",
                 "amax", "abs", "neg", "add", "sub", "mul", "div", "pow", "sqrt", "exp", "log", "sin", "cos", "tanh", "sigmoid",
                 "floor", "ceil", "round", "clamp", "clip", "eq", "ne", "lt", "le", "gt", "ge", "any", "all", "norm", "dot",
                 "matmul", "mm", "bmm", "item", "size", "dim", "numel", "shape", "stride", "dtype", "device", "is_floating_point",
                 "argmax", "argmin", "sort", "topk", "cumsum", "cumprod", "var", "std", "where", "masked_fill", "repeat", "tile",
                 "flip", "roll", "logical_not", "logical_and", "logical_or", "nonzero", "square", "reciprocal", "rsqrt", "sign",
                 "inverse", "det", "softmax", "log_softmax", "float_power", "index_select", "gather", "masked_select", "take",
                 "lower", "upper", "format", "join", "startswith", "endswith", "split_", "keys", "append", "extend", "insert",
                 "update", "setdefault", "remove", "sort_", "count", "index", "isdigit", "strip", "replace", "numpy", "fmod",
                 "remainder", "atan2", "acos", "asin", "atan", "cross", "outer", "trace", "addmm", "lerp", "erf", "logsumexp",
                 "unique", "bincount", "histc", "median", "isnan", "isinf", "isfinite", "nan_to_num", "fill_diagonal", "tril", "triu",
                 "sub_", "from_grid", "from_arg", "from_align_corners"}
BITS = 4
# module-level torch / numpy functions whose result may share storage with an argument
TORCH_ALIAS_FUNCS = {"as_tensor", "asarray", "from_numpy", "reshape", "squeeze", "unsqueeze", "transpose", "permute", "flatten", "narrow",
                     "select", "view_as_real", "view_as_complex", "movedim", "moveaxis", "swapaxes", "swapdims", "atleast_1d", "atleast_2d",
                     "atleast_3d", "broadcast_to", "broadcast_tensors", "contiguous", "detach", "chunk", "split", "unbind", "tensor_split",
                     "split_with_sizes", "t", "diagonal", "real", "imag", "expand_as", "unflatten", "ravel", "as_strided", "index_put_",
                     "squeeze_", "unsqueeze_", "checkpoint", "meshgrid"}
PURE_MODULES = {"torch", "F", "np", "numpy", "math", "nn", "functional", "init", "itertools", "warnings", "re", "operator", "functools", "os"}


class Refuse(Exception):
    pass


IMMUTABLE_NAMES = {"int", "float", "bool", "str", "None", "Optional", "Union", "Scalar", "DType", "Device", "Sampling", "PaddingMode",
                   "SpatialDim", "SpatialDimArg", "Axes", "Size", "ScalarOrTuple", "ScalarOrTuple2d", "ScalarOrTuple3d", "Tuple", "tuple",
                   "torch", "dtype", "device", "Generator", "FlowChannelIndex", "SpatialDerivativeKeys", "Literal", "type", "Type",
                   "ElasticMaterialName", "PathStr", "PathUri", "EllipsisType", "complex", "bytes"}


def immutable_annotation(a):
    """parameters that can only hold immutable values: rebinding (`n += 1`) cannot reach the caller"""
    if a is None:
        return False
    names = [n.id for n in ast.walk(a) if isinstance(n, ast.Name)] + [n.attr for n in ast.walk(a) if isinstance(n, ast.Attribute)]
    consts = [n.value for n in ast.walk(a) if isinstance(n, ast.Constant)]
    if any(isinstance(c, str) and not c.replace("_", "").isalnum() for c in consts):
        return False
    return bool(names) and all(n in IMMUTABLE_NAMES for n in names)


class Analyzer:
    def __init__(self, fn):
        self.fn = fn
        self.vars = {}
        self.code = []
        self.nbits = 0
        self.calls = set()
        self.depth = 0
        a = fn.args
        params = [x.arg for x in a.posonlyargs + a.args] + ([a.vararg.arg] if a.vararg else []) + [x.arg for x in a.kwonlyargs] \
            + ([a.kwarg.arg] if a.kwarg else [])
        self.params = params
        for p in params:
            self.var(p)
        self.nargs = len(params)
        ann = {x.arg: x.annotation for x in a.posonlyargs + a.args + a.kwonlyargs}
        self.targs = [i for i, p in enumerate(params) if not immutable_annotation(ann.get(p))]

    def var(self, name):
        if name not in self.vars:
            self.vars[name] = len(self.vars)
        return self.vars[name]

    def bit(self):
        b = self.nbits % BITS
        self.nbits += 1
        return b

    # -- expressions: which variables' tensors may the value refer to --
    def root(self, e):
        while isinstance(e, (ast.Attribute, ast.Subscript, ast.Starred)):
            e = e.value
        if isinstance(e, ast.Call):
            return self.root(e.func) if isinstance(e.func, ast.Attribute) else None
        return e.id if isinstance(e, ast.Name) else None

    def sources(self, e):
        """list of (var name, certain: bool)"""
        if e is None or isinstance(e, ast.Constant):
            return []
        if isinstance(e, ast.Name):
            return [(e.id, True)] if e.id in self.vars else []
        if isinstance(e, (ast.BinOp, ast.UnaryOp, ast.Compare, ast.BoolOp)):
            self.scan_children(e)
            if isinstance(e, ast.BoolOp):       # `a or b` returns one of its operands
                out = []
                for v in e.values:
                    out += [(n, False) for n, _ in self.sources(v)]
                return out
            return []
        if isinstance(e, ast.IfExp):
            self.sources(e.test)
            return [(n, False) for n, _ in self.sources(e.body) + self.sources(e.orelse)]
        if isinstance(e, (ast.Tuple, ast.List, ast.Set)):
            out = []
            for x in e.elts:
                out += self.sources(x)
            return out
        if isinstance(e, ast.Dict):
            out = []
            for x in list(e.keys) + list(e.values):
                out += self.sources(x)
            return out
        if isinstance(e, ast.Starred):
            return self.sources(e.value)
        if isinstance(e, ast.Subscript):
            self.sources(e.slice)
            return [(n, False) for n, _ in self.sources(e.value)]
        if isinstance(e, ast.Attribute):
            return [(n, False) for n, _ in self.sources(e.value)]
        if isinstance(e, (ast.ListComp, ast.GeneratorExp, ast.SetComp, ast.DictComp)):
            out = []
            for g in e.generators:
                src = self.sources(g.iter)
                self.assign_target(g.target, [(n, False) for n, _ in src], weak=True)
                for c in g.ifs:
                    self.sources(c)
            elts = [e.key, e.value] if isinstance(e, ast.DictComp) else [e.elt]
            for x in elts:
                out += [(n, False) for n, _ in self.sources(x)]
            return out
        if isinstance(e, ast.JoinedStr) or isinstance(e, ast.FormattedValue):
            return []
        if isinstance(e, ast.Lambda):
            return [(n, False) for n, _ in self.sources(e.body)]
        if isinstance(e, ast.Slice):
            for x in (e.lower, e.upper, e.step):
                self.sources(x)
            return []
        if isinstance(e, ast.NamedExpr):
            src = self.sources(e.value)
            self.assign_target(e.target, src, weak=True)
            return src
        if isinstance(e, ast.Call):
            return self.call(e)
        if isinstance(e, ast.Await) or isinstance(e, ast.Yield) or isinstance(e, ast.YieldFrom):
            raise Refuse("generator / coroutine")
        raise Refuse(f"expression {type(e).__name__}")

    def scan_children(self, e):
        for c in ast.iter_child_nodes(e):
            if isinstance(c, ast.expr):
                self.sources(c)

    def inplace(self, name):
        if name is None:
            return
        if name in self.vars:
            self.code.append(("inplace", self.var(name)))

    def inplace_src(self, src):
        """in-place write of whatever an expression may refer to"""
        if not src:
            return
        self.ntmp = getattr(self, "ntmp", 0) + 1
        tmp = self.var(f"<tmp{self.ntmp}>")
        self.code.append(("assign", False, tmp, [(self.var(n), c) for n, c in src]))
        self.code.append(("inplace", tmp))

    def call(self, e):
        args = list(e.args) + [k.value for k in e.keywords]
        arg_src = []
        for a in args:
            arg_src += self.sources(a)
        for k in e.keywords:
            if k.arg == "out":
                self.inplace(self.root(k.value))
        f = e.func
        if isinstance(f, ast.Attribute):
            base_src = self.sources(f.value)
            m = f.attr
            if m.endswith("_") and not m.startswith("__") and m not in ("requires_grad_",):
                # in-place method: writes whatever the receiver expression may refer to; for module-level functions such as
                # torch.nn.init.constant_(t, v) the first argument
                base = self.root(f.value)
                if base_src or base in self.vars:
                    self.inplace_src(base_src)
                    return list(base_src)
                if e.args:
                    a0 = self.sources(e.args[0])
                    self.inplace_src(a0)
                    return a0
                return []
            if m in ("setattr", "__setattr__", "__setitem__", "__delitem__", "set_", "resize_", "copy_"):
                raise Refuse(f"call of {m}")
            if base_src:
                if m in FRESH_METHODS:
                    return []
                # view-like or unknown method on a tracked value: may share storage with the receiver or an argument
                return [(n, False) for n, _ in base_src + arg_src]
            # function from a module (torch.xxx, F.xxx, U.xxx, np.xxx, math.xxx)
            mod = self.root(f.value)
            if mod in PURE_MODULES and m not in TORCH_ALIAS_FUNCS:
                return []                   # trusted: returns new storage and writes none of its arguments
            self.calls.add(m)
            return [(n, False) for n, _ in arg_src]
        if isinstance(f, ast.Name):
            if f.id in ("setattr", "exec", "eval", "globals", "locals", "vars", "delattr"):
                raise Refuse(f"call of {f.id}")
            if f.id.endswith("_") and e.args:
                self.inplace(self.root(e.args[0]))
            if f.id in ("len", "int", "float", "bool", "str", "isinstance", "range", "enumerate_", "type", "repr", "print", "min", "max",
                        "abs", "sum", "any", "all", "hasattr", "callable", "id", "round", "ValueError", "TypeError", "RuntimeError",
                        "AssertionError", "NotImplementedError", "IndexError", "KeyError", "DeprecationWarning"):
                return []
            self.calls.add(f.id)
            if f.id in self.vars:      # calling a parameter (callable argument)
                return [(n, False) for n, _ in arg_src]
            return [(n, False) for n, _ in arg_src]
        # call of a call result etc.
        self.sources(f)
        return [(n, False) for n, _ in arg_src]

    # -- statements --
    def assign_target(self, t, src, weak):
        if isinstance(t, ast.Name):
            v = self.var(t.id)
            strong = (self.depth == 0) and not weak
            self.code.append(("assign", strong, v, [(self.var(n), c) for n, c in src]))
        elif isinstance(t, (ast.Tuple, ast.List)):
            for x in t.elts:
                self.assign_target(x.value if isinstance(x, ast.Starred) else x, [(n, False) for n, _ in src], weak)
        elif isinstance(t, ast.Subscript):
            # x[i] = value: writes x in place; x may now also hold a reference to value (containers)
            r = self.root(t)
            self.sources(t.slice)
            if r in self.vars:
                self.inplace(r)
                self.code.append(("assign", False, self.var(r), [(self.var(n), False) for n, _ in src]))
        elif isinstance(t, ast.Attribute):
            r = self.root(t)
            if r in self.params:
                raise Refuse("assignment to an attribute of a parameter")
            if r in self.vars:
                self.code.append(("assign", False, self.var(r), [(self.var(n), False) for n, _ in src]))
        else:
            raise Refuse(f"assignment target {type(t).__name__}")

    def block(self, stmts, nested=True):
        if nested:
            self.depth += 1
        for s in stmts:
            self.stmt(s)
        if nested:
            self.depth -= 1

    def const_flag(self, test):
        """`if inplace:` / `if not inplace:` on an explicit in-place flag parameter (analysed for flag = False)"""
        neg = False
        if isinstance(test, ast.UnaryOp) and isinstance(test.op, ast.Not):
            neg, test = True, test.operand
        if isinstance(test, ast.Name) and test.id in ("inplace",) and test.id in self.params:
            return (not neg, )       # tuple: value of the test when inplace is True
        return None

    def stmt(self, s):
        if isinstance(s, ast.Expr):
            self.sources(s.value)
        elif isinstance(s, ast.Assign):
            src = self.sources(s.value)
            for t in s.targets:
                self.assign_target(t, src, weak=False)
        elif isinstance(s, ast.AnnAssign):
            if s.value is not None:
                self.assign_target(s.target, self.sources(s.value), weak=False)
        elif isinstance(s, ast.AugAssign):
            src = self.sources(s.value)
            r = self.root(s.target)
            self.inplace(r)          # tensor.__iadd__ writes in place
        elif isinstance(s, ast.Return):
            self.sources(s.value)
        elif isinstance(s, ast.If):
            fl = self.const_flag(s.test)
            if fl is not None:
                # explicit in-place flag: the branch taken for inplace=False
                self.block(s.orelse if fl[0] else s.body)
                return
            self.sources(s.test)
            self.block(s.body)
            self.block(s.orelse)
        elif isinstance(s, (ast.For, ast.AsyncFor)):
            src = self.sources(s.iter)
            outer = self.code
            self.code = []
            self.depth += 1
            self.assign_target(s.target, [(n, False) for n, _ in src], weak=True)
            self.depth -= 1
            self.block(s.body)
            body, self.code = self.code, outer
            self.code.append(("loop", body))
            self.block(s.orelse)
        elif isinstance(s, ast.While):
            outer = self.code
            self.code = []
            self.sources(s.test)
            self.block(s.body)
            body, self.code = self.code, outer
            self.code.append(("loop", body))
            self.block(s.orelse)
        elif isinstance(s, (ast.With, ast.AsyncWith)):
            for it in s.items:
                src = self.sources(it.context_expr)
                if it.optional_vars is not None:
                    self.assign_target(it.optional_vars, src, weak=True)
            self.block(s.body, nested=False)
        elif isinstance(s, ast.Try):
            self.block(s.body)
            for h in s.handlers:
                if h.name:
                    self.var(h.name)
                self.block(h.body)
            self.block(s.orelse)
            self.block(s.finalbody)
        elif isinstance(s, (ast.Raise, ast.Assert)):
            for c in ast.iter_child_nodes(s):
                if isinstance(c, ast.expr):
                    self.sources(c)
        elif isinstance(s, (ast.Pass, ast.Break, ast.Continue, ast.Import, ast.ImportFrom)):
            pass
        elif isinstance(s, ast.Delete):
            for t in s.targets:
                if isinstance(t, ast.Subscript) and self.root(t) in self.vars:
                    self.inplace(self.root(t))
        elif isinstance(s, ast.FunctionDef):
            # nested helper: analysed in the same variable space (closure variables keep their names)
            for a in s.args.posonlyargs + s.args.args + s.args.kwonlyargs:
                self.var(a.arg)
            self.var(s.name)
            self.block(s.body)
        elif isinstance(s, (ast.Global, ast.Nonlocal, ast.ClassDef)):
            raise Refuse(type(s).__name__)
        else:
            raise Refuse(f"statement {type(s).__name__}")

    def run(self):
        body = self.fn.body
        self.block(body, nested=False)
        return self


def module_functions(path):
    with open(path) as f:
        tree = ast.parse(f.read())
    fns = {}
    aliases = {}
    imports = {}
    for n in tree.body:
        if isinstance(n, ast.FunctionDef):
            fns[n.name] = n       # the last definition wins (overloads first)
        elif isinstance(n, ast.Assign) and len(n.targets) == 1 and isinstance(n.targets[0], ast.Name) and isinstance(n.value, ast.Name):
            aliases[n.targets[0].id] = n.value.id
        elif isinstance(n, ast.ImportFrom) and n.level >= 1:
            for a in n.names:
                imports[a.asname or a.name] = (n.level, n.module, a.name)
    return tree, fns, aliases, imports


def resolve(root, rel, name, cache, depth=0):
    """-> (file rel path, FunctionDef) or None"""
    if depth > 6:
        return None
    if rel not in cache:
        p = os.path.join(root, rel)
        if not os.path.exists(p):
            return None
        cache[rel] = module_functions(p)
    tree, fns, aliases, imports = cache[rel]
    if name in fns:
        return rel, fns[name]
    if name in aliases:
        return resolve(root, rel, aliases[name], cache, depth + 1)
    if name in imports:
        level, module, orig = imports[name]
        base = os.path.dirname(rel)
        for _ in range(level - 1):
            base = os.path.dirname(base)
        if module:
            cand = os.path.join(base, *module.split("."))
        else:
            cand = os.path.join(base, orig)
            orig = None
        for c in (cand + ".py", os.path.join(cand, "__init__.py")):
            if os.path.exists(os.path.join(root, c)):
                if orig is None:
                    return None       # a module, not a function
                return resolve(root, c, orig, cache, depth + 1)
    return None


def public_names(root, rel):
    tree = ast.parse(open(os.path.join(root, rel)).read())
    for n in tree.body:
        if isinstance(n, ast.Assign) and any(isinstance(t, ast.Name) and t.id == "__all__" for t in n.targets):
            return [ast.literal_eval(e) for e in n.value.elts]
    # no __all__: public top-level functions and imported names
    out = []
    for n in tree.body:
        if isinstance(n, ast.FunctionDef) and not n.name.startswith("_"):
            out.append(n.name)
        elif isinstance(n, ast.ImportFrom) and n.level >= 1:
            out += [a.asname or a.name for a in n.names if not (a.asname or a.name).startswith("_")]
    return sorted(set(out))


def cstr(s):
    return '"' + s.replace('"', '""') + '"%string'


def analyse_all(root):
    cache = {}
    todo = []
    for ns in NAMESPACES:
        for name in public_names(root, ns):
            r = resolve(root, ns, name, cache)
            todo.append((ns, name, r))
    done = {}
    refused = []
    queue = [(ns, name, r, True) for ns, name, r in todo]
    seen = set()
    while queue:
        ns, name, r, public = queue.pop(0)
        if r is None:
            if public:
                refused.append((f"{ns}:{name}", "not a plain function of the package (class, constant or external)"))
            continue
        rel, fn = r
        key = f"{rel}:{fn.name}"
        label = f"{ns}:{name}" if public else key
        if key in seen:
            if public and key in done:
                done[label] = done[key]
            continue
        seen.add(key)
        try:
            a = Analyzer(fn).run()
        except Refuse as e:
            refused.append((label, str(e)))
            continue
        done[key] = a
        if public:
            done[label] = a
        # callees inside the package are analysed too (their cleanliness is what makes calling them harmless)
        for c in sorted(a.calls):
            rr = resolve(root, rel, c, cache)
            if rr is not None:
                queue.append((rel, c, rr, False))
    return done, refused


COPY_FILES = {"Grid": "deepali/core/grid.py", "Cube": "deepali/core/cube.py", "SpatialTransform": "deepali/spatial/base.py",
              "ParametricTransform": "deepali/spatial/parametric.py", "DataTensor": "deepali/data/tensor.py"}
COPY_PINS = {"Grid": ["clone", "__deepcopy__", "align_corners", "align_corners_", "center", "center_", "origin", "origin_", "spacing",
                      "spacing_", "direction", "direction_"],
             "Cube": ["clone", "__deepcopy__", "center", "center_", "origin", "origin_", "direction", "direction_", "extent", "extent_"],
             "SpatialTransform": ["__copy__", "condition", "condition_", "grid"],
             "ParametricTransform": ["data", "data_", "link", "unlink", "unlink_"],
             "DataTensor": ["__copy__", "__deepcopy__"]}


def copy_tables(root):
    import hashlib
    out = []
    rows, accs = [], []
    for cls, rel in COPY_FILES.items():
        tree = ast.parse(open(os.path.join(root, rel)).read())
        cdef = [n for n in tree.body if isinstance(n, ast.ClassDef) and n.name == cls]
        if len(cdef) != 1:
            raise Refuse(f"class {cls} not found")
        methods = {}
        for n in cdef[0].body:
            if isinstance(n, ast.FunctionDef):
                methods[n.name] = n
        for m in COPY_PINS[cls]:
            if m not in methods:
                raise Refuse(f"{cls}.{m} not found")
            fn = methods[m]
            body = fn.body[1:] if (fn.body and isinstance(fn.body[0], ast.Expr) and isinstance(getattr(fn.body[0], "value", None), ast.Constant)) else fn.body
            txt = "\n".join(ast.unparse(b) for b in body)
            rows.append(f"  ({cstr(cls + '.' + m)}, {cstr(hashlib.sha256(txt.encode()).hexdigest()[:20])})")
        # with-argument accessors: methods whose body contains  shallow_copy(self).<setter>_(...)
        for name, fn in sorted(methods.items()):
            if name.endswith("_") or name.startswith("_"):
                continue
            for node in ast.walk(fn):
                if isinstance(node, ast.Call) and isinstance(node.func, ast.Attribute) and isinstance(node.func.value, ast.Call) \
                        and ast.unparse(node.func.value) == "shallow_copy(self)":
                    accs.append(f"  ({cstr(cls + '.' + name)}, {cstr(node.func.attr)})")
        if cls == "SpatialTransform":
            cp = methods["__copy__"]
            loops = [n for n in ast.walk(cp) if isinstance(n, ast.For)]
            if len(loops) != 1 or not isinstance(loops[0].iter, (ast.Tuple, ast.List)):
                raise Refuse("SpatialTransform.__copy__: expected one loop over a tuple of container names")
            names = [ast.literal_eval(e) for e in loops[0].iter.elts]
            out.append("(* SpatialTransform.__copy__: the __dict__ entries that are copied (every other container is shared) *)")
            out.append("Definition gen_copied_containers : list string := [" + "; ".join(cstr(n) for n in names) + "].\n")
    out.append("(* with-argument accessors implemented as shallow_copy(self).<setter>(...) *)")
    out.append("Definition gen_copy_accessors : list (string * string) := [\n" + ";\n".join(accs) + "].\n")
    out.append("Definition gen_copy_fingerprints : list (string * string) := [\n" + ";\n".join(rows) + "].\n")
    return out


def generate(loader):
    done, refused = analyse_all(loader.root)
    out = ["From Coq Require Import String.", "From DV Require Import Model.Heap.", "Local Close Scope fld_scope.", "Local Open Scope nat_scope.", ""]
    rows = []
    for label in sorted(done):
        a = done[label]
        def emit(instrs):
            code = []
            for ins in instrs:
                if ins[0] == "inplace":
                    code.append(f"IInplace {ins[1]}")
                elif ins[0] == "loop":
                    code.append("ILoop [" + "; ".join(emit(ins[1])) + "]")
                else:
                    _, strong, v, src = ins
                    ss = []
                    for sv, certain in src:
                        ss.append(f"SVar {sv}" if certain else f"SMaybe {sv} {a.bit()}")
                    code.append(f"IAssign {'true' if strong else 'false'} {v} [" + "; ".join(ss) + "]")
            return code
        code = emit(a.code)
        targs = "[" + "; ".join(str(i) for i in a.targs) + "]"
        rows.append(f"  mkSkel {cstr(label)} {targs} {len(a.vars)} {min(a.nbits, BITS)} [" + "; ".join(code) + "]")
    out.append("Definition gen_skeletons : list skel := [\n" + ";\n".join(rows) + "].\n")
    out.append("Definition gen_refused : list (string * string) := [\n"
               + ";\n".join(f"  ({cstr(a)}, {cstr(b)})" for a, b in sorted(refused)) + "].\n")
    out += copy_tables(loader.root)
    return "\n".join(out)
