"""Gen/Losses.v -- closed forms of losses/functional.py (image similarity and overlap losses) traced
on small symbolic images: ssd/mse/mae (mask x reduction x norm), dice_score/dice_loss,
tversky_index (alpha, beta, epsilon symbolic), ncc_loss, lcc_loss and wlcc_loss (1 x 4 and 2 x 3
images, window 3).  The list-recursive model (Model/Losses.v) is proved equal to these forms
(Proofs/C16Gen.v), which ties coefficients, epsilons, argument order, mask handling and window
geometry of the model to the source text.  Calls that the source cannot execute are recorded in
gen_loss_raises (the faithful model must agree)."""
import numpy as np

import symtorch as st
import trlib
from symtorch import E, TraceError


def sym(prefix, shape):
    a = np.empty(shape, dtype=object)
    for k, idx in enumerate(np.ndindex(*shape)):
        a[idx] = E.var(f"{prefix}{k}")
    return st.Tensor(a)


def to_coq(e):
    """st.to_coq with |.| nodes emitted as applications of the parameter fabs"""
    if e.op == "fn":
        if e.args[0] != "abs":
            raise TraceError(f"unexpected function node {e.args[0]}")
        return f"(fabs {to_coq(e.args[1])})"
    if e.op in ("const", "var"):
        return st.to_coq(e)
    if e.op == "fn2":
        raise TraceError("two-argument function node")
    if e.op == "neg":
        return f"(- {to_coq(e.args[0])})"
    s = {"add": "+", "sub": "-", "mul": "*", "div": "/"}[e.op]
    return f"({to_coq(e.args[0])} {s} {to_coq(e.args[1])})"


def has_abs(e):
    if e.op == "fn":
        return True
    if e.op in ("const", "var"):
        return False
    return any(has_abs(a) for a in e.args if isinstance(a, E))


def flat_list(t):
    return "[" + "; ".join(to_coq(e) for e in t.a.reshape(-1)) + "]"


def pat(t):
    return "[" + "; ".join(e.args[0] for e in t.a.reshape(-1)) + "]"


def emit(name, scalars, inputs, out, comment):
    """Definition name (fabs) (scalars : K) (inputs : list K) : list K := match inputs with pats => [out...] | _ => [] end."""
    st._check_init(out.a)
    flat = out.a.reshape(-1)
    use_abs = any(has_abs(e) for e in flat)
    args = (" (fabs : K -> K)" if use_abs else "") + "".join(f" ({s} : K)" for s in scalars)
    args += "".join(f" ({n} : list K)" for n, _ in inputs)
    body = flat_list(out)
    if inputs:
        scrut = ", ".join(n for n, _ in inputs)
        pats = ", ".join(pat(t) for _, t in inputs)
        wild = ", ".join("_" for _ in inputs)
        body = f"match {scrut} with\n  | {pats} =>\n      {body}\n  | {wild} => []\n  end"
    return f"(* {comment} *)\nDefinition {name}{args} : list K :=\n  {body}.\n"


def generate(loader):
    L = loader.load("deepali.losses.functional")
    out = ["Section Gen.", "Context {K : fld}.", ""]
    raises = []

    def attempt(tag, thunk):
        """record the exception class of a call the source cannot execute (fail-closed for TraceError)"""
        try:
            thunk()
        except TraceError:
            raise
        except Exception as exc:  # the source itself raises
            raises.append((tag, type(exc).__name__))
            return False
        raises.append((tag, "Ok"))
        return True

    shape = (1, 1, 2, 2)
    x, y, w = sym("x", shape), sym("y", shape), sym("w", shape)
    eps, al, be = E.var("eps"), E.var("al"), E.var("be")
    c = E.var("c", positive=True)
    xyw = [("x", x), ("y", y), ("w", w)]
    xy = [("x", x), ("y", y)]

    # ---- pointwise losses ---------------------------------------------------------------------
    for fname in ("ssd_loss", "mse_loss", "mae_loss", "l1_loss"):
        f = getattr(L, fname)
        for red in ("none", "mean", "sum"):
            out.append(emit(f"gen_{fname}_{red}_mask", [], xyw, f(x, y, mask=w, reduction=red),
                            f"{fname}(x, y, mask=w, reduction={red!r}) on a 2 x 2 image"))
            out.append(emit(f"gen_{fname}_{red}", [], xy, f(x, y, reduction=red),
                            f"{fname}(x, y, reduction={red!r})"))
        out.append(emit(f"gen_{fname}_mean_mask_norm", ["c"], xyw, f(x, y, mask=w, norm=c, reduction="mean"),
                        f"{fname}(x, y, mask=w, norm=c, reduction='mean'), c > 0"))
        # default reduction
        d = f(x, y)
        want = f(x, y, reduction="sum" if fname == "ssd_loss" else "mean")
        if not trlib.same_tensor(d.a, want.a):
            raise TraceError(f"{fname}: default reduction changed")
    # mask broadcasting over batch and channels: (1, 1, X) mask on a (2, 2, X) image
    xb, yb, wb = sym("x", (2, 2, 1, 2)), sym("y", (2, 2, 1, 2)), sym("w", (1, 1, 1, 2))
    out.append(emit("gen_ssd_bcast_mean", [], [("x", xb), ("y", yb), ("w", wb)],
                    L.ssd_loss(xb, yb, mask=wb, reduction="mean"),
                    "ssd_loss on a (2, 2, 1, 2) batch with a (1, 1, 1, 2) mask, reduction='mean'"))

    # ---- overlap ------------------------------------------------------------------------------
    out.append(emit("gen_dice_w", ["eps"], xyw, L.dice_score(x, y, weight=w, epsilon=eps, reduction="none"),
                    "dice_score(x, y, weight=w, epsilon=eps)"))
    out.append(emit("gen_dice", ["eps"], xy, L.dice_score(x, y, epsilon=eps, reduction="none"),
                    "dice_score(x, y, epsilon=eps)"))
    out.append(emit("gen_dice_loss_w", ["eps"], xyw, L.dice_loss(x, y, weight=w, epsilon=eps, reduction="none"),
                    "dice_loss(x, y, weight=w, epsilon=eps)"))
    out.append(emit("gen_tversky", ["al", "be", "eps"], xy,
                    L.tversky_index(x, y, alpha=al, beta=be, epsilon=eps, reduction="none"),
                    "tversky_index(x, y, alpha, beta, epsilon) on a one-channel 2 x 2 image"))
    d1 = L.tversky_index(x, y, epsilon=eps, reduction="none")
    d2 = L.tversky_index(x, y, alpha=E.const(0.5), beta=E.const(0.5), epsilon=eps, reduction="none")
    if not trlib.same_tensor(d1.a, d2.a):
        raise TraceError("tversky_index: default alpha/beta are not 1/2")
    x2, y2, w2 = sym("x", (1, 2, 1, 2)), sym("y", (1, 2, 1, 2)), sym("w", (1, 1, 1, 2))
    out.append(emit("gen_tversky_c2w", ["al", "be", "eps"], [("x", x2), ("y", y2), ("w", w2)],
                    L.tversky_index(x2, y2, weight=w2, alpha=al, beta=be, epsilon=eps, reduction="none"),
                    "tversky_index on a two-channel image with a (1, 1, X) weight"))
    # one-channel (binary) input with a voxelwise weight; tversky_loss with and without the focal exponent
    out.append(emit("gen_tversky_w", ["al", "be", "eps"], xyw,
                    L.tversky_index(x, y, weight=w, alpha=al, beta=be, epsilon=eps, reduction="none"),
                    "tversky_index(x, y, weight=w, alpha, beta, epsilon) on a one-channel image"))
    out.append(emit("gen_tversky_loss_w", ["al", "be", "eps"], xyw,
                    L.tversky_loss(x, y, weight=w, alpha=al, beta=be, epsilon=eps, reduction="none"),
                    "tversky_loss(x, y, weight=w, alpha, beta, epsilon)"))
    out.append(emit("gen_tversky_loss_g1", ["al", "be", "eps"], xy,
                    L.tversky_loss(x, y, alpha=al, beta=be, gamma=1, epsilon=eps, reduction="none"),
                    "tversky_loss(..., gamma=1)"))
    out.append(emit("gen_tversky_loss_g3", ["al", "be", "eps"], xy,
                    L.tversky_loss(x, y, alpha=al, beta=be, gamma=3, epsilon=eps, reduction="none"),
                    "tversky_loss(..., gamma=3): focal Tversky loss"))
    out.append(emit("gen_tversky_loss_mean", ["al", "be", "eps"], [("x", x2), ("y", y2)],
                    L.tversky_loss(x2, y2, alpha=al, beta=be, epsilon=eps, reduction="mean"),
                    "tversky_loss on a two-channel image, reduction='mean'"))
    d1 = L.tversky_loss(x, y, epsilon=eps, reduction="none")
    d2 = L.tversky_loss(x, y, alpha=E.const(0.5), beta=E.const(0.5), epsilon=eps, reduction="none")
    if not trlib.same_tensor(d1.a, d2.a):
        raise TraceError("tversky_loss: default alpha/beta are not 1/2")
    # channel glue: two-channel prediction with a one-channel binary target uses the FOREGROUND channel 1, and a
    # one-channel prediction with a two-channel one-hot target uses the target's channel 1
    x1c, y1c = sym("x", (1, 1, 1, 2)), sym("y", (1, 1, 1, 2))
    out.append(emit("gen_tversky_p2t1", ["al", "be", "eps"], [("x", x2), ("y", y1c)],
                    L.tversky_index(x2, y1c, alpha=al, beta=be, epsilon=eps, reduction="none"),
                    "tversky_index: prediction (1, 2, 1, 2), target (1, 1, 1, 2)"))
    out.append(emit("gen_tversky_p1t2", ["al", "be", "eps"], [("x", x1c), ("y", y2)],
                    L.tversky_index(x1c, y2, alpha=al, beta=be, epsilon=eps, reduction="none"),
                    "tversky_index: prediction (1, 1, 1, 2), one-hot target (1, 2, 1, 2)"))
    attempt("tversky_index_p3_t1", lambda: L.tversky_index(sym("x", (1, 3, 1, 2)), y1c, epsilon=eps))
    attempt("tversky_index_binary_weight", lambda: L.tversky_index(x, y, weight=w, epsilon=eps))
    attempt("tversky_loss", lambda: L.tversky_loss(x, y, epsilon=eps))
    attempt("tversky_loss_gamma_half", lambda: L.tversky_loss(x, y, gamma=0.5, epsilon=eps))
    attempt("ncc_loss_mask", lambda: L.ncc_loss(x, y, mask=w, epsilon=eps))
    attempt("dice_score_weight", lambda: L.dice_score(x, y, weight=w, epsilon=eps))
    attempt("lcc_loss_mask", lambda: L.lcc_loss(x, y, mask=w, kernel_size=3, epsilon=eps))

    # ---- correlation --------------------------------------------------------------------------
    out.append(emit("gen_ncc", ["eps"], xy, L.ncc_loss(x, y, epsilon=eps, reduction="none"),
                    "ncc_loss(x, y, epsilon=eps, reduction='none'), one batch item"))
    out.append(emit("gen_ncc_mask", ["eps"], xyw, L.ncc_loss(x, y, mask=w, epsilon=eps, reduction="none"),
                    "ncc_loss(x, y, mask=w, epsilon=eps, reduction='none'): weighted normalized cross correlation"))
    xbm, ybm, wbm = sym("x", (2, 2, 1, 2)), sym("y", (2, 2, 1, 2)), sym("w", (1, 1, 1, 2))
    out.append(emit("gen_ncc_mask_bcast", ["eps"], [("x", xbm), ("y", ybm), ("w", wbm)],
                    L.ncc_loss(xbm, ybm, mask=wbm, epsilon=eps, reduction="sum"),
                    "ncc_loss on a (2, 2, 1, 2) batch with a (1, 1, 1, 2) mask, reduction='sum'"))
    xbn, ybn = sym("x", (2, 1, 1, 2)), sym("y", (2, 1, 1, 2))
    out.append(emit("gen_ncc_batch_mean", ["eps"], [("x", xbn), ("y", ybn)],
                    L.ncc_loss(xbn, ybn, epsilon=eps, reduction="mean"),
                    "ncc_loss on a batch of two images, reduction='mean'"))
    s14 = (1, 1, 1, 4)
    xl, yl, wl = sym("x", s14), sym("y", s14), sym("w", s14)
    ul, vl = sym("u", s14), sym("v", s14)
    xyl = [("x", xl), ("y", yl)]
    out.append(emit("gen_lcc14", ["eps"], xyl, L.lcc_loss(xl, yl, kernel_size=(1, 3), epsilon=eps, reduction="none"),
                    "lcc_loss on a 1 x 4 image, kernel_size=(1, 3), reduction='none'"))
    out.append(emit("gen_lcc14_mean_mask", ["eps"], xyl + [("w", wl)],
                    L.lcc_loss(xl, yl, mask=wl, kernel_size=(1, 3), epsilon=eps, reduction="mean"),
                    "lcc_loss with mask, reduction='mean'"))
    s23 = (1, 1, 2, 3)
    xq, yq = sym("x", s23), sym("y", s23)
    out.append(emit("gen_lcc23", ["eps"], [("x", xq), ("y", yq)],
                    L.lcc_loss(xq, yq, kernel_size=3, epsilon=eps, reduction="none"),
                    "lcc_loss on a 2 x 3 image, kernel_size=3, reduction='none'"))
    out.append(emit("gen_wlcc14_mask", ["eps"], xyl + [("w", wl)],
                    L.wlcc_loss(xl, yl, mask=wl, kernel_size=(1, 3), epsilon=eps, reduction="mean"),
                    "wlcc_loss(x, y, mask=w), reduction='mean'"))
    out.append(emit("gen_wlcc14_st", ["eps"], xyl + [("u", ul), ("v", vl)],
                    L.wlcc_loss(xl, yl, source_mask=ul, target_mask=vl, kernel_size=(1, 3), epsilon=eps,
                                reduction="mean"),
                    "wlcc_loss(x, y, source_mask=u, target_mask=v), reduction='mean'"))
    out.append(emit("gen_wlcc14_all", ["eps"], xyl + [("w", wl), ("u", ul), ("v", vl)],
                    L.wlcc_loss(xl, yl, mask=wl, source_mask=ul, target_mask=vl, kernel_size=(1, 3), epsilon=eps,
                                reduction="none"),
                    "wlcc_loss(x, y, mask=w, source_mask=u, target_mask=v), reduction='none'"))
    out.append(emit("gen_wlcc14_s", ["eps"], xyl + [("u", ul)],
                    L.wlcc_loss(xl, yl, source_mask=ul, kernel_size=(1, 3), epsilon=eps, reduction="none"),
                    "wlcc_loss(x, y, source_mask=u), reduction='none'"))
    # ---- mi_loss: default intensity range and bin count (structure only) ----------------------------------
    # the global minimum / maximum of a tensor and the binary min / max are opaque nodes; the trace stops at
    # torch.linspace(vmin, vmax, num_bins), whose arguments are what is recorded
    class _Stop(Exception):
        pass

    rec = {}

    def _allred(name):
        def f(self, *a, **k):
            if a or k:
                raise TraceError(f"Tensor.{name} with arguments")
            tot = E.const(0)
            for v in self.a.reshape(-1):
                tot = tot + v
            z = np.empty((), dtype=object)
            z[()] = E("fn", name + "all", tot)
            return st.Tensor(z)
        return f

    def _bin(name):
        def f(a, b):
            z = np.empty((), dtype=object)
            z[()] = E("fn2", name + "2", a.a[()], b.a[()])
            return st.Tensor(z)
        return f

    def _linspace(vmin, vmax, steps, **kw):
        rec["args"] = (vmin, vmax, steps)
        raise _Stop()
    saved = {n: getattr(st.Tensor, n, None) for n in ("min", "max")}
    saved_mod = {n: st.__dict__.get(n) for n in ("min", "max", "linspace")}
    st.Tensor.min, st.Tensor.max = _allred("min"), _allred("max")
    st.min, st.max, st.linspace = _bin("min"), _bin("max"), _linspace
    try:
        xi, ti = sym("x", (1, 1, 1, 2)), sym("t", (1, 1, 1, 2))
        ranges = {}
        for fname in ("mi_loss", "nmi_loss"):
            try:
                getattr(L, fname)(xi, ti)
            except _Stop:
                pass
            else:
                raise TraceError(f"{fname}: torch.linspace not reached")
            ranges[fname] = rec.pop("args")
    finally:
        for n, v in saved.items():
            if v is None:
                delattr(st.Tensor, n)
            else:
                setattr(st.Tensor, n, v)
        for n, v in saved_mod.items():
            if v is None:
                st.__dict__.pop(n, None)
            else:
                st.__dict__[n] = v
    if ranges["mi_loss"][2] != 64 or ranges["nmi_loss"][2] != 64:
        raise TraceError("mi_loss: default number of bins is not 64")
    for a_, b_ in zip(ranges["mi_loss"][:2], ranges["nmi_loss"][:2]):
        if not E.const(a_).same(E.const(b_)):
            raise TraceError("nmi_loss and mi_loss use different default intensity ranges")
    names = {"minall((x0 + x1))": "xmin", "maxall((x0 + x1))": "xmax", "minall((t0 + t1))": "tmin", "maxall((t0 + t1))": "tmax"}

    def emit_range(e):
        e = E.const(e)
        if e.op != "fn2" or e.args[0] not in ("min2", "max2"):
            raise TraceError(f"mi_loss: default range bound is not a binary min/max: {e}")
        parts = []
        for a_ in e.args[1:]:
            k_ = st.to_text(a_)
            if k_ not in names:
                raise TraceError(f"mi_loss: default range bound uses {k_}")
            parts.append(names[k_])
        return f"f{e.args[0]} {parts[0]} {parts[1]}"
    out.append("(* mi_loss / nmi_loss: default (vmin, vmax) passed to torch.linspace, in terms of the global minima / maxima of\n"
               "   input (xmin, xmax) and target (tmin, tmax) and abstract binary min / max *)\n"
               "Definition gen_mi_default_range (fmin2 fmax2 : K -> K -> K) (xmin xmax tmin tmax : K) : K * K :=\n"
               f"  ({emit_range(ranges['mi_loss'][0])}, {emit_range(ranges['mi_loss'][1])}).\n")
    # ---- NormalizedPairwiseImageLoss: which images the default normalisation factor is computed from --------------
    Bm = loader.load("deepali.losses.base")

    class _MD:
        def __init__(self, a, b):
            self.a, self.b = a, b

        def square(self):
            return f"max_difference({self.a}, {self.b})^2"
    saved_b = (Bm.max_difference, Bm.Tensor)
    Bm.max_difference = lambda a, b: _MD(a, b)
    Bm.Tensor = object

    class _NL(Bm.NormalizedPairwiseImageLoss):
        def forward(self, *a, **k):
            return None
    norm_rows = []
    try:
        for tag, kw in (("source", dict(source="source")), ("target", dict(target="target")),
                        ("source, target", dict(source="source", target="target")),
                        ("target, norm=True", dict(target="target", norm=True)),
                        ("source, norm=True", dict(source="source", norm=True)),
                        ("source, target, norm=False", dict(source="source", target="target", norm=False)),
                        ("norm=c", dict(norm="c")), ("source, target, norm=c", dict(source="source", target="target", norm="c")),
                        ("nothing", dict())):
            if kw.get("norm") == "c":
                kw = dict(kw, norm=2.5)
            v = _NL(**kw).norm
            norm_rows.append((tag, "c" if v == 2.5 else str(v)))
    finally:
        Bm.max_difference, Bm.Tensor = saved_b
    rows = ";\n".join(f'  ("{t}"%string, "{k}"%string)' for t, k in norm_rows)
    norm_table = f"(* NormalizedPairwiseImageLoss(...).norm for each way of constructing it *)\nDefinition gen_norm_defaults : list (string * string) := [\n{rows}].\n"
    # default epsilons and kernel size
    import inspect
    defaults = {}
    for fname in ("dice_score", "dice_loss", "tversky_index", "ncc_loss", "lcc_loss", "wlcc_loss"):
        sig = inspect.signature(getattr(L, fname))
        for pn in ("epsilon", "kernel_size", "reduction"):
            if pn in sig.parameters:
                defaults[(fname, pn)] = sig.parameters[pn].default
    out.append("End Gen.\n")
    rows = ";\n".join(f'  ("{t}"%string, "{k}"%string)' for t, k in raises)
    out.append(f"Definition gen_loss_raises : list (string * string) := [\n{rows}].\n")
    rows = ";\n".join(f'  ("{f}.{p}"%string, "{v!r}"%string)' for (f, p), v in sorted(defaults.items()))
    out.append(f"Definition gen_loss_defaults : list (string * string) := [\n{rows}].\n")
    out.append(norm_table)
    return "\n".join(out)
