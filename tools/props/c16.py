"""C16 -- image similarity and overlap losses satisfy their defining axioms."""
import os
import re

import vlib
from vlib import Violation, qc, coq_list

ID = "C16"
GEN_UNITS = ["Losses"]
PROPS_FILE = "Props/C16.v"
PROPS_MOD = "Props.C16"
COQ_TARGETS = ["Props/C16.vo"]
SOURCES = ["deepali/losses/functional.py", "deepali/losses/image.py", "deepali/losses/base.py", "deepali/core/image.py"]
TRUSTED = [
    "Coq 8.16.1 kernel + vm_compute",
    "translator: tools/symtorch.py semantics of the traced torch subset incl. avg_pool{1,2,3}d, l1_loss, mse_loss "
    "(validated by this run's correspondence: generated definitions and list model vs. the real functions)",
    "modelled not verified: torch kernels F.avg_pool*d, F.l1_loss, F.huber_loss, F.smooth_l1_loss (their documented semantics "
    "are the model; compared numerically every run), float32 rounding of .float() code paths",
    "MI/NMI: Gaussian Parzen window, logarithm and random sampling are abstract in the model (only symmetry is proved)",
]
ASSUMPTIONS = [
    "images are flattened row-major; a batch is processed as N x C lists (checked by the mask-broadcast and batch traces)",
    "denominators are non-zero (b*c + eps <> 0; mask sum <> 0; non-empty image) -- stated as hypotheses of the theorems",
    "window sizes are odd and not larger than the image (torch rejects larger kernels; even sizes change the output shape)",
]

RED = {"none": "RNone", "mean": "RMean", "sum": "RSum"}


# ------------------------------------------------------------------------------------------------
def dy(rng, lo=0, hi=4, bits=3):
    return rng.randint(lo * 2 ** bits, hi * 2 ** bits) / 2 ** bits


def tensor(rng, shape, gen):
    n = 1
    for s in shape:
        n *= s
    return {"shape": list(shape), "data": [gen() for _ in range(n)]}


def coq_img(t):
    """(N, C, *sp) spec -> N x C x X nested Coq list"""
    N, C = t["shape"][0], t["shape"][1]
    X = 1
    for s in t["shape"][2:]:
        X *= s
    d = t["data"]
    return coq_list([coq_list([coq_list([qc(v) for v in d[(n * C + c) * X:(n * C + c + 1) * X]]) for c in range(C)])
                     for n in range(N)])


def coq_nats(l):
    return "[" + "; ".join(str(int(v)) for v in l) + "]%nat"


def coq_mask(t):
    if t is None:
        return "None"
    return f"(Some ({coq_img(t)}, {coq_nats(t['shape'][2:])}))"


def shapes(rng):
    D = rng.choice([2, 3])
    N = rng.choice([1, 2])
    C = rng.choice([1, 2])
    sp = [rng.choice([1, 2, 3, 4] if D == 2 else [1, 2, 3]) for _ in range(D)]
    if all(s == 1 for s in sp):
        sp[-1] = 3
    return D, N, C, sp


def mask_for(rng, form, N, C, sp, binary):
    shp = [1 if form[0] == "1" else N, 1 if form[1] == "1" else C] + list(sp)
    t = tensor(rng, shp, (lambda: float(rng.random() < 0.65)) if binary else (lambda: dy(rng, 0, 1, 2)))
    if sum(t["data"]) == 0:
        t["data"][0] = 1.0
    return t


def positive_per_item(t):
    """every batch item of the mask gets a positive sum (a zero-sum weight makes the weighted NCC 0/0)"""
    n_items = t["shape"][0]
    per = len(t["data"]) // n_items
    for n in range(n_items):
        if sum(t["data"][n * per:(n + 1) * per]) == 0:
            t["data"][n * per] = 1.0
    return t


def bad_mask(rng, N, C, sp):
    """a mask shape that masked_loss must reject"""
    kind = rng.choice(["batch", "chan", "spatial"])
    if kind == "batch":
        shp = [N + 1 if N > 1 else 3, 1] + list(sp)
        if N == 1:
            return None
    elif kind == "chan":
        shp = [1, C + 1 if C > 1 else 3] + list(sp)
        if C == 1:
            return None
    else:
        sp2 = list(sp)
        sp2[-1] += 1
        shp = [1, 1] + sp2
    return tensor(rng, shp, lambda: 1.0)


def make_cases(ctx, n):
    rng = ctx.rng
    cases = []
    kinds = ["pw", "pw", "ncc", "lcc", "wlcc", "dice", "tversky", "tversky", "lcc", "wlcc"]
    tv_count = 0
    mod_count = 0
    for i in range(n):
        k = kinds[i % len(kinds)]
        D, N, C, sp = shapes(rng)
        shp = [N, C] + sp
        red = ["none", "mean", "sum"][(i // len(kinds)) % 3]
        form = ["11", "N1", "1C", "NC"][(i // 3) % 4]
        c = {"kind": k, "reduction": red, "D": D}
        binary_mask = rng.random() < 0.5
        if k == "pw":
            c["fn"] = ["ssd", "mse", "mae", "l1", "huber", "smooth_l1"][(i // 2) % 6]
            c["x"] = tensor(rng, shp, lambda: dy(rng, -2, 4))
            c["y"] = tensor(rng, shp, lambda: dy(rng, -2, 4))
            c["param"] = rng.choice([0.25, 1.0, 2.5])
            r = rng.random()
            if r < 0.1:
                c["mask"] = bad_mask(rng, N, C, sp)
                c["malformed"] = c["mask"] is not None
            elif r < 0.75:
                c["mask"] = mask_for(rng, form, N, C, sp, binary_mask)
            else:
                c["mask"] = None
            c["norm"] = rng.choice([None, None, 0.5, 4.0, -1.0])
            if c["fn"] in ("huber", "smooth_l1"):
                mod_count += 1
            if c["fn"] in ("huber", "smooth_l1") and mod_count % 2 == 0:
                c["param"] = [0.25, 2.5][(mod_count // 4) % 2]      # never the default 1.0
                # through the module wrapper (HuberImageLoss(delta) / SmoothL1ImageLoss(beta)): reduction is 'mean'
                c["module"] = True
                c["reduction"] = "mean"
                if c.get("malformed"):
                    c["mask"], c["malformed"] = mask_for(rng, form, N, C, sp, binary_mask), False
                if c["norm"] is not None and c["norm"] <= 0:
                    c["norm"] = None
        elif k == "ncc":
            c["x"] = tensor(rng, shp, lambda: dy(rng))
            c["y"] = tensor(rng, shp, lambda: dy(rng))
            c["eps"] = rng.choice([1 / 1024, 0.25]) if (i // len(kinds)) % 4 else 1e-15
            sel = (i // len(kinds)) % 5
            if sel in (1, 2, 3):
                form = ["11", "N1", "1C", "NC"][(i // (5 * len(kinds)) + sel) % 4]
                c["mask"] = positive_per_item(mask_for(rng, form, N, C, sp, sel == 1))       # binary or soft weights, every (1|N, 1|C) form
            elif sel == 4 and rng.random() < 0.5:
                c["mask"] = bad_mask(rng, N, C, sp)
                c["malformed"] = c["mask"] is not None
        elif k in ("lcc", "wlcc"):
            if k == "wlcc":
                # weighted local means have arbitrary denominators: keep images small and epsilon dyadic so that the
                # exact rationals of the model stay a few hundred bits
                sp = [rng.choice([1, 2, 3]) for _ in range(D)] if D == 2 else [rng.choice([1, 2]) for _ in range(D)]
                if all(s == 1 for s in sp):
                    sp[-1] = 2
                shp = [N, C] + sp
            c["x"] = tensor(rng, shp, lambda: dy(rng))
            c["y"] = tensor(rng, shp, lambda: dy(rng))
            c["eps"] = rng.choice([1e-15, 1 / 1024, 0.25]) if k == "lcc" else rng.choice([1 / 1024, 0.25])
            c["ks"] = [rng.choice([kk for kk in (1, 3) if kk <= s]) for s in sp]
            r = rng.random()
            if r < 0.06:
                c["ks"] = [2 if s >= 2 else 1 for s in sp]        # even window: rejected
                c["malformed"] = any(kk == 2 for kk in c["ks"])
            c["mask"] = mask_for(rng, form, N, C, sp, binary_mask) if rng.random() < 0.6 else None
            if k == "wlcc":
                mode = rng.choice(["mask", "st", "all", "s", "none"])
                f2 = rng.choice(["11", "N1", "1C", "NC"])
                if mode in ("st", "s", "none"):
                    c["mask"] = None
                c["smask"] = mask_for(rng, f2, N, C, sp, False) if mode in ("st", "all", "s") else None
                c["tmask"] = mask_for(rng, form, N, C, sp, binary_mask) if mode in ("st", "all") else None
            elif r > 0.94:
                c["mask"] = bad_mask(rng, N, C, sp)
                c["malformed"] = c["mask"] is not None
        elif k == "dice":
            soft = rng.random() < 0.5
            g = (lambda: dy(rng, 0, 1)) if soft else (lambda: float(rng.random() < 0.5))
            c["x"] = tensor(rng, shp, g)
            c["y"] = tensor(rng, shp, g)
            c["eps"] = rng.choice([1e-15, 1 / 1024, 0.5])
            c["loss"] = rng.random() < 0.4
            c["mask"] = mask_for(rng, form, N, C, sp, False) if rng.random() < 0.6 else None
        else:
            # cycle deterministically through index / loss, the focal exponents, weights and channel counts
            j = tv_count
            tv_count += 1
            C = [1, 2][j % 2]
            shp = [N, C] + sp
            soft = rng.random() < 0.5
            g = (lambda: dy(rng, 0, 1)) if soft else (lambda: float(rng.random() < 0.5))
            c["x"] = tensor(rng, shp, g)
            c["y"] = tensor(rng, shp, g)
            c["eps"] = rng.choice([1e-15, 1 / 1024, 0.5])
            c["alpha"], c["beta"] = rng.choice([(0.5, 0.5), (0.25, 0.75), (0.75, 0.5)])
            c["loss"] = (j // 2) % 3 != 0
            if c["loss"]:
                c["gamma"] = [None, 1, 2, 3, 0.5][(j // 6) % 5]
                c["malformed"] = c["gamma"] == 0.5
            c["mask"] = mask_for(rng, ["N1", "NC"][(j // 2) % 2], N, C, sp, False) if (j // 4) % 2 == 0 or j % 4 < 2 else None
        cases.append(c)
    return cases


def gen_cases(ctx):
    """inputs for the generated definitions (fixed shapes of the traces)"""
    rng = ctx.rng
    out = []
    t = lambda shp, lo=0, hi=4: tensor(rng, shp, lambda: dy(rng, lo, hi))
    s22, s14, s23 = [1, 1, 2, 2], [1, 1, 1, 4], [1, 1, 2, 3]
    for fn in ("ssd", "mse", "mae", "l1"):
        for red in ("none", "mean", "sum"):
            out.append({"kind": "pw", "fn": fn, "reduction": red, "x": t(s22, -2), "y": t(s22, -2), "mask": t(s22, 0, 1), "norm": None,
                        "param": 1.0, "gen": f"gen_{fn}_loss_{red}_mask", "abs": fn in ("mae", "l1"), "args": "xyw"})
            out.append({"kind": "pw", "fn": fn, "reduction": red, "x": t(s22, -2), "y": t(s22, -2), "mask": None, "norm": None,
                        "param": 1.0, "gen": f"gen_{fn}_loss_{red}", "abs": fn in ("mae", "l1"), "args": "xy"})
        out.append({"kind": "pw", "fn": fn, "reduction": "mean", "x": t(s22, -2), "y": t(s22, -2), "mask": t(s22, 0, 1), "norm": 4.0,
                    "param": 1.0, "gen": f"gen_{fn}_loss_mean_mask_norm", "abs": fn in ("mae", "l1"), "args": "xyw", "scal": [4.0]})
    out.append({"kind": "pw", "fn": "ssd", "reduction": "mean", "x": t([2, 2, 1, 2]), "y": t([2, 2, 1, 2]), "mask": t([1, 1, 1, 2], 0, 1),
                "norm": None, "param": 1.0, "gen": "gen_ssd_bcast_mean", "args": "xyw"})
    e = 1 / 1024
    out.append({"kind": "dice", "reduction": "none", "x": t(s22, 0, 1), "y": t(s22, 0, 1), "mask": t(s22, 0, 1), "eps": e,
                "gen": "gen_dice_w", "args": "xyw", "scal": [e]})
    out.append({"kind": "dice", "reduction": "none", "x": t(s22, 0, 1), "y": t(s22, 0, 1), "mask": None, "eps": e,
                "gen": "gen_dice", "args": "xy", "scal": [e]})
    out.append({"kind": "dice", "loss": True, "reduction": "none", "x": t(s22, 0, 1), "y": t(s22, 0, 1), "mask": t(s22, 0, 1), "eps": e,
                "gen": "gen_dice_loss_w", "args": "xyw", "scal": [e]})
    out.append({"kind": "tversky", "reduction": "none", "x": t(s22, 0, 1), "y": t(s22, 0, 1), "mask": None, "eps": e, "alpha": 0.25,
                "beta": 0.75, "gen": "gen_tversky", "args": "xy", "scal": [0.25, 0.75, e]})
    out.append({"kind": "tversky", "reduction": "none", "x": t([1, 2, 1, 2], 0, 1), "y": t([1, 2, 1, 2], 0, 1), "mask": t([1, 1, 1, 2], 0, 1),
                "eps": e, "alpha": 0.25, "beta": 0.75, "gen": "gen_tversky_c2w", "args": "xyw", "scal": [0.25, 0.75, e]})
    out.append({"kind": "ncc", "reduction": "none", "x": t(s22), "y": t(s22), "eps": e, "gen": "gen_ncc", "args": "xy", "scal": [e]})
    out.append({"kind": "ncc", "reduction": "mean", "x": t([2, 1, 1, 2]), "y": t([2, 1, 1, 2]), "eps": e, "gen": "gen_ncc_batch_mean",
                "args": "xy", "scal": [e]})
    out.append({"kind": "ncc", "reduction": "none", "x": t(s22), "y": t(s22), "mask": t(s22, 0, 1), "eps": e, "gen": "gen_ncc_mask",
                "args": "xyw", "scal": [e]})
    out.append({"kind": "ncc", "reduction": "sum", "x": t([2, 2, 1, 2]), "y": t([2, 2, 1, 2]), "mask": t([1, 1, 1, 2], 0, 1), "eps": e,
                "gen": "gen_ncc_mask_bcast", "args": "xyw", "scal": [e]})
    out.append({"kind": "lcc", "reduction": "none", "x": t(s14), "y": t(s14), "mask": None, "ks": [1, 3], "eps": e, "gen": "gen_lcc14",
                "args": "xy", "scal": [e]})
    out.append({"kind": "lcc", "reduction": "mean", "x": t(s14), "y": t(s14), "mask": t(s14, 0, 1), "ks": [1, 3], "eps": e,
                "gen": "gen_lcc14_mean_mask", "args": "xyw", "scal": [e]})
    out.append({"kind": "lcc", "reduction": "none", "x": t(s23), "y": t(s23), "mask": None, "ks": [3, 3], "eps": e, "gen": "gen_lcc23",
                "args": "xy", "scal": [e]})
    out.append({"kind": "wlcc", "reduction": "mean", "x": t(s14), "y": t(s14), "mask": t(s14, 0, 1), "smask": None, "tmask": None,
                "ks": [1, 3], "eps": e, "gen": "gen_wlcc14_mask", "args": "xyw", "scal": [e]})
    out.append({"kind": "wlcc", "reduction": "mean", "x": t(s14), "y": t(s14), "mask": None, "smask": t(s14, 0, 1), "tmask": t(s14, 0, 1),
                "ks": [1, 3], "eps": e, "gen": "gen_wlcc14_st", "args": "xyuv", "scal": [e]})
    out.append({"kind": "wlcc", "reduction": "none", "x": t(s14), "y": t(s14), "mask": t(s14, 0, 1), "smask": t(s14, 0, 1),
                "tmask": t(s14, 0, 1), "ks": [1, 3], "eps": e, "gen": "gen_wlcc14_all", "args": "xywuv", "scal": [e]})
    out.append({"kind": "wlcc", "reduction": "none", "x": t(s14), "y": t(s14), "mask": None, "smask": t(s14, 0, 1), "tmask": None,
                "ks": [1, 3], "eps": e, "gen": "gen_wlcc14_s", "args": "xyu", "scal": [e]})
    return out


def model_term(c):
    k = c["kind"]
    r = RED[c["reduction"]]
    x, y = coq_img(c["x"]), coq_img(c["y"])
    sh = coq_nats(c["x"]["shape"][2:])
    if "gen" in c:
        arg = {"x": c["x"], "y": c["y"], "w": c.get("mask"), "u": c.get("smask"), "v": c.get("tmask")}
        lists = " ".join(coq_list([qc(v) for v in arg[a]["data"]]) for a in c["args"])
        sc = " ".join(qc(v) for v in c.get("scal", []))
        fa = " Qcabs'" if c.get("abs") else ""
        return f"Some ({c['gen']} (K:=QcF){fa} {sc} {lists})"
    if k == "pw":
        f = {"ssd": "sqd", "mse": "sqd", "mae": "(absd Qcabs')", "l1": "(absd Qcabs')",
             "huber": f"(huber Qcabs' Qcleb' {qc(c['param'])})", "smooth_l1": f"(smooth_l1 Qcabs' Qcleb' {qc(c['param'])})"}[c["fn"]]
        norm = "None" if c.get("norm") is None else f"(Some {qc(c['norm'])})"
        return f"b_elementwise (K:=QcF) Qcleb' {f} {r} {x} {y} {sh} {coq_mask(c.get('mask'))} {norm}"
    if k == "ncc":
        return f"b_ncc (K:=QcF) {r} {qc(c['eps'])} {x} {y} {sh} {coq_mask(c.get('mask'))}"
    if k == "lcc":
        return f"b_lcc (K:=QcF) {r} {sh} {coq_nats(c['ks'])} {qc(c['eps'])} {x} {y} {coq_mask(c.get('mask'))}"
    if k == "wlcc":
        return (f"b_wlcc (K:=QcF) {r} {sh} {coq_nats(c['ks'])} {qc(c['eps'])} {x} {y} {coq_mask(c.get('mask'))} "
                f"{coq_mask(c.get('smask'))} {coq_mask(c.get('tmask'))}")
    if k == "dice":
        ds = f"dice_score (K:=QcF) {qc(c['eps'])}"
        sc = f"({ds})" if not c.get("loss") else f"(fun p t w => @fsub QcF (@f1 QcF) ({ds} p t w))"
        return f"b_overlap (K:=QcF) {sc} {r} {x} {y} {coq_mask(c.get('mask'))}"
    if k == "tversky":
        abe = f"{qc(c['alpha'])} {qc(c['beta'])} {qc(c['eps'])}"
        if c.get("loss"):
            if c.get("gamma") == 0.5:
                return "(@None (list Qc))"        # gamma < 1 is rejected
            sc = f"(tversky_loss (K:=QcF) {int(c.get('gamma') or 0)} {abe})"
        else:
            sc = f"(tversky_index (K:=QcF) {abe})"
        return f"b_overlap (K:=QcF) {sc} {r} {x} {y} {coq_mask(c.get('mask'))}"
    raise KeyError(k)


HEADER = """From Coq Require Import ZArith QArith Qcanon List String.
From DV Require Import Base.Field Base.LinAlg Base.QcInst Model.Losses Model.LossesR Gen.Losses.
Import ListNotations.
Definition ovclose (tol : Q) (a b : option (list Qc)) : bool :=
  match a, b with Some u, Some v => vclose tol u v | None, None => true | _, _ => false end.
Definition t64 : Q := 1 # 1000000000.
Definition t32 : Q := 1 # 20000.
"""


def f32_path(c):
    return c["kind"] in ("ncc", "lcc", "wlcc", "dice", "tversky")


def run_shard(ctx, cases, res, name):
    lines = [HEADER]
    names = []
    failures = []
    for i, (c, r) in enumerate(zip(cases, res)):
        if "error" in r:
            impl = "None"
            if r["error"] not in ("ValueError", "RuntimeError", "IndexError"):
                failures.append({"why": f"implementation raised {r['error']} (not a shape/argument rejection)", "impl": r, "case": brief(c)})
                continue
        else:
            if any(v != v or v in (float("inf"), float("-inf")) for v in r["val"]):
                has_mask = any(c.get(k) is not None for k in ("mask", "smask", "tmask"))
                if c["reduction"] == "mean" and has_mask:
                    _n = "correspondence: cases whose (product) mask sums to zero give 0/0 in 'mean' and are skipped (outside the model's guard)"
                    _n in ctx.notes or ctx.notes.append(_n)
                    continue
                failures.append({"why": "implementation returns a non-finite value", "impl": r, "case": brief(c)})
                continue
            impl = "(Some " + coq_list([qc(v) for v in r["val"]]) + ")"
        tol = "t32" if f32_path(c) else "t64"
        lines.append(f"Definition c{i} : bool := ovclose {tol} ({model_term(c)}) {impl}.")
        names.append(i)
    lines.append("Definition results : list bool := " + coq_list([f"c{i}" for i in names]) + ".")
    lines.append('Eval vm_compute in ("FAIL"%string, failing results).')
    rc, out = vlib.coqc_text("\n".join(lines) + "\n", ctx.scratch, name, timeout=900)
    bad = vlib.parse_nat_list(out, "FAIL")
    if rc != 0 or bad is None:
        failures.append({"why": "case file did not evaluate (model or generated definitions missing or ill-typed)", "coq": out[-800:]})
    else:
        for j in bad:
            i = names[j]
            r = res[i]
            why = ("implementation raises where the model returns a value" if "error" in r else
                   "model value differs from implementation (or the model rejects an input the implementation accepts)")
            failures.append({"why": why, "impl": r if "error" in r else {"val": r["val"][:8]}, "case": brief(cases[i])})
    return failures


def brief(c):
    d = {k: v for k, v in c.items() if k not in ("x", "y", "mask", "smask", "tmask")}
    d["shape"] = c["x"]["shape"]
    for k in ("mask", "smask", "tmask"):
        if c.get(k) is not None:
            d[k + "_shape"] = c[k]["shape"]
    d["full"] = {k: c.get(k) for k in ("x", "y", "mask", "smask", "tmask")}
    return d


def raises_table():
    src = open(os.path.join(vlib.COQ, "Gen", "Losses.v")).read()
    m = re.search(r"gen_loss_raises[^\[]*\[(.*?)\]\.", src, flags=re.S)
    return dict(re.findall(r'\("([^"]+)"%string, "([^"]+)"%string\)', m.group(1))) if m else None


def correspondence(ctx):
    n = ctx.n(160, 1600)
    cases = make_cases(ctx, n) + gen_cases(ctx)
    res = vlib.run_impl("c16_impl", {"fn": "model_cases", "cases": cases})
    failures = []
    shard = 300
    for s in range(0, len(cases), shard):
        failures += run_shard(ctx, cases[s:s + shard], res[s:s + shard], f"cases_c16_{s // shard}")
    # the translator's record of calls the source cannot execute must be what the real code does
    tab = raises_table()
    real = vlib.run_impl("c16_impl", {"fn": "raises_table"})
    if tab is None or tab != real:
        failures.append({"why": "symbolic execution and the real code disagree on which calls raise", "translator": tab, "impl": real})
    dist = {}
    for c, r in zip(cases, res):
        tag = ("gen:" if "gen" in c else "") + c["kind"] + (":" + c["fn"] if c["kind"] == "pw" else "") + f":D{len(c['x']['shape']) - 2}:{c['reduction']}"
        tag += ":mask" + "x".join(str(v) for v in c["mask"]["shape"][:2]) if c.get("mask") else ""
        tag += ":malformed" if c.get("malformed") else ""
        tag += ":impl-" + r["error"] if "error" in r else ""
        dist[tag] = dist.get(tag, 0) + 1
    nontrivial = {str((c["x"]["data"], c["y"]["data"], c["kind"], c.get("fn"), c["reduction"], str(c.get("mask"))))
                  for c in cases if c["x"]["data"] != c["y"]["data"]}
    samples = [{"case": brief(cases[i]), "impl": res[i]} for i in (0, 2, 3, len(cases) - 1)]
    for s in samples:
        s["case"].pop("full", None)
    return {"evaluations": len(cases), "distinct_nontrivial": len(nontrivial),
            "rule": "seeded dyadic images, D in {2,3}, N,C in {1,2}, spatial sizes 1..4, every loss x reduction x mask form "
                    "(1|N, 1|C) incl. rejected mask shapes and even windows; non-trivial = source differs from target; distinct by full input",
            "samples": samples, "failures": failures, "distribution": dist,
            "tolerances": {"float64 paths (ssd, mse, mae, l1, huber, smooth_l1)": "1e-9 absolute",
                           "float32 paths (.float(): ncc, lcc, wlcc, dice, tversky)": "5e-5 absolute on values of magnitude <= ~100"}}


def search(ctx, broken, corr_failures):
    n = ctx.n(48, 400)
    r = vlib.run_impl("c16_impl", {"fn": "oracle", "seed": ctx.seed, "n": n})
    ctx.notes.append(f"implementation-side property evaluation (checks per group): {r['counts']}; failing checks {r['total_fails']}")
    ctx.notes.append("MI/NMI: only symmetry is a theorem; symmetry, identical-is-minimal, NMI in [0,2], mask acceptance are evaluated numerically")
    out = []
    for f in r["fails"]:
        out.append(Violation(key=f["key"], what=f["what"], replay={"oracle": "c16", "seed": ctx.seed, "n": n, "failure": f}))
    return out


def explains(broken_item, found):
    """A NEW concrete failing input (never a recorded finding) explains a broken obligation when it is about the same
    loss function; obligations that name no specific loss are explained by any new concrete violation."""
    known, _ = vlib.load_findings()
    fresh = [v.key.lower() for v in found if v.key not in known]
    if not fresh:
        return False
    b = broken_item.lower()
    if b.startswith("translator unit") or "case file did not evaluate" in b or "disagree on which" in b \
            or "was not found in the current environment" in b:
        return True     # names no specific function: any new concrete violation explains it
    table = [(("tversky",), ("tversky",)), (("dice",), ("dice", "tversky")), (("ncc",), ("ncc",)), (("wlcc",), ("wlcc",)),
             (("lcc",), ("lcc",)), (("mi_", "nmi", "hist", "p_joint"), ("mi_loss", "nmi")),
             (("ssd", "mse", "mae", "l1", "huber", "smooth_l1", "pointwise", "bcast"), ("ssd", "mse", "mae", "l1", "huber", "smooth"))]
    for bs, ks in table:
        if any(x in b for x in bs):
            return any(k_ in key for k_ in ks for key in fresh)
    return True


def replay(ctx, data):
    f = data.get("failure") or {}
    r = vlib.run_impl("c16_impl", {"fn": "oracle", "seed": data.get("seed", ctx.seed), "n": data.get("n", 48)})
    for g in r["fails"]:
        if g["key"] == f.get("key"):
            return g["what"]
    return None


MANIFEST_ENTRY = {
    "text": "Theorems (Coq; over every field unless order is needed, then over R) about a list model of losses/functional.py, a list "
            "of any length being a flattened image of any shape: pointwise losses (ssd/mse/mae/l1/huber/smooth-l1) vanish on identical "
            "inputs, are symmetric, non-negative, ignore samples where the mask is zero, 'mean' with a binary mask is the mean over the "
            "selected samples, 'sum'/'mean' are the sum/mean of 'none', norm=c^2 equals pre-scaling the images by 1/c, masks (1|N,1|C,X) "
            "broadcast; NCC: value on identical inputs, range [0,1] by Cauchy-Schwarz (induction), symmetry, exact behaviour under "
            "a*x+b (epsilon scales by a^2; invariant for epsilon=0); LCC/WLCC for an arbitrary window system: range, symmetry, identical "
            "inputs, mask weighting, a*x+b; Dice/Tversky: Dice=1 on identical inputs, symmetry (alpha<->beta), "
            "Tversky(1/2,1/2,eps)=Dice(2eps) and Tversky=1 on identical binary inputs, Dice in [0,1]; MI/NMI: transposed joint "
            "histogram, symmetric. Tie: Gen/Losses.v is traced from the source on short symbolic images and proved equal to the list "
            "model (C16_gen_*), and the list model is run (vm_compute, Qc) against the implementation for D in {2,3}, batches, channels, "
            "all mask forms, window sizes.",
    "note": "Partial: MI/NMI values and ranges, huber/smooth-l1 kernels (torch primitives, modelled), module wrappers and the with_logits/"
            "binarize/one-hot input conversions are covered by implementation-side evaluation only. Trusted: Coq kernel, vm_compute, tools/symtorch.py, float32 rounding outside the model.",
}
