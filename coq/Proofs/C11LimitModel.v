(* Convergence of the closed form of the model for diagonal generators (pure per-axis scaling velocity fields): every
   diagonal entry of (I + diag(h)/2^k)^(2^k) tends to exp(h_a). *)
From Coq Require Import Reals Lra Lia List.
From Coquelicot Require Import Coquelicot.
From DV Require Import Base.Field Base.LinAlg Base.RInst Base.Tactics Model.Sampler Model.Flow Proofs.C11Compose Proofs.C11Compose3
  Proofs.C11Limit.
Import ListNotations.
Local Open Scope R_scope.

Lemma hpow1_diag (a : R) m : hpow (K:=RF) 1 (H1 (K:=RF) a 0) m = H1 (K:=RF) (a ^ m) 0.
Proof.
  induction m as [|m IH]; cbn [hpow].
  - unfold hid, H1. cbn. reflexivity.
  - rewrite IH. rewrite (hcomp1_H1 RF RF_field). unfold H1. list_eq; cbn; ring.
Qed.
Lemma hpow2_diag (a b : R) m :
  hpow (K:=RF) 2 (H2 (K:=RF) a 0 0 0 b 0) m = H2 (K:=RF) (a ^ m) 0 0 0 (b ^ m) 0.
Proof.
  induction m as [|m IH]; cbn [hpow].
  - unfold hid, H2. cbn. reflexivity.
  - rewrite IH. rewrite (hcomp2_H2 RF RF_field). unfold H2. list_eq; cbn; ring.
Qed.
Lemma hpow3_diag (a b c : R) m :
  hpow (K:=RF) 3 (H3 (K:=RF) a 0 0 0 0 b 0 0 0 0 c 0) m = H3 (K:=RF) (a ^ m) 0 0 0 0 (b ^ m) 0 0 0 0 (c ^ m) 0.
Proof.
  induction m as [|m IH]; cbn [hpow].
  - unfold hid, H3. cbn. reflexivity.
  - rewrite IH. rewrite (hcomp3_H3 RF RF_field). unfold H3. list_eq; cbn; ring.
Qed.

(* entry (i, j) of a homogeneous matrix *)
Definition hentry (A : list (list R)) (i j : nat) : R := nth j (nth i A []) 0.

Theorem closed_form_converges_diag2 (hx hy : R) :
  let A := fun k : nat => hpow (K:=RF) 2 (H2 (K:=RF) (1 + hx / 2 ^ k) 0 0 0 (1 + hy / 2 ^ k) 0) (2 ^ k) in
  is_lim_seq (fun k => hentry (A k) 0 0) (exp hx) /\ is_lim_seq (fun k => hentry (A k) 1 1) (exp hy) /\
  (forall k, hentry (A k) 0 1 = 0 /\ hentry (A k) 1 0 = 0 /\ hentry (A k) 0 2 = 0 /\ hentry (A k) 1 2 = 0).
Proof.
  intro A. split; [|split].
  - apply is_lim_seq_ext with (fun k => (1 + hx / 2 ^ k) ^ (2 ^ k)); [|apply scalar_scaling_and_squaring_converges].
    intro k. unfold A. rewrite hpow2_diag. reflexivity.
  - apply is_lim_seq_ext with (fun k => (1 + hy / 2 ^ k) ^ (2 ^ k)); [|apply scalar_scaling_and_squaring_converges].
    intro k. unfold A. rewrite hpow2_diag. reflexivity.
  - intro k. unfold A. rewrite hpow2_diag. repeat split; reflexivity.
Qed.
Theorem closed_form_converges_diag3 (hx hy hz : R) :
  let A := fun k : nat => hpow (K:=RF) 3 (H3 (K:=RF) (1 + hx / 2 ^ k) 0 0 0 0 (1 + hy / 2 ^ k) 0 0 0 0 (1 + hz / 2 ^ k) 0) (2 ^ k) in
  is_lim_seq (fun k => hentry (A k) 0 0) (exp hx) /\ is_lim_seq (fun k => hentry (A k) 1 1) (exp hy) /\
  is_lim_seq (fun k => hentry (A k) 2 2) (exp hz).
Proof.
  intro A. split; [|split].
  - apply is_lim_seq_ext with (fun k => (1 + hx / 2 ^ k) ^ (2 ^ k)); [|apply scalar_scaling_and_squaring_converges].
    intro k. unfold A. rewrite hpow3_diag. reflexivity.
  - apply is_lim_seq_ext with (fun k => (1 + hy / 2 ^ k) ^ (2 ^ k)); [|apply scalar_scaling_and_squaring_converges].
    intro k. unfold A. rewrite hpow3_diag. reflexivity.
  - apply is_lim_seq_ext with (fun k => (1 + hz / 2 ^ k) ^ (2 ^ k)); [|apply scalar_scaling_and_squaring_converges].
    intro k. unfold A. rewrite hpow3_diag. reflexivity.
Qed.
(* the matrices above are the model's I + c G for the diagonal generator G = diag(h), c = 1 / 2^k *)
Lemma hone_plus_diag2 (c hx hy : R) :
  hone_plus (K:=RF) 2 c (H2 (K:=RF) hx 0 0 0 hy 0) = H2 (K:=RF) (1 + c * hx) 0 0 0 (1 + c * hy) 0.
Proof. unfold hone_plus, hid, H2. cbn. list_eq; cbn; ring. Qed.
