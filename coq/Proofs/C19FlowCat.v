(* C19 -- FlowFields: torch.cat along the batch dimension and the split family along the batch dimension. *)
From Coq Require Import List ZArith Bool Arith Lia.
From DV Require Import Model.Enums Model.Batch Model.BatchSpec Proofs.C19Base Proofs.C19Generic Proofs.C19Cat Proofs.C19GetItem
  Proofs.C19Split Proofs.C19Flow.
Import ListNotations.
Local Arguments ndim : simpl never.

Section FlowCat.
Variable gshape : gid -> shape.
Variable gaxes : gid -> axes.

Definition all_flow_batches (ax : axes) (args : list tval) : Prop :=
  Forall (fun a => exists gs, t_kind a = TBatch (Some ax) gs /\ wf_val gshape a) args.

Lemma flow_batches_kinds ax args :
  all_flow_batches ax args ->
  flat_map (fun k => match k with TBatch _ gs => [gs] | TSingle _ g => [[g]] | TPlain => [] end) (map t_kind args)
  = map grids_of args
  /\ flat_map (fun k => match kind_axes k with Some a => [a] | None => [] end) (map t_kind args) = repeat ax (length args).
Proof.
  induction 1 as [|a l (gs & Hk & _) _ (IH1 & IH2)]; [auto|]. cbn [map flat_map length repeat]. rewrite IH1, IH2.
  unfold grids_of. rewrite Hk. cbn. auto.
Qed.

Lemma choose_disp_flow_batches ax a args :
  all_flow_batches ax (a :: args) -> choose_disp (map t_kind (a :: args)) = DFlowFields.
Proof.
  intros H. unfold choose_disp. cbn [map fold_left].
  inversion H as [|? ? (gs & Hk & _) Hr]; subst. rewrite Hk. cbn.
  assert (Hgen : forall l, all_flow_batches ax l ->
            fold_left (fun acc k => let d := disp_of k in
               match d with DNoDisp => acc | _ => if existsb (disp_eqb d) acc then acc else insert_disp d acc end)
               (map t_kind l) [DFlowFields] = [DFlowFields]).
  { induction 1 as [|b l (gs' & Hk' & _) _ IH]; [reflexivity|]. cbn [map fold_left]. rewrite Hk'. cbn. exact IH. }
  now rewrite Hgen.
Qed.

Lemma forallb_repeat_axes ax n : forallb (axes_eqb ax) (repeat ax n) = true.
Proof. induction n; cbn; [reflexivity|]. rewrite IHn. destruct ax; reflexivity. Qed.

Theorem cat_flow_dim0_sound ax d a args :
  cat_dim0 d -> all_flow_batches ax (a :: args) ->
  res_sound gshape (a :: args) (run_op gshape gaxes (OCat d) (a :: args)).
Proof.
  intros Hd Hall. set (l := a :: args) in *.
  assert (Hrun : run_op gshape gaxes (OCat d) l = dispatch_batch gshape true (OCat d) l).
  { unfold run_op. subst l. now rewrite (choose_disp_flow_batches ax). }
  rewrite Hrun. unfold dispatch_batch.
  destruct (flow_batches_kinds ax l Hall) as (Hgr & Hax).
  destruct (data_sem (OCat d) (map t_shape l)) as [e|dd|ds] eqn:ED; [exact I| |].
  2:{ exfalso. cbn in ED. repeat match type of ED with context [match ?c with _ => _ end] => destruct c end; discriminate ED. }
  assert (Htax : tf_axes (map t_kind l) = Some (Some ax)).
  { unfold tf_axes. rewrite Hax. subst l. cbn [length repeat]. now rewrite forallb_repeat_axes. }
  rewrite Htax.
  assert (Hkw : kw_of (OCat d) = 0%Z) by (destruct Hd as [->|[->| ->]]; reflexivity).
  assert (Hdv : dim_value d = 0%Z) by (destruct Hd as [->|[->| ->]]; reflexivity).
  unfold tf_grid_batch. rewrite Hkw, Hgr. cbn [Z.eqb Z.ltb Z.compare].
  destruct (map grids_of l) as [|g0 gr] eqn:EG; [subst l; discriminate EG|].
  rewrite <- EG. cbn [flat_of].
  unfold one_kind.
  destruct (res_flow gshape (d_shape dd) (Some (concat (map grids_of l))) (Some ax)) as [e|k] eqn:ER; [exact I|].
  destruct k as [|fl gs'|fl g]; unfold res_sound, out_sound; cbn [v_kind v_src v_shape]; auto.
  2:{ exfalso. eapply res_flow_not_single; eauto. }
  apply res_flow_typed in ER. destruct ER as (Hfl & -> & HN & H4 & HF & _).
  split; [unfold wf_val, val_of; cbn [t_kind t_shape v_shape v_kind]; repeat split; auto|].
  intros i Hi.
  set (N := fun j => nent (nth_shape (map t_shape l) j)).
  assert (Hsrc : d_src dd = concat (map (fun j => ident_src j (N j)) (seq 0 (length l)))).
  { cbn -[nth_shape] in ED. rewrite Hdv in ED.
    match type of ED with context [norm_dim ?n ?z] => destruct (norm_dim n z) as [nd|] eqn:En; [|discriminate ED] end.
    assert (nd = 0).
    { unfold norm_dim in En. cbn [Z.leb] in En.
      match type of En with context [(0 <? ?x)%Z] => destruct (0 <? x)%Z end; cbn in En; [now inversion En|].
      rewrite ?andb_false_r in En. discriminate En. }
    subst nd.
    match type of ED with context [if ?c then _ else _] => destruct c; [|discriminate ED] end.
    injection ED as <-. cbn [d_src Nat.eqb]. subst N l. cbn [length map]. now rewrite map_length. }
  rewrite Hsrc.
  set (G := fun j => grids_of (nth j l (mkT [] TPlain))).
  assert (HGN : forall j, length (G j) = N j).
  { intros j. unfold G, N, nth_shape. destruct (Nat.lt_ge_cases j (length l)) as [Hj|Hj].
    - unfold all_flow_batches in Hall. rewrite Forall_forall in Hall. destruct (Hall (nth j l (mkT [] TPlain)) (nth_In _ _ Hj)) as (gs & Hk & Hwf).
      unfold grids_of. rewrite Hk. unfold wf_val in Hwf. rewrite Hk in Hwf. destruct Hwf as (HL & _).
      rewrite HL. f_equal. change [] with (t_shape (mkT [] TPlain)). now rewrite map_nth.
    - rewrite nth_overflow by exact Hj. rewrite nth_overflow by (rewrite map_length; exact Hj). reflexivity. }
  assert (Hmap : map grids_of l = map G (seq 0 (length l))) by (apply map_nth_seq).
  rewrite Hmap in Hi |- *.
  destruct (concat_blocks N G (length l) HGN 0 i Hi) as (j & e & Hj & Hs & Hg).
  rewrite Hs.
  assert (Hkj : exists gsj, t_kind (nth j l (mkT [] TPlain)) = TBatch (Some ax) gsj).
  { unfold all_flow_batches in Hall. rewrite Forall_forall in Hall.
    assert (Hjl : j < length l) by lia.
    destruct (Hall (nth j l (mkT [] TPlain)) (nth_In _ _ Hjl)) as (gs & Hk & _). eauto. }
  destruct Hkj as (gsj & Hkj).
  split; [apply coherent_single|]. split.
  - exists (j, e). split; [left; reflexivity|]. unfold entry_grid. cbn [fst snd].
    rewrite nth_error_nth' with (d := mkT [] TPlain) by lia. rewrite Hkj.
    unfold G, grids_of in Hg. rewrite Hkj in Hg. exact Hg.
  - intros ax' Hax'. exists (j, e). split; [left; reflexivity|]. unfold arg_axes. cbn [fst].
    rewrite nth_error_nth' with (d := mkT [] TPlain) by lia. rewrite Hkj. cbn.
    destruct Hfl as [-> | ->]; [discriminate Hax'|exact Hax'].
Qed.

(* split / split_with_sizes / tensor_split of a batch of flow fields along the batch dimension *)
Theorem split_flow_batch_dim_sound o s ax gs :
  split_dim0 o -> wf_val gshape (mkT s (TBatch (Some ax) gs)) ->
  res_sound gshape [mkT s (TBatch (Some ax) gs)] (run_op gshape gaxes o [mkT s (TBatch (Some ax) gs)]).
Proof.
  intros Hd Hwf.
  assert (Haxax : axes_eqb ax ax = true) by (destruct ax; reflexivity).
  unfold wf_val in Hwf; cbn [t_kind t_shape] in Hwf. destruct Hwf as (HL & H4 & HF).
  destruct s as [|n s']; [unfold ndim in H4; cbn in H4; lia|]. cbn [nent] in HL.
  assert (Hn : norm_dim (ndim (n :: s')) 0 = Some 0).
  { unfold norm_dim, ndim. cbn [length]. destruct ((0 <=? 0)%Z && (0 <? Z.of_nat (S (length s')))%Z) eqn:E; [reflexivity|].
    apply andb_false_iff in E. destruct E as [E|E]; [discriminate|]. apply Z.ltb_ge in E. lia. }
  assert (Hrun : run_op gshape gaxes o [mkT (n :: s') (TBatch (Some ax) gs)] =
                 match split_offs o n with
                 | None => OErr ERuntime
                 | Some offs =>
                     let ds := pieces (n :: s') 0 offs in
                     let gss := match slice_grids gs offs with [] => repeat [] (length ds) | x => x end in
                     tuple_of (map (fun dg => (fst dg, res_flow gshape (d_shape (fst dg)) (Some (snd dg)) (Some ax))) (combine ds gss))
                 end).
  { destruct o; cbn [split_dim0] in Hd; try contradiction; unfold run_op;
      cbn [nth t_shape t_kind map choose_disp fold_left disp_of existsb insert_disp hd];
      unfold dispatch_batch; cbn [map t_kind t_shape flat_map app hd kw_of];
      unfold tf_grid_batch; cbn [flat_map app]; rewrite Hd; cbn [Z.ltb Z.eqb Z.compare];
      unfold split_offs; cbn [data_sem nth_shape nth]; rewrite Hd, Hn; cbn [nth]; rewrite ?bounds_grids_slices; unfold gid in *; rewrite ?HL;
      cbv [is_split_class class_of tf_axes kind_axes]; cbn [flat_map app forallb];
      repeat match goal with |- context [if ?c then _ else _] => destruct c end; try reflexivity;
      match goal with |- context [match slice_grids ?a ?b with _ => _ end] => destruct (slice_grids a b) end; reflexivity. }
  rewrite Hrun. destruct (split_offs o n) as [offs|] eqn:Eo; [|exact I]. cbv zeta.
  set (ds := pieces (n :: s') 0 offs).
  assert (Hgss : match slice_grids gs offs with [] => repeat [] (length ds) | x => x end = slice_grids gs offs).
  { subst ds. destruct offs; reflexivity. }
  rewrite Hgss.
  unfold tuple_of. destruct (collect _) as [e|os] eqn:EC; [exact I|].
  cbn [res_sound]. apply Forall_forall. intros ov Hov.
  destruct (collect_in _ _ _ EC Hov) as (d & k & Hin & ->).
  apply in_map_iff in Hin. destruct Hin as ([d' g] & Heq & Hin). cbn [fst snd] in Heq. injection Heq as <- Hk.
  unfold ds, pieces, slice_grids in Hin. rewrite combine_map2 in Hin. apply in_map_iff in Hin.
  destruct Hin as ([off size] & Heq & Hoff). injection Heq as <- <-. cbn [fst snd] in *.
  pose proof (split_offs_bound o n offs (off, size) Eo Hoff) as Hb. cbn [fst snd] in Hb.
  change (res_flow gshape (set_nth (n :: s') 0 size) (Some (py_slice gs off (off + size))) (Some ax) = KOk k) in Hk.
  unfold out_sound; cbn [v_kind v_shape v_src d_shape d_src Nat.eqb].
  destruct k as [|fl gs'|fl g]; [exact I| |exfalso; exact (res_flow_not_single gshape _ _ _ _ _ Hk)].
  apply res_flow_typed in Hk. destruct Hk as (Hfl & -> & HN & H4' & HF' & _).
  assert (Hlen : length (py_slice gs off (off + size)) = size).
  { unfold py_slice. rewrite firstn_length, skipn_length. lia. }
  split; [unfold wf_val, val_of; cbn [t_kind t_shape v_shape v_kind]; repeat split; auto|].
  intros i Hi. rewrite Hlen in Hi. rewrite nth_map_seq by exact Hi. cbn [Nat.add].
  split; [apply coherent_single|]. split.
  - exists (0, off + i). split; [left; reflexivity|]. unfold entry_grid; cbn.
    unfold py_slice. rewrite nth_firstn_lt by lia. rewrite nth_skipn_add. apply nth_error_nth'. lia.
  - intros ax' Hax'. exists (0, off + i). split; [left; reflexivity|]. unfold arg_axes; cbn.
    destruct Hfl as [-> | ->]; [discriminate Hax'|exact Hax'].
Qed.
End FlowCat.
