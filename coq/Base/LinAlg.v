(* Vectors = lists, matrices = lists of rows. Definitions only (no proofs), so the model keeps
   running when a proof breaks. *)
From Coq Require Import ZArith List.
From DV Require Import Base.Field.
Import ListNotations.
Local Open Scope fld_scope.

Section LinAlg.
Context {K : fld}.
Notation vec := (list K).
Notation mat := (list (list K)).

Fixpoint vmap2 (f : K -> K -> K) (a b : vec) : vec :=
  match a, b with
  | x :: a', y :: b' => f x y :: vmap2 f a' b'
  | _, _ => []
  end.
Definition vadd := vmap2 fadd.
Definition vsub := vmap2 fsub.
Definition vmul := vmap2 fmul.
Definition vdiv := vmap2 fdiv.
Definition vopp (a : vec) : vec := map fopp a.
Definition vscale (s : K) (a : vec) : vec := map (fmul s) a.
Definition vconst (n : nat) (x : K) : vec := repeat x n.
Definition vzero (n : nat) : vec := vconst n 0.
Fixpoint vsum (a : vec) : K := match a with [] => 0 | x :: r => x + vsum r end.
Definition dot (a b : vec) : K := vsum (vmul a b).

Definition mv (M : mat) (v : vec) : vec := map (fun r => dot r v) M.
Definition col (j : nat) (M : mat) : vec := map (fun r => nth j r 0) M.
Definition mT (ncols : nat) (M : mat) : mat := map (fun j => col j M) (seq 0 ncols).
Definition mm (ncolsB : nat) (A B : mat) : mat :=
  map (fun r => map (fun j => dot r (col j B)) (seq 0 ncolsB)) A.
Definition madd (A B : mat) : mat := map (fun p => vadd (fst p) (snd p)) (combine A B).
Definition mscale (s : K) (A : mat) : mat := map (vscale s) A.
Definition eye (n : nat) : mat :=
  map (fun i => map (fun j => if Nat.eqb i j then 1 else 0) (seq 0 n)) (seq 0 n).
Definition diag (v : vec) : mat :=
  map (fun i => map (fun j => if Nat.eqb i j then nth i v 0 else 0) (seq 0 (length v)))
      (seq 0 (length v)).

(* homogeneous D x (D+1) matrices: rows [a_1 .. a_D t] *)
Definition hlin (D : nat) (H : mat) : mat := map (firstn D) H.
Definition htr (D : nat) (H : mat) : vec := map (fun r => nth D r 0) H.
Definition hmake (A : mat) (t : vec) : mat :=
  map (fun p => fst p ++ [snd p]) (combine A t).
Definition happly (D : nat) (H : mat) (x : vec) : vec := vadd (mv (hlin D H) x) (htr D H).
Definition hvec (D : nat) (H : mat) (x : vec) : vec := mv (hlin D H) x.
Definition hcomp (D : nat) (A B : mat) : mat :=
  hmake (mm D (hlin D A) (hlin D B)) (vadd (mv (hlin D A) (htr D B)) (htr D A)).
Definition hid (D : nat) : mat := hmake (eye D) (vzero D).

(* determinants for D = 2, 3 *)
Definition det2 (M : mat) : K :=
  match M with
  | [[a; b]; [c; d]] => a * d - b * c
  | _ => 0
  end.
Definition det3 (M : mat) : K :=
  match M with
  | [[a; b; c]; [d; e; f]; [g; h; i]] =>
      a * (e * i - f * h) - b * (d * i - f * g) + c * (d * h - e * g)
  | _ => 0
  end.
End LinAlg.
