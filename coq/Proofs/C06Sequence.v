(* C06 (round 2): the generic branch of SequentialTransform.forward / MultiLevelTransform.forward for ANY member list,
   the grid flag (only the first member is told that the points are the undeformed lattice), and ImageTransformer with
   such a composite on same-domain target lattices of any size. *)
From Coq Require Import ZArith List Field Ring Lia Bool.
From DV Require Import Base.Field Base.FieldFacts Base.LinAlg Base.Tactics Model.Enums Model.Homog
  Model.Grid Model.Sampler Model.Transform Gen.Hmm Gen.GridT Gen.Transform
  Proofs.C01Grid Proofs.C01Laws Proofs.C01TwoA Proofs.C01TwoGrids Proofs.SamplerFacts
  Proofs.C06Views Proofs.C06Composite Proofs.C06Warp Proofs.C06Strided Proofs.C06Pullback.
Import ListNotations.
Local Open Scope fld_scope.

Section Sequence.
Variable K : fld.
Hypothesis Kf : is_field K.
Hypothesis Kc : char0 K.
Add Field KF_C06Seq : Kf.
Variable floorK : K -> Z.
Let K2 : (1 + 1 : K) <> 0 := two_nz K Kf Kc.
Let K1 : (1 : K) <> 0 := one_nz K Kc.
Hint Resolve K1 K2 : core.
Ltac side := repeat split; auto.
Ltac len2 X H := destruct X as [|?x0 [|?x1 [|? ?]]]; try discriminate H; clear H.

(* after the first member the flag is false whatever the composite was given *)
Lemma seq_loop_later (ms : list (fmember (K:=K))) : forall (i : nat) (grid : bool) (y : list K),
  seq_loop (S i) ms grid y = fold_left (fun y m => m false y) ms y.
Proof.
  induction ms as [|m r IH]; intros i grid y; [reflexivity|].
  cbn [seq_loop fold_left]. rewrite IH. cbn [Nat.eqb]. rewrite andb_false_r. reflexivity.
Qed.

(* ANY member list: the first member receives the flag, every later member is applied as a point map, in listed order *)
Theorem seq_forward_any (m : fmember (K:=K)) (r : list fmember) (grid : bool) (x : list K) :
  seq_forward (m :: r) grid x = fold_left (fun y m' => m' false y) r (m grid x).
Proof. unfold seq_forward. cbn [seq_loop]. rewrite seq_loop_later. cbn [Nat.eqb]. rewrite andb_true_r. reflexivity. Qed.

Theorem seq_forward_is_composition (ms : list (fmember (K:=K))) (x : list K) :
  seq_forward ms false x = seq_point_map ms x.
Proof. destruct ms as [|m r]; [reflexivity|]. rewrite seq_forward_any. reflexivity. Qed.

(* if the first member computes the same image for the lattice point either way (linear members always; dense-field
   members on lattices of their domain, below), the grid = true path is the composition of the point maps *)
Theorem seq_forward_grid_flag (m : fmember (K:=K)) (r : list fmember) (x : list K) :
  m true x = m false x -> seq_forward (m :: r) true x = seq_point_map (m :: r) x.
Proof. intro H. rewrite seq_forward_any, H. reflexivity. Qed.

Lemma loop_flags_spec (n : nat) (grid : bool) :
  loop_flags (S n) grid = grid :: repeat false n.
Proof.
  unfold loop_flags. cbn [seq map Nat.eqb]. rewrite andb_true_r. f_equal.
  rewrite <- seq_shift, map_map. induction n as [|k IH]; [reflexivity|].
  rewrite seq_S, map_app, IH. cbn [map Nat.eqb]. rewrite andb_false_r.
  clear IH. induction k as [|k IH]; [reflexivity|]. cbn [repeat app]. f_equal. exact IH.
Qed.

(* multi-level, generic branch, ANY member list: x + sum of displacements, member 0 seeing the flag *)
Lemma ml_flag_map (ms : list (fmember (K:=K))) (x : list K) : forall k : nat,
  map (fun p : nat * fmember => snd p (false && Nat.eqb (fst p) 0) x) (combine (seq k (length ms)) ms)
  = map (fun m => m false x) ms.
Proof. induction ms as [|m r IH]; intro k; [reflexivity|]. cbn [length seq combine map fst snd andb]. f_equal. apply IH. Qed.

Theorem ml_forward_flag_false (ms : list (fmember (K:=K))) (x : list K) :
  Forall (fun m => length (m false x) = length x) ms ->
  ml_forward_flag ms false x = ml_point_map ms x.
Proof.
  intro H. unfold ml_forward_flag, ml_point_map. rewrite ml_flag_map. apply (multilevel_sum_generic K Kf).
  apply Forall_forall. intros y Hy. apply in_map_iff in Hy as (m & <- & Hin). rewrite Forall_forall in H. auto.
Qed.

(* what the traced composites hand to their members (Sequential and MultiLevel, 5 member-kind patterns, both flags) *)
Theorem composite_flags_traced :
  forallb (fun e => flags_ok (snd e)) gen_composite_flag_table = true /\
  (10 <= length gen_composite_flag_table)%nat.
Proof. split; [vm_compute; reflexivity | cbn; lia]. Qed.

(* dense-field paths: every resize / sampling kernel is reached as expected and is handed the transform grid's flag *)
Theorem dense_paths_traced :
  forallb (fun e => let '(_, ac, kernel_ok, flag) := e in
                    kernel_ok && match flag with Some b => Bool.eqb b ac | None => false end) gen_dense_path_table = true /\
  (24 <= length gen_dense_path_table)%nat.
Proof. split; [vm_compute; reflexivity | cbn; lia]. Qed.

(* ---------------------------------------------------------------- dense-field member on a lattice of its domain *)
Theorem ddf_member_grid_flag (ac : bool) (ux uy : list (list K)) (mx my : Z) (jx jy : nat) :
  size_ok K mx -> size_ok K my -> (Z.of_nat jx < mx)%Z -> (Z.of_nat jy < my)%Z ->
  ddf_member2 floorK ac ux uy mx my jx jy true (lattice2 K ac mx my jx jy)
  = ddf_member2 floorK ac ux uy mx my jx jy false (lattice2 K ac mx my jx jy).
Proof.
  intros Hx Hy Hjx Hjy. unfold ddf_member2. rewrite <- (disp_strided_is_point_map2 K Kf Kc floorK) by auto. reflexivity.
Qed.

(* ---------------------------------------------------------------- ImageTransformer with a sequence *)
(* target on the same cube frame as the transform grid (same domain, same flag; ANY size): pre-mapping is the identity and
   the target coordinates are the lattice coordinates *)
Lemma premap_same_frame (ac : bool) (tg g : gridf) (X : list K) :
  gwf 2 tg -> gwf 2 g -> length X = 2%nat ->
  (forall Y, length Y = 2%nat -> g_to_world 2 (cubeax ac) tg Y = g_to_world 2 (cubeax ac) g Y) ->
  gen_pts2 2 (cubeax ac) (cubeax ac) (gN 2 tg) (gS 2 tg) (gC 2 tg) (gD 2 tg) (gN 2 g) (gS 2 g) (gC 2 g) (gD 2 g) X = X.
Proof.
  intros Htg Hg HX Hfr. unfold gN, gS, gC, gD.
  rewrite (pts2_is_T2_map K Kf Kc 2 (or_introl eq_refl)) by auto. unfold T2_map.
  pose proof (Hfr X HX) as E. unfold g_to_world, gN, gS, gC, gD in E. rewrite E.
  apply (from_to_world K Kf Kc 2 (or_introl eq_refl)); auto.
Qed.

Lemma target_coord_is_lattice (ac : bool) (tg : gridf) (nx ny : Z) (jx jy : nat) :
  gwf 2 tg -> gN 2 tg = [of_Z nx; of_Z ny] ->
  target_coord 2 ac tg [of_Z (Z.of_nat jx); of_Z (Z.of_nat jy)] = lattice2 K ac nx ny jx jy.
Proof.
  intros Htg Hn. unfold target_coord, gN, gS, gC, gD in *.
  assert (NW : not_WW GRID (cubeax ac)) by (destruct ac; intros [E1 E2]; discriminate).
  rewrite (pts_is_T_map K Kf Kc 2 GRID (cubeax ac) _ _ _ _ [of_Z (Z.of_nat jx); of_Z (Z.of_nat jy)] (or_introl eq_refl) Htg NW (eq_refl 2%nat)).
  destruct Htg as (_ & Hnz & Hn1 & _).
  pose proof (Hnz 0%nat ltac:(lia)) as N0. pose proof (Hnz 1%nat ltac:(lia)) as N1.
  pose proof (Hn1 0%nat ltac:(lia)) as M0. pose proof (Hn1 1%nat ltac:(lia)) as M1.
  cbn [vtab map seq] in Hn. injection Hn as E0 E1. rewrite E0 in N0, M0. rewrite E1 in N1, M1.
  unfold T_map, lattice2, lattice_coord. cbn [vtab map seq]. rewrite E0, E1.
  destruct ac; fcbv; list_eq; field; side.
Qed.

(* ImageTransformer(composite, target, source): forward hands the pre-mapped target lattice to composite(points, grid=True).
   For a composite running the generic loop whose FIRST member is a dense field (buffer on any lattice of the domain) and a
   target lattice of the transform's domain of ANY size, the output is the image sampled at the composition of the member
   POINT maps, i.e. the pull-back by the sequence; later members never see the flag (seq_forward_any) *)
Theorem warp_sequence_same_domain (pad : padmode) (ac : bool) (ux uy : list (list K)) (r : list (fmember (K:=K)))
    (tg g src : gridf) (img : list (list K)) (nx ny : Z) (jx jy : nat) :
  gwf 2 tg -> gwf 2 g -> gN 2 tg = [of_Z nx; of_Z ny] ->
  (forall Y, length Y = 2%nat -> g_to_world 2 (cubeax ac) tg Y = g_to_world 2 (cubeax ac) g Y) ->
  size_ok K nx -> size_ok K ny -> (Z.of_nat jx < nx)%Z -> (Z.of_nat jy < ny)%Z ->
  let ms := ddf_member2 floorK ac ux uy nx ny jx jy :: r in
  let j := [of_Z (Z.of_nat jx); of_Z (Z.of_nat jy)] in
  warp_seq_out2 floorK pad ac ms true tg g src img j
  = match gen_pts2 2 (cubeax ac) (cubeax ac) (gN 2 g) (gS 2 g) (gC 2 g) (gD 2 g) (gN 2 src) (gS 2 src) (gC 2 src) (gD 2 src)
            (seq_point_map ms (lattice2 K ac nx ny jx jy)) with
    | [x; y] => grid_sample2 floorK pad ac img x y
    | _ => 0
    end.
Proof.
  intros Htg Hg Hn Hfr Hx Hy Hjx Hjy ms j. unfold warp_seq_out2. subst j.
  rewrite (target_coord_is_lattice ac tg nx ny jx jy Htg Hn).
  rewrite (premap_same_frame ac tg g (lattice2 K ac nx ny jx jy) Htg Hg eq_refl Hfr).
  subst ms. rewrite seq_forward_grid_flag by (apply ddf_member_grid_flag; auto). reflexivity.
Qed.

(* target that is NOT a lattice of the transform's domain: ImageTransformer passes grid = false (traced table below), and the
   output is the pull-back by the composition of point maps for ANY member list and ANY three grids *)
Theorem warp_sequence_any_target (pad : padmode) (ac : bool) (ms : list (fmember (K:=K))) (tg g src : gridf)
    (img : list (list K)) (j : list K) :
  warp_seq_out2 floorK pad ac ms false tg g src img j
  = match gen_pts2 2 (cubeax ac) (cubeax ac) (gN 2 g) (gS 2 g) (gC 2 g) (gD 2 g) (gN 2 src) (gS 2 src) (gC 2 src) (gD 2 src)
            (seq_point_map ms (gen_pts2 2 (cubeax ac) (cubeax ac) (gN 2 tg) (gS 2 tg) (gC 2 tg) (gD 2 tg) (gN 2 g) (gS 2 g) (gC 2 g) (gD 2 g)
                                 (target_coord 2 ac tg j))) with
    | [x; y] => grid_sample2 floorK pad ac img x y
    | _ => 0
    end.
Proof. unfold warp_seq_out2. rewrite seq_forward_is_composition. reflexivity. Qed.

(* the flag ImageTransformer.forward hands to the transform IS the answer of target.same_domain_as(transform.grid()) *)
Theorem image_transformer_flag_traced :
  forallb (fun e => Bool.eqb (fst e) (snd e)) gen_image_transformer_flag_table = true /\
  (existsb fst gen_image_transformer_flag_table = true /\ existsb (fun e => negb (fst e)) gen_image_transformer_flag_table = true).
Proof. repeat split; vm_compute; reflexivity. Qed.

(* a linear first member (any target grid at all): the flag is irrelevant to it -- the traced forward(grid=True) of a linear
   transform is its forward() (translator structural check) -- so the same conclusion holds without any frame hypothesis *)
Theorem warp_sequence_linear_first (pad : padmode) (ac : bool) (m : fmember (K:=K)) (r : list fmember)
    (tg g src : gridf) (img : list (list K)) (j : list K) :
  (forall p, m true p = m false p) ->
  warp_seq_out2 floorK pad ac (m :: r) true tg g src img j = warp_seq_out2 floorK pad ac (m :: r) false tg g src img j.
Proof.
  intro H. unfold warp_seq_out2. rewrite !seq_forward_any, H. reflexivity.
Qed.
End Sequence.
