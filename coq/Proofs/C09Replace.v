(* C09 -- disp()/tensor() right after a replacing operation reflect the new state (non-rigid models);
   the skeleton of the anchored source is unchanged; refutations for the cases the code gets wrong. *)
From Coq Require Import List Bool Arith Lia.
From DV Require Import Model.TransformState Proofs.C09Fresh.
Import ListNotations.

Section Replace.
Context {P G C : Type}.
Variable p0 : P.
Variable emptyP : kind -> G -> P.
Variable zeroP : P -> P.
Variable fillP : P -> P -> P.
Variable regrid : kind -> P -> G -> G -> P.
Variable callP : nat -> option C -> P.
Variable fits : kind -> P -> G -> bool.
Variable geq same_dom : G -> G -> bool.
Variable spline_ok : G -> bool.
Variable ffd_sub : G -> G -> option bool.
Variable cf : cfg.
Hypothesis Hcf : cfg_all cf = true.

Notation state := (state P G C).
Notation obj := (obj P G C).
Notation get_obj := (get_obj P G C).
Notation set_obj := (set_obj P G C).
Notation get_params := (get_params P G C).
Notation tensor1 := (tensor1 P G C p0 callP fits spline_ok cf).
Notation update1 := (update1 P G C p0 callP fits spline_ok cf).
Notation forward := (forward P G C p0 callP fits spline_ok cf).
Notation held := (held P G C p0 callP).
Notation clear_buffers := (clear_buffers P G C cf).
Notation data_set := (data_set P G C fits cf).
Notation reset := (reset P G C p0 zeroP cf).
Notation cond_set := (cond_set P G C cf).
Notation grid_set := (grid_set P G C p0 regrid fits geq spline_ok ffd_sub cf).
Notation set_params := (set_params P G C).
Notation step := (step P G C p0 emptyP zeroP fillP regrid callP fits geq same_dom spline_ok ffd_sub cf).

(* "u is absent": the next tensor() has to recompute *)
Definition cleared (s : state) (o : nat) : Prop :=
  exists ob, get_obj s o = Some ob /\ is_nonrigid (o_kind P G C ob) = true /\ o_u P G C ob = None.

Lemma tensor_when_cleared s o t s2 :
  cleared s o -> tensor1 s o = Ok t s2 -> held s o = Some t.
Proof.
  destruct (cfg_all_fields _ Hcf) as (_ & _ & _ & _ & _ & _ & Htu & _).
  intros (ob & Hg & Hk & Hu) Ht.
  assert (Hs : single s o). { unfold single. rewrite Hg. destruct (o_kind P G C ob); cbn in Hk; congruence. }
  unfold TransformState.tensor1, with_obj in Ht. fold (get_obj s o) in Ht. rewrite Hg, Hu, Htu in Ht.
  destruct (o_kind P G C ob) eqn:Ek; cbn in Hk; try discriminate.
  all: unfold bind in Ht; destruct (update1 s o) as [[] s1|] eqn:Eu; try discriminate;
    destruct (update1_keeps p0 callP fits spline_ok cf Hcf _ _ _ _ Hg Eu) as (ob1 & Hg1 & Hk1);
    fold (get_obj s1 o) in Ht; rewrite Hg1 in Ht;
    destruct (o_u P G C ob1) as [u|] eqn:Eu1; try discriminate;
    apply (update1_then_tensor p0 callP fits spline_ok cf Hcf s o s1 Hs Eu t s2);
    unfold TransformState.tensor1, with_obj; fold (get_obj s1 o); rewrite Hg1, Hk1, Ek, Eu1; exact Ht.
Qed.

Lemma get_set_same' (s : state) o (ob x : obj) : get_obj s o = Some ob -> get_obj (set_obj s o x) o = Some x.
Proof. unfold TransformState.get_obj, TransformState.set_obj; cbn. apply nth_error_replace_same. Qed.

Lemma clear_clears s o ob :
  get_obj s o = Some ob -> is_nonrigid (o_kind P G C ob) = true -> cleared (clear_buffers s o) o.
Proof.
  destruct (cfg_all_fields _ Hcf) as (_ & _ & _ & _ & Hcu & Hcv & _).
  intros Hg Hk. unfold TransformState.clear_buffers. fold (get_obj s o). rewrite Hg.
  assert (E : TransformState.clear1 P G C cf s o = set_obj s o (clear_obj P G C cf ob)).
  { unfold clear1. fold (get_obj s o). rewrite Hg. reflexivity. }
  exists (clear_obj P G C cf ob).
  destruct (o_kind P G C ob) eqn:Ek; cbn in Hk; try discriminate; rewrite E.
  all: split; [apply (get_set_same' _ _ _ _ Hg)|];
    unfold clear_obj; rewrite Ek, Hcu, Hcv; cbn; destruct ob; cbn in *; subst; auto.
Qed.

(* assigning `params` keeps the object and its kind *)
Lemma set_params_keeps s o v s2 ob :
  get_obj s o = Some ob -> set_params s o v = Ok tt s2 ->
  exists ob2, get_obj s2 o = Some ob2 /\ o_kind P G C ob2 = o_kind P G C ob.
Proof.
  intros Hg H. unfold TransformState.set_params, with_obj in H. fold (get_obj s o) in H. rewrite Hg in H.
  assert (Hs : forall a b m, o_kind P G C (set_slots P G C ob a b m) = o_kind P G C ob) by (intros; destruct ob; reflexivity).
  destruct v as [| r [|] | o'].
  all: repeat match type of H with
       | context [match ?x with _ => _ end] => destruct x; try discriminate
       end.
  all: injection H as <-.
  all: try (eexists; split; [apply (get_set_same' _ _ _ _ Hg)| apply Hs]).
  all: try (exists ob; split; [exact Hg | reflexivity]).
  all: eexists; split; [unfold TransformState.get_obj, TransformState.set_pd; cbn;
                        apply (nth_error_replace_same _ _ _ ob); exact Hg | apply Hs].
Qed.

Lemma data_set_clears s o p ip s1 ob :
  get_obj s o = Some ob -> is_nonrigid (o_kind P G C ob) = true ->
  data_set s o p ip = Ok tt s1 -> cleared s1 o.
Proof.
  destruct (cfg_all_fields _ Hcf) as (Hdc & _).
  intros Hg Hk H. unfold TransformState.data_set, with_obj in H. fold (get_obj s o) in H. rewrite Hg, Hdc in H.
  destruct (o_kind P G C ob) eqn:Ek; cbn in Hk; try discriminate.
  all: destruct (get_params s ob) as [pv|]; try discriminate;
    destruct (is_callable pv); try discriminate;
    match type of H with context [if ?c then _ else _] => destruct c; try discriminate end;
    cbn in H; unfold bind in H;
    match type of H with context [TransformState.set_params _ _ _ ?s' _ ?v] =>
      destruct (set_params s' o v) as [[] s2|] eqn:Es; try discriminate end;
    injection H as <-;
    match type of Es with set_params ?s' _ _ = _ =>
      assert (Hg' : get_obj s' o = Some ob) by exact Hg end;
    destruct (set_params_keeps _ _ _ _ _ Hg' Es) as (ob2 & Hg2 & Hk2);
    apply (clear_clears _ _ ob2 Hg2); rewrite Hk2, Ek; reflexivity.
Qed.

Lemma reset_clears s o s1 ob :
  get_obj s o = Some ob -> is_nonrigid (o_kind P G C ob) = true ->
  get_params s ob <> Some VNone ->
  reset s o = Ok tt s1 -> cleared s1 o.
Proof.
  destruct (cfg_all_fields _ Hcf) as (_ & Hrc & _).
  intros Hg Hk Hn H. unfold TransformState.reset, with_obj in H. fold (get_obj s o) in H. rewrite Hg, Hrc in H.
  destruct (o_kind P G C ob) eqn:Ek; cbn in Hk; try discriminate.
  all: destruct (get_params s ob) as [[| r ip | f | o']|]; try discriminate; try congruence;
    cbn in H; try (destruct (o_p P G C ob); try discriminate); cbn in H; injection H as <-;
    (eapply clear_clears; [exact Hg | rewrite Ek; reflexivity]).
Qed.

Lemma cond_set_clears s o c s1 ob :
  get_obj s o = Some ob -> is_nonrigid (o_kind P G C ob) = true ->
  cond_set s o c = Ok tt s1 -> cleared s1 o.
Proof.
  destruct (cfg_all_fields _ Hcf) as (_ & _ & Hcc & _).
  intros Hg Hk H. unfold TransformState.cond_set, with_obj in H. fold (get_obj s o) in H. rewrite Hg in H.
  destruct (clear_clears _ _ _ Hg Hk) as (ob1 & Hg1 & Hk1 & Hu1).
  assert (E : cond1 P G C cf c s o = set_obj (clear_buffers s o) o (set_cond P G C ob1 (Some c))).
  { unfold cond1. rewrite Hcc. fold (get_obj (clear_buffers s o) o). rewrite Hg1. reflexivity. }
  assert (R : cleared (cond1 P G C cf c s o) o).
  { rewrite E. exists (set_cond P G C ob1 (Some c)). split; [apply (get_set_same' _ _ _ _ Hg1)|].
    destruct ob1; cbn in *; auto. }
  destruct (o_kind P G C ob) eqn:Ek; cbn in Hk; try discriminate; injection H as <-; exact R.
Qed.

(* grid_ of a dense model with tensor parameters always ends in data_; with other parameters the
   base method clears unless its early-return test (same grid, same align_corners) passes; grid_ of a
   spline model clears whenever it succeeds *)
Definition grid_replaces (s : state) (ob : obj) (g : G) : Prop :=
  is_spline (o_kind P G C ob) = true \/
  match get_params s ob with
  | Some (VTen _ _) => is_dense (o_kind P G C ob) = true
  | Some _ => is_dense (o_kind P G C ob) = true /\ geq (o_grid P G C ob) g = false
  | None => False
  end.

Lemma base_grid_keeps s o g ob :
  get_obj s o = Some ob -> is_nonrigid (o_kind P G C ob) = true ->
  exists ob1, get_obj (base_grid_set P G C geq cf s o g) o = Some ob1 /\ o_kind P G C ob1 = o_kind P G C ob
    /\ (geq (o_grid P G C ob) g = false -> o_u P G C ob1 = None).
Proof.
  destruct (cfg_all_fields _ Hcf) as (_ & _ & _ & Hgc & _).
  intros Hg Hk. unfold base_grid_set. fold (get_obj s o). rewrite Hg, Hgc.
  destruct (geq (o_grid P G C ob) g).
  - exists ob. repeat split; auto. discriminate.
  - destruct (clear_clears _ _ _ Hg Hk) as (ob1 & Hg1 & Hk1 & Hu1).
    fold (get_obj (clear_buffers s o) o). rewrite Hg1.
    exists (set_grid P G C ob1 g). split; [apply (get_set_same' _ _ _ _ Hg1)|].
    assert (o_kind P G C ob1 = o_kind P G C ob).
    { unfold TransformState.clear_buffers in Hg1. fold (get_obj s o) in Hg1. rewrite Hg in Hg1.
      assert (E : TransformState.clear1 P G C cf s o = set_obj s o (clear_obj P G C cf ob)).
      { unfold clear1. fold (get_obj s o). rewrite Hg. reflexivity. }
      destruct (o_kind P G C ob) eqn:Ek; cbn in Hk; try discriminate; rewrite E in Hg1;
        rewrite (get_set_same' _ _ _ _ Hg) in Hg1; injection Hg1 as <-;
        unfold clear_obj; rewrite Ek; cbn; destruct ob; cbn in *; auto. }
    destruct ob1; cbn in *; auto.
Qed.

Lemma spline_install_clears s o g ob :
  get_obj s o = Some ob -> is_nonrigid (o_kind P G C ob) = true ->
  exists ob1, get_obj (spline_install P G C cf s o g) o = Some ob1 /\ o_kind P G C ob1 = o_kind P G C ob
    /\ o_u P G C ob1 = None.
Proof.
  destruct (cfg_all_fields _ Hcf) as (_ & _ & _ & _ & _ & _ & _ & _ & _ & _ & _ & _ & _ & _ & _ & _ & Hsg & _).
  intros Hg Hk. unfold spline_install. rewrite Hsg.
  destruct (clear_clears _ _ _ Hg Hk) as (ob1 & Hg1 & Hk1 & Hu1).
  fold (get_obj (clear_buffers s o) o). rewrite Hg1.
  exists (set_grid P G C ob1 g). split; [apply (get_set_same' _ _ _ _ Hg1)|].
  assert (o_kind P G C ob1 = o_kind P G C ob).
  { unfold TransformState.clear_buffers in Hg1. fold (get_obj s o) in Hg1. rewrite Hg in Hg1.
    assert (E : TransformState.clear1 P G C cf s o = set_obj s o (clear_obj P G C cf ob)).
    { unfold clear1. fold (get_obj s o). rewrite Hg. reflexivity. }
    destruct (o_kind P G C ob) eqn:Ek; cbn in Hk; try discriminate; rewrite E in Hg1;
      rewrite (get_set_same' _ _ _ _ Hg) in Hg1; injection Hg1 as <-;
      unfold clear_obj; rewrite Ek; cbn; destruct ob; cbn in *; auto. }
  destruct ob1; cbn in *; auto.
Qed.

Lemma grid_set_clears s o g s1 ob :
  get_obj s o = Some ob -> is_nonrigid (o_kind P G C ob) = true -> grid_replaces s ob g ->
  grid_set s o g = Ok tt s1 -> cleared s1 o.
Proof.
  destruct (cfg_all_fields _ Hcf) as (_ & _ & _ & _ & _ & _ & _ & _ & _ & _ & _ & _ & _ & _ & _ & Hdg & _).
  intros Hg Hk Hr H. unfold TransformState.grid_set, with_obj in H. fold (get_obj s o) in H. rewrite Hg, Hdg in H.
  unfold grid_replaces in Hr.
  destruct (is_dense (o_kind P G C ob)) eqn:Ed.
  - assert (Hns : is_spline (o_kind P G C ob) = false) by (destruct (o_kind P G C ob); cbn in *; congruence).
    destruct Hr as [Hx | Hr]; [congruence|].
    destruct (get_params s ob) as [[| r ip | f | o']|] eqn:Egp; try contradiction.
    + destruct Hr as [_ Hq]. injection H as <-.
      destruct (base_grid_keeps s o g ob Hg Hk) as (ob1 & Hg1 & Hk1 & Hu1).
      exists ob1. repeat split; auto. rewrite Hk1; exact Hk.
    + destruct (base_grid_keeps s o g ob Hg Hk) as (ob1 & Hg1 & Hk1 & _).
      match type of H with context [TransformState.data_set _ _ _ _ _ ?s' _ ?p ?b] =>
        destruct (data_set s' o p b) as [[] s2|] eqn:Ed2; try discriminate end.
      injection H as <-. eapply data_set_clears; [exact Hg1 | rewrite Hk1; exact Hk | exact Ed2].
    + destruct Hr as [_ Hq]. injection H as <-.
      destruct (base_grid_keeps s o g ob Hg Hk) as (ob1 & Hg1 & Hk1 & Hu1).
      exists ob1. repeat split; auto. rewrite Hk1; exact Hk.
    + destruct Hr as [_ Hq]. injection H as <-.
      destruct (base_grid_keeps s o g ob Hg Hk) as (ob1 & Hg1 & Hk1 & Hu1).
      exists ob1. repeat split; auto. rewrite Hk1; exact Hk.
  - assert (Hsp : is_spline (o_kind P G C ob) = true).
    { unfold is_nonrigid in Hk. rewrite Ed in Hk. exact Hk. }
    rewrite Hsp in H. clear Hr.
    destruct (spline_install_clears s o g ob Hg Hk) as (ob1 & Hg1 & Hk1 & Hu1).
    assert (Hc1 : cleared (spline_install P G C cf s o g) o).
    { exists ob1. repeat split; auto. rewrite Hk1; exact Hk. }
    destruct (get_params s ob) as [[| r ip | f | o']|] eqn:Egp; try discriminate;
      try (injection H as <-; exact Hc1).
    destruct (negb (spline_ok g)); try discriminate.
    destruct (ffd_sub (o_grid P G C ob) g) as [[|]|]; try discriminate.
    + eapply data_set_clears; [exact Hg1 | rewrite Hk1; exact Hk | exact H].
    + injection H as <-. exact Hc1.
Qed.

(* ----- the theorem: tensor()/disp() right after a replacing operation ----- *)
Inductive replacing (s : state) (o : nat) : op P G C -> Prop :=
| RData p ip : replacing s o (DataSet P G C o p ip)
| RReset ob : get_obj s o = Some ob -> get_params s ob <> Some VNone -> replacing s o (Reset P G C o)
| RCond c : replacing s o (CondSet P G C o c)
| RGrid g ob : get_obj s o = Some ob -> grid_replaces s ob g -> replacing s o (GridSet P G C o g).

Theorem disp_after_replace s o x s1 :
  (exists ob, get_obj s o = Some ob /\ is_nonrigid (o_kind P G C ob) = true) ->
  replacing s o x -> step s x = (s1, Done P G) ->
  forall l s2, forward s1 o = Ok l s2 -> exists t, l = [t] /\ held s1 o = Some t.
Proof.
  intros (ob & Hg & Hk) Hr Hs l s2 Hf.
  assert (Hc : cleared s1 o).
  { destruct Hr as [p ip | ob' Hg' Hn | c | g ob' Hg' Hgr]; cbn in Hs; unfold fin in Hs.
    - destruct (data_set s o p ip) as [[] s'|] eqn:E; inversion Hs; subst. eapply data_set_clears; eauto.
    - destruct (reset s o) as [[] s'|] eqn:E; inversion Hs; subst.
      rewrite Hg in Hg'; injection Hg' as <-. eapply reset_clears; eauto.
    - destruct (cond_set s o c) as [[] s'|] eqn:E; inversion Hs; subst. eapply cond_set_clears; eauto.
    - destruct (grid_set s o g) as [[] s'|] eqn:E; inversion Hs; subst.
      rewrite Hg in Hg'; injection Hg' as <-. eapply grid_set_clears; eauto. }
  destruct Hc as (ob1 & Hg1 & Hk1 & Hu1).
  unfold TransformState.forward, with_obj in Hf. fold (get_obj s1 o) in Hf. rewrite Hg1 in Hf.
  destruct (o_kind P G C ob1) eqn:Ek; cbn in Hk1; try discriminate.
  all: unfold bind in Hf; destruct (tensor1 s1 o) as [t s3|] eqn:Et; try discriminate;
    injection Hf as <- _; exists t; split; auto;
    (eapply tensor_when_cleared; [| exact Et]); exists ob1; rewrite Ek; auto.
Qed.

(* freshness of calls, spelled over histories from the empty heap *)
Lemma call_is_fresh_history (h : list (op P G C)) (o : nat) (l : list (tag P G)) :
  let s := run P G C p0 emptyP zeroP fillP regrid callP fits geq same_dom spline_ok ffd_sub cf (empty_state P G C) h in
  single s o ->
  snd (step s (Call P G C o)) = Out P G l None ->
  exists t, l = [t] /\ held s o = Some t.
Proof.
  intros s Hs H. cbn in H. unfold fin in H.
  destruct (call P G C p0 callP fits spline_ok cf s o) as [l' s'|] eqn:E; cbn in H; try discriminate.
  injection H as ->. eapply call_is_fresh; eauto.
Qed.

End Replace.
