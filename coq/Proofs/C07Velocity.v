(* C07 -- velocity-field models, affine invariant generator: the inverse (negated scaling and squaring)
   composed with the forward map is x -> (1 - h^2/4^k)^(2^k) x exactly, for EVERY number of steps k --
   the identity up to a term that is second order in the generator h. *)
From Coq Require Import ZArith List Field Ring.
From DV Require Import Base.Field Base.FieldFacts Model.VelocityAffine.
Local Open Scope fld_scope.

Section Proofs.
Variable K : fld.
Hypothesis Kf : is_field K.
Hypothesis Kc : char0 K.
Add Field KF : Kf.

Lemma sq_iter_mul k : forall a b : K, sq_iter k (a * b) = sq_iter k a * sq_iter k b.
Proof.
  induction k as [|k IH]; intros a b; cbn; [reflexivity|].
  replace (a * b * (a * b)) with ((a * a) * (b * b)) by ring. apply IH.
Qed.

Lemma sq_iter_one k : sq_iter k (1 : K) = 1.
Proof. induction k as [|k IH]; cbn; [reflexivity|]. replace (1 * 1 : K) with (1 : K) by ring. exact IH. Qed.

Lemma pow2_nz k : pow2 (K:=K) k <> 0.
Proof.
  induction k as [|k IH]; cbn.
  - apply (one_nz K Kc).
  - intro E. assert (H2 : (1 + 1 : K) <> 0) by apply (two_nz K Kf Kc).
    apply IH. transitivity (((1 + 1) * pow2 (K:=K) k) / (1 + 1)); [field; exact H2 | rewrite E; field; exact H2].
Qed.

Theorem round_trip_second_order k (h : K) : round_trip k h = round_trip_closed k h.
Proof.
  unfold round_trip, round_trip_closed, exp_k. rewrite <- sq_iter_mul. f_equal.
  field. apply pow2_nz.
Qed.

(* the forward map itself: (1 + h/2^k)^(2^k); with h = 0 both are the identity *)
Lemma round_trip_zero k : round_trip k (0 : K) = 1.
Proof.
  rewrite round_trip_second_order. unfold round_trip_closed.
  replace (1 - 0 * 0 / (pow2 k * pow2 k)) with (1 : K) by (field; apply pow2_nz). apply sq_iter_one.
Qed.
End Proofs.
