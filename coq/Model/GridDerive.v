(* Derived grids (hand-written part of the model of core/grid.py): which sizes, offsets and flags each
   derivation method uses.  The float-valued internal size `_size` is kept as a field element; the
   order-dependent primitives torch applies to it (ceil, floor, <=) are Section variables, instantiated
   by Qc for execution (Model/GridDeriveQc.v) -- no property of them is assumed by the theorems except
   where stated.  World geometry comes from the generated definitions (Gen/GridT.v, GridCtor.v,
   GridDerive.v). *)
From Coq Require Import ZArith List Bool.
From DV Require Import Base.Field Base.LinAlg Model.Enums Model.Homog Gen.GridT Gen.GridCtor Gen.GridDerive.
Import ListNotations.
Local Open Scope fld_scope.

Section GD.
Context {K : fld}.
Variable ceilK : K -> Z.
Variable floorK : K -> Z.
Variable leK : K -> K -> bool.

Record dgrid := mkG { fs : list K; sp : list K; ce : list K; di : list (list K); acf : bool }.

Definition nZ (g : dgrid) : list Z := map ceilK (fs g).          (* Grid.size() *)
Definition nK (g : dgrid) : list K := map of_Z (nZ g).           (* Grid.size_tensor() *)
Definition d_origin (D : nat) (g : dgrid) : list K := gen_origin D (nK g) (sp g) (ce g) (di g).
Definition d_itw (D : nat) (g : dgrid) (i : list K) : list K := gen_pts D GRID WORLD (nK g) (sp g) (ce g) (di g) i.
Definition d_extent (D : nat) (g : dgrid) : list K := gen_extent D (nK g) (sp g) (ce g) (di g).
Definition d_cube_extent (D : nat) (g : dgrid) : list K :=
  if acf g then gen_cube_extent_ac D (nK g) (sp g) (ce g) (di g) else gen_cube_extent_nac D (nK g) (sp g) (ce g) (di g).

Fixpoint veqK (a b : list K) : bool :=
  match a, b with
  | [], [] => true
  | x :: a', y :: b' => leK x y && leK y x && veqK a' b'
  | _, _ => false
  end.
Definition pow2 (L : nat) : K := of_Z (2 ^ Z.of_nat L).
Definition zK (z : Z) : K := of_Z z.

(* Grid(size, origin=o, spacing, direction, align_corners): the origin= constructor route *)
Definition mk_origin (D : nat) (size : list K) (o s : list K) (d : list (list K)) (a : bool) : dgrid :=
  mkG size s (gen_center_of_origin D (map of_Z (map ceilK size)) s d o) d a.

(* Grid._resize *)
Definition d_resize (D : nat) (m : list K) (a : bool) (g : dgrid) : dgrid :=
  if veqK m (fs g) then g
  else mkG m ((if a then gen_resize_spacing_ac else gen_resize_spacing_nac)
                D (nK g) (sp g) (ce g) (di g) (map of_Z (map ceilK m)))
           (ce g) (di g) (acf g).
Definition opt_flag (o : option bool) (g : dgrid) : bool := match o with Some b => b | None => acf g end.

Definition g_resize (D : nat) (size : list Z) (a : option bool) (g : dgrid) : dgrid :=
  d_resize D (map zK size) (opt_flag a g) g.
Definition g_reshape (D : nat) (shape : list Z) (a : option bool) (g : dgrid) : dgrid :=
  g_resize D (rev shape) a g.

(* downsample / upsample along all axes (dims = None) or a subset *)
Definition in_dims (dims : option (list nat)) (i : nat) : bool :=
  match dims with None => true | Some l => existsb (Nat.eqb i) l end.
Fixpoint mapi_from {A B} (f : nat -> A -> B) (i : nat) (l : list A) : list B :=
  match l with [] => [] | x :: r => f i x :: mapi_from f (S i) r end.
Definition g_downsample (D : nat) (L : nat) (dims : option (list nat)) (min_size : Z) (a : option bool) (g : dgrid) : dgrid :=
  let sz := mapi_from (fun i x => if in_dims dims i then x / pow2 L else x) 0 (fs g) in
  let sz := map (fun p => if leK (zK min_size) (fst p) then fst p else snd p) (combine sz (fs g)) in
  d_resize D sz (opt_flag a g) g.
Definition g_upsample (D : nat) (L : nat) (dims : option (list nat)) (a : option bool) (g : dgrid) : dgrid :=
  let sz := mapi_from (fun i x => if in_dims dims i then x * pow2 L else x) 0 (fs g) in
  d_resize D sz (opt_flag a g) g.

(* pyramid: per-axis integer size recurrence, then resize of the ORIGINAL grid per level *)
Definition pyr_coarsest (n : Z) (a : bool) (L : nat) : Z :=
  let m := if a then (2 ^ Z.of_nat L - 1)%Z else 0%Z in
  ((2 ^ Z.of_nat L + 2 * (n + m)) / 2 ^ (Z.of_nat L + 1))%Z.       (* int(0.5 + (n + m) / 2**L) *)
Fixpoint pyr_up (c : Z) (k : nat) : Z := match k with O => c | S k' => (2 * pyr_up c k' - 1)%Z end.
Fixpoint pyr_down (n0 : Z) (min_size : Z) (k : nat) : Z :=      (* size at level k given level 0 *)
  match k with
  | O => n0
  | S k' => let p := pyr_down n0 min_size k' in
            let q := ((p + 1) / 2)%Z in if (q <? min_size)%Z then p else q
  end.
Definition pyr_size (n : Z) (a : bool) (L : nat) (min_size : Z) (level : nat) : Z :=
  pyr_down (pyr_up (pyr_coarsest n a L) L) min_size level.
Definition g_pyramid_level (D : nat) (L : nat) (dims : option (list nat)) (min_size : Z) (level : nat) (g : dgrid) : dgrid :=
  let sizes := mapi_from (fun i n => if in_dims dims i then pyr_size n (acf g) L min_size level else n) 0 (nZ g) in
  g_resize D sizes None g.

(* resample(spacing, min_size) *)
Definition g_resample (D : nat) (spacing : list K) (min_size : Z) (g : dgrid) : dgrid :=
  if veqK spacing (sp g) then g
  else let sz := vdiv (d_extent D g) spacing in
       let sz := map (fun x => if leK (zK min_size) x then x else zK min_size) sz in
       mkG sz spacing (ce g) (di g) (acf g).

(* crop / pad with per-border numbers (x_lo, x_hi, y_lo, y_hi, ...) *)
Fixpoint evens (l : list Z) : list Z := match l with a :: _ :: r => a :: evens r | _ => [] end.
Fixpoint odds (l : list Z) : list Z := match l with _ :: b :: r => b :: odds r | _ => [] end.
Definition clamp1 (x : K) : K := if leK 1 x then x else 1.
Definition g_crop (D : nat) (num : list Z) (g : dgrid) : dgrid :=
  if forallb (Z.eqb 0) num then g
  else let lo := map zK (evens num) in let hi := map zK (odds num) in
       let sz := map clamp1 (vsub (vsub (fs g) lo) hi) in
       mk_origin D sz (d_itw D g lo) (sp g) (di g) (acf g).
Definition g_pad (D : nat) (num : list Z) (g : dgrid) : dgrid :=
  if forallb (Z.eqb 0) num then g
  else let lo := map zK (evens num) in let hi := map zK (odds num) in
       let sz := map clamp1 (vadd (vadd (fs g) lo) hi) in
       mk_origin D sz (d_itw D g (vopp lo)) (sp g) (di g) (acf g).
Definition g_center_crop (D : nat) (size : list Z) (g : dgrid) : dgrid :=
  let sz := map (fun p => Z.min (fst p) (snd p)) (combine (nZ g) size) in
  let st := map (fun p => ((fst p - snd p) / 2)%Z) (combine (nZ g) sz) in
  mk_origin D (map zK sz) (d_itw D g (map zK st)) (sp g) (di g) (acf g).
Definition g_center_pad (D : nat) (size : list Z) (g : dgrid) : dgrid :=
  let sz := map (fun p => Z.max (fst p) (snd p)) (combine (nZ g) size) in
  let st := map (fun p => (- ((snd p - fst p) / 2))%Z) (combine (nZ g) sz) in
  mk_origin D (map zK sz) (d_itw D g (map zK st)) (sp g) (di g) (acf g).
Definition g_narrow (D : nat) (dim : nat) (start len : Z) (g : dgrid) : dgrid :=
  let sz := mapi_from (fun i n => if Nat.eqb i dim then len else n) 0 (nZ g) in
  let st := mapi_from (fun i (_ : Z) => if Nat.eqb i dim then start else 0%Z) 0 (nZ g) in
  mk_origin D (map zK sz) (d_itw D g (map zK st)) (sp g) (di g) (acf g).
Definition g_roi (D : nat) (start size : list Z) (g : dgrid) : dgrid :=
  let num := flat_map (fun p => [fst (fst p); (snd p - (fst (fst p) + snd (fst p)))%Z])
                      (combine (combine start size) (nZ g)) in
  g_crop D num g.
(* pool(kernel_size, ceil_mode) *)
Definition g_pool (D : nat) (ks : list Z) (ceil_mode : bool) (g : dgrid) : dgrid :=
  let k := map zK ks in
  let sz := map (fun x => zK (if ceil_mode then ceilK x else floorK x)) (vdiv (nK g) k) in
  mk_origin D sz (d_itw D g (vscale (1 / (1 + 1)) (vsub k (repeat 1 (length k))))) (vmul (sp g) k) (di g) (acf g).
End GD.

(* operation language for chains (used by the correspondence check and by chain statements) *)
Section Ops.
Context {K : fld}.
Variable ceilK : K -> Z.
Variable floorK : K -> Z.
Variable leK : K -> K -> bool.
Inductive gop :=
| OResize (size : list Z) (a : option bool)
| OReshape (shape : list Z) (a : option bool)
| ODown (L : nat) (dims : option (list nat)) (min_size : Z) (a : option bool)
| OUp (L : nat) (dims : option (list nat)) (a : option bool)
| OPyr (L : nat) (dims : option (list nat)) (min_size : Z) (level : nat)
| OResample (spacing : list K) (min_size : Z)
| OCrop (num : list Z)
| OPad (num : list Z)
| OCenterCrop (size : list Z)
| OCenterPad (size : list Z)
| ONarrow (dim : nat) (start len : Z)
| ORoi (start size : list Z)
| OPool (ks : list Z) (ceil_mode : bool).

Definition apply_op (D : nat) (o : gop) (g : dgrid) : dgrid :=
  match o with
  | OResize size a => g_resize ceilK leK D size a g
  | OReshape shape a => g_reshape ceilK leK D shape a g
  | ODown L dims ms a => g_downsample ceilK leK D L dims ms a g
  | OUp L dims a => g_upsample ceilK leK D L dims a g
  | OPyr L dims ms level => g_pyramid_level ceilK leK D L dims ms level g
  | OResample spacing ms => g_resample ceilK leK D spacing ms g
  | OCrop num => g_crop ceilK leK D num g
  | OPad num => g_pad ceilK leK D num g
  | OCenterCrop size => g_center_crop ceilK D size g
  | OCenterPad size => g_center_pad ceilK D size g
  | ONarrow dim start len => g_narrow ceilK D dim start len g
  | ORoi start size => g_roi ceilK leK D start size g
  | OPool ks cm => g_pool ceilK floorK D ks cm g
  end.
(* all intermediate states of a chain, first op first *)
Fixpoint run_ops (D : nat) (ops : list gop) (g : dgrid) : list dgrid :=
  match ops with [] => [] | o :: r => let g' := apply_op D o g in g' :: run_ops D r g' end.
End Ops.
