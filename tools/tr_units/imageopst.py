"""Gen/ImageOpsT.v -- the image operations of data/image.py (ImageBatch methods) traced TOGETHER with the grid
methods they call (C04): each method is run on a tensor of distinct symbols v_<iy>_<ix> (duck-typed stand-in for the
tensor subclass: tensor(), grid(), _grid, sdim, align_corners(), _make_instance) carrying a grid with symbolic size
attribute, spacing, center and direction.  Emitted per traced call:

  gen_io_data_<k>   the returned data as a function of the input samples  (index-only operations, pooling, conv),
  gen_io_n_<k>, gen_io_s_<k>, gen_io_c_<k>   size / spacing / center of the returned grid as functions of the input grid,
  gen_io_src_<k>    for every returned sample that is an input sample (or a mean / interpolation of input samples):
                    (output index, source index) pairs read off the returned symbols -- resp. for interpolating
                    operations the (size, align_corners) the code hands to F.interpolate,

so that Coq re-proves on every run (Proofs/C04Gen.v): the data is the model's data operation, and the returned grid puts
every output index at the world position of its source index.  F.interpolate is replaced by a recorder (its kernel is
the Sampler model); F.pad, slicing, avg_pool, conv are symtorch's.  Fail-closed."""
import types

import numpy as np

import symtorch as st
import trlib
from symtorch import E, TraceError
from tr_units.grid import mk_grid, grid_inputs
from tr_units.samplet import patched, _arange_exact, _meshgrid, _flip
from tr_units.gridctor import _unit_det


def f_pad(x, pad, mode="constant", value=None):
    """torch.nn.functional.pad, constant mode, margins of either sign (negative = crop), pairs from the LAST dim"""
    if mode != "constant":
        raise TraceError(f"F.pad mode {mode}")
    pad = [int(p) for p in pad]
    if len(pad) % 2 or len(pad) // 2 > x.a.ndim:
        raise RuntimeError("padding length must be even and at most 2 * ndim")
    a = x.a
    val = E.const(0 if value is None else value)
    for k in range(len(pad) // 2):
        lo, hi = pad[2 * k], pad[2 * k + 1]
        ax = a.ndim - 1 - k
        n = a.shape[ax]
        if n + lo + hi < 0:
            raise RuntimeError("negative output size")
        sl = [slice(None)] * a.ndim
        sl[ax] = slice(max(0, -lo), n - max(0, -hi))
        a = a[tuple(sl)]
        widths = [(0, 0)] * a.ndim
        widths[ax] = (max(0, lo), max(0, hi))
        if lo > 0 or hi > 0:
            shp = list(a.shape)
            shp[ax] += max(0, lo) + max(0, hi)
            b = np.empty(shp, dtype=object)
            b[...] = val
            sl2 = [slice(None)] * a.ndim
            sl2[ax] = slice(max(0, lo), max(0, lo) + a.shape[ax])
            b[tuple(sl2)] = a
            a = b
    return st.Tensor(a.copy(), dtype=x.dtype)


def _floordiv(self, o):
    """Tensor // int on concrete integer tensors (torch floor division)"""
    import math
    o = o.a[()].value() if isinstance(o, st.Tensor) else o
    def f(x):
        if not x.is_const():
            raise TraceError("floor division of a symbolic value")
        return E.const(math.floor(x.value() / o))
    return self._new(np.vectorize(f, otypes=[object])(self.a))


def _e_floordiv(self, o):
    import math
    o = E.const(o)
    if not (self.is_const() and o.is_const()):
        raise TraceError("floor division of a symbolic value")
    return E.const(math.floor(self.value() / o.value()))


def _ext_sign(self):
    """sign of an expression: products and quotients of positive factors are positive (sound)"""
    if self.is_const():
        v = self.value()
        return (v > 0) - (v < 0)
    if self.op == "var":
        return 1 if self.flags().get("positive") else None
    if self.op in ("mul", "div"):
        a, b = _ext_sign(self.args[0]), _ext_sign(self.args[1])
        if a is None or b is None or (self.op == "div" and b == 0):
            return None
        return a * b
    return None


def _fmod(self, o):
    """Tensor.fmod on concrete values (sign of the dividend, as torch)"""
    import math
    def f(x):
        if not x.is_const():
            raise TraceError("fmod of a symbolic value")
        return E.const(math.fmod(x.value(), o))
    return self._new(np.vectorize(f, otypes=[object])(self.a))


_orig_setitem = st.Tensor.__setitem__


def _setitem(self, key, value):
    """assignment of a 0-d tensor stores its element (torch semantics), not the 0-d array object"""
    if isinstance(value, st.Tensor) and value.a.ndim == 0:
        value = value.a[()]
    return _orig_setitem(self, key, value)


def sym_image(shape, prefix="v"):
    """(1, 1, *shape) tensor of distinct symbols v_<i0>_<i1>[_<i2>] indexed in TENSOR order"""
    arr = np.empty((1, 1) + tuple(shape), dtype=object)
    for idx in np.ndindex(*shape):
        arr[(0, 0) + idx] = E.var(prefix + "_" + "_".join(str(i) for i in idx))
    return arr


def make_fake(DI, st_mod):
    class FakeBatch(st_mod.Tensor):
        """duck-typed stand-in for ImageBatch: a symtorch tensor that carries grids"""

        def __init__(self, a, grids):
            super().__init__(a, dtype=st_mod.float32)
            self._grid = tuple(grids)

        def tensor(self):
            return st_mod.Tensor(self.a, dtype=self.dtype)

        def grid(self, n=0):
            return self._grid[n]

        def grids(self):
            return self._grid

        @property
        def sdim(self):
            return self.a.ndim - 2

        def align_corners(self):
            return DI.ImageBatch.align_corners(self)

        def __len__(self):
            return self.a.shape[0]

        # methods of ImageBatch that other methods call on self
        def upsample(self, *a, **k):
            return DI.ImageBatch.upsample(self, *a, **k)

        def downsample(self, *a, **k):
            return DI.ImageBatch.downsample(self, *a, **k)

        def _make_instance(self, data=None, grid=None, **kw):
            return ("instance", data, tuple(grid) if isinstance(grid, (tuple, list)) else (grid,))
    return FakeBatch


def nested_syms(a):
    if a.ndim == 0:
        return a[()]
    return [nested_syms(a[i]) for i in range(a.shape[0])]


def prov_of(arr, shape_in):
    """[(output index (x, y[, z]), input index (x, y[, z]))] for every output element that is an input symbol"""
    out = []
    for idx in np.ndindex(*arr.shape):
        e = arr[idx]
        if e.op == "var" and e.args[0].startswith("v_"):
            src = tuple(int(t) for t in e.args[0].split("_")[1:])
            out.append((tuple(reversed(idx)), tuple(reversed(src))))
    return out


def zl(v):
    return "[" + "; ".join(f"({int(x)})%Z" for x in v) + "]"


def concrete_size(g, shape):
    """the grid's size attribute is the (concrete) tensor shape; spacing / center / direction stay symbolic"""
    g._size = st.Tensor(np.array([E.const(n) for n in reversed(shape)], dtype=object))
    return g


def emit_grid(out, k, g_in, g_out, comment):
    gi = [("s", g_in._spacing), ("c", g_in._center), ("d", g_in._direction)]
    if not all(e.is_const() for e in g_out._size.a):
        raise TraceError(f"case {k}: symbolic size of the returned grid")
    out.append(trlib.emit_match_def(f"gen_io_n_{k}", [], [], g_out._size, comment=comment + ": size attribute of the returned grid"))
    out.append(trlib.emit_match_def(f"gen_io_s_{k}", gi, [], g_out._spacing, comment="spacing"))
    out.append(trlib.emit_match_def(f"gen_io_c_{k}", gi, [], g_out._center, comment="center"))
    if not trlib.same_tensor(g_out._direction.a, g_in._direction.a):
        raise TraceError(f"case {k}: direction changed")
    if g_out._align_corners is not g_in._align_corners:
        raise TraceError(f"case {k}: align_corners flag changed")


INDEX_CASES = [
    # (name, shape (tensor order), method, args, kwargs)
    ("crop_num", (3, 4), "crop", (), dict(num=(1, 0, 0, 1))),
    ("crop_margin", (3, 4), "crop", (), dict(margin=(1, 0))),
    ("crop_mixed", (3, 4), "crop", (), dict(num=(1, -1, 0, 0))),
    ("pad_num", (3, 4), "pad", (), dict(num=(1, 0, 2, 0), value=2.5)),
    ("pad_margin", (2, 3), "pad", (), dict(margin=(0, 1))),
    ("center_crop", (3, 4), "center_crop", ((2, 1),), {}),
    ("center_crop_odd", (3, 5), "center_crop", ((2, 5),), {}),
    ("center_pad", (3, 4), "center_pad", ((5, 4),), dict(value=2.5)),
    ("center_pad_odd", (2, 4), "center_pad", ((7, 2),), {}),
    ("narrow_x", (3, 4), "narrow", (3, 1, 2), {}),
    ("narrow_y", (3, 4), "narrow", (2, 1, 2), {}),
    ("roi2", (3, 4), "region_of_interest", ((1, 0), (2, 2)), {}),
    ("roi2_pad", (3, 4), "region_of_interest", ((-1, 1), (3, 2)), dict(value=2.5)),
    ("crop3", (2, 2, 3), "crop", (), dict(num=(1, 0, 0, 1, 0, 1))),
    ("roi3", (2, 2, 3), "region_of_interest", ((1, 0, 1), (2, 2, 1)), {}),
    ("narrow_z", (2, 2, 3), "narrow", (2, 1, 1), {}),
]
INTERP_CASES = [
    # (name, shape, grid flag, method, args, kwargs)
    ("resize_default", (3, 4), True, "resize", ((6, 5),), {}),
    ("resize_default_nac", (3, 4), False, "resize", ((6, 5),), {}),
    ("resize_flag", (3, 4), True, "resize", ((6, 5),), dict(align_corners=False)),
    ("down_default", (4, 6), True, "downsample", (1,), dict(sigma=0)),
    ("down_default_nac", (4, 6), False, "downsample", (1,), dict(sigma=0)),
    ("down_flag", (4, 6), False, "downsample", (1,), dict(sigma=0, align_corners=True)),
    ("down_dims", (4, 6), True, "downsample", (1,), dict(sigma=0, dims=(0,))),
    ("up_default", (2, 3), True, "upsample", (1,), {}),
    ("up_default_nac", (2, 3), False, "upsample", (1,), {}),
    ("up_flag", (2, 3), True, "upsample", (1,), dict(align_corners=False)),
    ("down_neg_nac", (2, 3), False, "downsample", (-1,), {}),
    ("down_neg_flag", (2, 3), True, "downsample", (-1,), dict(align_corners=False)),
    ("resize3", (2, 3, 4), False, "resize", ((5, 4, 3),), {}),
    # fractional grid size (5 samples downsampled once: 3 samples, size attribute 2.5): the grid returns to 5 samples, the data
    # must be resized to the GRID's size (F.interpolate is called again with that size), not doubled
    ("up_fractional", (2, 3), True, "upsample", (1,), dict(size_attr=(2.5, 2))),
    ("up_fractional_nac", (2, 3), False, "upsample", (1,), dict(size_attr=(2.5, 2))),
]


def generate(loader):
    stub = types.ModuleType("sym.deepali.utils.imageio")
    stub.read_image = None
    stub.write_image = None
    loader.mods.setdefault("deepali.utils.imageio", stub)
    G = loader.load("deepali.core.grid")
    I = loader.load("deepali.core.image")
    DI = loader.load("deepali.data.image")
    Fake = make_fake(DI, st)
    out = ["Section Gen.", "Context {K : fld}.", ""]
    with patched(st, arange=_arange_exact, meshgrid=_meshgrid, flip=_flip, __version__="2.0.0"), \
            patched(st.Tensor, data_ptr=lambda self: id(self.a), as_subclass=lambda self, cls: self, __floordiv__=_floordiv, __setitem__=_setitem, fmod=_fmod), \
            patched(I.F, pad=f_pad), patched(E, __floordiv__=_e_floordiv, _sign=_ext_sign), _unit_det():
        # ---- index-only operations
        for name, shape, meth, args, kwargs in INDEX_CASES:
            D = len(shape)
            g = concrete_size(mk_grid(G.Grid, D, align=True), shape)
            fb = Fake(sym_image(shape), [g])
            try:
                res = getattr(DI.ImageBatch, meth)(fb, *args, **kwargs)
            except TraceError:
                raise
            if not (isinstance(res, tuple) and res[0] == "instance"):
                raise TraceError(f"{name}: ImageBatch.{meth} does not build a new instance")
            data, grids = res[1], res[2]
            if len(grids) != 1:
                raise TraceError(f"{name}: {len(grids)} grids for one image")
            arr = data.a[0, 0]
            img_in = st.Tensor(sym_image(shape)[0, 0])
            out.append(trlib.emit_match_def(f"gen_io_data_{name}", [("img", img_in)], [], st.Tensor(arr),
                                            comment=f"ImageBatch.{meth}{args}{kwargs} on a {shape} image (tensor order): returned data"))
            emit_grid(out, name, g, grids[0], f"ImageBatch.{meth}{args}{kwargs}")
            prov = prov_of(arr, shape)
            out.append(f"Definition gen_io_src_{name} : list (list Z * list Z) :=\n  [" +
                       "; ".join(f"({zl(j)}, {zl(i)})" for j, i in prov) + "].\n")
            out.append(f"Definition gen_io_shape_{name} : list Z := {zl(reversed(arr.shape))}.\n")
        # ---- pooling (data through symtorch's avg_pool, grid through Grid.avg_pool)
        for name, shape, ks in (("pool2", (2, 4), 2), ("pool_aniso", (4, 6), (2, 3))):
            D = len(shape)
            g = concrete_size(mk_grid(G.Grid, D, align=True), shape)
            fb = Fake(sym_image(shape), [g])
            res = DI.ImageBatch.avg_pool(fb, ks)
            data, grids = res[1], res[2]
            arr = data.a[0, 0]
            out.append(trlib.emit_match_def(f"gen_io_data_{name}", [("img", st.Tensor(sym_image(shape)[0, 0]))], [], st.Tensor(arr),
                                            comment=f"ImageBatch.avg_pool({ks}) on a {shape} image: returned data"))
            emit_grid(out, name, g, grids[0], f"ImageBatch.avg_pool({ks})")
            out.append(f"Definition gen_io_shape_{name} : list Z := {zl(reversed(arr.shape))}.\n")
        # ---- convolution with an n-D kernel tensor (symbolic taps): data through symtorch's conv2d, grid unchanged
        for name, shape, kshape in (("conv2", (3, 4), (3, 3)),):
            D = len(shape)
            g = concrete_size(mk_grid(G.Grid, D, align=True), shape)
            fb = Fake(sym_image(shape), [g])
            karr = np.empty(kshape, dtype=object)
            for idx in np.ndindex(*kshape):
                karr[idx] = E.var("k_" + "_".join(str(i) for i in idx))
            res = DI.ImageBatch.conv(fb, st.Tensor(karr, dtype=st.float32))
            data, grids = res[1], res[2]
            if len(grids) != 1 or grids[0] is not g and not (trlib.same_tensor(grids[0]._size.a, g._size.a) and
                                                              trlib.same_tensor(grids[0]._spacing.a, g._spacing.a) and
                                                              trlib.same_tensor(grids[0]._center.a, g._center.a)):
                raise TraceError(f"{name}: conv with same padding changes the grid")
            arr = data.a[0, 0]
            if tuple(arr.shape) != tuple(shape):
                raise TraceError(f"{name}: conv with same padding changes the data shape to {tuple(arr.shape)}")
            out.append(trlib.emit_match_def(f"gen_io_data_{name}", [("img", st.Tensor(sym_image(shape)[0, 0])), ("w", st.Tensor(karr))], [],
                                            st.Tensor(arr), comment=f"ImageBatch.conv(kernel {kshape}) on a {shape} image: returned data"))
        # ---- interpolating operations: what reaches F.interpolate, and the grid that is returned with it
        rows = []
        for name, shape, flag, meth, args, kwargs in INTERP_CASES:
            D = len(shape)
            g = mk_grid(G.Grid, D, align=flag)
            # the grid's size attribute must be the tensor shape for these methods: concrete lattice, symbolic spacing etc.
            g._size = st.Tensor(np.array([E.const(n) for n in reversed(shape)], dtype=object))
            kwargs = dict(kwargs)
            size_attr = kwargs.pop("size_attr", None)
            if size_attr is not None:
                g._size = st.Tensor(np.array([E.const(n) for n in size_attr], dtype=object))
            fb = Fake(sym_image(shape), [g])
            calls = []

            def rec(data, size=None, scale_factor=None, mode="nearest", align_corners=None, **kw):
                calls.append(dict(size=tuple(int(v) for v in size), mode=mode, align_corners=align_corners,
                                  same=trlib.same_tensor(data.a, fb.a)))
                shp = tuple(data.shape[:2]) + tuple(int(v) for v in size)
                arr = np.empty(shp, dtype=object)
                for j, idx in enumerate(np.ndindex(*shp)):
                    arr[idx] = E.var(f"y{j}")
                return st.Tensor(arr, dtype=data.dtype)
            # the internal allclose assertions of Grid._resize are C03's proof obligations (resize_assert_ac / _nac)
            st.ASSUME_ALLCLOSE = True
            try:
                with patched(I.F, interpolate=rec):
                    res = getattr(DI.ImageBatch, meth)(fb, *args, **kwargs)
            finally:
                st.ASSUME_ALLCLOSE = False
                del st.ALLCLOSE_LOG[:]
            data, grids = res[1], res[2]
            if not calls or not calls[-1]["same"] or (size_attr is None and len(calls) != 1):
                raise TraceError(f"{name}: the returned data is not one F.interpolate call on the unmodified data")
            c = calls[-1]
            if c["mode"] not in ("bilinear", "trilinear") or c["align_corners"] not in (True, False):
                raise TraceError(f"{name}: F.interpolate mode / align_corners {c['mode']} {c['align_corners']}")
            if tuple(data.shape[2:]) != c["size"]:
                raise TraceError(f"{name}: returned data is not F.interpolate's result")
            g2 = grids[0]
            gi = [("s", g._spacing), ("c", g._center), ("d", g._direction)]
            out.append(trlib.emit_match_def(f"gen_io_s_{name}", gi, [], g2._spacing,
                                            comment=f"ImageBatch.{meth}{args}{kwargs}, grid flag {flag}, image {shape}: spacing of the returned grid"))
            out.append(trlib.emit_match_def(f"gen_io_c_{name}", gi, [], g2._center, comment="center"))
            if not all(e.is_const() for e in g2._size.a):
                raise TraceError(f"{name}: symbolic size")
            n_out = [float(e.value()) for e in g2._size.a]
            if [int(-(-v // 1)) for v in n_out] != list(reversed(c["size"])):
                raise TraceError(f"{name}: returned grid size {n_out} is not the data shape {c['size']}")
            rows.append((name, list(reversed(shape)), list(reversed(c["size"])), c["align_corners"], g2._align_corners))
            out.append(f"Definition gen_io_interp_{name} : list Z * list Z * bool * bool :=\n"
                       f"  ({zl(reversed(shape))}, {zl(reversed(c['size']))}, {'true' if c['align_corners'] else 'false'}, "
                       f"{'true' if g2._align_corners else 'false'}).\n")
        # ---- pyramid(levels, align_corners=X) with X different from the image grid's own flag: the finest level is SAMPLED
        # (cube extents differ); pin what the sampling branch does: coordinates of the new grid w.r.t. the cube of the EFFECTIVE
        # flag, mapped from the new grid to the image grid with THE SAME cube axes on both sides, grid_sample with that flag on the
        # unmodified data, result carried by the new grid (the lock-step of this route is C04_sample_on_grid / C05's index theorem)
        prow = []
        for name, shape, gflag, xflag in (("pyr_flag_nac", (4, 8), True, False), ("pyr_flag_ac", (4, 8), False, True)):
            g = mk_grid(G.Grid, 2, align=gflag)
            g._size = st.Tensor(np.array([E.const(n) for n in reversed(shape)], dtype=object))
            g._spacing = st.Tensor(np.array([E.const(1), E.const(1)], dtype=object))
            fb = Fake(sym_image(shape), [g])
            rec = []
            marker = st.symvec("pyrco", 2)

            def co(self, *a, **k):
                rec.append(("coords", self, a, k))
                return marker

            def gtp(points, grid, axes, to_grid, to_axes=None):
                rec.append(("gtp", points, grid, axes, to_grid, to_axes))
                return points

            def gs(data, points, mode=None, align_corners=None, **kw):
                rec.append(("gs", data, points, mode, align_corners))
                return data
            def close(a, b, rtol=1e-5, atol=1e-8):
                # constants are decided numerically (the cube-extent test that selects the branch); the symbolic assertions of
                # Grid._resize are C03's proof obligations (resize_assert_ac / _nac)
                av, bv = np.broadcast_arrays(a.a, b.a)
                for x, y in zip(av.reshape(-1), bv.reshape(-1)):
                    if x.is_const() and y.is_const() and abs(x.value() - y.value()) > atol + rtol * abs(y.value()):
                        return False
                return True
            with patched(DI, grid_transform_points=gtp), patched(DI.U, grid_sample=gs), patched(G.Grid, coords=co), patched(st, allclose=close):
                res = DI.ImageBatch.pyramid(fb, 1, align_corners=xflag, end=0)
            if sorted(res) != [0] or res[0][0] != "instance":
                raise TraceError(f"{name}: pyramid(1, end=0) does not return level 0 only")
            newg = res[0][2][0]
            kinds = [r[0] for r in rec]
            if kinds != ["coords", "gtp", "gs"]:
                raise TraceError(f"{name}: sampling branch of pyramid is not coords -> grid_transform_points -> grid_sample: {kinds}")
            c_, t_, s_ = rec
            want = G.Axes.from_align_corners(xflag)
            if c_[1] is not newg or c_[2] or c_[3].get("align_corners") is not xflag or c_[3].get("normalize", True) is not True:
                raise TraceError(f"{name}: coordinates are not those of the returned grid w.r.t. align_corners={xflag}")
            if t_[1] is not marker or t_[2] is not newg or t_[4] is not g:
                raise TraceError(f"{name}: points are not mapped from the returned grid to the image grid")
            if t_[3] is not want or (t_[5] if t_[5] is not None else t_[3]) is not want:
                raise TraceError(f"{name}: points mapped with axes {t_[3]} -> {t_[5]}, effective align_corners={xflag} needs {want} on both sides")
            if not trlib.same_tensor(s_[1].a, fb.a) or s_[4] is not xflag or not trlib.same_tensor(s_[2].a[0], marker.a):
                raise TraceError(f"{name}: grid_sample is not applied to the unmodified data at the mapped points with align_corners={xflag}")
            if newg._align_corners is not xflag or not trlib.same_tensor(res[0][1].a, fb.a):
                raise TraceError(f"{name}: returned grid flag / data")
            prow.append(f"({'true' if gflag else 'false'}, {'true' if xflag else 'false'}, {'true' if want is G.Axes.CUBE_CORNERS else 'false'})")
        out.append("(* pyramid sampling branch: (grid flag, effective flag, both axes of the point map are CUBE_CORNERS) *)\n"
                   "Definition gen_io_pyramid_axes : list (bool * bool * bool) :=\n  [" + "; ".join(prow) + "].\n")
    out.append("End Gen.\n")
    return "\n".join(out)
