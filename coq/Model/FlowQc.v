(* Executable instance of the flow model over canonical rationals + comparison helpers for the case files. *)
From Coq Require Import ZArith QArith Qcanon List Bool.
From DV Require Import Base.Field Base.LinAlg Base.QcInst Base.QcCmp Model.Sampler Model.SamplerQc Model.Flow.
Import ListNotations.

Definition qcompose2 := compose2 (K:=QcF) floorQ.
Definition qcompose3 := compose3 (K:=QcF) floorQ.
Definition qexpv2 := expv2 (K:=QcF) floorQ.
Definition qexpv3 := expv3 (K:=QcF) floorQ.

Fixpoint all2 {X : Type} (f : X -> X -> bool) (a b : list X) : bool :=
  match a, b with
  | [], [] => true
  | x :: a', y :: b' => f x y && all2 f a' b'
  | _, _ => false
  end.
(* exact equality / closeness of 2-D and 3-D vector fields (lists of channels) *)
Definition feqb2 (a b : list (list (list Qc))) : bool := all2 meqb a b.
Definition feqb3 (a b : list (list (list (list Qc)))) : bool := all2 (all2 meqb) a b.
Definition fclose2 (tol : Q) (a b : list (list (list Qc))) : bool := all2 (mcloser tol) a b.
Definition fclose3 (tol : Q) (a b : list (list (list (list Qc)))) : bool := all2 (all2 (mcloser tol)) a b.
