"""Implementation-side runner for C06 (runs against /repo's working tree): builds real deepali transforms from
JSON case descriptions and returns what their public views compute; `oracle` evaluates the property itself."""
import json
import math
import random
import sys
import traceback
import warnings

warnings.filterwarnings("ignore")
import torch  # noqa: E402

from vlib import emit_json  # noqa: E402

from deepali.core import Axes, Grid  # noqa: E402
from deepali.core.linalg import as_homogeneous_matrix  # noqa: E402
import deepali.spatial as S  # noqa: E402

F64 = torch.float64
LINEAR = ["Translation", "EulerRotation", "QuaternionRotation", "IsotropicScaling", "AnisotropicScaling", "Shearing",
          "HomogeneousTransform", "RigidTransform", "RigidQuaternionTransform", "SimilarityTransform",
          "AffineTransform", "FullAffineTransform"]
NONRIGID = ["DisplacementFieldTransform", "StationaryVelocityFieldTransform", "FreeFormDeformation",
            "StationaryVelocityFreeFormDeformation"]


def err(e):
    return {"error": type(e).__name__, "msg": str(e)[:300]}


def mk_grid(g):
    return Grid(size=tuple(g["size"]), spacing=tuple(g["spacing"]), center=tuple(g["center"]),
                direction=tuple(tuple(r) for r in g["direction"]), align_corners=bool(g["ac"]))


def grid_out(g):
    """the attributes the grid object actually holds (float32 values, exactly convertible)"""
    return {"size": [float(v) for v in g.size()], "spacing": [float(v) for v in g.spacing()],
            "center": [float(v) for v in g.center()], "direction": [[float(v) for v in r] for r in g.direction()],
            "ac": bool(g.align_corners())}


def T(x):
    return torch.tensor(x, dtype=F64)


def mk_linear(c, g):
    """elementary / composite linear transform with plain-tensor parameters (angles, scales ... are the parameters)"""
    cls = getattr(S, c["cls"])
    p = c["params"]
    if c["cls"] in ("RigidTransform", "RigidQuaternionTransform"):
        return cls(g, rotation=T(p["rotation"]), translation=T(p["translation"]))
    if c["cls"] in ("SimilarityTransform", "AffineTransform"):
        return cls(g, scaling=T(p["scaling"]), rotation=T(p["rotation"]), translation=T(p["translation"]))
    if c["cls"] == "FullAffineTransform":
        return cls(g, scaling=T(p["scaling"]), shearing=T(p["shearing"]), rotation=T(p["rotation"]), translation=T(p["translation"]))
    if c["cls"] == "EulerRotation":
        return cls(g, params=T(p), order=c.get("order"))
    return cls(g, params=T(p))


def lin_tensor(t):
    with torch.no_grad():
        return t.tensor().detach().to(F64)


def case_fresh(c):
    g = mk_grid(c["grid"])
    t = getattr(S, c["cls"])(g, groups=c.get("groups", 1))
    m = lin_tensor(t)
    return {"val": m.tolist()}


def case_linear(c):
    g = mk_grid(c["grid"])
    t = mk_linear(c, g)
    out = {"grid": grid_out(g)}
    with torch.no_grad():
        m = lin_tensor(t)
        out["M"] = m.tolist()
        pts = T(c["points"])                      # (Np, M, D), Np in {1, N}
        out["fwd"] = t(pts).tolist()
        out["fwd_grid"] = t(pts.unsqueeze(1) if g.ndim == 2 else pts.unsqueeze(1).unsqueeze(1), grid=True).reshape(-1, pts.shape[1], g.ndim).tolist()
        if hasattr(t, "matrix"):
            out["matrix"] = t.matrix().to(F64).tolist()
        else:
            out["matrix"] = as_homogeneous_matrix(t.tensor()).to(F64).tolist()
        d = t.disp().to(F64)                       # (N, D, ..., X)
        out["disp"] = [[d[(k, slice(None)) + tuple(reversed(idx))].tolist() for idx in c["lattice"]] for k in range(d.shape[0])]
        fl = t.flow()
        out["flow_ok"] = bool(torch.equal(fl.tensor().to(F64), d)) and fl.grid() == g
        if c.get("disp_grid"):
            g3 = mk_grid(c["disp_grid"])
            d3 = t.disp(g3).to(F64)
            out["disp_grid"] = grid_out(g3)
            out["disp_other"] = [[d3[(k, slice(None)) + tuple(reversed(idx))].tolist() for idx in c["lattice_other"]] for k in range(d3.shape[0])]
        if c.get("disp_any"):
            g4 = mk_grid(c["disp_any"])
            d4 = t.disp(g4).to(F64)
            out["disp_any_grid"] = grid_out(g4)
            out["disp_any"] = [[d4[(k, slice(None)) + tuple(reversed(idx))].tolist() for idx in c["lattice_any"]] for k in range(d4.shape[0])]
        out["points_world"] = t.points(T(c["world_points"]), axes=Axes.WORLD).tolist()
        pa = c["points_api"]
        g1 = mk_grid(pa["grid"]) if pa.get("grid") else None
        g2 = mk_grid(pa["to_grid"]) if pa.get("to_grid") else None
        ax, tax = Axes(pa["axes"]), Axes(pa["to_axes"])
        out["g1"] = grid_out(g1) if g1 is not None else None
        out["g2"] = grid_out(g2) if g2 is not None else None
        out["points_api"] = t.points(T(pa["x"]), grid=g1, axes=ax, to_grid=g2, to_axes=tax).tolist()
        pst = S.PointSetTransformer(t, grid=g1, axes=ax, to_grid=g2, to_axes=tax)
        out["pst"] = pst(T(pa["x"])).tolist()
        out["oracle"] = c.get("oracle_fns") and oracle_fns(c)
    return out


def oracle_fns(c):
    """already-evaluated transcendental re-parameterisations of the stored parameters (cos, sin, tan, quaternion norm)"""
    p = c["params"]
    if c["cls"] == "EulerRotation":
        a = T(p)
        return {"cos": torch.cos(a).tolist(), "sin": torch.sin(a).tolist()}
    if c["cls"] == "Shearing":
        return {"tan": torch.tan(T(p)).tolist()}
    if c["cls"] == "QuaternionRotation":
        return {"norm": T(p).norm(dim=1).tolist()}
    return {}


def mk_member(m, g):
    if m["kind"] == "linear":
        return mk_linear(m, g)
    if m["kind"] == "disp":
        return S.DisplacementFieldTransform(g, params=T(m["u"]))
    raise ValueError(m["kind"])


def case_composite(c):
    g = mk_grid(c["grid"])

    def build():
        members = [mk_member(m, g) for m in c["members"]]
        comp = getattr(S, c["cls"])(g, *members) if members else getattr(S, c["cls"])(g)
        comp.update()
        return members, comp
    out = {"grid": grid_out(g)}
    with torch.no_grad():
        pts = T(c["points"])
        members, comp = build()
        out["member_tensors"] = [lin_tensor(m)[0].tolist() if m.linear else None for m in members]
        out["member_fwd"] = [m(pts).tolist() for m in members]
        out["linear"] = bool(comp.linear)
        # every evaluation on a freshly built composite: MultiLevelTransform.tensor() may overwrite its first member,
        # so a second evaluation of the same object would already see different parameters
        if comp.linear:
            members, comp = build()
            out["tensor"] = lin_tensor(comp)[0].clone().tolist()
        members, comp = build()
        before = [m.tensor().detach().clone() for m in members]
        out["fwd"] = comp(pts).tolist()
        after = [m.tensor().detach() for m in members]
        out["members_modified"] = [not torch.equal(a, b) for a, b in zip(before, after)]
    return out


def nonrigid(c, g):
    cls = getattr(S, c["cls"])
    kw = {}
    for k in ("stride", "steps", "resize"):
        if k in c:
            kw[k] = c[k]
    if "param_seed" in c:
        # parameters of whatever shape the class derives from (grid, stride): seeded dyadic values (exact in float32)
        t = cls(g, groups=c.get("N", 1), **kw)
        gen = torch.Generator().manual_seed(int(c["param_seed"]))
        with torch.no_grad():
            t.params.copy_(torch.randint(-8, 9, t.params.shape, generator=gen).to(torch.float32) / 32)
        return t
    return cls(g, params=torch.tensor(c["params"], dtype=torch.float32), **kw)   # B-spline kernels are float32


def case_nonrigid(c):
    g = mk_grid(c["grid"])
    t = nonrigid(c, g)
    out = {"grid": grid_out(g)}
    with torch.no_grad():
        t.update()
        u = t.tensor().to(F64)
        out["u"] = u.tolist()
        pts = T(c["points"])
        out["fwd"] = t(pts).tolist()
        d = t.disp().to(F64)
        out["disp_is_u"] = bool(d.shape == u.shape and torch.equal(d, u))
        out["disp_own"] = d.tolist()
        out["flow_is_disp"] = bool(torch.equal(t.flow().tensor().to(F64), d))
        xl = g.coords().to(F64).unsqueeze(0)
        out["own_lattice_fwd"] = t(xl).tolist()
        out["own_lattice"] = xl[0].tolist()
        if c.get("resize_to"):
            g2 = g.resize(tuple(c["resize_to"]))
            out["disp_resized"] = t.disp(g2).to(F64).tolist()
            out["resized_grid"] = grid_out(g2)
            x = g2.coords(align_corners=g.align_corners()).to(F64).unsqueeze(0)
            out["fwd_grid"] = t(x, grid=True).tolist()
            out["lattice"] = x[0].tolist()
            out["fwd_points_at_lattice"] = t(x).tolist()
        out["points_world"] = t.points(T(c["world_points"]), axes=Axes.WORLD).tolist()
        if c.get("disp_any"):
            g4 = mk_grid(c["disp_any"])
            d4 = t.disp(g4).to(F64)
            out["disp_any_grid"] = grid_out(g4)
            out["disp_any"] = [[d4[(k, slice(None)) + tuple(reversed(idx))].tolist() for idx in c["lattice_any"]] for k in range(d4.shape[0])]
    return out


def case_warp(c):
    g = mk_grid(c["grid"])
    tg = mk_grid(c["target"])
    src = mk_grid(c["source"])
    t = mk_linear(c["transform"], g) if c["transform"]["kind"] == "linear" else nonrigid(c["transform"], g)
    out = {"grid": grid_out(g), "target": grid_out(tg), "source": grid_out(src)}
    with torch.no_grad():
        t.update()
        if t.linear:
            out["M"] = lin_tensor(t).tolist()
        else:
            out["u"] = t.tensor().to(F64).tolist()
        it = S.ImageTransformer(t, target=tg, source=src, padding=c["padding"])
        img = T(c["image"])                       # (N, 1, ..., X)
        res = it(img).to(F64)
        out["out"] = res.tolist()
    return out


def case_seqgrid(c):
    """SequentialTransform(linear, displacement field): lattice with and without grid=True, and ImageTransformer"""
    g = mk_grid(c["grid"])
    lin = mk_linear(c["linear"], g)
    ddf = S.DisplacementFieldTransform(g, params=torch.tensor(c["u"], dtype=torch.float32))
    seq = S.SequentialTransform(g, lin, ddf)
    out = {"grid": grid_out(g)}
    with torch.no_grad():
        seq.update()
        out["M"] = lin_tensor(lin).tolist()
        out["u"] = ddf.tensor().to(F64).tolist()
        x = g.coords().to(F64).unsqueeze(0)
        out["lattice"] = x[0].tolist()
        out["fwd"] = seq(x)[0].tolist()
        out["fwd_grid"] = seq(x, grid=True)[0].tolist()
        tg, src = mk_grid(c["target"]), mk_grid(c["source"])
        out["target"], out["source"] = grid_out(tg), grid_out(src)
        it = S.ImageTransformer(seq, target=tg, source=src, padding=c["padding"])
        out["out"] = it(T(c["image"])).to(F64).tolist()
    return out


KINDS = {"seqgrid": case_seqgrid, "fresh": case_fresh, "linear": case_linear, "composite": case_composite, "nonrigid": case_nonrigid, "warp": case_warp}


def run_cases(p):
    res = []
    for c in p["cases"]:
        try:
            res.append(KINDS[c["kind"]](c))
        except Exception as e:  # noqa
            r = err(e)
            r["trace"] = traceback.format_exc(limit=3)[-500:]
            res.append(r)
    return res


# ------------------------------------------------------------------------------------------------
# the property itself, evaluated on the implementation
# ------------------------------------------------------------------------------------------------
def rgrid(rng, D, ac=None):
    size = [rng.randint(3, 9) for _ in range(D)]
    spacing = [rng.choice([0.5, 0.75, 1.0, 1.5, 2.0]) for _ in range(D)]
    center = [rng.randint(-8, 8) / 4 for _ in range(D)]
    if D == 2:
        c, s = rng.choice([(1.0, 0.0), (0.6, 0.8), (0.0, 1.0), (-0.8, 0.6), (5 / 13, -12 / 13)])
        d = [[c, -s], [s, c]]
    else:
        q = [rng.choice([0, 1, -1, 2]) for _ in range(4)]
        if not any(q):
            q = [1, 0, 0, 0]
        n = math.sqrt(sum(v * v for v in q))
        w, x, y, z = [v / n for v in q]
        d = [[1 - 2 * (y * y + z * z), 2 * (x * y - z * w), 2 * (x * z + y * w)],
             [2 * (x * y + z * w), 1 - 2 * (x * x + z * z), 2 * (y * z - x * w)],
             [2 * (x * z - y * w), 2 * (y * z + x * w), 1 - 2 * (x * x + y * y)]]
    return Grid(size=size, spacing=spacing, center=center, direction=d, align_corners=rng.random() < 0.5 if ac is None else ac)


def rand_transform(rng, name, g, groups=1, parameter=True):
    """random parameters in the documented ranges; parameter=True: optimisable Parameters (re-parameterised)"""
    D = g.ndim
    cls = getattr(S, name)
    gen = torch.Generator().manual_seed(rng.randrange(1 << 30))

    def r(*shape, lo=-1.0, hi=1.0):
        return torch.rand(*shape, generator=gen, dtype=torch.float32) * (hi - lo) + lo
    if name in NONRIGID:
        if "FreeForm" in name:
            g = g.align_corners(True)
            t = cls(g, groups=groups, stride=rng.choice([1, 2, 3]))
        else:
            # coarse parameter lattice (stride > 1), buffer resized to the grid or kept coarse
            # (a buffer with a single sample along an axis is degenerate: Grid.reshape to one sample cannot align corners)
            smax = min(int(v) for v in g.size()) - 1
            t = cls(g, groups=groups, stride=min(rng.choice([1, 2, 2, 3]), smax), resize=rng.random() < 0.5)
        with torch.no_grad():
            t.params.copy_(r(*t.params.shape, lo=-0.12, hi=0.12))
        return t
    if name == "GenericSpatialTransform":
        return None
    t = cls(g, groups=groups)
    with torch.no_grad():
        for p in t.parameters():
            if name == "HomogeneousTransform":
                eye = torch.eye(D, D + 1).unsqueeze(0)
                p.copy_(eye + r(*p.shape, lo=-0.3, hi=0.3))
            elif name in ("QuaternionRotation",) or (name == "RigidQuaternionTransform" and p.shape[-1] == 4):
                p.copy_(r(*p.shape) + torch.tensor([1.5, 0, 0, 0]))
            else:
                p.copy_(p + r(*p.shape, lo=-0.8, hi=0.8))
    return t


def world_map_reference(t, g, xw):
    """the ONE world map: world -> own cube -> forward -> world, computed with float64 grid maps"""
    xc = g.transform_points(xw, Axes.WORLD, to_axes=t.axes(), decimals=None)
    yc = t(xc)
    return g.transform_points(yc, t.axes(), to_axes=Axes.WORLD, decimals=None)


def oracle(p):
    rng = random.Random(p["seed"])
    n = p["n"]
    fails = []
    counts = {}

    def note(k):
        counts[k] = counts.get(k, 0) + 1

    def fail(key, what, **data):
        fails.append({"key": key, "what": what, "data": data})
    names = LINEAR + NONRIGID
    tol = 2e-4
    # ---- 1. fresh is identity (every class, every admissible D, groups 1 and N)
    for name in names:
        for D in (2, 3):
            for groups in (1, 3):
                g = rgrid(rng, D, ac=True if "FreeForm" in name else None)
                try:
                    t = getattr(S, name)(g, groups=groups)
                except ValueError as e:
                    if "dimensional" in str(e):
                        continue
                    fail(f"C06:{name}.__init__:raises", f"{name}(grid) raises {type(e).__name__}: {e}", D=D)
                    continue
                x = torch.rand(1, 7, D) * 2 - 1
                try:
                    with torch.no_grad():
                        y = t(x)
                    dev = float((y - x).abs().max())
                    note("fresh")
                    if dev > tol:
                        fail(f"C06:{name}.reset_parameters:default-not-identity",
                             f"freshly constructed {name} (D={D}, groups={groups}) moves points by up to {dev:.3g} cube units "
                             f"(tensor() = {t.tensor()[0].tolist()})", cls=name, D=D)
                except Exception as e:  # noqa
                    fail(f"C06:{name}:fresh:raises", f"fresh {name}(x) raises {type(e).__name__}: {e}", D=D)
    # generic configurable transform (spatial/generic.py): fresh identity, composition order = matrix notation of
    # affine_model (right-most letter applied first), "A o B" applies B first
    try:
        from deepali.spatial.generic import GenericSpatialTransform, TransformConfig, AFFINE_NAMES
        for D in (2, 3):
            for model, aff in (("Affine", "TRS"), ("Affine", "A"), ("Affine o SVF", "TRS"), ("SVF o Affine", "TR"), ("DDF", "T"),
                               ("FFD", "T"), ("Affine o SVFFD", "KS"), ("Affine", "TQ"), ("Affine", "T o R o S"), ("Affine o DDF", "TKRS")):
                if "Q" in aff and D == 2:
                    continue
                g = rgrid(rng, D, ac=True)
                try:
                    cfg = TransformConfig(transform=model, affine_model=aff, scaling_and_squaring_steps=4)
                    t = GenericSpatialTransform(g, params=True, config=cfg)
                    with torch.no_grad():
                        t.update()
                        x = torch.rand(1, 5, D) * 1.6 - 0.8
                        y = t(x)
                    dev = float((y - x).abs().max())
                    note("fresh-generic")
                    if dev > tol:
                        which = ":quaternion" if "Q" in aff else (":homogeneous" if "A" in aff.replace(" o ", "") else "")
                        fail("C06:GenericSpatialTransform:fresh:not-identity" + which,
                             f"fresh GenericSpatialTransform(transform={model!r}, affine_model={aff!r}, D={D}) moves points by {dev:.3g}", model=model, aff=aff, D=D)
                    # listed order
                    letters = [c for c in aff.replace(" o ", "")]
                    exp_names = [AFFINE_NAMES[c] for c in reversed(letters)] if "Affine" in model else []
                    comps = model.split(" o ")
                    if len(comps) == 2:
                        exp_names = (exp_names + ["nonrigid"]) if comps[-1] == "Affine" else (["nonrigid"] + exp_names)
                    elif comps[0] != "Affine":
                        exp_names = ["nonrigid"]
                    got = [nm for nm, _ in t.named_transforms()]
                    if got != exp_names:
                        fail("C06:GenericSpatialTransform:order-of-composition", f"GenericSpatialTransform({model!r}, {aff!r}) composes {got}, notation says {exp_names}", model=model, aff=aff)
                    # random parameters: composite == members applied in listed order
                    with torch.no_grad():
                        for prm in t.parameters():
                            if prm.shape[-1] == 4 and prm.ndim == 2:
                                prm.copy_(torch.rand_like(prm) + torch.tensor([1.5, 0, 0, 0]))
                            elif prm.ndim == 3 and prm.shape[1:] == (D, D + 1):
                                prm.copy_(torch.eye(D, D + 1).unsqueeze(0) + 0.2 * (torch.rand_like(prm) - 0.5))
                            else:
                                prm.copy_(prm + 0.2 * (torch.rand_like(prm) - 0.5))
                        t.update()
                        y = t(x)
                        ref = x
                        for m in t.transforms():
                            ref = m(ref)
                        dd = float((y - ref).abs().max())
                        if dd > tol:
                            fail("C06:GenericSpatialTransform.forward:order", f"GenericSpatialTransform({model!r}, {aff!r}) differs from its members applied in listed order by {dd:.3g}", model=model, aff=aff)
                except Exception as e:  # noqa
                    fail(f"C06:GenericSpatialTransform:raises:{type(e).__name__}", f"GenericSpatialTransform({model!r}, {aff!r}, D={D}) raises {type(e).__name__}: {str(e)[:160]}", model=model, aff=aff, D=D)
        # parameters given as a Mapping {member name: tensor}: same map as the members holding those tensors
        for D in (2, 3):
            for model, aff in (("Affine", "TRS"), ("Affine o DDF", "TK"), ("SVF", "T")):
                g = rgrid(rng, D, ac=True)
                try:
                    cfg = TransformConfig(transform=model, affine_model=aff, scaling_and_squaring_steps=3)
                    # reference: members holding plain (non-optimisable) tensors, which is what a Mapping of tensors provides
                    ref_t = GenericSpatialTransform(g, params=False, config=cfg)
                    with torch.no_grad():
                        for nm, m in ref_t.named_transforms():
                            p0 = m.data()
                            m.data_((1.0 if nm == "scaling" else 0.0) + 0.2 * (torch.rand_like(p0) - 0.5))
                        mapping = {nm: m.data().detach().clone() for nm, m in ref_t.named_transforms()}
                        ref_t.update()
                        x = torch.rand(1, 5, D) * 1.2 - 0.6
                        yref = ref_t(x)
                    note("generic-mapping")
                    try:
                        t2 = GenericSpatialTransform(g, params=mapping, config=cfg)
                        with torch.no_grad():
                            t2.update()
                            dd = float((t2(x) - yref).abs().max())
                        if dd > tol:
                            fail("C06:GenericSpatialTransform.__init__:params-mapping:differs", f"GenericSpatialTransform({model!r}, {aff!r}, params=<Mapping>) differs from the "
                                 f"transform whose members hold the same tensors by {dd:.3g}", model=model, aff=aff, D=D)
                    except Exception as e:  # noqa
                        fail(f"C06:GenericSpatialTransform.__init__:params-mapping:raises:{type(e).__name__}",
                             f"GenericSpatialTransform(grid, params=<Mapping of member tensors>, transform={model!r}, affine_model={aff!r}) raises "
                             f"{type(e).__name__}: {str(e)[:160]}", model=model, aff=aff, D=D)
                except Exception as e:  # noqa
                    fail(f"C06:GenericSpatialTransform:raises:{type(e).__name__}", f"GenericSpatialTransform({model!r}, {aff!r}, D={D}) raises {type(e).__name__}: {str(e)[:160]}", model=model, aff=aff, D=D)
    except ImportError as e:
        fail("C06:GenericSpatialTransform:import", f"spatial/generic.py cannot be imported: {e}")
    # ---- 2. views agree, random parameters
    for i in range(n):
        name = names[i % len(names)]
        D = rng.choice([2, 3])
        if name in ("QuaternionRotation", "RigidQuaternionTransform"):
            D = 3
        g = rgrid(rng, D)
        groups = rng.choice([1, 1, 2])
        t = rand_transform(rng, name, g, groups)
        g = t.grid()
        try:
            with torch.no_grad():
                t.update()
                x = (torch.rand(groups if rng.random() < 0.5 else 1, 6, D) * 1.6 - 0.8).to(torch.float32)
                y = t(x)
                # (a) dense field on the own grid: x + disp(x) at lattice points == transform(lattice points)
                xg = g.coords().unsqueeze(0)
                d = t.disp()
                yg = t(xg)
                dd = float((xg + d.movedim(1, -1) - yg).abs().max())
                note("views")
                if dd > tol:
                    fail(f"C06:{name}.disp:own-grid:differs-from-point-map", f"{name}: x + disp()(x) differs from transform(x) at own lattice points by {dd:.3g}", cls=name, D=D)
                yg2 = t(xg, grid=True)
                dd = float((yg2 - yg).abs().max())
                if dd > tol:
                    fail(f"C06:{name}.forward:grid-flag:differs", f"{name}: transform(lattice, grid=True) differs from transform(lattice) by {dd:.3g}", cls=name, D=D)
                # (b) matrix
                if t.linear:
                    m = as_homogeneous_matrix(t.tensor())
                    ym = torch.einsum("nij,nmj->nmi", m[:, :, :D].expand(y.shape[0], D, D), x.expand(y.shape[0], 6, D)) + m[:, :, D].unsqueeze(1)
                    dd = float((ym - y).abs().max())
                    if dd > tol:
                        fail(f"C06:{name}.tensor:differs-from-point-map", f"{name}: matrix applied to points differs from transform(points) by {dd:.3g}", cls=name, D=D)
                # (c) world-axes API and PointSetTransformer
                xw = g.transform_points(x.double(), t.axes(), to_axes=Axes.WORLD, decimals=None).float()
                yw = t.points(xw, axes=Axes.WORLD)
                ref = g.transform_points(y.double(), t.axes(), to_axes=Axes.WORLD, decimals=None).float()
                scale = 1 + float(ref.abs().max())
                dd = float((yw - ref).abs().max()) / scale
                if dd > tol:
                    fail("C06:SpatialTransform.points:world-axes:differs:" + ("linear" if t.linear else "nonrigid"), f"{name}: points(axes=WORLD) differs from the world map by {dd:.3g} (relative)", cls=name, D=D)
                g2 = rgrid(rng, D)
                pst = S.PointSetTransformer(t, axes=Axes.WORLD, to_grid=g2, to_axes=Axes.GRID)
                yi = pst(xw)
                refi = g2.transform_points(ref.double(), Axes.WORLD, to_axes=Axes.GRID, decimals=None).float()
                yi2 = t.points(xw, axes=Axes.WORLD, to_grid=g2, to_axes=Axes.GRID)
                dd = float((yi2 - refi).abs().max()) / (1 + float(refi.abs().max()))
                if dd > tol:
                    fail("C06:SpatialTransform.points:to-other-grid:differs:" + ("linear" if t.linear else "nonrigid"), f"{name}: points(axes=WORLD, to_grid=other, to_axes=GRID) differs from the world map by {dd:.3g}", cls=name, D=D)
                # input given w.r.t. another grid's index coordinates
                xi3 = g2.transform_points(xw.double(), Axes.WORLD, to_axes=Axes.GRID, decimals=None).float()
                yw3 = t.points(xi3, grid=g2, axes=Axes.GRID, to_grid=g, to_axes=Axes.WORLD)
                dd = float((yw3 - ref).abs().max()) / scale
                if dd > 5 * tol:
                    fail("C06:SpatialTransform.points:from-other-grid:differs:" + ("linear" if t.linear else "nonrigid"), f"{name}: points(grid=other, axes=GRID, to_axes=WORLD) differs from the world map by {dd:.3g}", cls=name, D=D)
                dd = float((yi - refi).abs().max()) / (1 + float(refi.abs().max()))
                if dd > tol:
                    fail(f"C06:PointSetTransformer:{name}:differs", f"PointSetTransformer({name}, WORLD -> other grid GRID) differs from the world map by {dd:.3g}", cls=name, D=D)
                # (d) dense field on ANOTHER grid (different domain / flag) must describe the same world map
                for kind in ("other-domain", "other-flag", "same-domain-resized"):
                    if "FreeForm" in name and kind == "other-flag":
                        pass
                    if kind == "other-domain":
                        go = Grid(size=[int(v) + 2 for v in g.size()], spacing=g.spacing(), center=g.center() + g.spacing(), direction=g.direction(),
                                  align_corners=g.align_corners())
                    elif kind == "other-flag":
                        go = g.align_corners(not g.align_corners())
                    else:
                        go = g.resize([max(2, int(v) * 2 - 1) for v in g.size()])
                    fo = t.flow(go)
                    if not t.linear and kind == "same-domain-resized" and fo.tensor().shape[0] == groups:
                        # whole lattice, including the half-sample band outside the hull of the sample centres
                        xo_ = go.coords().unsqueeze(0)
                        dd_ = float((xo_ + fo.tensor().movedim(1, -1) - t(xo_)).abs().max())
                        if dd_ > 2e-3:
                            fail("C06:SpatialTransform.disp:nonrigid:same-domain-resized-grid:boundary-band",
                                 f"{name}: x + disp(grid)(x) differs from transform(x) by {dd_:.3g} cube units at lattice points of a same-domain grid of another "
                                 f"size (field resampled with zero padding, points mapped with border replication)", cls=name, D=D)
                    if fo.tensor().shape[0] != groups:
                        fail("C06:SpatialTransform.disp:nonrigid:other-grid:groups-truncated",
                             f"{name}(groups={groups}).disp(grid) on a {kind} grid returns {fo.tensor().shape[0]} field(s) instead of {groups}", cls=name, D=D, kind=kind)
                        continue
                    xo = go.coords().unsqueeze(0)
                    yo = xo + fo.tensor().movedim(1, -1)
                    xow = go.transform_points(xo.double(), go.axes(), to_axes=Axes.WORLD, decimals=None)
                    yow = go.transform_points(yo.double(), go.axes(), to_axes=Axes.WORLD, decimals=None)
                    refw = world_map_reference(t, g, xow.float()).double()
                    # compare only where T(x) stays inside the transform domain (non-rigid fields are border-extended)
                    # non-rigid fields: compare inside the hull of the sample centres only (beyond it the views use different
                    # extrapolation conventions: border replication for points, the sampler's padding for resampled fields)
                    nmin = min(int(v) for v in g.size()) if t.linear else min(int(v) for v in t.tensor().shape[2:])   # coarse buffers: fewer sample centres
                    band = 1.0 - 1.5 / float(nmin)
                    inside = (g.transform_points(xow, Axes.WORLD, to_axes=Axes.CUBE, decimals=None).abs().amax(-1) < band)
                    if t.linear:
                        inside = torch.ones_like(inside)
                    if inside.any():
                        dd = float(((yow - refw).abs().amax(-1) * inside).max()) / (1 + float(refw.abs().max()))
                        lim = tol if t.linear else 2e-3
                        note("disp-" + kind)
                        if dd > lim:
                            k = "linear" if t.linear else "nonrigid"
                            site = "CompositeTransform.disp" if isinstance(t, S.CompositeTransform) else "SpatialTransform.disp"
                            fail(f"C06:{site}:{k}:{kind}-grid", f"{name}: disp(grid) on a {kind} grid describes a different world map "
                                 f"(max deviation {dd:.3g} relative)", cls=name, D=D, kind=kind)
        except Exception as e:  # noqa
            fail(f"C06:{name}:views:raises:{type(e).__name__}", f"{name}: evaluating the views raises {type(e).__name__}: {str(e)[:200]}", cls=name, D=D,
                 trace=traceback.format_exc(limit=2)[-400:])
    # ---- 2a. PointSetTransformer / points() argument defaults: omitted to_grid = the INPUT grid, omitted to_axes = the input axes
    for i in range(max(8, n // 8)):
        name = (LINEAR + NONRIGID)[(3 * i) % len(names)]
        D = 3 if name in ("QuaternionRotation", "RigidQuaternionTransform") else rng.choice([2, 3])
        g = rgrid(rng, D, ac=True if "FreeForm" in name else None)
        t = rand_transform(rng, name, g, 1)
        g = t.grid()
        gin = rgrid(rng, D)
        try:
            with torch.no_grad():
                t.update()
                for ax, tax in ((Axes.GRID, None), (Axes.CUBE, None), (Axes.CUBE_CORNERS, Axes.GRID), (Axes.GRID, Axes.CUBE), (Axes.WORLD, Axes.CUBE_CORNERS)):
                    xw = g.transform_points((torch.rand(1, 5, D) * 1.4 - 0.7).double(), t.axes(), to_axes=Axes.WORLD, decimals=None)
                    xin = gin.transform_points(xw, Axes.WORLD, to_axes=ax, decimals=None).float()
                    yw = world_map_reference(t, g, xw.float()).double()
                    ref = gin.transform_points(yw, Axes.WORLD, to_axes=tax if tax is not None else ax, decimals=None).float()   # w.r.t. the INPUT grid
                    scale = 1 + float(ref.abs().max())
                    note("arg-defaults")
                    for site, got in (("PointSetTransformer.__init__", S.PointSetTransformer(t, grid=gin, axes=ax, to_axes=tax)(xin)),
                                      ("SpatialTransform.points", t.points(xin, grid=gin, axes=ax, to_axes=tax))):
                        dd = float((got - ref).abs().max()) / scale
                        if dd > 5 * tol:
                            fail(f"C06:{site}:to_grid-default:not-the-input-grid",
                                 f"{site.split('.')[0]}({name}, grid=G, axes={ax.value}, to_axes={getattr(tax, 'value', None)}) with to_grid omitted: output is not expressed "
                                 f"w.r.t. the input grid G (deviation {dd:.3g} relative)", cls=name, D=D, axes=ax.value)
        except Exception as e:  # noqa
            fail(f"C06:{name}:arg-defaults:raises:{type(e).__name__}", f"{name}: PointSetTransformer/points with omitted to_grid raises {type(e).__name__}: {str(e)[:200]}", cls=name, D=D)
    # ---- 2c. the views still agree after state-changing setters on buffered (already evaluated) transforms: data_, grid_, condition_
    for name in NONRIGID + ["Translation", "AffineTransform"]:
        for D in (2, 3):
            for pkind in ("parameter", "tensor", "callable"):
                ff = "FreeForm" in name
                g = rgrid(rng, D, ac=True if ff else None)
                g = Grid(size=[int(v) + 3 for v in g.size()], spacing=g.spacing(), center=g.center(), direction=g.direction(), align_corners=g.align_corners())
                try:
                    cls = getattr(S, name)
                    if name == "AffineTransform":
                        if pkind != "parameter":
                            continue
                        t = cls(g)
                        holders = [t.translation, t.rotation, t.scaling]
                    else:
                        t = cls(g, params=(lambda a: a) if pkind == "callable" else (pkind == "parameter"))
                        holders = [t]
                    shapes = [(1,) + tuple(h.data_shape) for h in holders]

                    def newp(k):
                        base_ = 1.0 if name == "AffineTransform" and k == 2 else 0.0
                        return base_ + (torch.rand(shapes[k]) - 0.5) * 0.2
                    with torch.no_grad():
                        if pkind == "callable":
                            t.condition_(newp(0))
                        else:
                            for k, h in enumerate(holders):
                                h.data_(newp(k))
                        t.update()
                        xg = g.coords().unsqueeze(0)
                        t(xg)                                   # evaluated once: buffers exist
                        setters = ["condition_"] if pkind == "callable" else ["data_"] + (["grid_"] if not t.linear else [])
                        for setter in setters:
                            if setter == "data_":
                                for k, h in enumerate(holders):
                                    h.data_(newp(k))
                            elif setter == "condition_":
                                t.condition_(newp(0))
                            else:
                                g2 = g.resize([int(v) * 2 - 1 for v in g.size()])
                                t.grid_(g2)
                                g = t.grid()
                                xg = g.coords().unsqueeze(0)
                            # views queried BEFORE the transform is called again (the call refreshes the buffers)
                            d = t.disp()
                            fl = t.flow().tensor()
                            ten = t.tensor()
                            xw = g.transform_points(xg.double(), t.axes(), to_axes=Axes.WORLD, decimals=None).float()
                            pw = t.points(xw, axes=Axes.WORLD)
                            y = t(xg)
                            yw = g.transform_points(y.double(), t.axes(), to_axes=Axes.WORLD, decimals=None).float()
                            note("setter-" + setter)
                            devs = {"disp": float((xg + d.movedim(1, -1) - y).abs().max()), "flow": float((xg + fl.movedim(1, -1) - y).abs().max()),
                                    "points": float((pw - yw).abs().max()) / (1 + float(yw.abs().max()))}
                            if not t.linear:
                                devs["tensor"] = float((ten - t.tensor()).abs().max())
                            bad = {k_: v_ for k_, v_ in devs.items() if v_ > tol}
                            if bad:
                                site = "ParametricTransform." + setter if setter != "condition_" else "SpatialTransform.condition_"
                                fail(f"C06:{site}:{'linear' if t.linear else 'nonrigid'}:{pkind}:views-stale",
                                     f"{name} (params: {pkind}, D={D}) evaluated once, then {setter}(...): {sorted(bad)} still describe the old state "
                                     f"while transform(x) describes the new one (deviations {bad})", cls=name, D=D, setter=setter, pkind=pkind)
                except Exception as e:  # noqa
                    fail(f"C06:{name}:setter:raises:{type(e).__name__}", f"{name} (params: {pkind}, D={D}): views after setters raise {type(e).__name__}: {str(e)[:200]}",
                         cls=name, D=D, trace=traceback.format_exc(limit=2)[-300:])
    # ---- 2b. coarse parameter lattices: stride > 1 x resize x align_corners x class, own-grid disp()/flow()/tensor() vs the point map
    for name in NONRIGID:
        ff = "FreeForm" in name
        for D in (2, 3):
            for stride in (2, 3):
                for resize in ((None,) if ff else (False, True)):
                    for ac in ((True,) if ff else (False, True)):
                        g = Grid(size=[rng.randint(6, 9) for _ in range(D)], spacing=[rng.choice([0.5, 1.0, 2.0]) for _ in range(D)], align_corners=ac)
                        try:
                            kw = {"stride": stride} if ff else {"stride": stride, "resize": resize}
                            t = getattr(S, name)(g, **kw)
                            with torch.no_grad():
                                t.params.copy_((torch.rand(t.params.shape) - 0.5) * 0.2)
                                t.update()
                                xg = g.coords().unsqueeze(0)
                                yp = t(xg)
                                d = t.disp()
                                note("strided")
                                cfg = f"stride={stride}, resize={resize}, align_corners={ac}, D={D}"
                                if tuple(d.shape[2:]) != tuple(g.shape):
                                    fail(f"C06:{name}.disp:own-grid:shape", f"{name}({cfg}).disp() has shape {tuple(d.shape)}", cls=name)
                                    continue
                                dd = float((xg + d.movedim(1, -1) - yp).abs().max())
                                if dd > 1e-4:
                                    kind = "coarse-buffer" if tuple(t.tensor().shape[2:]) != tuple(g.shape) else "resized-buffer"
                                    fail(f"C06:SpatialTransform.disp:nonrigid:own-grid:{kind}:differs-from-point-map",
                                         f"{name}({cfg}): x + disp()(x) differs from transform(x) at the own lattice points by {dd:.3g} cube units", cls=name, cfg=cfg)
                                if not torch.equal(t.flow().tensor(), d):
                                    fail(f"C06:{name}.flow:differs-from-disp", f"{name}({cfg}): flow().tensor() is not disp()", cls=name)
                                dd = float((t(xg, grid=True) - yp).abs().max())
                                if dd > 1e-4:
                                    fail(f"C06:SpatialTransform.forward:nonrigid:grid-flag:differs", f"{name}({cfg}): transform(lattice, grid=True) differs from transform(lattice) by {dd:.3g}", cls=name, cfg=cfg)
                        except Exception as e:  # noqa
                            fail(f"C06:{name}:strided:raises:{type(e).__name__}", f"{name}(stride={stride}, resize={resize}, ac={ac}, D={D}) raises {type(e).__name__}: {str(e)[:200]}", cls=name)
    # ---- 3. composites
    for i in range(max(20, n // 3)):
        D = rng.choice([2, 3])
        g = rgrid(rng, D)
        k = rng.randint(1, 5)
        pool = [c for c in LINEAR[:7] if D == 3 or c != "QuaternionRotation"]
        with_nr = rng.random() < 0.4
        mem_names = [rng.choice(pool) for _ in range(k)]
        if with_nr:
            mem_names[rng.randrange(k)] = "DisplacementFieldTransform"
        for cname in ("SequentialTransform", "MultiLevelTransform"):
            try:
                members = [rand_transform(rng, nm, g, 1, parameter=False) for nm in mem_names]
                for m in members:
                    for prm in m.parameters():
                        prm.requires_grad_(False)
                comp = getattr(S, cname)(g, *members)
                with torch.no_grad():
                    comp.update()
                    x = torch.rand(1, 6, D) * 1.2 - 0.6
                    snap = [m.tensor().clone() for m in members]
                    y = comp(x)
                    changed = [j for j, (m, s0) in enumerate(zip(members, snap)) if not torch.equal(m.tensor(), s0)]
                    for m, s0 in zip(members, snap):       # undo the in-place damage before computing the reference
                        if m.linear and not torch.equal(m.tensor(), s0):
                            m.params.copy_(s0.reshape(m.params.shape))
                    if cname == "SequentialTransform":
                        ref = x
                        for m in members:
                            ref = m(ref)
                    else:
                        ref = x + sum(m(x) - x for m in members)
                    dd = float((y - ref).abs().max())
                    note(cname + (":nonrigid" if with_nr else ":linear") + f":k={k}")
                    if dd > tol:
                        kind = "linear-members" if comp.linear else "generic"
                        what = "order" if cname == "SequentialTransform" else "not-sum-of-displacements"
                        fail(f"C06:{cname}.tensor:{kind}:{what}" if comp.linear else f"C06:{cname}.forward:{kind}:{what}",
                             f"{cname} of {mem_names}: result differs from " + ("members applied in listed order" if cname == "SequentialTransform" else "x + sum of member displacements") +
                             f" by {dd:.3g}", members=mem_names, D=D)
                    # transform(lattice, grid=True) must be transform(lattice): only the first member may treat the points as its lattice
                    xg = g.coords().unsqueeze(0)
                    dg = float((comp(xg, grid=True) - comp(xg)).abs().max())
                    if dg > tol:
                        fail(f"C06:{cname}.forward:grid-flag:later-member-treated-as-lattice",
                             f"{cname} of {mem_names}: transform(lattice, grid=True) differs from transform(lattice) by {dg:.3g} "
                             f"(a member after the first one resizes its field instead of interpolating it)", members=mem_names, D=D)
                    if changed:
                        fail(f"C06:{cname}.tensor:overwrites-member-parameters", f"{cname} of {mem_names}: evaluating the composite changed the tensor of member(s) {changed} in place",
                             members=mem_names, D=D)
            except Exception as e:  # noqa
                fail(f"C06:{cname}:raises:{type(e).__name__}", f"{cname} of {mem_names} raises {type(e).__name__}: {str(e)[:200]}", members=mem_names, D=D)
    # composites whose members have groups = N > 1, evaluated on ONE point set (batch 1): N maps of the same points, also in disp()/tensor()
    for cname in ("SequentialTransform", "MultiLevelTransform"):
        for D in (2, 3):
            for kinds in (("DisplacementFieldTransform", "Translation"), ("Translation", "DisplacementFieldTransform"), ("Translation", "AnisotropicScaling")):
                g = rgrid(rng, D)
                try:
                    members = [rand_transform(rng, nm, g, 2) for nm in kinds]
                    comp = getattr(S, cname)(g, *members)
                    with torch.no_grad():
                        comp.update()
                        x1 = torch.rand(1, 5, D) * 1.2 - 0.6
                        if cname == "SequentialTransform":
                            ref = x1
                            for m in members:
                                ref = m(ref)
                        else:
                            ref = x1 + sum(m(x1) - x1 for m in members)
                        note(cname + ":groups=2:batch-1")
                        for vn, fn in (("forward", lambda: comp(x1)), ("disp", lambda: comp.disp()), ("tensor", lambda: comp.tensor())):
                            try:
                                val = fn()
                            except Exception as e:  # noqa
                                fail(f"C06:{cname}.{vn}:{'linear' if comp.linear else 'generic'}:groups-N:batch-1-points:raises:{type(e).__name__}",
                                     f"{cname} of {list(kinds)} with groups=2, {vn}() on one point set / own grid raises {type(e).__name__}: {str(e)[:140]}",
                                     members=list(kinds), D=D)
                                continue
                            if val.shape[0] != 2:
                                fail(f"C06:{cname}.{vn}:groups-N:batch-1-points:batch-size", f"{cname} of {list(kinds)} with groups=2: {vn}() has batch size {val.shape[0]}", members=list(kinds), D=D)
                            elif vn == "forward" and float((val - ref).abs().max()) > tol:
                                fail(f"C06:{cname}.forward:groups-N:batch-1-points:differs", f"{cname} of {list(kinds)} with groups=2 on one point set differs from the member-wise "
                                     f"reference by {float((val - ref).abs().max()):.3g}", members=list(kinds), D=D)
                except Exception as e:  # noqa
                    fail(f"C06:{cname}:groups-N:raises:{type(e).__name__}", f"{cname} of {list(kinds)} with groups=2 raises {type(e).__name__}: {str(e)[:160]}", members=list(kinds), D=D)
    # all-linear multi-level composites of 3..5 levels: point map, matrix and dense field vs the member-wise sum of displacements
    for k in (3, 4, 5):
        for D in (2, 3):
            g = rgrid(rng, D)
            pool = [c for c in LINEAR[:7] if D == 3 or c != "QuaternionRotation"]
            mem_names = [rng.choice(pool) for _ in range(k)]
            try:
                members = [rand_transform(rng, nm, g, 1) for nm in mem_names]
                ml = S.MultiLevelTransform(g, *members)
                with torch.no_grad():
                    x = torch.rand(1, 6, D) * 1.2 - 0.6
                    ref = x + sum(m(x) - x for m in members)
                    m_ = as_homogeneous_matrix(ml.tensor())
                    views = {"points": ml(x), "matrix": x @ m_[0, :, :D].T + m_[0, :, D]}
                    xg = g.coords().unsqueeze(0)
                    refg = xg + sum(m(xg) - xg for m in members)
                    views["disp"] = xg + ml.disp().movedim(1, -1)
                    note(f"MultiLevelTransform:all-linear:k={k}")
                    for vn, val in views.items():
                        dd = float((val - (refg if vn == "disp" else ref)).abs().max())
                        if dd > tol:
                            fail("C06:MultiLevelTransform.tensor:linear-members:not-sum-of-displacements",
                                 f"MultiLevelTransform of {k} linear members {mem_names} (D={D}): {vn} view differs from x + sum of member displacements by {dd:.3g}",
                                 members=mem_names, D=D, view=vn)
                            break
            except Exception as e:  # noqa
                fail(f"C06:MultiLevelTransform:raises:{type(e).__name__}", f"MultiLevelTransform of {mem_names} raises {type(e).__name__}: {str(e)[:200]}", members=mem_names, D=D)
    # gradient-enabled evaluation of a multi-level composite of homogeneous members (in-place add on a Parameter)
    try:
        g = rgrid(rng, 2)
        ml = S.MultiLevelTransform(S.HomogeneousTransform(g), S.HomogeneousTransform(g))
        ml(torch.zeros(1, 1, 2))
        note("ml-grad")
    except RuntimeError as e:
        fail("C06:MultiLevelTransform.tensor:in-place-on-parameter:RuntimeError", f"MultiLevelTransform of two HomogeneousTransforms cannot be evaluated with gradients enabled: {str(e)[:120]}")
    # ---- 4. warping is the pull-back (oracle: points(axes=WORLD) + sampling the source image at that world point)
    seqs = [("RigidTransform", "DisplacementFieldTransform"), ("Translation", "StationaryVelocityFieldTransform"),
            ("AnisotropicScaling", "DisplacementFieldTransform"), ("EulerRotation", "FreeFormDeformation"),
            ("DisplacementFieldTransform", "AffineTransform")]
    for i in range(max(24, n // 3) + 2 * len(seqs)):
        name = (LINEAR + NONRIGID)[i % len(names)]
        seq = seqs[(i - max(24, n // 3)) % len(seqs)] if i >= max(24, n // 3) else None
        D = 2 if i % 3 else 3
        if name in ("QuaternionRotation", "RigidQuaternionTransform"):
            D = 3
        ac = rng.random() < 0.5 or "FreeForm" in name or (seq is not None and any("FreeForm" in s_ for s_ in seq))
        g = rgrid(rng, D, ac=ac)
        if seq is not None:
            g = Grid(size=[int(v) + 4 for v in g.size()], spacing=g.spacing(), center=g.center(), direction=g.direction(), align_corners=ac)
            t = S.SequentialTransform(g, *[rand_transform(rng, nm, g, 1) for nm in seq])
            name = "SequentialTransform[" + " -> ".join(seq) + "]"
        else:
            t = rand_transform(rng, name, g, 1)
        g = t.grid()
        kinds = ["own", "same-domain-resized", "other-domain"]
        for kind in kinds:
            if kind == "own":
                tg = g
            elif kind == "same-domain-resized":
                tg = g.resize([max(2, int(v) * 2 - 1) for v in g.size()])
            else:
                tg = Grid(size=[max(2, int(v) - 1) for v in g.size()], spacing=g.spacing(), center=g.center() + 0.5 * g.spacing(), direction=g.direction(),
                          align_corners=rng.random() < 0.5)
            src = Grid(size=[24] * D, spacing=[0.5] * D, center=[float(v) for v in g.center()], direction=rgrid(rng, D).direction(), align_corners=rng.random() < 0.5)
            try:
                with torch.no_grad():
                    t.update()
                    w = src.points()                              # world coordinates of the source samples
                    coef = torch.tensor([1.0, -0.5, 0.25][:D])
                    img = ((w * coef).sum(-1) + 0.3).unsqueeze(0).unsqueeze(0)
                    it = S.ImageTransformer(t, target=tg, source=src, padding="border")
                    out = it(img)[0, 0]
                    xw = tg.points().unsqueeze(0)
                    yw = t.points(xw, axes=Axes.WORLD)[0]
                    exp = (yw * coef).sum(-1) + 0.3
                    # only where T(x) lies inside the source image and x inside the transform domain
                    yi = src.transform_points(yw.double(), Axes.WORLD, to_axes=Axes.CUBE, decimals=None).abs().amax(-1)
                    xi = g.transform_points(xw[0].double(), Axes.WORLD, to_axes=Axes.CUBE, decimals=None).abs().amax(-1)
                    nmin = min(int(v) for v in g.size())
                    for m_ in ([t] if not isinstance(t, S.CompositeTransform) else list(t.transforms())):
                        if not m_.linear:
                            nmin = min(nmin, min(int(v) for v in m_.tensor().shape[2:]))
                    band = 1.0 - 1.5 / float(nmin)
                    ok = (yi < 0.9) & ((xi < band) | torch.tensor(bool(t.linear)))
                    note("warp-" + kind)
                    if ok.any():
                        dd = float(((out - exp).abs() * ok).max())
                        if dd > 5e-4 * (1 + float(exp.abs().max())):
                            # a sequence whose FIRST member is non-rigid shares the root cause of the plain non-rigid case
                            k = "linear" if t.linear else ("sequence" if seq is not None and seq[0] not in NONRIGID else "nonrigid")
                            fail(f"C06:ImageTransformer.forward:{k}:target-{kind}", f"ImageTransformer({name}, target={kind}): output differs from image(T(x)) by {dd:.3g} "
                                 f"(ramp image, linear interpolation)", cls=name, D=D, kind=kind)
            except Exception as e:  # noqa
                fail(f"C06:ImageTransformer:{kind}:raises:{type(e).__name__}", f"ImageTransformer({name}, target={kind}) raises {type(e).__name__}: {str(e)[:200]}", cls=name, D=D)
    # ---- 5. ImageTransformer(flip_coords=True): the transform acts on (z, y, x) coordinates; for transforms that do not care about the
    #         component order (identity, zero fields) the output must not depend on the flag, whatever the target grid
    for D in (2, 3):
        for kind in ("own", "other"):
            for name in ("Translation", "DisplacementFieldTransform"):
                g = rgrid(rng, D)
                tg = g if kind == "own" else rgrid(rng, D)
                src = Grid(size=[24] * D, spacing=[0.5] * D, center=[float(v) for v in g.center()])
                try:
                    with torch.no_grad():
                        t = getattr(S, name)(g)
                        w = src.points()
                        coef = torch.tensor([1.0, -0.5, 0.25][:D])
                        img = ((w * coef).sum(-1) + 0.3).unsqueeze(0).unsqueeze(0)
                        a = S.ImageTransformer(t, target=tg, source=src, padding="border", flip_coords=False)(img)
                        b = S.ImageTransformer(t, target=tg, source=src, padding="border", flip_coords=True)(img)
                        dd = float((a - b).abs().max())
                        note("flip_coords")
                        if dd > 1e-3:
                            fail(f"C06:ImageTransformer.__init__:flip_coords:target-{kind}-grid",
                                 f"ImageTransformer(fresh {name}, target={kind} grid, flip_coords=True) differs from flip_coords=False by {dd:.3g} for the identity "
                                 f"transform (D={D}): the flipped (z, y, x) coordinates are pre-mapped by target.transform_points as if they were (x, y, z)", cls=name, D=D)
                except Exception as e:  # noqa
                    fail(f"C06:ImageTransformer:flip_coords:raises:{type(e).__name__}", f"ImageTransformer(flip_coords=True) raises {type(e).__name__}: {str(e)[:200]}", D=D)
    return {"fails": fails, "counts": counts}


def main():
    p = json.load(sys.stdin)
    torch.manual_seed(0)
    if p["fn"] == "cases":
        emit_json(run_cases(p))
    elif p["fn"] == "oracle":
        emit_json(oracle(p))
    else:
        raise SystemExit("unknown fn")


if __name__ == "__main__":
    main()
