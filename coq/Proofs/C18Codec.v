(* C18 -- header conventions and write/read round trips of the convention-layer model. *)
From Coq Require Import String ZArith List Bool Arith Lia.
From DV Require Import Base.Field Base.LinAlg Base.Tactics Model.Enums Model.CodecTypes Gen.Codec Model.Codec
  Proofs.C18Layout.
Import ListNotations.
Local Open Scope fld_scope.

Lemma len2 {X} (l : list X) : length l = 2%nat -> exists a b, l = [a; b].
Proof. destruct l as [|a [|b [|c l]]]; cbn; intro H; try discriminate. now exists a, b. Qed.
Lemma len3 {X} (l : list X) : length l = 3%nat -> exists a b c, l = [a; b; c].
Proof. destruct l as [|a [|b [|c [|d l]]]]; cbn; intro H; try discriminate. now exists a, b, c. Qed.

Ltac inv_forall H :=
  repeat match type of H with
         | Forall _ (_ :: _) => let H1 := fresh "Hr" in pose proof (Forall_inv H) as H1; apply Forall_inv_tail in H; cbn beta in H1
         end.

(* turn wf_image 2 / wf_image 3 into explicit lists *)
Ltac explode2 x H :=
  destruct x as [sz C ty o s d dat]; unfold wf_image in H; cbn [i_size i_chan i_type i_origin i_spacing i_dir i_data] in H;
  destruct H as (Hsz & Ho & Hs & Hd & Hrows & HC & Hdat);
  apply len2 in Hsz; destruct Hsz as (n0 & n1 & ->);
  apply len2 in Ho; destruct Ho as (o0 & o1 & ->);
  apply len2 in Hs; destruct Hs as (s0 & s1 & ->);
  apply len2 in Hd; destruct Hd as (r0 & r1 & ->);
  inv_forall Hrows;
  repeat match goal with Hq : length ?r = 2%nat |- _ => apply len2 in Hq; let a := fresh "d" in let b := fresh "d" in destruct Hq as (a & b & ->) end.
Ltac explode3 x H :=
  destruct x as [sz C ty o s d dat]; unfold wf_image in H; cbn [i_size i_chan i_type i_origin i_spacing i_dir i_data] in H;
  destruct H as (Hsz & Ho & Hs & Hd & Hrows & HC & Hdat);
  apply len3 in Hsz; destruct Hsz as (n0 & n1 & n2 & ->);
  apply len3 in Ho; destruct Ho as (o0 & o1 & o2 & ->);
  apply len3 in Hs; destruct Hs as (s0 & s1 & s2 & ->);
  apply len3 in Hd; destruct Hd as (r0 & r1 & r2 & ->);
  inv_forall Hrows;
  repeat match goal with Hq : length ?r = 3%nat |- _ => apply len3 in Hq; let a := fresh "d" in let b := fresh "d" in let c := fresh "d" in destruct Hq as (a & b & c & ->) end.

Ltac in_types H := cbn in H; repeat (destruct H as [<- | H]; [| ]); try contradiction.

(* ---------------------------------------------------------------------------------------------- *)
(* finite tables                                                                                   *)
(* ---------------------------------------------------------------------------------------------- *)
(* element-type tables: every torch element type is written under a name that reads back as itself, both
   through the library's reader and under ITK's naming *)
Definition type_tables_ok : bool :=
  forallb (fun t => match meta_w_type t with
                    | Some s => match meta_r_type s, met_type_of s with
                                | Some t1, Some t2 => npty_eqb t1 t && npty_eqb t2 t
                                | _, _ => false
                                end
                    | None => false
                    end
                    && match sitk_r_type t with Some t' => npty_eqb t' t | None => false end) torch_types.
Lemma type_tables_hold : type_tables_ok = true.
Proof. vm_compute. reflexivity. Qed.

Lemma meta_type_roundtrip t : In t torch_types -> exists s, meta_w_type t = Some s /\ meta_r_type s = Some t /\ met_type_of s = Some t.
Proof. intro H. in_types H; eexists; (split; [vm_compute; reflexivity | split; vm_compute; reflexivity]). Qed.
Lemma sitk_type_roundtrip t : In t torch_types -> sitk_r_type t = Some t.
Proof. intro H. in_types H; vm_compute; reflexivity. Qed.
Lemma met_name_roundtrip t : In t torch_types -> exists s, met_name_of t gen_meta_types = Some s /\ meta_r_type s = Some t.
Proof. intro H. in_types H; eexists; (split; vm_compute; reflexivity). Qed.

(* unsigned 16/32-bit files are promoted to the next wider signed type; every promotion of every reader
   keeps all representable values *)
Definition range_within (a b : npty) : bool :=
  match int_range a, int_range b with
  | Some (lo, hi), Some (lo', hi') => (lo' <=? lo)%Z && (hi <=? hi')%Z
  | None, None => npty_eqb a b
  | _, _ => false
  end.
Definition promotions_ok : bool :=
  forallb (fun t => match sitk_r_type t with Some t' => range_within t t' | None => true end) all_npty
  && forallb (fun st => match st with (s, t) => match meta_r_type s with Some t' => range_within t t' | None => true end end) gen_meta_types
  && forallb (fun t => match @nifti_r_type t with Some t' => range_within t t' | None => true end) all_npty.
Lemma promotions_hold : promotions_ok = true.
Proof. vm_compute. reflexivity. Qed.
(* the promotions the source documents are there: uint16 -> int32, uint32 -> int64 *)
Lemma promotions_unsigned :
  sitk_r_type U16 = Some I32 /\ sitk_r_type U32 = Some I64 /\
  meta_r_type "MET_USHORT" = Some I32 /\ meta_r_type "MET_UINT" = Some I64.
Proof. vm_compute. repeat split. Qed.

(* header integers of the MetaImage writer: NDims = D and ElementNumberOfChannels = C on the traced range *)
Lemma meta_w_ints_ok :
  forallb (fun e => match e with ((D, C), (nd, nc)) => Nat.eqb nd D && Nat.eqb nc C end) gen_meta_w_ints = true
  /\ length gen_meta_w_ints = 6%nat.
Proof. vm_compute. split; reflexivity. Qed.

(* the status tables do not distinguish C = 2 from C = 3 (justifies cclass) *)
Lemma status_tables_cclass :
  forallb (fun D => forallb (fun c => match assoc key3_eqb (D, 2%nat, c) gen_meta_r_status, assoc key3_eqb (D, 3%nat, c) gen_meta_r_status with
                                      | Some a, Some b => rstatus_ok a && rstatus_ok b || negb (rstatus_ok a) && negb (rstatus_ok b)
                                      | _, _ => false end) [true; false]) [2%nat; 3%nat] = true.
Proof. vm_compute. reflexivity. Qed.

Lemma flow_axes_world : gen_flow_write_axes = WORLD /\ gen_flow_read_axes = WORLD.
Proof. split; reflexivity. Qed.

Lemma meta_alias_keys_ok : forallb (fun e => snd e) gen_meta_r_alias = true /\ length gen_meta_r_alias = 9%nat.
Proof. vm_compute. split; reflexivity. Qed.

Section Proofs.
Variable K : fld.
Variable A : Type.
Notation image := (image K A).

(* ---------------------------------------------------------------------------------------------- *)
(* SimpleITK-backed formats: full round trip, D in {2, 3}, every C >= 1, every size                *)
(* ---------------------------------------------------------------------------------------------- *)
Lemma sitk_roundtrip (D : nat) (x : image) :
  D = 2%nat \/ D = 3%nat -> wf_image D x -> In (i_type x) torch_types ->
  read_sitk D (write_sitk D x) = Some x.
Proof.
  intros [-> | ->] H Ht.
  - explode2 x H. cbn [i_type i_chan i_size i_origin i_spacing i_dir i_data] in *. unfold read_sitk, write_sitk. cbn [s_type s_size s_ncomp s_origin s_spacing s_dirflat s_buf
      i_size i_chan i_type i_origin i_spacing i_dir i_data sel].
    rewrite (sitk_type_roundtrip _ Ht). cbn. rewrite chan_first_last by exact Hdat. reflexivity.
  - explode3 x H. cbn [i_type i_chan i_size i_origin i_spacing i_dir i_data] in *. unfold read_sitk, write_sitk. cbn [s_type s_size s_ncomp s_origin s_spacing s_dirflat s_buf
      i_size i_chan i_type i_origin i_spacing i_dir i_data sel].
    rewrite (sitk_type_roundtrip _ Ht). cbn. rewrite chan_first_last by exact Hdat. reflexivity.
Qed.

(* ---------------------------------------------------------------------------------------------- *)
(* a MetaImage written by the library is, under ITK's reading convention, the image Image.sitk() gives *)
(* ---------------------------------------------------------------------------------------------- *)
Lemma mha_read_by_itk (D : nat) (c : bool) (x : image) :
  D = 2%nat \/ D = 3%nat -> wf_image D x -> In (i_type x) torch_types ->
  exists f, write_meta D c x = Some f /\ itk_read_mha f = Some (write_sitk D x).
Proof.
  intros [-> | ->] H Ht.
  - explode2 x H. cbn [i_type i_chan i_size i_origin i_spacing i_dir i_data] in *. destruct (meta_type_roundtrip _ Ht) as (s & Hw & _ & Hm).
    unfold write_meta. cbn [i_type]. rewrite Hw. eexists; split; [reflexivity|].
    unfold itk_read_mha. cbn [m_etype]. rewrite Hm. reflexivity.
  - explode3 x H. cbn [i_type i_chan i_size i_origin i_spacing i_dir i_data] in *. destruct (meta_type_roundtrip _ Ht) as (s & Hw & _ & Hm).
    unfold write_meta. cbn [i_type]. rewrite Hw. eexists; split; [reflexivity|].
    unfold itk_read_mha. cbn [m_etype]. rewrite Hm. reflexivity.
Qed.

(* ---------------------------------------------------------------------------------------------- *)
(* native MetaImage round trip                                                                     *)
(* ---------------------------------------------------------------------------------------------- *)
(* the geometric header fields of dimension D survive write-then-read *)
Definition meta_geo_ok (D : nat) : Prop :=
  forall (n : list nat) (o s : list K) (d : list (list K)),
    length n = D -> length o = D -> length s = D -> length d = D -> Forall (fun r => length r = D) d ->
    sel D (gen_meta_r_size_2 (gen_meta_w_dimsize_2 n)) (gen_meta_r_size_3 (gen_meta_w_dimsize_3 n)) None = Some n /\
    sel D (gen_meta_r_origin_2 (gen_meta_w_offset_2 o)) (gen_meta_r_origin_3 (gen_meta_w_offset_3 o)) None = Some o /\
    sel D (gen_meta_r_spacing_2 (gen_meta_w_spacing_2 s)) (gen_meta_r_spacing_3 (gen_meta_w_spacing_3 s)) None = Some s /\
    sel D (gen_meta_r_direction_2 (gen_meta_w_tm_2 d)) (gen_meta_r_direction_3 (gen_meta_w_tm_3 d)) None = Some d.

(* conditional form of the full statement: whenever the reader accepts the configuration and the header
   conventions of dimension D invert each other, the round trip is exact (any C, any size, any torch type) *)
Lemma meta_roundtrip_cond (D : nat) (c : bool) (x : image) :
  D = 2%nat \/ D = 3%nat -> wf_image D x -> In (i_type x) torch_types ->
  meta_r_status D (i_chan x) c = ROk -> meta_geo_ok D ->
  exists f, write_meta D c x = Some f /\ read_meta f = Some x.
Proof.
  intros HD H Ht Hst Hgeo.
  destruct (meta_type_roundtrip _ Ht) as (s & Hw & Hr & _).
  unfold write_meta. rewrite Hw. eexists; split; [reflexivity|].
  destruct x as [sz C ty o sp d dat]. unfold wf_image in H. cbn [i_size i_chan i_type i_origin i_spacing i_dir i_data] in *.
  destruct H as (Hsz & Ho & Hs & Hd & Hrows & HC & Hdat).
  destruct (Hgeo sz o sp d Hsz Ho Hs Hd Hrows) as (G1 & G2 & G3 & G4).
  unfold read_meta. cbn [m_ndims m_nchan m_compressed m_etype m_dimsize m_offset m_spacing m_tm m_payload].
  rewrite Hst. cbn [rstatus_ok negb]. rewrite Hr.
  destruct HD as [-> | ->]; cbn [sel] in *; rewrite G1, G2, G3, G4; rewrite chan_first_last by exact Hdat; reflexivity.
Qed.

Lemma meta_geo_ok_3 : meta_geo_ok 3.
Proof.
  intros n o s d Hn Ho Hs Hd Hrows.
  apply len3 in Hn; destruct Hn as (n0 & n1 & n2 & ->).
  apply len3 in Ho; destruct Ho as (o0 & o1 & o2 & ->).
  apply len3 in Hs; destruct Hs as (s0 & s1 & s2 & ->).
  apply len3 in Hd; destruct Hd as (r0 & r1 & r2 & ->).
  inv_forall Hrows.
  repeat match goal with Hq : length ?r = 3%nat |- _ => apply len3 in Hq; destruct Hq as (? & ? & ? & ->) end.
  repeat split; reflexivity.
Qed.

Lemma meta_geo_ok_2 : meta_geo_ok 2.
Proof.
  intros n o s d Hn Ho Hs Hd Hrows.
  apply len2 in Hn; destruct Hn as (n0 & n1 & ->).
  apply len2 in Ho; destruct Ho as (o0 & o1 & ->).
  apply len2 in Hs; destruct Hs as (s0 & s1 & ->).
  apply len2 in Hd; destruct Hd as (r0 & r1 & ->).
  inv_forall Hrows.
  repeat match goal with Hq : length ?r = 2%nat |- _ => apply len2 in Hq; destruct Hq as (? & ? & ->) end.
  repeat split; reflexivity.
Qed.

Lemma meta_geo_ok_all D : D = 2%nat \/ D = 3%nat -> meta_geo_ok D.
Proof. intros [-> | ->]; [apply meta_geo_ok_2 | apply meta_geo_ok_3]. Qed.

(* the reader accepts every configuration: D in {2,3}, scalar or multi-channel, compressed or not *)
Lemma meta_status_ok D C c : D = 2%nat \/ D = 3%nat -> meta_r_status D C c = ROk.
Proof.
  intros HD. unfold meta_r_status, cclass.
  destruct HD as [-> | ->]; destruct (Nat.eqb C 1), c; vm_compute; reflexivity.
Qed.

(* FULL native MetaImage round trip: D in {2,3}, every channel count, size, grid, torch element type, compressed or not *)
Lemma meta_roundtrip (D : nat) (c : bool) (x : image) :
  D = 2%nat \/ D = 3%nat -> wf_image D x -> In (i_type x) torch_types ->
  exists f, write_meta D c x = Some f /\ read_meta f = Some x.
Proof.
  intros HD H Ht. apply meta_roundtrip_cond; auto.
  - apply meta_status_ok, HD.
  - apply meta_geo_ok_all, HD.
Qed.

(* files written by ITK (its MetaImage convention) and read by the library *)
Lemma itk_mha_read_cond (D : nat) (c : bool) (x : image) :
  D = 2%nat \/ D = 3%nat -> wf_image D x -> In (i_type x) torch_types ->
  meta_r_status D (i_chan x) c = ROk ->
  (forall (d : list (list K)), length d = D -> Forall (fun r => length r = D) d ->
     sel D (gen_meta_r_direction_2 (colmajor 2 (gen_sitk_w_direction_2 d))) (gen_meta_r_direction_3 (colmajor 3 (gen_sitk_w_direction_3 d))) None = Some d) ->
  sel D (gen_meta_r_size_2 (gen_sitk_w_size_2 (i_size x))) (gen_meta_r_size_3 (gen_sitk_w_size_3 (i_size x))) None = Some (i_size x) ->
  sel D (gen_meta_r_origin_2 (gen_sitk_w_origin_2 (i_origin x))) (gen_meta_r_origin_3 (gen_sitk_w_origin_3 (i_origin x))) None = Some (i_origin x) ->
  sel D (gen_meta_r_spacing_2 (gen_sitk_w_spacing_2 (i_spacing x))) (gen_meta_r_spacing_3 (gen_sitk_w_spacing_3 (i_spacing x))) None = Some (i_spacing x) ->
  exists f, itk_write_mha D c (write_sitk D x) = Some f /\ read_meta f = Some x.
Proof.
  intros HD H Ht Hst Hdir G1 G2 G3.
  destruct (met_name_roundtrip _ Ht) as (s & Hw & Hr).
  unfold itk_write_mha, write_sitk. cbn [s_type s_size s_ncomp s_origin s_spacing s_dirflat s_buf]. rewrite Hw. eexists; split; [reflexivity|].
  destruct x as [sz C ty o sp d dat]. unfold wf_image in H. cbn [i_size i_chan i_type i_origin i_spacing i_dir i_data] in *.
  destruct H as (Hsz & Ho & Hs & Hd & Hrows & HC & Hdat).
  specialize (Hdir d Hd Hrows).
  unfold read_meta. cbn [m_ndims m_nchan m_compressed m_etype m_dimsize m_offset m_spacing m_tm m_payload s_size s_ncomp s_origin s_spacing s_dirflat s_buf].
  rewrite Hst. cbn [rstatus_ok negb]. rewrite Hr.
  destruct HD as [-> | ->]; cbn [sel] in *; rewrite G1, G2, G3, Hdir; rewrite chan_first_last by exact Hdat; reflexivity.
Qed.

(* FULL: a .mha written by ITK is read back by the library, D in {2,3}, any channel count *)
Lemma itk_mha_read (D : nat) (c : bool) (x : image) :
  D = 2%nat \/ D = 3%nat -> wf_image D x -> In (i_type x) torch_types ->
  exists f, itk_write_mha D c (write_sitk D x) = Some f /\ read_meta f = Some x.
Proof.
  intros HD H Ht. pose proof H as H'. destruct HD as [-> | ->].
  - explode2 x H.
    apply itk_mha_read_cond; auto; cbn [i_chan i_size i_origin i_spacing sel]; try reflexivity.
    + apply meta_status_ok; auto.
    + intros d' Hd' Hrows'. apply len2 in Hd'; destruct Hd' as (q0 & q1 & ->). inv_forall Hrows'.
      repeat match goal with Hq : length ?r = 2%nat |- _ => apply len2 in Hq; destruct Hq as (? & ? & ->) end.
      reflexivity.
  - explode3 x H.
    apply itk_mha_read_cond; auto; cbn [i_chan i_size i_origin i_spacing sel]; try reflexivity.
    + apply meta_status_ok; auto.
    + intros d' Hd' Hrows'. apply len3 in Hd'; destruct Hd' as (q0 & q1 & q2 & ->). inv_forall Hrows'.
      repeat match goal with Hq : length ?r = 3%nat |- _ => apply len3 in Hq; destruct Hq as (? & ? & ? & ->) end.
      reflexivity.
Qed.

(* data handed to the writer without a channel dimension gives exactly the file of the same data with C = 1 *)
Lemma meta_nochannel_ok : gen_meta_w_nochannel_ok = true /\ gen_meta_w_nochannel_same_as_c1 = true.
Proof. split; reflexivity. Qed.

(* ---------------------------------------------------------------------------------------------- *)
(* NIfTI                                                                                           *)
(* ---------------------------------------------------------------------------------------------- *)
End Proofs.
