(* C12: 2-D affine fields and list lemmas about applying a line operator along y (the exactness theorems for the composed
   2-D / 3-D operators are in C12ND3.v). *)
From Coq Require Import ZArith List Field Ring Lia Bool.
From DV Require Import Base.Field Base.FieldFacts Base.LinAlg Base.Tactics Model.BSplineBase Gen.BSpline Model.BSpline
  Gen.FlowDeriv Model.FiniteDiff Proofs.C14Tac Proofs.C14Eval Proofs.C12FD.
Import ListNotations.
Local Open Scope fld_scope.

Section Field2.
Context {K : fld}.
(* f(y, x) = a + bx (x hx) + by (y hy) sampled on an ny x nx grid (tensor order [y][x]) *)
Definition field2 (a bx by_ hx hy : K) (nx ny : nat) : list (list K) :=
  map (fun y => map (fun x => a + bx * (zn x * hx) + by_ * (zn y * hy)) (seq 0 nx)) (seq 0 ny).
End Field2.

Section Proofs.
Variable K : fld.
Hypothesis Kf : is_field K.
Hypothesis Kc : char0 K.
Add Field KF : Kf.

Lemma length_smooth1 m (l : list K) : length (smooth1 m l) = length l.
Proof. destruct m; try reflexivity; unfold smooth1, avg1; rewrite map_length, seq_length; reflexivity. Qed.

Definition colx (x : nat) (c : list (list K)) : list K := map (fun r => nth x r 0) c.

Lemma nth_along_y2 (f : list K -> list K) (c : list (list K)) (nx x y : nat) :
  (forall l, length (f l) = length l) -> length (nth 0 c []) = nx -> (x < nx)%nat -> (y < length c)%nat ->
  nth x (nth y (along_y2 f c) []) 0 = nth y (f (colx x c)) 0.
Proof.
  intros Hf Hnx Hx Hy. unfold along_y2. rewrite Hnx.
  set (cols := map (fun i => f (map (fun r => nth i r 0) c)) (seq 0 nx)).
  assert (L0 : length (nth 0 cols []) = length c).
  { unfold cols. rewrite (nth_map_seq (fun i => f (map (fun r => nth i r 0) c))) by lia. rewrite Hf, map_length. reflexivity. }
  rewrite L0.
  rewrite (nth_map_seq (fun j => map (fun cl => nth j cl 0) cols)) by exact Hy.
  rewrite (nth_indep _ 0 (nth y [] 0)) by (rewrite map_length; unfold cols; rewrite map_length, seq_length; exact Hx).
  rewrite (map_nth (fun cl => nth y cl 0)). unfold cols.
  rewrite (nth_map_seq (fun i => f (map (fun r => nth i r 0) c))) by exact Hx. reflexivity.
Qed.

Lemma length_along_y2_row (f : list K -> list K) (c : list (list K)) (nx y : nat) :
  (forall l, length (f l) = length l) -> length (nth 0 c []) = nx -> (1 <= nx)%nat -> (y < length c)%nat ->
  length (nth y (along_y2 f c) []) = nx.
Proof.
  intros Hf Hnx H1 Hy. unfold along_y2. rewrite Hnx.
  set (cols := map (fun i => f (map (fun r => nth i r 0) c)) (seq 0 nx)).
  assert (L0 : length (nth 0 cols []) = length c).
  { unfold cols. rewrite (nth_map_seq (fun i => f (map (fun r => nth i r 0) c))) by lia. rewrite Hf, map_length. reflexivity. }
  rewrite L0. rewrite (nth_map_seq (fun j => map (fun cl => nth j cl 0) cols)) by exact Hy.
  rewrite map_length. unfold cols. rewrite map_length, seq_length. reflexivity.
Qed.

Lemma field2_row (a bx by_ hx hy : K) nx ny y : (y < ny)%nat ->
  nth y (field2 a bx by_ hx hy nx ny) [] = aff_seq bx (a + by_ * (zn y * hy)) hx nx.
Proof.
  intro H. unfold field2. rewrite (nth_map_seq (fun y => map (fun x => a + bx * (zn x * hx) + by_ * (zn y * hy)) (seq 0 nx))) by exact H.
  unfold aff_seq. apply map_ext. intro x. ring.
Qed.

Lemma field2_col (a bx by_ hx hy : K) nx ny x : (x < nx)%nat ->
  colx x (field2 a bx by_ hx hy nx ny) = aff_seq by_ (a + bx * (zn x * hx)) hy ny.
Proof.
  intro H. unfold colx, field2, aff_seq. rewrite map_map. apply map_ext. intro y.
  rewrite (nth_map_seq (fun x => a + bx * (zn x * hx) + by_ * (zn y * hy))) by exact H. ring.
Qed.

Lemma length_field2 (a bx by_ hx hy : K) nx ny : length (field2 a bx by_ hx hy nx ny) = ny.
Proof. unfold field2. rewrite map_length, seq_length. reflexivity. Qed.

Lemma field2_row0_len (a bx by_ hx hy : K) nx ny : (1 <= ny)%nat -> length (nth 0 (field2 a bx by_ hx hy nx ny) []) = nx.
Proof. intro H. rewrite field2_row by lia. apply length_aff. Qed.

End Proofs.
