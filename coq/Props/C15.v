(* C15 -- No hidden mutation: functions leave inputs alone, copies leave originals alone.
   Statements only; every proof is `exact <lemma>` (or a closed computation).

   (a) Model/ObjGraph.v: object graph with tensor identities / content versions and nn.Module containers; the
       shallow copies, deep copies and with-argument accessors of Grid, Cube and the spatial transforms.
   (b) Model/Heap.v + Gen/MutSkeleton.v: may-alias effect skeletons extracted from the source of every public function
       of deepali.core.functional and deepali.losses.functional and of every package function they call.

   FULL STATEMENT (holds of the model for the elementary transforms since the accessors un-share _parameters):
     every with-argument accessor leaves every existing object unchanged, for every way the parameters are held.
   Outside the model, covered by the runtime sweep only: composite transforms (copies of the member modules),
   matrix(m), the resampling done by grid(g) of the non-rigid transforms, MultiLevelTransform.tensor(); the skeleton names
   listed in Model/HeapPins.v have a possibly written parameter in their checked summary (abstraction too coarse, or
   callers of such functions). *)
From Coq Require Import String List Bool Arith Lia.
From DV Require Import Model.ObjGraph Model.Heap Model.HeapPins Gen.MutSkeleton Proofs.C15Graph Proofs.C15Indep.
Import ListNotations.

(* 0. the copy protocol and the accessor pattern the object-graph model transcribes are the ones in the source now *)
Theorem C15_model_pinned_to_source :
  gen_copied_containers = pin_copied_containers /\ gen_copy_accessors = pin_copy_accessors
  /\ gen_copy_fingerprints = pin_copy_fingerprints.
Proof. exact (conj eq_refl (conj eq_refl eq_refl)). Qed.
Print Assumptions C15_model_pinned_to_source.

(* 1. Grid / Cube: x.center(v), x.origin(v), x.spacing(v), x.direction(v), x.extent(v), x.align_corners(b):
      every object that existed before the call -- the receiver included -- has exactly the state it had *)
Theorem C15_simple_accessors_preserve :
  forall (st : store) (o x : obj) (name v : nat),
  ismod o = false -> wf_obj st x ->
  snap (fst (acc_simple st o name v)) x = snap st x /\ snap (fst (acc_flag st o name v)) x = snap st x.
Proof.
  exact (fun st o x name v Ho Hx => conj (acc_simple_preserves st o name v x Ho Hx) (acc_flag_preserves st o name v x Ho)).
Qed.
Print Assumptions C15_simple_accessors_preserve.

(* 2. transforms: grid(g), condition(args) *)
Theorem C15_transform_accessors_preserve :
  forall (st : store) (o x : obj) (g : nat),
  ismod o = true -> wf_obj st x ->
  snap (fst (acc_grid st o g)) x = snap st x /\ snap (fst (acc_condition st o g)) x = snap st x.
Proof.
  exact (fun st o x g Ho Hx => conj (acc_grid_preserves st o g x Ho Hx) (acc_condition_preserves st o g x Ho Hx)).
Qed.
Print Assumptions C15_transform_accessors_preserve.

(* 3. data(arg), unlink(): however the parameters are held (Parameter, buffer, plain attribute) -- the copy made by these
      accessors has its own _parameters dict *)
Theorem C15_data_unlink_preserve :
  forall (st : store) (o x : obj) (v : nat) (st' : store) (c' : obj),
  ismod o = true -> wf_obj st x ->
  (acc_data st o v = SOk st' c' -> snap st' x = snap st x)
  /\ (acc_unlink st o = SOk st' c' -> snap st' x = snap st x).
Proof.
  exact (fun st o x v st' c' Ho Hx =>
           conj (acc_data_preserves st o v x st' c' Ho Hx) (acc_unlink_preserves st o x st' c' Ho Hx)).
Qed.
Print Assumptions C15_data_unlink_preserve.

(* the former counterexamples (Parameter-held parameters): the receiver is unchanged and the copy differs from it;
   a plain shallow copy followed by an in-place setter still reaches the receiver (the sharing inverse() relies on) *)
Theorem C15_data_unlink_fixed :
  match acc_data st0 tr0 5 with
  | SOk st' c => snap_eqb (snap st' tr0) (snap st0 tr0) && negb (snap_eqb (snap st' c) (snap st' tr0)) | SErr => false end = true
  /\ match acc_unlink st0 tr0 with
     | SOk st' c => snap_eqb (snap st' tr0) (snap st0 tr0) && negb (snap_eqb (snap st' c) (snap st' tr0)) | SErr => false end = true
  /\ (let '(st1, c) := shallow_copy st0 tr0 in
      match module_setattr (fst (alloc_tensor st1 5)) c n_params (VParam (snd (alloc_tensor st1 5))) with
      | SOk st' _ => snap_eqb (snap st' tr0) (snap st0 tr0) | SErr => true end = false).
Proof. exact (conj acc_data_param_fixed (conj acc_unlink_param_fixed shallow_copy_shares_parameters)). Qed.
Print Assumptions C15_data_unlink_fixed.

(* 4. deep copies: the copy shares nothing with the original, and whatever is done afterwards to either of them --
      in-place arithmetic on any tensor it holds, rebinding of slots, parameters, buffers, in any interleaving --
      leaves the other one exactly as it was *)
Theorem C15_deep_copy_separated :
  forall (st : store) (o : obj),
  wf_obj st o -> (ismod o = true -> pc o <> bc o) ->
  let '(st', o') := deep_copy st o in snap st' o = snap st o /\ separated st' o o'.
Proof. exact deep_copy_separated. Qed.
Print Assumptions C15_deep_copy_separated.

Theorem C15_independent_both_ways :
  forall (tr : list (side * mut)) (st : store) (a b : obj), separated st a b -> others_unchanged st a b tr.
Proof. exact independence. Qed.
Print Assumptions C15_independent_both_ways.

(* 5. effect skeletons with interprocedural summaries.  Every function's claimed summary (parameters its result may refer
      to, parameters it may write in place) covers what its skeleton can do for every branch vector, given the claimed
      summaries of the package functions it calls ... *)
Theorem C15_summaries_valid : all_summaries_ok gen_skeletons gen_summaries = true.
Proof. vm_compute. exact eq_refl. Qed.
Print Assumptions C15_summaries_valid.

(* ... and the summary of every translated function that is not on the explicit list left to the runtime sweep has no
   written parameter: the function leaves the tensors of all its arguments alone (explicit `out` arguments and the
   `inplace=True` branches excepted by construction of the skeleton) *)
Theorem C15_no_arg_mutation :
  forallb (fun p => no_arg_mutation (snd p) || existsb (String.eqb (sk_name (fst p))) heap_unproven)
          (combine gen_skeletons gen_summaries) = true.
Proof. vm_compute. exact eq_refl. Qed.
Print Assumptions C15_no_arg_mutation.

(* non-vacuity: a separated pair exists, a trace with edits on both sides runs, and a skeleton that writes its argument
   is rejected by the analysis *)
Example C15_nonvacuous :
  let '(st', o') := deep_copy st0 tr0 in
  snap_eqb (snap st' o') (snap st' tr0) = false                                   (* different tensors ... *)
  /\ map (fun e => match e with (n, k, _, v) => (n, k, v) end) (snd (fst (snap st' o')))
     = map (fun e => match e with (n, k, _, v) => (n, k, v) end) (snd (fst (snap st' tr0)))   (* ... with equal contents *)
  /\ (let '(st2, a2, b2) := run_trace st' tr0 o' [(SA, MEditParam n_params); (SB, MSetParam n_params 3); (SA, MDelBuf n_u)] in
      snap_eqb (snap st2 a2) (snap st' tr0) = false /\ snap_eqb (snap st2 b2) (snap st' o') = false)
  /\ summary_ok [] (mkSkel "bad" [0] 3 0 2 [IAssign true 1 [SVar 0]; IInplace 1; IAssign true 2 [SVar 1]]) ([0], []) = false
  /\ summary_ok [] (mkSkel "bad" [0] 3 0 2 [IAssign true 1 [SVar 0]; IInplace 1; IAssign true 2 [SVar 1]]) ([0], [0]) = true
  /\ summary_ok [([0], [0])] (mkSkel "caller" [0] 3 0 2 [ICallW 0 0 0; IAssign true 2 [SRet 0 0 0]]) ([0], []) = false
  /\ (200 <=? length gen_skeletons) = true.
Proof. vm_compute. repeat split. Qed.
