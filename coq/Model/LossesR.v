(* Order-dependent parameters of Model/Losses.v at the two instances: reals (theorems) and
   canonical rationals (execution). Definitions only. *)
From Coq Require Import Reals QArith Qabs Qcanon.
From DV Require Import Base.Field Base.RInst Base.QcInst.

Definition Rleb (a b : R) : bool := if Rle_dec a b then true else false.
Definition Rabs' : RF -> RF := Rabs.
Definition Rleb' : RF -> RF -> bool := Rleb.

Definition Qcabs (a : Qc) : Qc := Q2Qc (Qabs (this a)).
Definition Qcleb (a b : Qc) : bool := Qle_bool (this a) (this b).
Definition Qcabs' : QcF -> QcF := Qcabs.
Definition Qcleb' : QcF -> QcF -> bool := Qcleb.
