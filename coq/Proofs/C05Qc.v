(* C05 over the executable field Qc: floor / round-half-even satisfy what the abstract theorems assume;
   the field-of-view and no-tie hypotheses in terms of Q's order. *)
From Coq Require Import ZArith QArith Qround Qabs Qcanon List Lia Lqa Bool.
From DV Require Import Base.Field Base.FieldFacts Base.LinAlg Base.QcInst Model.Enums Model.Homog Model.Grid Model.ItkSpec Model.Sampler Model.Lattice
  Model.SamplerQc Model.Resample Model.ResampleQc Proofs.QcFacts Proofs.C05Main.
Import ListNotations.

Local Open Scope Q_scope.

Lemma nearQ_of_Z (i : Z) : nearQ (of_Z (K:=QcF) i) = i.
Proof.
  unfold nearQ, round_half_even.
  assert (F : Qfloor (this (of_Z (K:=QcF) i)) = i) by (rewrite this_of_Z; apply Qfloor_Z).
  rewrite F.
  assert (C : (this (of_Z (K:=QcF) i) - inject_Z i ?= 1 # 2) = Lt).
  { rewrite <- Qlt_alt. rewrite this_of_Z. lra. }
  rewrite C. reflexivity.
Qed.

(* inside [0, n-1]: inside the model's field of view and inside ITK's buffer *)
Lemma fov_Qc (n : Z) (x : Qc) : 0 <= this x -> this x <= inject_Z (n - 1) ->
  in_fov (K:=QcF) floorQ n x /\ inside_buffer (K:=QcF) floorQ n x = true.
Proof.
  intros H0 H1. pose proof (Qfloor_le (this x)) as A. pose proof (Qlt_floor (this x)) as B.
  rewrite inject_Z_plus in B. change (inject_Z 1) with 1 in B.
  assert (F0 : (0 <= Qfloor (this x))%Z) by (apply Qfloor_nonneg; exact H0).
  assert (F1 : (Qfloor (this x) <= n - 1)%Z) by (apply Qfloor_le_Z; exact H1).
  split.
  - unfold in_fov, cell. fold (floorQ x). unfold floorQ. split; [lia|].
    destruct (Z_le_gt_dec (Qfloor (this x)) (n - 2)) as [L|G]; [left; exact L | right].
    assert (E : Qfloor (this x) = (n - 1)%Z) by lia.
    apply Qc_is_canon. rewrite this_sub, this_of_Z, E. rewrite E in A. change (this (f0 (K:=QcF))) with 0. lra.
  - unfold inside_buffer, inb, floorQ.
    assert (E : this (fadd (K:=QcF) x half) == this x + (1 # 2)) by (rewrite this_add, this_half; reflexivity).
    rewrite E.
    assert (G0 : (0 <= Qfloor (this x + (1 # 2)))%Z) by (apply Qfloor_nonneg; lra).
    assert (G1 : (Qfloor (this x + (1 # 2)) < n)%Z).
    { apply Qfloor_lt_Z. unfold Z.sub in H1. rewrite inject_Z_plus in H1. change (inject_Z (- (1))) with (-(1)) in H1. lra. }
    apply andb_true_intro. split; [apply Z.leb_le; exact G0 | apply Z.ltb_lt; exact G1].
Qed.

Lemma fovQ_ok (sizes : list Z) (X : list Qc) : fovQ sizes X -> fov_ok (K:=QcF) floorQ sizes X.
Proof. intro H. induction H as [|n x s' X' [H0 H1] _ IH]; constructor; auto using fov_Qc. Qed.

(* away from ties torch's round-half-to-even and ITK's round-half-up agree; inside [-1/2, n-1/2) the
   point is inside ITK's buffer *)
Lemma near_Qc (n : Z) (x : Qc) : -(1 # 2) <= this x -> this x < inject_Z n - (1 # 2) ->
  ~ this x - inject_Z (Qfloor (this x)) == 1 # 2 ->
  nearQ x = itk_round (K:=QcF) floorQ x /\ inside_buffer (K:=QcF) floorQ n x = true.
Proof.
  intros H0 H1 Hn.
  assert (E : this (fadd (K:=QcF) x half) == this x + (1 # 2)) by (rewrite this_add, this_half; reflexivity).
  pose proof (Qfloor_le (this x)) as A. pose proof (Qlt_floor (this x)) as B.
  rewrite inject_Z_plus in B. change (inject_Z 1) with 1 in B.
  split.
  - unfold nearQ, itk_round, floorQ, round_half_even. rewrite E.
    destruct (Qcompare (this x - inject_Z (Qfloor (this x))) (1 # 2)) eqn:C.
    + apply Qeq_alt in C. contradiction.
    + apply Qlt_alt in C. symmetry. apply Qfloor_unique; lra.
    + apply Qgt_alt in C. symmetry. apply Qfloor_unique; rewrite inject_Z_plus; change (inject_Z 1) with 1; lra.
  - unfold inside_buffer, inb, floorQ. rewrite E.
    assert (G0 : (0 <= Qfloor (this x + (1 # 2)))%Z) by (apply Qfloor_nonneg; lra).
    assert (G1 : (Qfloor (this x + (1 # 2)) < n)%Z) by (apply Qfloor_lt_Z; lra).
    apply andb_true_intro. split; [apply Z.leb_le; exact G0 | apply Z.ltb_lt; exact G1].
Qed.

Lemma no_tieQ_ok (sizes : list Z) (X : list Qc) : no_tieQ sizes X -> near_ok (K:=QcF) floorQ nearQ sizes X.
Proof. intro H. induction H as [|n x s' X' (H0 & H1 & H2) _ IH]; constructor; auto using near_Qc. Qed.

Lemma okQ_ok (m : smode) (sizes : list Z) (X : list Qc) : okQ m sizes X -> ok_at (K:=QcF) floorQ nearQ m sizes X.
Proof. destruct m; [apply fovQ_ok | apply no_tieQ_ok]. Qed.

(* ---------- the theorems of C05Main instantiated at the executable field, hypotheses in Q's order ---------- *)
Local Close Scope Q_scope.
Lemma sample_matches_itk2_Qc (m : smode) (p : padarg (K:=QcF)) (ac : bool) (dflt : QcF)
      (tn ts tc : nat -> QcF) (td : nat -> nat -> QcF) (ss sc : nat -> QcF) (sd : nat -> nat -> QcF)
      (img : list (list QcF)) (J : list QcF) :
  wf (K:=QcF) 2 tn ts td -> wf (K:=QcF) 2 (zsz (K:=QcF) (sz2 (K:=QcF) img)) ss sd -> rect2 (K:=QcF) (zlen (hd [] img)) img -> length J = 2%nat ->
  okQ m (isizes2 (K:=QcF) img)
    (itk_cindex (K:=QcF) 2 (vtab 2 tn) (vtab 2 ts) (vtab 2 tc) (tab 2 2 td) (zvec (K:=QcF) (isizes2 (K:=QcF) img)) (vtab 2 ss) (vtab 2 sc) (tab 2 2 sd) J) ->
  qdp_sample2 m p ac (vtab 2 tn) (vtab 2 ts) (vtab 2 tc) (tab 2 2 td) (vtab 2 ss) (vtab 2 sc) (tab 2 2 sd) img J
  = qitk_resample2 m dflt (vtab 2 tn) (vtab 2 ts) (vtab 2 tc) (tab 2 2 td) (vtab 2 ss) (vtab 2 sc) (tab 2 2 sd) img J.
Proof.
  intros Ht Hs HR HJ Hok. apply (sample_matches_itk2 QcF QcF_field QcF_char0 floorQ nearQ); auto.
  apply okQ_ok. exact Hok.
Qed.

Lemma sample_matches_itk3_Qc (m : smode) (p : padarg (K:=QcF)) (ac : bool) (dflt : QcF)
      (tn ts tc : nat -> QcF) (td : nat -> nat -> QcF) (ss sc : nat -> QcF) (sd : nat -> nat -> QcF)
      (img : list (list (list QcF))) (J : list QcF) :
  wf (K:=QcF) 3 tn ts td -> wf (K:=QcF) 3 (zsz (K:=QcF) (sz3 (K:=QcF) img)) ss sd ->
  rect3 (K:=QcF) (zlen (hd [] (hd [] img))) (zlen (hd [] img)) img -> length J = 3%nat ->
  okQ m (isizes3 (K:=QcF) img)
    (itk_cindex (K:=QcF) 3 (vtab 3 tn) (vtab 3 ts) (vtab 3 tc) (tab 3 3 td) (zvec (K:=QcF) (isizes3 (K:=QcF) img)) (vtab 3 ss) (vtab 3 sc) (tab 3 3 sd) J) ->
  qdp_sample3 m p ac (vtab 3 tn) (vtab 3 ts) (vtab 3 tc) (tab 3 3 td) (vtab 3 ss) (vtab 3 sc) (tab 3 3 sd) img J
  = qitk_resample3 m dflt (vtab 3 tn) (vtab 3 ts) (vtab 3 tc) (tab 3 3 td) (vtab 3 ss) (vtab 3 sc) (tab 3 3 sd) img J.
Proof.
  intros Ht Hs HR HJ Hok. apply (sample_matches_itk3 QcF QcF_field QcF_char0 floorQ nearQ); auto.
  apply okQ_ok. exact Hok.
Qed.

Lemma module_matches_itk2_Qc (m : smode) (p : padarg (K:=QcF)) (A : axes) (ac : bool) (dflt : QcF)
      (tn ts tc : nat -> QcF) (td : nat -> nat -> QcF) (ss sc : nat -> QcF) (sd : nat -> nat -> QcF)
      (img : list (list QcF)) (J : list QcF) :
  wf (K:=QcF) 2 tn ts td -> wf (K:=QcF) 2 (zsz (K:=QcF) (sz2 (K:=QcF) img)) ss sd -> rect2 (K:=QcF) (zlen (hd [] img)) img -> length J = 2%nat ->
  okQ m (isizes2 (K:=QcF) img)
    (itk_cindex (K:=QcF) 2 (vtab 2 tn) (vtab 2 ts) (vtab 2 tc) (tab 2 2 td) (zvec (K:=QcF) (isizes2 (K:=QcF) img)) (vtab 2 ss) (vtab 2 sc) (tab 2 2 sd) J) ->
  qmod_sample2 m p A ac (vtab 2 tn) (vtab 2 ts) (vtab 2 tc) (tab 2 2 td) (vtab 2 ss) (vtab 2 sc) (tab 2 2 sd) img J
  = qitk_resample2 m dflt (vtab 2 tn) (vtab 2 ts) (vtab 2 tc) (tab 2 2 td) (vtab 2 ss) (vtab 2 sc) (tab 2 2 sd) img J.
Proof.
  intros Ht Hs HR HJ Hok. apply (module_matches_itk2 QcF QcF_field QcF_char0 floorQ nearQ); auto.
  apply okQ_ok. exact Hok.
Qed.

Lemma module_matches_itk3_Qc (m : smode) (p : padarg (K:=QcF)) (A : axes) (ac : bool) (dflt : QcF)
      (tn ts tc : nat -> QcF) (td : nat -> nat -> QcF) (ss sc : nat -> QcF) (sd : nat -> nat -> QcF)
      (img : list (list (list QcF))) (J : list QcF) :
  wf (K:=QcF) 3 tn ts td -> wf (K:=QcF) 3 (zsz (K:=QcF) (sz3 (K:=QcF) img)) ss sd ->
  rect3 (K:=QcF) (zlen (hd [] (hd [] img))) (zlen (hd [] img)) img -> length J = 3%nat ->
  okQ m (isizes3 (K:=QcF) img)
    (itk_cindex (K:=QcF) 3 (vtab 3 tn) (vtab 3 ts) (vtab 3 tc) (tab 3 3 td) (zvec (K:=QcF) (isizes3 (K:=QcF) img)) (vtab 3 ss) (vtab 3 sc) (tab 3 3 sd) J) ->
  qmod_sample3 m p A ac (vtab 3 tn) (vtab 3 ts) (vtab 3 tc) (tab 3 3 td) (vtab 3 ss) (vtab 3 sc) (tab 3 3 sd) img J
  = qitk_resample3 m dflt (vtab 3 tn) (vtab 3 ts) (vtab 3 tc) (tab 3 3 td) (vtab 3 ss) (vtab 3 sc) (tab 3 3 sd) img J.
Proof.
  intros Ht Hs HR HJ Hok. apply (module_matches_itk3 QcF QcF_field QcF_char0 floorQ nearQ); auto.
  apply okQ_ok. exact Hok.
Qed.

Lemma sample_self_id2_Qc (m : smode) (p : padarg (K:=QcF)) (ac : bool) (s c : nat -> QcF) (d : nat -> nat -> QcF)
      (img : list (list QcF)) (jx jy : Z) :
  wf (K:=QcF) 2 (zsz (K:=QcF) (sz2 (K:=QcF) img)) s d -> rect2 (K:=QcF) (zlen (hd [] img)) img ->
  (0 <= jx < zlen (hd [] img))%Z -> (0 <= jy < zlen img)%Z ->
  qdp_sample2 m p ac (zvec (K:=QcF) (isizes2 (K:=QcF) img)) (vtab 2 s) (vtab 2 c) (tab 2 2 d) (vtab 2 s) (vtab 2 c) (tab 2 2 d) img
    [of_Z (K:=QcF) jx; of_Z jy] = val2 (K:=QcF) img jy jx.
Proof. exact (sample_self_id2 QcF QcF_field QcF_char0 floorQ nearQ floorQ_of_Z nearQ_of_Z m p ac s c d img jx jy). Qed.

Lemma sample_self_id3_Qc (m : smode) (p : padarg (K:=QcF)) (ac : bool) (s c : nat -> QcF) (d : nat -> nat -> QcF)
      (img : list (list (list QcF))) (jx jy jz : Z) :
  wf (K:=QcF) 3 (zsz (K:=QcF) (sz3 (K:=QcF) img)) s d -> rect3 (K:=QcF) (zlen (hd [] (hd [] img))) (zlen (hd [] img)) img ->
  (0 <= jx < zlen (hd [] (hd [] img)))%Z -> (0 <= jy < zlen (hd [] img))%Z -> (0 <= jz < zlen img)%Z ->
  qdp_sample3 m p ac (zvec (K:=QcF) (isizes3 (K:=QcF) img)) (vtab 3 s) (vtab 3 c) (tab 3 3 d) (vtab 3 s) (vtab 3 c) (tab 3 3 d) img
    [of_Z (K:=QcF) jx; of_Z jy; of_Z jz] = val3 (K:=QcF) img jz jy jx.
Proof. exact (sample_self_id3 QcF QcF_field QcF_char0 floorQ nearQ floorQ_of_Z nearQ_of_Z m p ac s c d img jx jy jz). Qed.

(* the branch tables of core.image.grid_sample (generated) are the ones the model assumes: every mode
   argument reaches torch unchanged up to naming, a scalar / "constant" samples with zeros padding *)
From Coq Require Import String.
From DV Require Import Gen.SampleT.
Lemma gs_tables :
  gen_gs_padtable = [("none", "zeros"); ("zeros", "zeros"); ("border", "border"); ("reflection", "reflection");
                     ("enum_zeros", "zeros"); ("enum_border", "border"); ("enum_reflect", "reflection");
                     ("enum_constant", "zeros"); ("constant", "zeros"); ("zero_int", "zeros"); ("zero_float", "zeros")]%string
  /\ gen_gs_modetable = [("none", "bilinear", "bilinear"); ("linear", "bilinear", "bilinear"); ("nearest", "nearest", "nearest");
                         ("nn", "nearest", "nearest"); ("enum_linear", "bilinear", "bilinear");
                         ("enum_nearest", "nearest", "nearest")]%string
  /\ gen_bs_round_decimals = [12%Z].
Proof. repeat split. Qed.
