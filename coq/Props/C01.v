(* C01 -- Grid coordinate systems (index, cube, cube-corners, world) map consistently.
   Statements only.  A grid is given by component functions n s c : nat -> K, d : nat -> nat -> K
   (sizes as field elements, spacing, center, direction cosines) restricted to D in {2,3} by
   vtab/tab; wf = spacings, sizes and sizes-1 non-zero, direction orthonormal.  gen_* are generated
   from core/grid.py, core/cube.py on every run (coq/Gen/GridT.v, GridCoords.v). *)
From Coq Require Import ZArith QArith List Lia.
From DV Require Import Base.Field Base.LinAlg Base.QcInst Model.Enums Model.Homog Model.Grid Model.Lattice
  Gen.GridT Gen.GridCoords Proofs.C01Grid Proofs.C01Laws Proofs.C01TwoA Proofs.C01TwoB Proofs.C01TwoC
  Proofs.C01TwoGrids Proofs.C01Cube Proofs.C01Lattice Model.Sampler Model.SamplerQc Proofs.C01Sample
  Gen.GridCtor Proofs.C02Itk.
Import ListNotations.

Section Statements.
Local Open Scope fld_scope.
Variable K : fld.
Hypothesis Kf : is_field K.
Hypothesis Kc : char0 K.

Notation G D n s c d := (vtab D n) (only parsing).

(* 1. A -> B followed by B -> A is the identity: all 16 ordered pairs, one grid *)
Theorem C01_inverse :
  forall (D : nat) (n s c : nat -> K) (d : nat -> nat -> K), D = 2%nat \/ D = 3%nat -> wf D n s d ->
  forall (A B : axes) (X : list K), length X = D ->
  gen_pts D B A (vtab D n) (vtab D s) (vtab D c) (tab D D d)
    (gen_pts D A B (vtab D n) (vtab D s) (vtab D c) (tab D D d) X) = X.
Proof. exact (pts_inverse K Kf Kc). Qed.

(* 2. A -> C equals A -> B -> C: all 64 triples *)
Theorem C01_compose :
  forall (D : nat) (n s c : nat -> K) (d : nat -> nat -> K), D = 2%nat \/ D = 3%nat -> wf D n s d ->
  forall (A B C' : axes) (X : list K), length X = D ->
  gen_pts D B C' (vtab D n) (vtab D s) (vtab D c) (tab D D d)
    (gen_pts D A B (vtab D n) (vtab D s) (vtab D c) (tab D D d) X)
  = gen_pts D A C' (vtab D n) (vtab D s) (vtab D c) (tab D D d) X.
Proof. exact (pts_compose K Kf Kc). Qed.

(* 3. the same between two (three) different grids of the same dimension *)
Theorem C01_inverse_two_grids :
  forall (D : nat), D = 2%nat \/ D = 3%nat ->
  forall (A B : axes) (n s c : nat -> K) (d : nat -> nat -> K) (n' s' c' : nat -> K) (d' : nat -> nat -> K) (X : list K),
  wf D n s d -> wf D n' s' d' -> length X = D ->
  gen_pts2 D B A (vtab D n') (vtab D s') (vtab D c') (tab D D d') (vtab D n) (vtab D s) (vtab D c) (tab D D d)
    (gen_pts2 D A B (vtab D n) (vtab D s) (vtab D c) (tab D D d) (vtab D n') (vtab D s') (vtab D c') (tab D D d') X) = X.
Proof. exact (pts2_inverse K Kf Kc). Qed.

Theorem C01_compose_three_grids :
  forall (D : nat), D = 2%nat \/ D = 3%nat ->
  forall (A B C' : axes) (n s c : nat -> K) (d : nat -> nat -> K) (n' s' c' : nat -> K) (d' : nat -> nat -> K)
         (n'' s'' c'' : nat -> K) (d'' : nat -> nat -> K) (X : list K),
  wf D n s d -> wf D n' s' d' -> wf D n'' s'' d'' -> length X = D ->
  gen_pts2 D B C' (vtab D n') (vtab D s') (vtab D c') (tab D D d') (vtab D n'') (vtab D s'') (vtab D c'') (tab D D d'')
    (gen_pts2 D A B (vtab D n) (vtab D s) (vtab D c) (tab D D d) (vtab D n') (vtab D s') (vtab D c') (tab D D d') X)
  = gen_pts2 D A C' (vtab D n) (vtab D s) (vtab D c) (tab D D d) (vtab D n'') (vtab D s'') (vtab D c'') (tab D D d'') X.
Proof. exact (pts2_compose K Kf Kc). Qed.

(* 4. the point API computes the specified maps (through continuous indices / through world space) *)
Theorem C01_points_are_the_grid_maps :
  forall (D : nat) (A B : axes) (n s c : nat -> K) (d : nat -> nat -> K) (X : list K),
  D = 2%nat \/ D = 3%nat -> wf D n s d -> not_WW A B -> length X = D ->
  gen_pts D A B (vtab D n) (vtab D s) (vtab D c) (tab D D d) X
  = T_map D A B (vtab D n) (vtab D s) (vtab D c) (tab D D d) X.
Proof. exact (pts_is_T_map K Kf Kc). Qed.

Theorem C01_points_two_grids_through_world :
  forall (D : nat), D = 2%nat \/ D = 3%nat ->
  forall (A B : axes) (n s c : nat -> K) (d : nat -> nat -> K) (n' s' c' : nat -> K) (d' : nat -> nat -> K) (X : list K),
  wf D n s d -> wf D n' s' d' -> length X = D ->
  gen_pts2 D A B (vtab D n) (vtab D s) (vtab D c) (tab D D d) (vtab D n') (vtab D s') (vtab D c') (tab D D d') X
  = T2_map D A B (vtab D n) (vtab D s) (vtab D c) (tab D D d) (vtab D n') (vtab D s') (vtab D c') (tab D D d') X.
Proof. exact (pts2_is_T2_map K Kf Kc). Qed.

(* 5. the matrix Grid.transform returns is the map the point API applies (one and two grids) *)
Theorem C01_transform_matrix_is_point_map :
  forall (D : nat) (n s c : nat -> K) (d : nat -> nat -> K), D = 2%nat \/ D = 3%nat -> wf D n s d ->
  forall (A B : axes) (X : list K), length X = D ->
  tapply D (gen_T_form A B) (gen_T D A B (vtab D n) (vtab D s) (vtab D c) (tab D D d)) X
  = gen_pts D A B (vtab D n) (vtab D s) (vtab D c) (tab D D d) X.
Proof. exact (T_matrix_is_pts K Kf Kc). Qed.

Theorem C01_transform_matrix_is_point_map_two_grids :
  forall (D : nat), D = 2%nat \/ D = 3%nat ->
  forall (A B : axes) (n s c : nat -> K) (d : nat -> nat -> K) (n' s' c' : nat -> K) (d' : nat -> nat -> K) (X : list K),
  wf D n s d -> wf D n' s' d' -> length X = D ->
  tapply D (gen_T2_form A B)
    (gen_T2 D A B (vtab D n) (vtab D s) (vtab D c) (tab D D d) (vtab D n') (vtab D s') (vtab D c') (tab D D d')) X
  = gen_pts2 D A B (vtab D n) (vtab D s) (vtab D c) (tab D D d) (vtab D n') (vtab D s') (vtab D c') (tab D D d') X.
Proof. exact (T2_matrix_is_pts2 K Kf Kc). Qed.

(* 6. vectors transform by exactly the linear part of the point map; closed-form vectors path,
      vectors=True matrix and linear part of the points matrix all coincide *)
Theorem C01_vectors_linear_part :
  forall (D : nat) (n s c : nat -> K) (d : nat -> nat -> K), D = 2%nat \/ D = 3%nat -> wf D n s d ->
  forall (A B : axes) (X V : list K), length X = D -> length V = D ->
  vsub (gen_pts D A B (vtab D n) (vtab D s) (vtab D c) (tab D D d) (vadd X V))
       (gen_pts D A B (vtab D n) (vtab D s) (vtab D c) (tab D D d) X)
  = gen_vecs D A B (vtab D n) (vtab D s) (vtab D c) (tab D D d) V.
Proof. exact (vecs_linear_part K Kf Kc). Qed.

Theorem C01_vectors_matrix_paths_agree :
  forall (D : nat) (n s c : nat -> K) (d : nat -> nat -> K), D = 2%nat \/ D = 3%nat -> wf D n s d ->
  forall (A B : axes) (V : list K), length V = D ->
  form_vec D (gen_Tv_form A B) (gen_Tv D A B (vtab D n) (vtab D s) (vtab D c) (tab D D d)) V
    = gen_vecs D A B (vtab D n) (vtab D s) (vtab D c) (tab D D d) V
  /\ form_vec D (gen_T_form A B) (gen_T D A B (vtab D n) (vtab D s) (vtab D c) (tab D D d)) V
    = gen_vecs D A B (vtab D n) (vtab D s) (vtab D c) (tab D D d) V.
Proof. exact (Tv_matrix_is_vecs K Kf Kc). Qed.

Theorem C01_vectors_two_grids :
  forall (D : nat), D = 2%nat \/ D = 3%nat ->
  forall (A B : axes) (n s c : nat -> K) (d : nat -> nat -> K) (n' s' c' : nat -> K) (d' : nat -> nat -> K) (X V : list K),
  wf D n s d -> wf D n' s' d' -> length X = D -> length V = D ->
  vsub (gen_pts2 D A B (vtab D n) (vtab D s) (vtab D c) (tab D D d) (vtab D n') (vtab D s') (vtab D c') (tab D D d') (vadd X V))
       (gen_pts2 D A B (vtab D n) (vtab D s) (vtab D c) (tab D D d) (vtab D n') (vtab D s') (vtab D c') (tab D D d') X)
  = gen_vecs2 D A B (vtab D n) (vtab D s) (vtab D c) (tab D D d) (vtab D n') (vtab D s') (vtab D c') (tab D D d') V
  /\ form_vec D (gen_T2v_form A B)
       (gen_T2v D A B (vtab D n) (vtab D s) (vtab D c) (tab D D d) (vtab D n') (vtab D s') (vtab D c') (tab D D d')) V
     = gen_vecs2 D A B (vtab D n) (vtab D s) (vtab D c) (tab D D d) (vtab D n') (vtab D s') (vtab D c') (tab D D d') V.
Proof. exact (vecs2_linear_part K Kf Kc). Qed.

(* 7. anchors *)
Theorem C01_anchor_origin_center :
  forall (D : nat) (n s c : nat -> K) (d : nat -> nat -> K), D = 2%nat \/ D = 3%nat -> wf D n s d ->
  gen_pts D GRID WORLD (vtab D n) (vtab D s) (vtab D c) (tab D D d) (vzero D)
    = gen_origin D (vtab D n) (vtab D s) (vtab D c) (tab D D d)
  /\ gen_pts D GRID WORLD (vtab D n) (vtab D s) (vtab D c) (tab D D d)
       (vscale half (vsub (vtab D n) (vones D))) = vtab D c.
Proof. intros D n s c d HD H. split; [exact (anchor_origin K Kf Kc D n s c d HD H) | exact (anchor_center K Kf Kc D n s c d HD H)]. Qed.

(* ... also for a grid CONSTRUCTED from an origin (Grid(origin=o), from_sitk, from_reader, crop/pad-derived grids): the
   stored center is such that index 0 lands on the given origin *)
Theorem C01_anchor_origin_constructor :
  forall (D : nat), D = 2%nat \/ D = 3%nat ->
  forall (n s o : nat -> K) (d : nat -> nat -> K),
  let Cn := gen_center_of_origin D (vtab D n) (vtab D s) (tab D D d) (vtab D o) in
  gen_pts D GRID WORLD (vtab D n) (vtab D s) Cn (tab D D d) (vzero D) = vtab D o.
Proof. intros D HD n s o d. exact (proj2 (proj2 (origin_roundtrip K Kf Kc D HD n s o d))). Qed.

Theorem C01_anchor_cube_corners :
  forall (D : nat) (n s c : nat -> K) (d : nat -> nat -> K), D = 2%nat \/ D = 3%nat -> wf D n s d ->
  gen_pts D CUBE_CORNERS GRID (vtab D n) (vtab D s) (vtab D c) (tab D D d) (vopp (vones D)) = vzero D /\
  gen_pts D CUBE_CORNERS GRID (vtab D n) (vtab D s) (vtab D c) (tab D D d) (vones D) = vsub (vtab D n) (vones D) /\
  gen_pts D GRID CUBE_CORNERS (vtab D n) (vtab D s) (vtab D c) (tab D D d) (vzero D) = vopp (vones D) /\
  gen_pts D GRID CUBE_CORNERS (vtab D n) (vtab D s) (vtab D c) (tab D D d) (vsub (vtab D n) (vones D)) = vones D.
Proof. exact (anchor_corners K Kf Kc). Qed.

Theorem C01_anchor_cube :
  forall (D : nat) (n s c : nat -> K) (d : nat -> nat -> K), D = 2%nat \/ D = 3%nat -> wf D n s d ->
  gen_pts D CUBE GRID (vtab D n) (vtab D s) (vtab D c) (tab D D d) (vopp (vones D)) = vopp (vscale half (vones D)) /\
  gen_pts D CUBE GRID (vtab D n) (vtab D s) (vtab D c) (tab D D d) (vones D) = vsub (vtab D n) (vscale half (vones D)) /\
  gen_pts D GRID CUBE (vtab D n) (vtab D s) (vtab D c) (tab D D d) (vopp (vscale half (vones D))) = vopp (vones D) /\
  gen_pts D GRID CUBE (vtab D n) (vtab D s) (vtab D c) (tab D D d) (vsub (vtab D n) (vscale half (vones D))) = vones D.
Proof. exact (anchor_cube K Kf Kc). Qed.

(* 8. the domain object's cube <-> world maps are those of the three-point align_corners grid *)
Theorem C01_cube_is_three_point_grid :
  forall (D : nat) (corners : bool) (e c : nat -> K) (d : nat -> nat -> K) (X : list K),
  D = 2%nat \/ D = 3%nat -> (forall i, (i < D)%nat -> e i <> 0) -> orthonormal D (tab D D d) -> length X = D ->
  let three := vtab D (fun _ => 1 + 1 + 1) in
  let sp := vtab D (fun i => e i / (1 + 1)) in
  happly D (cube_T D true corners (vtab D e) (vtab D c) (tab D D d)) X
  = gen_pts D CUBE_CORNERS WORLD three sp (vtab D c) (tab D D d) X
  /\ happly D (cube_T D false corners (vtab D e) (vtab D c) (tab D D d)) X
  = gen_pts D WORLD CUBE_CORNERS three sp (vtab D c) (tab D D d) X.
Proof. exact (cube_is_three_point_grid K Kf Kc). Qed.

(* 8b. two domain objects: with to_cube given, Cube.transform (points and vectors) is "this cube -> world -> other cube";
       in particular WORLD -> CUBE maps into the OTHER cube *)
Theorem C01_cube_two_through_world :
  forall (D : nat) (e c te tc : nat -> K) (d td : nat -> nat -> K) (X : list K),
  D = 2%nat \/ D = 3%nat -> (forall i, (i < D)%nat -> e i <> 0) -> (forall i, (i < D)%nat -> te i <> 0) -> length X = D ->
  let E := vtab D e in let C := vtab D c in let Dm := tab D D d in
  let TE := vtab D te in let TC := vtab D tc in let TD := tab D D td in
  happly D (cube2_T D false false false E C Dm TE TC TD) X
    = happly D (cube_T D false false TE TC TD) (happly D (cube_T D true false E C Dm) X) /\
  mv (cube2_T D false false true E C Dm TE TC TD) X = mv (cube_Tv D false TE TC TD) (mv (cube_Tv D true E C Dm) X) /\
  happly D (cube2_T D true false false E C Dm TE TC TD) X = happly D (cube_T D false false TE TC TD) X /\
  mv (cube2_T D true false true E C Dm TE TC TD) X = mv (cube_Tv D false TE TC TD) X /\
  happly D (cube2_T D false true false E C Dm TE TC TD) X = happly D (cube_T D true false E C Dm) X /\
  mv (cube2_T D false true true E C Dm TE TC TD) X = mv (cube_Tv D true E C Dm) X.
Proof. exact (cube_two_through_world K Kf Kc). Qed.
End Statements.

Print Assumptions C01_inverse.
Print Assumptions C01_compose.
Print Assumptions C01_inverse_two_grids.
Print Assumptions C01_compose_three_grids.
Print Assumptions C01_cube_is_three_point_grid.

Local Open Scope Q_scope.
(* 9. the per-axis sample lattice: for EVERY n >= 2 and both conventions there are exactly n
      coordinates, the j-th is the grid map applied to index j, all lie in [-1, 1]; torch's
      un-normalisation maps the j-th coordinate back to sample j (so sampling at the reported
      coordinates with the matching flag hits every sample exactly) *)
Theorem C01_lattice :
  forall (ac : bool) (n : Z), (2 <= n)%Z ->
  let start := if ac then gen_coords_start_ac (inject_Z n) else gen_coords_start_nac (inject_Z n) in
  let stop := if ac then gen_coords_stop_ac (inject_Z n) else gen_coords_stop_nac (inject_Z n) in
  let step := if ac then gen_coords_step_ac (inject_Z n) else gen_coords_step_nac (inject_Z n) in
  length (arange start stop step) = Z.to_nat n /\
  forall j : nat, (j < Z.to_nat n)%nat ->
    nth j (arange start stop step) 0 == coord_spec ac (inject_Z n) (inject_Z (Z.of_nat j)) /\
    -1 <= nth j (arange start stop step) 0 <= 1.
Proof. exact coords_lattice. Qed.
Print Assumptions C01_lattice.

Theorem C01_unnormalize_own_coords :
  forall (ac : bool) (n i : Q), ~ n == 0 -> ~ n - 1 == 0 -> unnormalize ac n (coord_spec ac n i) == i.
Proof. exact unnormalize_coord. Qed.
Print Assumptions C01_unnormalize_own_coords.

Local Close Scope Q_scope.
Local Open Scope fld_scope.
(* 9b. sampling an image at the coordinates its grid reports, with the matching align_corners flag, returns
       the image unchanged: every size >= 2 per axis, D = 1, 2, 3, either padding mode (grid_sample model of
       Model/Sampler.v; floor is a parameter that must be exact on integers, as it is for the Qc instance) *)
Theorem C01_sample_own_coords :
  forall (K : fld), is_field K -> char0 K ->
  forall (floorK : K -> Z), (forall i : Z, floorK (of_Z i) = i) ->
  (forall (pad : padmode) (ac : bool) (l : list K) (j : Z),
     (2 <= zlen l)%Z -> (0 <= j < zlen l)%Z ->
     grid_sample1 floorK pad ac l (coordK K ac (zlen l) j) = nth (Z.to_nat j) l 0) /\
  (forall (pad : padmode) (ac : bool) (img : list (list K)) (jx jy : Z),
     (2 <= zlen img)%Z -> (2 <= zlen (hd [] img))%Z ->
     (forall row, In row img -> zlen row = zlen (hd [] img)) ->
     (0 <= jy < zlen img)%Z -> (0 <= jx < zlen (hd [] img))%Z ->
     grid_sample2 floorK pad ac img (coordK K ac (zlen (hd [] img)) jx) (coordK K ac (zlen img) jy)
     = nth (Z.to_nat jx) (nth (Z.to_nat jy) img []) 0) /\
  (forall (pad : padmode) (ac : bool) (img : list (list (list K))) (jx jy jz : Z),
     let ny := zlen (hd [] img) in let nx := zlen (hd [] (hd [] img)) in
     (2 <= zlen img)%Z -> (2 <= ny)%Z -> (2 <= nx)%Z ->
     (forall sl, In sl img -> zlen sl = ny /\ forall row, In row sl -> zlen row = nx) ->
     (0 <= jz < zlen img)%Z -> (0 <= jy < ny)%Z -> (0 <= jx < nx)%Z ->
     grid_sample3 floorK pad ac img (coordK K ac nx jx) (coordK K ac ny jy) (coordK K ac (zlen img) jz)
     = nth (Z.to_nat jx) (nth (Z.to_nat jy) (nth (Z.to_nat jz) img []) []) 0).
Proof.
  intros K Kf Kc floorK Hf. split; [|split].
  - exact (sample_own_coords_1d K Kf Kc floorK Hf).
  - exact (sample_own_coords_2d K Kf Kc floorK Hf).
  - exact (sample_own_coords_3d K Kf Kc floorK Hf).
Qed.
Print Assumptions C01_sample_own_coords.

Theorem C01_qc_floor_exact_on_integers : forall i : Z, floorQ (of_Z (K:=QcF) i) = i.
Proof. exact floorQ_of_Z. Qed.
Local Close Scope fld_scope.
Local Open Scope Q_scope.

(* 10. default rounding of mapped coordinates: error at most half a unit in the last kept decimal,
       hence an explicit bound on a rounded round trip through a per-axis map y = a x + b *)
Theorem C01_rounding :
  forall (d : Z) (a b x : Q), (0 <= d)%Z -> ~ a == 0 ->
  Qabs.Qabs (round_decimals d x - x) <= (1 # 2) / pow10 d /\
  Qabs.Qabs ((round_decimals d (a * x + b) - b) / a - x) <= (1 # 2) / pow10 d / Qabs.Qabs a.
Proof. intros d a b x Hd Ha. split; [exact (round_decimals_err d x Hd) | exact (round_trip_bound d a b x Hd Ha)]. Qed.
Print Assumptions C01_rounding.

Theorem C01_default_decimals :
  gen_default_decimals GRID = Some 6%Z /\ gen_default_decimals CUBE = Some 12%Z /\
  gen_default_decimals CUBE_CORNERS = Some 12%Z /\ gen_default_decimals WORLD = None.
Proof. repeat split. Qed.

(* non-vacuity: a rotated anisotropic grid over Qc satisfies wf, and its maps are not trivial *)
Example C01_nonvacuous :
  let n : nat -> QcF := fun i => nth i [q 5 1; q 7 1] (q 1 1) in
  let s : nat -> QcF := fun i => nth i [q 1 2; q 2 1] (q 1 1) in
  let d : nat -> nat -> QcF := fun i j => nth j (nth i [[q 3 5; q (-4) 5]; [q 4 5; q 3 5]] []) (q 0 1) in
  wf 2 n s d /\
  veqb (gen_pts (K:=QcF) 2 GRID WORLD (vtab 2 n) (vtab 2 s) [q 10 1; q (-3) 1] (tab 2 2 d) [q 1 1; q 2 1])
       [q 1 1; q 2 1] = false.
Proof.
  intros n s d. split; [|vm_compute; reflexivity].
  repeat split.
  - intros [|[|i]] Hi; try lia; apply qeqb_neq; vm_compute; reflexivity.
  - intros [|[|i]] Hi; try lia; apply qeqb_neq; vm_compute; reflexivity.
  - intros [|[|i]] Hi; try lia; apply qeqb_neq; vm_compute; reflexivity.
  - apply meqb_eq. vm_compute. reflexivity.
  - apply meqb_eq. vm_compute. reflexivity.
Qed.
