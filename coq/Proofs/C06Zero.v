(* C06 (round 2): freshly constructed non-rigid models.  Their parameters are 0 (gen_nonrigid_defaults_zero); resizing a zero
   buffer to the grid (DenseVectorFieldTransform.evaluate, SpatialTransform.disp) gives a zero field of the grid's size, and a
   zero field is the identity point map -- 2-D and 3-D, every buffer size, every lattice size. *)
From Coq Require Import ZArith List Field Ring Lia Bool.
From DV Require Import Base.Field Base.FieldFacts Base.LinAlg Base.Tactics Model.Sampler Model.Transform
  Proofs.SamplerFacts Proofs.C06Warp Proofs.C06Pullback.
Import ListNotations.
Local Open Scope fld_scope.

Section Zero.
Variable K : fld.
Hypothesis Kf : is_field K.
Add Field KF_C06Zero : Kf.
Variable floorK : K -> Z.

Definition zero2 (nx ny : nat) : list (list K) := repeat (repeat 0 nx) ny.
Definition zero3 (nx ny nz : nat) : list (list (list K)) := repeat (zero2 nx ny) nz.

Lemma getp_plane (pad : padmode) (nx ny nz : nat) (iz : Z) :
  getp pad [] (zero3 nx ny nz) iz = zero2 nx ny \/ getp pad [] (zero3 nx ny nz) iz = [].
Proof.
  unfold getp, zero3. destruct pad.
  - destruct (inb iz _); [|now right].
    destruct (nth_in_or_default (Z.to_nat iz) (repeat (zero2 nx ny) nz) []) as [Hi | Hi]; [left; now apply repeat_spec in Hi | now right].
  - destruct (nth_in_or_default (Z.to_nat (clampz iz (zlen (repeat (zero2 nx ny) nz)))) (repeat (zero2 nx ny) nz) []) as [Hi | Hi];
      [left; now apply repeat_spec in Hi | now right].
Qed.

Lemma getp_zero3 (pad : padmode) (nx ny nz : nat) (ix iy iz : Z) :
  getp pad 0 (getp pad [] (getp pad [] (zero3 nx ny nz) iz) iy) ix = 0.
Proof.
  destruct (getp_plane pad nx ny nz iz) as [-> | ->].
  - apply (getp_zero2 K).
  - apply (getp_zero2 K pad 0%nat 0%nat).
Qed.

Lemma sample2_zero (pad : padmode) (nx ny : nat) (px py : K) : sample2 floorK pad (zero2 nx ny) px py = 0.
Proof. unfold sample2, cell, interp2, interp1, lerp, zero2. rewrite !(getp_zero2 K). ring. Qed.
Lemma sample3_zero (pad : padmode) (nx ny nz : nat) (px py pz : K) : sample3 floorK pad (zero3 nx ny nz) px py pz = 0.
Proof. unfold sample3, cell, interp3, interp2, interp1, lerp. rewrite !getp_zero3. ring. Qed.

Lemma map_const {A B} (c : B) (l : list A) : map (fun _ => c) l = repeat c (List.length l).
Proof. induction l as [|a l IH]; [reflexivity|]. cbn. now rewrite IH. Qed.
Lemma zseq_length (m : Z) : List.length (zseq m) = Z.to_nat m.
Proof. unfold zseq. now rewrite map_length, seq_length. Qed.

(* resizing a zero buffer (any size) to any lattice size gives the zero field of that size *)
Theorem resize2_zero (ac : bool) (nx ny : nat) (mx my : Z) :
  resize2 floorK ac mx my (zero2 nx ny) = zero2 (Z.to_nat mx) (Z.to_nat my).
Proof.
  unfold resize2. erewrite map_ext; [|intro jy; erewrite map_ext; [|intro jx; apply sample2_zero]; rewrite map_const, zseq_length; reflexivity].
  rewrite map_const, zseq_length. reflexivity.
Qed.
Theorem resize3_zero (ac : bool) (nx ny nz : nat) (mx my mz : Z) :
  resize3 floorK ac mx my mz (zero3 nx ny nz) = zero3 (Z.to_nat mx) (Z.to_nat my) (Z.to_nat mz).
Proof.
  unfold resize3.
  erewrite map_ext; [|intro jz; erewrite map_ext; [|intro jy; erewrite map_ext; [|intro jx; apply sample3_zero];
                       rewrite map_const, zseq_length; reflexivity]; rewrite map_const, zseq_length; reflexivity].
  rewrite map_const, zseq_length. reflexivity.
Qed.

(* a zero field is the identity point map *)
Theorem fresh_field_is_identity3 (ac : bool) (a b c d e f g h i : nat) (x y z : K) :
  warp_points3 floorK ac (zero3 a b c) (zero3 d e f) (zero3 g h i) [x; y; z] = [x; y; z].
Proof. unfold warp_points3, grid_sample3. rewrite !sample3_zero. list_eq; ring. Qed.
End Zero.
