(* C14: the generated weight polynomials are the analytic cubic B-spline basis. *)
From Coq Require Import ZArith List Field Ring Lia.
From DV Require Import Base.Field Base.FieldFacts Base.LinAlg Base.Tactics Model.BSplineBase Gen.BSpline Proofs.C14Tac.
Import ListNotations.
Local Open Scope fld_scope.

Section Proofs.
Variable K : fld.
Hypothesis Kf : is_field K.
Hypothesis Kc : char0 K.
Add Field KF : Kf.

Ltac side := refold K; repeat split; auto; nz Kc.
Ltac fld := fcbv; field; side.

(* 1. spec sanity: coefficient lists = truncated-power definition of the cubic B-spline *)
Lemma Bspec_is_truncated_power (p : bpiece) (x : K) : Bspec 0 p x = Btrunc p x.
Proof. destruct p; fld. Qed.

(* C^2 at the knots -2, -1, 0, 1, 2 *)
Lemma Bspec_C2 (d : nat) : (d <= 2)%nat ->
  @Bspec K d PLo (of_Z (-2)) = @Bspec K d PM2 (of_Z (-2)) /\ @Bspec K d PM2 (of_Z (-1)) = @Bspec K d PM1 (of_Z (-1)) /\
  @Bspec K d PM1 0 = @Bspec K d PP0 0 /\ @Bspec K d PP0 1 = @Bspec K d PP1 1 /\ @Bspec K d PP1 (of_Z 2) = @Bspec K d PHi (of_Z 2).
Proof.
  intro H. destruct d as [|[|[|d]]]; [| | |lia]; repeat split; fld.
Qed.

Lemma Bspec_symmetric (x : K) :
  Bspec 0 PM2 (- x) = Bspec 0 PP1 x /\ Bspec 0 PM1 (- x) = Bspec 0 PP0 x.
Proof. split; fld. Qed.

(* 2. code = spec *)
Lemma gen_B0_spec (p : bpiece) (x : K) : gen_B0 p x = Bspec 0 p x.
Proof. destruct p; fld. Qed.
Lemma gen_B1_spec (p : bpiece) (x : K) : gen_B1 p x = Bspec 1 p x.
Proof. destruct p; fld. Qed.
Lemma gen_B2_spec (p : bpiece) (x : K) : gen_B2 p x = Bspec 2 p x.
Proof. destruct p; fld. Qed.

Lemma gen_B3_spec (p : bpiece) (x : K) : gen_B3 p x = Bspec 3 p x.
Proof. destruct p; fld. Qed.

Lemma weights_are_basis (d : nat) (t : K) : (d <= 3)%nat -> gen_w d t = basis4 d t.
Proof.
  intro H. destruct d as [|[|[|[|d]]]]; [| | | |lia]; unfold gen_w, basis4;
  [unfold gen_w0|unfold gen_w1|unfold gen_w2|unfold gen_w3]; list_eq; fld.
Qed.

Lemma pderiv_n_nil (d : nat) : pderiv_n d (@nil K) = [].
Proof. induction d; cbn; [reflexivity|rewrite IHd; reflexivity]. Qed.

Lemma pderiv_n_shift (d : nat) (l : list K) : pderiv_n (S d) l = pderiv_n d (pderiv l).
Proof. induction d; [reflexivity|]. cbn [pderiv_n] in *. rewrite IHd. reflexivity. Qed.

Lemma pderiv_n_cubic (d : nat) (l : list K) : (length l <= 4)%nat -> pderiv_n (4 + d) l = [].
Proof.
  intro H. change (4 + d)%nat with (S (S (S (S d)))). rewrite !pderiv_n_shift.
  do 5 (destruct l as [|? l]; [cbn; apply pderiv_n_nil|]). cbn in H. lia.
Qed.

Lemma weights_high_order (d : nat) (t : K) : (4 <= d)%nat -> gen_w d t = basis4 d t /\ gen_w d t = [0; 0; 0; 0].
Proof.
  intro H. replace d with (4 + (d - 4))%nat by lia. split; [|reflexivity].
  unfold basis4, Bspec. rewrite !pderiv_n_cubic by (cbn; lia). reflexivity.
Qed.

(* 3. partition of unity, derivative weights sum to zero, linear precision *)
Lemma partition_of_unity (t : K) : vsum (gen_w 0 t) = 1.
Proof. fld. Qed.

Lemma derivative_weights_sum_zero (d : nat) (t : K) : (1 <= d)%nat -> vsum (gen_w d t) = 0.
Proof.
  intro H. destruct d as [|[|[|[|d]]]]; [lia| | | |]; fld.
Qed.

(* first moment about the cell: sum_k w_k (k - 1) *)
Lemma linear_precision (t : K) : moment1 (gen_w 0 t) = t.
Proof. fld. Qed.
Lemma linear_precision_d1 (t : K) : moment1 (gen_w 1 t) = 1.
Proof. fld. Qed.
Lemma linear_precision_high (d : nat) (t : K) : (2 <= d)%nat -> moment1 (gen_w d t) = 0.
Proof. intro H. destruct d as [|[|[|[|d]]]]; [lia|lia| | |]; fld. Qed.

(* 4. formal derivative of the order-d weights = order-(d+1) weights *)
Lemma weights_are_polynomials (d k : nat) (t : K) : (k < 4)%nat -> nth k (gen_w d t) 0 = peval (wcoef d k) t.
Proof.
  intro Hk. destruct (Nat.lt_ge_cases d 4) as [Hd|Hd].
  - destruct k as [|[|[|[|k]]]]; [| | | |lia]; (destruct d as [|[|[|[|d]]]]; [fld|fld|fld|fld|lia]).
  - replace d with (4 + (d - 4))%nat by lia. unfold wcoef. rewrite pderiv_n_cubic.
    + destruct k as [|[|[|[|k]]]]; [reflexivity|reflexivity|reflexivity|reflexivity|lia].
    + destruct k as [|[|[|[|k]]]]; cbn; lia.
Qed.

Lemma weights_formal_derivative (d k : nat) : pderiv (@wcoef K d k) = wcoef (S d) k.
Proof. reflexivity. Qed.

(* peval is additive etc.: the formal derivative is characterised by the Taylor shift
   p(t + h) = p(t) + h p'(t) + h^2 r(t, h) -- proved for every coefficient list *)
Fixpoint pshift2 (p : list K) (t h : K) : K :=   (* the remainder r(t, h) *)
  match p with
  | [] => 0
  | a :: r => peval (pderiv r) t + (t + h) * pshift2 r t h
  end.

Lemma of_nat_S n : @of_nat K (S n) = of_nat n + 1.
Proof. reflexivity. Qed.

Lemma pd_from_eval (n : nat) (p : list K) (t : K) : peval (pd_from (S n) p) t = peval (pd_from n p) t + peval p t.
Proof.
  revert n. induction p as [|a r IH]; intro n; cbn [pd_from peval]; [ring|].
  rewrite IH. rewrite of_nat_S. ring.
Qed.

Lemma pderiv_cons (a : K) (r : list K) (t : K) : peval (pderiv (a :: r)) t = peval r t + t * peval (pderiv r) t.
Proof.
  cbn [pderiv]. destruct r as [|b r]; cbn [pd_from peval pderiv]; [ring|].
  rewrite pd_from_eval. cbn [of_nat]. ring.
Qed.

Lemma taylor_shift (p : list K) (t h : K) :
  peval p (t + h) = peval p t + h * peval (pderiv p) t + h * h * pshift2 p t h.
Proof.
  induction p as [|a r IH]; [cbn; ring|].
  rewrite pderiv_cons. cbn [peval pshift2]. rewrite IH. ring.
Qed.
Lemma weights_are_basis_all (d : nat) (t : K) : gen_w d t = basis4 d t.
Proof.
  destruct (Nat.le_gt_cases d 3) as [H|H]; [apply weights_are_basis; exact H|apply weights_high_order; lia].
Qed.
End Proofs.
