(* C05: resampling on any oriented grid = the ITK resampler; sampling on the own grid is the identity;
   sampling at explicit coordinates = sampling on the grid they came from. *)
From Coq Require Import ZArith List Field Ring Lia Bool.
From DV Require Import Base.Field Base.FieldFacts Base.LinAlg Base.Tactics Model.Enums Model.Homog Model.Grid Model.ItkSpec
  Model.Sampler Gen.GridT Gen.SampleT Model.Resample Proofs.SamplerFacts Proofs.C01Grid Proofs.C01Laws Proofs.C05Index Proofs.C05Kernel.
Import ListNotations.
Local Open Scope fld_scope.

Section C05Main.
Variable K : fld.
Hypothesis Kf : is_field K.
Hypothesis Kc : char0 K.
Add Field KF_C05Main : Kf.
Variable floorK : K -> Z.
Variable nearK : K -> Z.

Lemma sz2_list (img : list (list K)) : map (sz2 img) (seq 0 2) = isizes2 img.
Proof. reflexivity. Qed.
Lemma sz3_list (img : list (list (list K))) : map (sz3 img) (seq 0 3) = isizes3 img.
Proof. reflexivity. Qed.
Lemma zvec2 (img : list (list K)) : zvec (K:=K) (isizes2 img) = vtab 2 (zsz (sz2 img)).
Proof. reflexivity. Qed.
Lemma zvec3 (img : list (list (list K))) : zvec (K:=K) (isizes3 img) = vtab 3 (zsz (sz3 img)).
Proof. reflexivity. Qed.

Ltac len2 X H := destruct X as [|?x0 [|?x1 [|? ?]]]; try discriminate H; clear H.
Ltac len3 X H := destruct X as [|?x0 [|?x1 [|?x2 [|? ?]]]]; try discriminate H; clear H.

Lemma itk_cindex_length D (tn ts tc sn ss sc : nat -> K) (td sd : nat -> nat -> K) (J : list K) :
  D = 2%nat \/ D = 3%nat -> length J = D ->
  length (itk_cindex D (vtab D tn) (vtab D ts) (vtab D tc) (tab D D td) (vtab D sn) (vtab D ss) (vtab D sc) (tab D D sd) J) = D.
Proof. intros [-> | ->] HJ; [len2 J HJ | len3 J HJ]; reflexivity. Qed.

(* the value deepali computes is its kernel applied at the continuous index of C05Index *)
Lemma dp_sample2_unfold m p ac tn ts tc td ss sc sd (img : list (list K)) J :
  dp_sample2 floorK nearK m p ac tn ts tc td ss sc sd img J
  = dp_kernel2 floorK nearK m p img (dp_index 2 ac tn ts tc td (isizes2 img) ss sc sd J).
Proof. reflexivity. Qed.
Lemma dp_sample3_unfold m p ac tn ts tc td ss sc sd (img : list (list (list K))) J :
  dp_sample3 floorK nearK m p ac tn ts tc td ss sc sd img J
  = dp_kernel3 floorK nearK m p img (dp_index 3 ac tn ts tc td (isizes3 img) ss sc sd J).
Proof. reflexivity. Qed.
Lemma mod_sample2_unfold m p A ac tn ts tc td ss sc sd (img : list (list K)) J :
  mod_sample2 floorK nearK m p A ac tn ts tc td ss sc sd img J
  = dp_kernel2 floorK nearK m p img (mod_index 2 A ac tn ts tc td (isizes2 img) ss sc sd J).
Proof. reflexivity. Qed.
Lemma mod_sample3_unfold m p A ac tn ts tc td ss sc sd (img : list (list (list K))) J :
  mod_sample3 floorK nearK m p A ac tn ts tc td ss sc sd img J
  = dp_kernel3 floorK nearK m p img (mod_index 3 A ac tn ts tc td (isizes3 img) ss sc sd J).
Proof. reflexivity. Qed.

(* kernels agree at a common index X inside the field of view / buffer *)
Lemma kernel_matches_itk2 (m : smode) (p : padarg) (dflt : K) (img : list (list K)) (X : list K) :
  rect2 (zlen (hd [] img)) img -> length X = 2%nat ->
  match m with Linear => fov_ok floorK (isizes2 img) X | Nearest => near_ok floorK nearK (isizes2 img) X end ->
  dp_kernel2 floorK nearK m p img X
  = (match m with Linear => itk_linear2 floorK | Nearest => itk_nearest2 floorK end) dflt img X.
Proof.
  intros HR HX H. len2 X HX. destruct m.
  - inversion H as [|? ? ? ? [Fx Ix] H2]; subst. inversion H2 as [|? ? ? ? [Fy Iy] H3]; subst.
    rewrite (dp_linear2_fov K Kf floorK nearK) by auto.
    unfold itk_linear2. rewrite Ix, Iy. reflexivity.
  - inversion H as [|? ? ? ? [Fx Ix] H2]; subst. inversion H2 as [|? ? ? ? [Fy Iy] H3]; subst.
    rewrite (dp_nearest2_ok K Kf floorK nearK) by auto.
    unfold itk_nearest2. rewrite Ix, Iy. reflexivity.
Qed.

Lemma kernel_matches_itk3 (m : smode) (p : padarg) (dflt : K) (img : list (list (list K))) (X : list K) :
  rect3 (zlen (hd [] (hd [] img))) (zlen (hd [] img)) img -> length X = 3%nat ->
  match m with Linear => fov_ok floorK (isizes3 img) X | Nearest => near_ok floorK nearK (isizes3 img) X end ->
  dp_kernel3 floorK nearK m p img X
  = (match m with Linear => itk_linear3 floorK | Nearest => itk_nearest3 floorK end) dflt img X.
Proof.
  intros HR HX H. len3 X HX. destruct m.
  - inversion H as [|? ? ? ? [Fx Ix] H2]; subst. inversion H2 as [|? ? ? ? [Fy Iy] H3]; subst.
    inversion H3 as [|? ? ? ? [Fz Iz] H4]; subst.
    rewrite (dp_linear3_fov K Kf floorK nearK) by auto.
    unfold itk_linear3. rewrite Ix, Iy, Iz. reflexivity.
  - inversion H as [|? ? ? ? [Fx Ix] H2]; subst. inversion H2 as [|? ? ? ? [Fy Iy] H3]; subst.
    inversion H3 as [|? ? ? ? [Fz Iz] H4]; subst.
    rewrite (dp_nearest3_ok K Kf floorK nearK) by auto.
    unfold itk_nearest3. rewrite Ix, Iy, Iz. reflexivity.
Qed.


(* sample_matches_itk, data level (Image.sample / ImageBatch.sample with a Grid) *)
Theorem sample_matches_itk2 (m : smode) (p : padarg) (ac : bool) (dflt : K)
        (tn ts tc : nat -> K) (td : nat -> nat -> K) (ss sc : nat -> K) (sd : nat -> nat -> K)
        (img : list (list K)) (J : list K) :
  wf 2 tn ts td -> wf 2 (zsz (sz2 img)) ss sd -> rect2 (zlen (hd [] img)) img -> length J = 2%nat ->
  ok_at floorK nearK m (isizes2 img)
    (itk_cindex 2 (vtab 2 tn) (vtab 2 ts) (vtab 2 tc) (tab 2 2 td) (zvec (isizes2 img)) (vtab 2 ss) (vtab 2 sc) (tab 2 2 sd) J) ->
  dp_sample2 floorK nearK m p ac (vtab 2 tn) (vtab 2 ts) (vtab 2 tc) (tab 2 2 td) (vtab 2 ss) (vtab 2 sc) (tab 2 2 sd) img J
  = itk_resample2 floorK m dflt (vtab 2 tn) (vtab 2 ts) (vtab 2 tc) (tab 2 2 td) (vtab 2 ss) (vtab 2 sc) (tab 2 2 sd) img J.
Proof.
  intros Ht Hs HR HJ Hok. rewrite dp_sample2_unfold. rewrite <- sz2_list.
  rewrite (sample_index_matches_itk K Kf Kc 2 (or_introl eq_refl)) by auto.
  rewrite zvec2 in Hok. unfold itk_resample2. rewrite zvec2.
  apply kernel_matches_itk2; auto; apply itk_cindex_length; auto.
Qed.

Theorem sample_matches_itk3 (m : smode) (p : padarg) (ac : bool) (dflt : K)
        (tn ts tc : nat -> K) (td : nat -> nat -> K) (ss sc : nat -> K) (sd : nat -> nat -> K)
        (img : list (list (list K))) (J : list K) :
  wf 3 tn ts td -> wf 3 (zsz (sz3 img)) ss sd -> rect3 (zlen (hd [] (hd [] img))) (zlen (hd [] img)) img -> length J = 3%nat ->
  ok_at floorK nearK m (isizes3 img)
    (itk_cindex 3 (vtab 3 tn) (vtab 3 ts) (vtab 3 tc) (tab 3 3 td) (zvec (isizes3 img)) (vtab 3 ss) (vtab 3 sc) (tab 3 3 sd) J) ->
  dp_sample3 floorK nearK m p ac (vtab 3 tn) (vtab 3 ts) (vtab 3 tc) (tab 3 3 td) (vtab 3 ss) (vtab 3 sc) (tab 3 3 sd) img J
  = itk_resample3 floorK m dflt (vtab 3 tn) (vtab 3 ts) (vtab 3 tc) (tab 3 3 td) (vtab 3 ss) (vtab 3 sc) (tab 3 3 sd) img J.
Proof.
  intros Ht Hs HR HJ Hok. rewrite dp_sample3_unfold. rewrite <- sz3_list.
  rewrite (sample_index_matches_itk K Kf Kc 3 (or_intror eq_refl)) by auto.
  rewrite zvec3 in Hok. unfold itk_resample3. rewrite zvec3.
  apply kernel_matches_itk3; auto; apply itk_cindex_length; auto.
Qed.

(* module level (SampleImage on target.points(axes), AlignImage / TransformImage without a transform) *)
Theorem module_matches_itk2 (m : smode) (p : padarg) (A : axes) (ac : bool) (dflt : K)
        (tn ts tc : nat -> K) (td : nat -> nat -> K) (ss sc : nat -> K) (sd : nat -> nat -> K)
        (img : list (list K)) (J : list K) :
  wf 2 tn ts td -> wf 2 (zsz (sz2 img)) ss sd -> rect2 (zlen (hd [] img)) img -> length J = 2%nat ->
  ok_at floorK nearK m (isizes2 img)
    (itk_cindex 2 (vtab 2 tn) (vtab 2 ts) (vtab 2 tc) (tab 2 2 td) (zvec (isizes2 img)) (vtab 2 ss) (vtab 2 sc) (tab 2 2 sd) J) ->
  mod_sample2 floorK nearK m p A ac (vtab 2 tn) (vtab 2 ts) (vtab 2 tc) (tab 2 2 td) (vtab 2 ss) (vtab 2 sc) (tab 2 2 sd) img J
  = itk_resample2 floorK m dflt (vtab 2 tn) (vtab 2 ts) (vtab 2 tc) (tab 2 2 td) (vtab 2 ss) (vtab 2 sc) (tab 2 2 sd) img J.
Proof.
  intros Ht Hs HR HJ Hok. rewrite mod_sample2_unfold. rewrite <- sz2_list.
  rewrite (module_index_matches_itk K Kf Kc 2 (or_introl eq_refl)) by auto.
  rewrite zvec2 in Hok. unfold itk_resample2. rewrite zvec2.
  apply kernel_matches_itk2; auto; apply itk_cindex_length; auto.
Qed.

Theorem module_matches_itk3 (m : smode) (p : padarg) (A : axes) (ac : bool) (dflt : K)
        (tn ts tc : nat -> K) (td : nat -> nat -> K) (ss sc : nat -> K) (sd : nat -> nat -> K)
        (img : list (list (list K))) (J : list K) :
  wf 3 tn ts td -> wf 3 (zsz (sz3 img)) ss sd -> rect3 (zlen (hd [] (hd [] img))) (zlen (hd [] img)) img -> length J = 3%nat ->
  ok_at floorK nearK m (isizes3 img)
    (itk_cindex 3 (vtab 3 tn) (vtab 3 ts) (vtab 3 tc) (tab 3 3 td) (zvec (isizes3 img)) (vtab 3 ss) (vtab 3 sc) (tab 3 3 sd) J) ->
  mod_sample3 floorK nearK m p A ac (vtab 3 tn) (vtab 3 ts) (vtab 3 tc) (tab 3 3 td) (vtab 3 ss) (vtab 3 sc) (tab 3 3 sd) img J
  = itk_resample3 floorK m dflt (vtab 3 tn) (vtab 3 ts) (vtab 3 tc) (tab 3 3 td) (vtab 3 ss) (vtab 3 sc) (tab 3 3 sd) img J.
Proof.
  intros Ht Hs HR HJ Hok. rewrite mod_sample3_unfold. rewrite <- sz3_list.
  rewrite (module_index_matches_itk K Kf Kc 3 (or_intror eq_refl)) by auto.
  rewrite zvec3 in Hok. unfold itk_resample3. rewrite zvec3.
  apply kernel_matches_itk3; auto; apply itk_cindex_length; auto.
Qed.

(* sampling at explicit normalised coordinates X agrees with sampling on the grid they came from:
   whenever X un-normalises to the continuous index ITK assigns to target sample J *)
Theorem sample_coords_eq_sample_grid2 (m : smode) (p : padarg) (ac : bool)
        (tn ts tc : nat -> K) (td : nat -> nat -> K) (ss sc : nat -> K) (sd : nat -> nat -> K)
        (img : list (list K)) (J X : list K) :
  wf 2 tn ts td -> wf 2 (zsz (sz2 img)) ss sd -> length J = 2%nat ->
  X = dp_src_coords 2 ac (vtab 2 tn) (vtab 2 ts) (vtab 2 tc) (tab 2 2 td) (zvec (isizes2 img)) (vtab 2 ss) (vtab 2 sc) (tab 2 2 sd) J ->
  dp_grid_sample2 floorK nearK m p ac img X
  = dp_sample2 floorK nearK m p ac (vtab 2 tn) (vtab 2 ts) (vtab 2 tc) (tab 2 2 td) (vtab 2 ss) (vtab 2 sc) (tab 2 2 sd) img J
  /\ vunnorm ac (isizes2 img) X
     = itk_cindex 2 (vtab 2 tn) (vtab 2 ts) (vtab 2 tc) (tab 2 2 td) (zvec (isizes2 img)) (vtab 2 ss) (vtab 2 sc) (tab 2 2 sd) J.
Proof.
  intros Ht Hs HJ ->. split; [reflexivity|].
  rewrite zvec2. rewrite <- (sample_index_matches_itk K Kf Kc 2 (or_introl eq_refl) ac tn ts tc td (sz2 img) ss sc sd J) by auto.
  reflexivity.
Qed.

Theorem sample_coords_eq_sample_grid3 (m : smode) (p : padarg) (ac : bool)
        (tn ts tc : nat -> K) (td : nat -> nat -> K) (ss sc : nat -> K) (sd : nat -> nat -> K)
        (img : list (list (list K))) (J X : list K) :
  wf 3 tn ts td -> wf 3 (zsz (sz3 img)) ss sd -> length J = 3%nat ->
  X = dp_src_coords 3 ac (vtab 3 tn) (vtab 3 ts) (vtab 3 tc) (tab 3 3 td) (zvec (isizes3 img)) (vtab 3 ss) (vtab 3 sc) (tab 3 3 sd) J ->
  dp_grid_sample3 floorK nearK m p ac img X
  = dp_sample3 floorK nearK m p ac (vtab 3 tn) (vtab 3 ts) (vtab 3 tc) (tab 3 3 td) (vtab 3 ss) (vtab 3 sc) (tab 3 3 sd) img J
  /\ vunnorm ac (isizes3 img) X
     = itk_cindex 3 (vtab 3 tn) (vtab 3 ts) (vtab 3 tc) (tab 3 3 td) (zvec (isizes3 img)) (vtab 3 ss) (vtab 3 sc) (tab 3 3 sd) J.
Proof.
  intros Ht Hs HJ ->. split; [reflexivity|].
  rewrite zvec3. rewrite <- (sample_index_matches_itk K Kf Kc 3 (or_intror eq_refl) ac tn ts tc td (sz3 img) ss sc sd J) by auto.
  reflexivity.
Qed.

(* ---------- sampling an image on its own grid ---------- *)
Lemma itk_cindex_same D (n s c : nat -> K) (d : nat -> nat -> K) (J : list K) :
  D = 2%nat \/ D = 3%nat -> wf D n s d -> length J = D ->
  itk_cindex D (vtab D n) (vtab D s) (vtab D c) (tab D D d) (vtab D n) (vtab D s) (vtab D c) (tab D D d) J = J.
Proof.
  intros HD H HJ. rewrite <- (world_index_is_itk K Kf Kc D HD).
  apply (to_from_index K Kf Kc); auto.
Qed.

Hypothesis floor_int : forall i : Z, floorK (of_Z i) = i.
Hypothesis near_int : forall i : Z, nearK (of_Z i) = i.

Theorem sample_self_id2 (m : smode) (p : padarg) (ac : bool) (s c : nat -> K) (d : nat -> nat -> K)
        (img : list (list K)) (jx jy : Z) :
  wf 2 (zsz (sz2 img)) s d -> rect2 (zlen (hd [] img)) img ->
  (0 <= jx < zlen (hd [] img))%Z -> (0 <= jy < zlen img)%Z ->
  dp_sample2 floorK nearK m p ac (zvec (isizes2 img)) (vtab 2 s) (vtab 2 c) (tab 2 2 d) (vtab 2 s) (vtab 2 c) (tab 2 2 d) img
    [of_Z jx; of_Z jy] = val2 img jy jx.
Proof.
  intros H HR Hx Hy. rewrite dp_sample2_unfold, zvec2. rewrite <- sz2_list.
  rewrite (sample_index_matches_itk K Kf Kc 2 (or_introl eq_refl)) by auto.
  rewrite itk_cindex_same by auto.
  apply (dp_kernel2_at_sample K Kf floorK nearK floor_int near_int); auto.
Qed.

Theorem sample_self_id3 (m : smode) (p : padarg) (ac : bool) (s c : nat -> K) (d : nat -> nat -> K)
        (img : list (list (list K))) (jx jy jz : Z) :
  wf 3 (zsz (sz3 img)) s d -> rect3 (zlen (hd [] (hd [] img))) (zlen (hd [] img)) img ->
  (0 <= jx < zlen (hd [] (hd [] img)))%Z -> (0 <= jy < zlen (hd [] img))%Z -> (0 <= jz < zlen img)%Z ->
  dp_sample3 floorK nearK m p ac (zvec (isizes3 img)) (vtab 3 s) (vtab 3 c) (tab 3 3 d) (vtab 3 s) (vtab 3 c) (tab 3 3 d) img
    [of_Z jx; of_Z jy; of_Z jz] = val3 img jz jy jx.
Proof.
  intros H HR Hx Hy Hz. rewrite dp_sample3_unfold, zvec3. rewrite <- sz3_list.
  rewrite (sample_index_matches_itk K Kf Kc 3 (or_intror eq_refl)) by auto.
  rewrite itk_cindex_same by auto.
  apply (dp_kernel3_at_sample K Kf floorK nearK floor_int near_int); auto.
Qed.
End C05Main.
