(* Executable instance: canonical rationals. *)
From Coq Require Import ZArith QArith Qabs Qcanon Field List Lia.
From DV Require Import Base.Field Base.FieldFacts.
Import ListNotations.

Definition QcF : fld := mkFld Qc 0%Qc 1%Qc Qcplus Qcmult Qcminus Qcopp Qcdiv Qcinv.

Lemma QcF_field : is_field QcF.
Proof. exact Qcft. Qed.

Lemma Qc_of_pos p : @of_pos QcF p = Q2Qc (Z.pos p # 1).
Proof.
  induction p as [p IH|p IH|]; cbn [of_pos]; rewrite ?IH; apply Qc_is_canon;
  cbn -[Qred Qmult Qplus]; rewrite ?Qred_correct; unfold Qeq; cbn; lia.
Qed.

Lemma QcF_char0 : char0 QcF.
Proof.
  intros p E. rewrite Qc_of_pos in E.
  assert (H : (Z.pos p # 1) == 0).
  { apply (f_equal this) in E. change (Qred (Z.pos p # 1) = Qred 0) in E.
    rewrite <- (Qred_correct (Z.pos p # 1)), E. apply Qred_correct. }
  unfold Qeq in H; cbn in H; lia.
Qed.

(* helpers used by generated case files *)
Definition q (n : Z) (d : positive) : Qc := Q2Qc (n # d).
Definition qeqb (a b : Qc) : bool := Qeq_bool (this a) (this b).
Definition qabs (x : Qc) : Q := Qabs (this x).
Definition qclose (tol : Q) (a b : Qc) : bool := Qle_bool (Qabs (this a - this b)) tol.
Fixpoint vclose (tol : Q) (a b : list Qc) : bool :=
  match a, b with
  | [], [] => true
  | x :: a', y :: b' => qclose tol x y && vclose tol a' b'
  | _, _ => false
  end.
Fixpoint mclose (tol : Q) (a b : list (list Qc)) : bool :=
  match a, b with
  | [], [] => true
  | x :: a', y :: b' => vclose tol x y && mclose tol a' b'
  | _, _ => false
  end.
Fixpoint failing_from (i : nat) (l : list bool) : list nat :=
  match l with
  | [] => []
  | b :: r => if b then failing_from (S i) r else i :: failing_from (S i) r
  end.
Definition failing := failing_from 0.

(* deciding equalities between concrete Qc values / vectors / matrices (for non-vacuity examples) *)
Lemma qeqb_eq (a b : Qc) : qeqb a b = true -> a = b.
Proof. unfold qeqb. intro H. apply Qc_is_canon. now apply Qeq_bool_eq. Qed.
Lemma qeqb_neq (a b : Qc) : qeqb a b = false -> a <> b.
Proof.
  unfold qeqb. intros H E. subst b.
  assert (Qeq_bool (this a) (this a) = true) by (apply Qeq_eq_bool; reflexivity). congruence.
Qed.
Fixpoint veqb (a b : list Qc) : bool :=
  match a, b with
  | [], [] => true
  | x :: a', y :: b' => qeqb x y && veqb a' b'
  | _, _ => false
  end.
Fixpoint meqb (a b : list (list Qc)) : bool :=
  match a, b with
  | [], [] => true
  | x :: a', y :: b' => veqb x y && meqb a' b'
  | _, _ => false
  end.
Lemma veqb_eq a b : veqb a b = true -> a = b.
Proof.
  revert b; induction a as [|x a IH]; intros [|y b] H; try discriminate; [reflexivity|].
  cbn in H. apply andb_prop in H as [H1 H2]. f_equal; [now apply qeqb_eq | now apply IH].
Qed.
Lemma meqb_eq a b : meqb a b = true -> a = b.
Proof.
  revert b; induction a as [|x a IH]; intros [|y b] H; try discriminate; [reflexivity|].
  cbn in H. apply andb_prop in H as [H1 H2]. f_equal; [now apply veqb_eq | now apply IH].
Qed.
