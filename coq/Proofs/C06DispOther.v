(* C06: the traced dense field of a linear transform on ANOTHER grid (2-D) is the re-expressed field. *)
From Coq Require Import ZArith List Field Ring Lia.
From DV Require Import Base.Field Base.FieldFacts Base.LinAlg Base.Tactics Model.Enums Model.Homog
  Model.Grid Model.Transform Gen.Hmm Gen.GridT Gen.Transform.
Import ListNotations.
Local Open Scope fld_scope.

Section DispOther.
Variable K : fld.
Hypothesis Kf : is_field K.
Hypothesis Kc : char0 K.
Add Field KF_C06DispOther : Kf.
Let K2 : (1 + 1 : K) <> 0 := two_nz K Kf Kc.
Let K1 : (1 : K) <> 0 := one_nz K Kc.
Hint Resolve K1 K2 : core.
Ltac side := repeat split; auto.
Ltac comps H :=
  let Hs := fresh "Hs" in let Hn := fresh "Hn" in let Hn1 := fresh "Hn1" in let Ho := fresh "Ho" in
  destruct H as (Hs & Hn & Hn1 & Ho);
  pose proof (Hs 0%nat ltac:(lia)); pose proof (Hs 1%nat ltac:(lia));
  pose proof (Hn 0%nat ltac:(lia)); pose proof (Hn 1%nat ltac:(lia));
  pose proof (Hn1 0%nat ltac:(lia)); pose proof (Hn1 1%nat ltac:(lia)).

(* the traced SpatialTransform.disp(h) of a linear transform at a point of another grid's cube (2-D, all forms, all four flag
   combinations) is the re-expressed field *)
Lemma gen_disp_other2_is_reexpressed (f : form) (a : nat -> nat -> K) (ac ac' : bool) (g h : gridf) (x : nat -> K) :
  gwf 2 g -> gwf 2 h ->
  gen_disp_other2 f ac ac' (gN 2 g) (gS 2 g) (gC 2 g) (gD 2 g) (gN 2 h) (gS 2 h) (gC 2 h) (gD 2 h) (tab 2 (fcols 2 f) a) (vtab 2 x)
  = disp_reexpressed 2 f (tab 2 (fcols 2 f) a) ac g ac' h (vtab 2 x).
Proof.
  intros Hg Hh. unfold gwf in *. comps Hg. comps Hh. destruct f, ac, ac'; fcbv; list_eq; field; side.
Qed.
End DispOther.
