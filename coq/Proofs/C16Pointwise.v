(* C16: pointwise (elementwise) losses, masks and reductions, over every field. *)
From Coq Require Import ZArith List Field Ring Lia Bool.
From DV Require Import Base.Field Base.FieldFacts Base.LinAlg Model.Losses Proofs.C16Lists.
Import ListNotations.
Local Open Scope fld_scope.

Section Pointwise.
Variable K : fld.
Hypothesis Kf : is_field K.
Add Field KF : Kf.
Notation vec := (list K).
Variable fleb : K -> K -> bool.

Lemma zero_div (a : K) : 0 / a = 0.
Proof. rewrite (Fdiv_def Kf). ring. Qed.

Definition allz (l : vec) : Prop := Forall (fun v => v = 0) l.

Lemma allz_vmul_l (l w : vec) : allz l -> allz (vmul l w).
Proof.
  intro H. revert w. induction H as [|x l Hx _ IH]; intros [|y w]; cbn [vmul vmap2]; try constructor.
  - subst. ring.
  - apply IH.
Qed.

Lemma allz_reduce r (l : vec) m : allz l -> allz (reduce_loss r l m).
Proof.
  intro H. destruct r; cbn [reduce_loss]; [assumption| |].
  - destruct m; repeat constructor; unfold vmean; rewrite (vsum_zeros K Kf l H); apply zero_div.
  - repeat constructor. apply (vsum_zeros K Kf l H).
Qed.

Lemma allz_norm norm (l : vec) : allz l -> allz (apply_norm fleb norm l).
Proof.
  intro H. destruct norm as [c|]; cbn [apply_norm]; [|assumption].
  destruct (fleb c 0); [assumption|].
  induction H as [|x l Hx _ IH]; cbn [map]; constructor; [subst; apply zero_div | assumption].
Qed.

(* identical inputs: every pointwise loss that vanishes on the diagonal is zero, for every mask,
   reduction and normalisation factor *)
Lemma elementwise_identical (f : K -> K -> K) r (x : vec) m norm :
  (forall a, f a a = 0) -> allz (elementwise_loss fleb f r x x m norm).
Proof.
  intro Hf. unfold elementwise_loss. apply allz_norm, allz_reduce.
  assert (H : allz (vmap2 f x x)).
  { rewrite vmap2_diag. induction x; cbn [map]; constructor; auto. }
  destruct m; cbn [masked_loss]; [apply allz_vmul_l|]; assumption.
Qed.

Lemma sqd_diag (a : K) : sqd a a = 0.
Proof. unfold sqd. ring. Qed.

Lemma sqd_sym (a b : K) : sqd a b = sqd b a.
Proof. unfold sqd. ring. Qed.

Lemma elementwise_symmetric (f : K -> K -> K) r (x y : vec) m norm :
  (forall a b, f a b = f b a) ->
  elementwise_loss fleb f r x y m norm = elementwise_loss fleb f r y x m norm.
Proof. intro H. unfold elementwise_loss. rewrite (vmap2_comm K f x y H). reflexivity. Qed.

(* samples where the mask is zero are ignored entirely *)
Lemma masked_same (f : K -> K -> K) (m x x' y y' : vec) :
  same_on_mask m x x' y y' -> vmul (vmap2 f x y) m = vmul (vmap2 f x' y') m.
Proof.
  unfold vmul.
  induction 1 as [|m x x' y y' a a' b b' _ IH|m x x' y y' w a b _ IH]; cbn [vmap2]; [reflexivity| |].
  - rewrite IH. f_equal. ring.
  - rewrite IH. reflexivity.
Qed.

Lemma mask_zero_ignored (f : K -> K -> K) r (m x x' y y' : vec) norm :
  same_on_mask m x x' y y' ->
  elementwise_loss fleb f r x y (Some m) norm = elementwise_loss fleb f r x' y' (Some m) norm.
Proof.
  intro H. unfold elementwise_loss. cbn [masked_loss]. rewrite (masked_same f _ _ _ _ _ H). reflexivity.
Qed.

(* a binary mask: 'mean' is the mean over the selected samples only *)
Lemma select_sums (b : list bool) (l : vec) :
  length b = length l ->
  vsum (vmul l (mask_of b)) = vsum (select b l) /\ vsum (mask_of (K:=K) b) = of_nat (length (select b l)).
Proof.
  revert l. induction b as [|c b IH]; intros [|a l] H; cbn in H; try discriminate.
  - split; reflexivity.
  - destruct (IH l) as [H1 H2]; [lia|].
    cbn [mask_of map select vmul vmap2 vsum]. fold (mask_of (K:=K) b). destruct c.
    + cbn [vsum length]. rewrite H1, H2, (of_nat_S K Kf). split; ring.
    + rewrite H1, H2. split; ring.
Qed.

Lemma masked_mean_region (b : list bool) (l : vec) :
  length b = length l ->
  reduce_loss RMean (masked_loss l (Some (mask_of b))) (Some (mask_of b)) = [vmean (select b l)].
Proof.
  intro H. destruct (select_sums b l H) as [H1 H2]. cbn [reduce_loss masked_loss].
  unfold vmean. rewrite H1, H2. reflexivity.
Qed.

(* 'sum' and 'mean' are the sum and mean of 'none' (also after normalisation) *)
Lemma sum_of_none (f : K -> K -> K) (x y : vec) m norm :
  elementwise_loss fleb f RSum x y m norm = [vsum (elementwise_loss fleb f RNone x y m norm)].
Proof.
  unfold elementwise_loss. cbn [reduce_loss]. destruct norm as [c|]; cbn [apply_norm]; [|reflexivity].
  destruct (fleb c 0); [reflexivity|]. cbn [map]. rewrite (vsum_map_div K Kf). reflexivity.
Qed.

Definition mean_divisor (l : vec) (m : option vec) : K :=
  match m with None => of_nat (length l) | Some w => vsum w end.

Lemma mean_of_none (f : K -> K -> K) (x y : vec) m norm :
  let none := elementwise_loss fleb f RNone x y m norm in
  elementwise_loss fleb f RMean x y m norm = [vsum none / mean_divisor none m].
Proof.
  unfold elementwise_loss. cbn [reduce_loss].
  set (l := masked_loss (vmap2 f x y) m).
  destruct norm as [c|]; cbn [apply_norm].
  - destruct (fleb c 0).
    + destruct m; reflexivity.
    + cbv zeta. unfold mean_divisor. rewrite (vsum_map_div K Kf), map_length.
      destruct m; cbn [map]; unfold vmean; f_equal; rewrite !(Fdiv_def Kf); ring.
  - destruct m; reflexivity.
Qed.

(* normalisation factor: dividing the squared differences by c^2 is the loss of the images divided by c *)
Lemma masked_sqd_scaled (c : K) (x y : vec) m : c <> 0 ->
  masked_loss (vmap2 sqd (map (fun a => a / c) x) (map (fun a => a / c) y)) m
  = div_norm (c * c) (masked_loss (vmap2 sqd x y) m).
Proof.
  intro Hc. unfold div_norm. destruct m as [w|]; cbn [masked_loss].
  - unfold vmul. revert y w. induction x as [|a x IH]; intros [|b y] [|v w]; cbn [map vmap2]; try reflexivity.
    rewrite IH. f_equal. unfold sqd. field. auto.
  - revert y. induction x as [|a x IH]; intros [|b y]; cbn [map vmap2]; try reflexivity.
    rewrite IH. f_equal. unfold sqd. field. auto.
Qed.

Lemma reduce_div r (c : K) (l : vec) m :
  reduce_loss r (div_norm c l) m = div_norm c (reduce_loss r l m).
Proof.
  unfold div_norm. destruct r; cbn [reduce_loss]; [reflexivity| |].
  - destruct m; cbn [map]; unfold vmean; rewrite (vsum_map_div K Kf), ?map_length; f_equal;
      rewrite !(Fdiv_def Kf); ring.
  - cbn [map]. rewrite (vsum_map_div K Kf). reflexivity.
Qed.

Lemma ssd_norm_is_prescaling r (c : K) (x y : vec) m : c <> 0 ->
  pointwise_loss sqd r (map (fun a => a / c) x) (map (fun a => a / c) y) m
  = div_norm (c * c) (pointwise_loss sqd r x y m).
Proof. intro Hc. unfold pointwise_loss. rewrite (masked_sqd_scaled c x y m Hc). apply reduce_div. Qed.

(* the branch of the code for norm > 0 is this division *)
Lemma apply_norm_pos (c : K) (v : vec) : fleb c 0 = false -> apply_norm fleb (Some c) v = div_norm c v.
Proof. intro H. unfold apply_norm. rewrite H. reflexivity. Qed.

(* mask shapes: (1|N, 1|C, X) are accepted and broadcast over the missing dimension *)
Lemma nth_repeat_lt' {A : Type} (a d : A) n i : (i < n)%nat -> nth i (repeat a n) d = a.
Proof. revert i. induction n as [|n IH]; intros [|i] H; cbn; try lia; [reflexivity | apply IH; lia]. Qed.

Lemma expand_dim_ok {A : Type} (n : nat) (l : list A) :
  length l = 1%nat \/ length l = n ->
  exists e, expand_dim n l = Some e /\ length e = n /\
            forall i d, (i < n)%nat -> nth i e d = nth (if Nat.eqb (length l) 1 then 0 else i) l d.
Proof.
  intros [H|H].
  - destruct l as [|a [|b l]]; cbn in H; try discriminate. exists (repeat a n). cbn [expand_dim].
    repeat split; [apply repeat_length|]. intros i d Hi. cbn.
    rewrite nth_repeat_lt' by exact Hi. reflexivity.
  - destruct l as [|a [|b l]].
    + cbn in H. subst n. exists []. split; [reflexivity|]. split; [reflexivity|]. intros i d Hi. lia.
    + cbn in H. subst n. exists [a]. split; [reflexivity|]. split; [reflexivity|].
      intros i d Hi. assert (i = 0)%nat by lia. subst. reflexivity.
    + exists (a :: b :: l). cbn [expand_dim]. subst n. rewrite Nat.eqb_refl.
      split; [reflexivity|]. split; [reflexivity|]. intros i d Hi. reflexivity.
Qed.

End Pointwise.
