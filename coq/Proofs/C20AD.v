(* C20 -- soundness of the formal derivative: for every expression and every environment at which it is
   defined, D i e evaluates to the derivative (Coquelicot's is_derive) of t |-> eval (env[i := t]) e at env i.
   Induction over expressions: no bound on size or nesting. *)
From Coq Require Import Reals QArith Lra Lia Arith.
From Coquelicot Require Import Coquelicot.
From DV Require Import Model.AD.
Local Open Scope R_scope.

Lemma Q2R_0' : Q2R 0 = 0. Proof. unfold Q2R; simpl; lra. Qed.
Lemma Q2R_1' : Q2R 1 = 1. Proof. unfold Q2R; simpl; lra. Qed.
Lemma Q2R_2' : Q2R 2 = 2. Proof. unfold Q2R; simpl; lra. Qed.

Lemma evalR_ext (e : expr) (e1 e2 : nat -> R) : (forall j, e1 j = e2 j) -> evalR e1 e = evalR e2 e.
Proof. intro H. induction e; simpl; rewrite ?IHe, ?IHe1, ?IHe2; auto. Qed.

Lemma upd_same (env : nat -> R) (i : nat) (j : nat) : upd env i (env i) j = env j.
Proof. unfold upd. destruct (Nat.eqb i j) eqn:E; [apply Nat.eqb_eq in E; now subst | reflexivity]. Qed.

Lemma evalR_upd_same (env : nat -> R) (i : nat) (e : expr) : evalR (upd env i (env i)) e = evalR env e.
Proof. apply evalR_ext, upd_same. Qed.

Lemma cosh_pos' x : 0 < cosh x.
Proof. unfold cosh. pose proof (exp_pos x). pose proof (exp_pos (- x)). lra. Qed.

Lemma is_derive_tanh (x : R) : is_derive tanh x (1 - tanh x * tanh x).
Proof.
  unfold tanh, sinh, cosh.
  pose proof (exp_pos x) as H1. pose proof (exp_pos (- x)) as H2.
  auto_derive; [lra|]. field. lra.
Qed.

Lemma is_derive_ufun (f : ufun) (x : R) :
  (match f with Usqrt | Uln => 0 < x | _ => True end) ->
  is_derive (ufun_R f) x
    (match f with
     | Usqrt => / (2 * sqrt x) | Uexp => exp x | Uln => / x
     | Utanh => 1 - tanh x * tanh x | Usin => cos x | Ucos => - sin x end).
Proof.
  destruct f; simpl; intro H.
  - auto_derive; [exact H | field; apply Rgt_not_eq, sqrt_lt_R0, H].
  - apply is_derive_exp.
  - apply is_derive_ln, H.
  - apply is_derive_tanh.
  - apply is_derive_sin.
  - apply is_derive_cos.
Qed.

Theorem D_sound (e : expr) (env : nat -> R) (i : nat) :
  defined env e ->
  is_derive (fun t => evalR (upd env i t) e) (env i) (evalR env (D i e)).
Proof.
  induction e as [q | j | a IHa b IHb | a IHa b IHb | a IHa b IHb | a IHa b IHb | a IHa | f a IHa | a IHa]; intro Hd.
  - simpl. rewrite Q2R_0'. apply @is_derive_const.
  - simpl. unfold upd. destruct (Nat.eqb i j) eqn:E; simpl.
    + rewrite Q2R_1'. apply @is_derive_id.
    + rewrite Q2R_0'. apply @is_derive_const.
  - destruct Hd as [Ha Hb]. simpl.
    apply (is_derive_plus (fun t => evalR (upd env i t) a) (fun t => evalR (upd env i t) b)); auto.
  - destruct Hd as [Ha Hb]. simpl.
    apply (is_derive_minus (fun t => evalR (upd env i t) a) (fun t => evalR (upd env i t) b)); auto.
  - destruct Hd as [Ha Hb]. simpl.
    evar_last.
    + apply (is_derive_mult (fun t => evalR (upd env i t) a) (fun t => evalR (upd env i t) b));
        [apply IHa, Ha | apply IHb, Hb | intros; apply Rmult_comm].
    + rewrite !evalR_upd_same. unfold plus, mult; simpl. ring.
  - destruct Hd as (Ha & Hb & Hnz). simpl.
    evar_last.
    + apply (is_derive_div (fun t => evalR (upd env i t) a) (fun t => evalR (upd env i t) b));
        [apply IHa, Ha | apply IHb, Hb | rewrite evalR_upd_same; exact Hnz].
    + rewrite !evalR_upd_same. field. exact Hnz.
  - simpl in Hd. simpl.
    apply (is_derive_opp (fun t => evalR (upd env i t) a)). auto.
  - assert (Ha : defined env a) by (destruct f; simpl in Hd; tauto).
    assert (Hpos : match f with Usqrt | Uln => 0 < evalR env a | _ => True end) by (destruct f; simpl in Hd; tauto).
    change (fun t => evalR (upd env i t) (EU f a)) with (fun t => ufun_R f (evalR (upd env i t) a)).
    evar_last.
    + apply (is_derive_comp (ufun_R f) (fun t => evalR (upd env i t) a)).
      * rewrite evalR_upd_same. apply is_derive_ufun, Hpos.
      * apply IHa, Ha.
    + unfold scal; simpl; unfold mult; simpl.
      destruct f; simpl; rewrite ?Q2R_1', ?Q2R_2'; try ring.
      * field. apply Rgt_not_eq, sqrt_lt_R0, Hpos.
      * field. apply Rgt_not_eq, Hpos.
  - simpl in *. apply IHa, Hd.
Qed.

(* the same for a whole Jacobian *)
Corollary jacobian_sound (vars : list nat) (outs : list expr) (env : nat -> R) :
  List.Forall (defined env) outs ->
  List.Forall2 (fun e row => List.Forall2 (fun i d => is_derive (fun t => evalR (upd env i t) e) (env i) (evalR env d)) vars row)
               outs (jacobian vars outs).
Proof.
  intro H. unfold jacobian. induction H as [|e outs He _ IH]; simpl; constructor; auto.
  clear IH. induction vars; simpl; constructor; auto. apply D_sound, He.
Qed.

(* derivatives of defined expressions are again defined wherever the original is: gradients are finite *)
Lemma D_defined (e : expr) (env : nat -> R) (i : nat) : defined env e -> defined env (D i e).
Proof.
  induction e as [q | j | a IHa b IHb | a IHa b IHb | a IHa b IHb | a IHa b IHb | a IHa | f a IHa | a IHa]; intro Hd.
  - exact I.
  - simpl. destruct (Nat.eqb i j); exact I.
  - simpl in *. tauto.
  - simpl in *. tauto.
  - simpl in *. tauto.
  - destruct Hd as (Ha & Hb & Hnz). cbn [D defined evalR].
    split; [tauto | split; [tauto | apply Rmult_integral_contrapositive; auto]].
  - simpl in *. auto.
  - destruct f; cbn [D defined evalR ufun_R] in *.
    + destruct Hd as [Ha Hp]. split; [auto | split; [tauto |]]. rewrite Q2R_2'.
      apply Rmult_integral_contrapositive; split; [lra | apply Rgt_not_eq, sqrt_lt_R0, Hp].
    + tauto.
    + destruct Hd as [Ha Hp]. split; [auto | split; [auto | apply Rgt_not_eq, Hp]].
    + tauto.
    + tauto.
    + tauto.
  - simpl in *. auto.
Qed.

(* ---------------------------------------------------------------------------------------------- *)
(* what automatic differentiation returns (G: nothing flows through a cut) is the derivative exactly when no
   variable-to-output path crosses a cut                                                            *)
(* ---------------------------------------------------------------------------------------------- *)
Lemma closed_D_zero (e : expr) (env : nat -> R) (i : nat) :
  has_var e = false -> defined env e -> evalR env (D i e) = 0.
Proof.
  induction e as [q | j | a IHa b IHb | a IHa b IHb | a IHa b IHb | a IHa b IHb | a IHa | f a IHa | a IHa]; intros Hv Hd.
  - cbn [D evalR]. exact Q2R_0'.
  - discriminate.
  - simpl in *. apply Bool.orb_false_elim in Hv as [Ha Hb]. rewrite IHa, IHb by tauto. ring.
  - simpl in *. apply Bool.orb_false_elim in Hv as [Ha Hb]. rewrite IHa, IHb by tauto. ring.
  - simpl in *. apply Bool.orb_false_elim in Hv as [Ha Hb]. rewrite IHa, IHb by tauto. ring.
  - simpl in *. apply Bool.orb_false_elim in Hv as [Ha Hb]. destruct Hd as (Hda & Hdb & Hnz).
    rewrite IHa, IHb by tauto. field. exact Hnz.
  - simpl in *. rewrite IHa by tauto. ring.
  - destruct f; cbn [D evalR ufun_R has_var defined] in *.
    + destruct Hd as [Hda Hp]. rewrite IHa by tauto. rewrite Q2R_2'. field. apply Rgt_not_eq, sqrt_lt_R0, Hp.
    + rewrite IHa by tauto. ring.
    + destruct Hd as [Hda Hp]. rewrite IHa by tauto. field. apply Rgt_not_eq, Hp.
    + rewrite IHa by tauto. ring.
    + rewrite IHa by tauto. ring.
    + rewrite IHa by tauto. ring.
  - simpl in *. apply IHa; assumption.
Qed.

Lemma G_eq_D (e : expr) (env : nat -> R) (i : nat) :
  cutfree e = true -> defined env e -> evalR env (G i e) = evalR env (D i e).
Proof.
  induction e as [q | j | a IHa b IHb | a IHa b IHb | a IHa b IHb | a IHa b IHb | a IHa | f a IHa | a IHa]; intros Hc Hd.
  - reflexivity.
  - reflexivity.
  - simpl in *. apply andb_prop in Hc as [Ha Hb]. rewrite IHa, IHb by tauto. reflexivity.
  - simpl in *. apply andb_prop in Hc as [Ha Hb]. rewrite IHa, IHb by tauto. reflexivity.
  - simpl in *. apply andb_prop in Hc as [Ha Hb]. rewrite IHa, IHb by tauto. reflexivity.
  - simpl in *. apply andb_prop in Hc as [Ha Hb]. rewrite IHa, IHb by tauto. reflexivity.
  - simpl in *. rewrite IHa by tauto. reflexivity.
  - assert (Hda : defined env a) by (destruct f; simpl in Hd; tauto).
    destruct f; cbn [G D evalR ufun_R cutfree] in *; rewrite IHa by assumption; reflexivity.
  - cbn [G D evalR cutfree defined] in *. rewrite Q2R_0'. symmetry. apply closed_D_zero; [|exact Hd].
    destruct (has_var a); [discriminate | reflexivity].
Qed.

Theorem G_sound (e : expr) (env : nat -> R) (i : nat) :
  cutfree e = true -> defined env e ->
  is_derive (fun t => evalR (upd env i t) e) (env i) (evalR env (G i e)).
Proof. intros Hc Hd. rewrite (G_eq_D e env i Hc Hd). apply D_sound, Hd. Qed.

(* and a cut on a variable path does lose the derivative: x |-> cut(x) has derivative 1, its reverse-mode gradient is 0 *)
Lemma G_wrong_with_cut :
  exists (e : expr) (env : nat -> R), defined env e /\ cutfree e = false /\
    is_derive (fun t => evalR (upd env 0 t) e) (env 0%nat) 1 /\ evalR env (G 0 e) = 0.
Proof.
  exists (ECut (EV 0)), (fun _ => 0). split; [exact I | split; [reflexivity | split]].
  - simpl. unfold upd. simpl. apply @is_derive_id.
  - cbn [G evalR]. exact Q2R_0'.
Qed.
