(* C09 -- A transform evaluates its current parameters and grid, never a stale snapshot.
   Statements only; every proof is `exact <lemma>`.

   The model (Model/TransformState.v) is a state machine over a heap of transform objects; P, G, C
   (parameter contents, grids, conditioning values) and the numeric primitives are arbitrary.  The
   configuration `gen_cfg` is read from the skeleton the translator regenerates from the source on
   every run (Gen/TState.v), so each theorem is about the statements the code contains now.
   `held s o` is the specification: the parameters (through links / the callable applied to the
   current condition), grid and inversion sign object o holds in state s -- no buffer involved. *)
From Coq Require Import List Bool.
From DV Require Import Base.QcInst Model.TransformState Model.TransformStateRun Model.TransformStateEx
  Gen.TState Model.TransformCfg
  Proofs.C09Fresh Proofs.C09Replace Proofs.C09Regrid Proofs.C09Refuted Proofs.C09Skeleton
  Model.ExpShare Proofs.C09Wf Proofs.C09Seq Proofs.C09SeqDirect Proofs.C09History Proofs.C09ExpShare.
Import ListNotations.

(* 0. the state-affecting statements of the anchored methods are the ones the model was written for *)
Theorem C09_skeleton_unchanged : gen_skeleton = expected_skeleton /\ cfg_all gen_cfg = true.
Proof. exact (conj skeleton_unchanged gen_cfg_all). Qed.
Print Assumptions C09_skeleton_unchanged.

(* 1. In EVERY state (hence after every history of operations), a call of a non-composite transform
      that returns, returns the evaluation of exactly what the transform holds at that moment. *)
Theorem C09_call_is_fresh :
  forall (P G C : Type) (p0 : P) (callP : nat -> option C -> P) (fits : kind -> P -> G -> bool)
         (spline_ok : G -> bool) (s : state P G C) (o : nat) (l : list (tag P G)) (s' : state P G C),
  single s o ->
  call P G C p0 callP fits spline_ok gen_cfg s o = Ok l s' ->
  exists t, l = [t] /\ held P G C p0 callP s o = Some t.
Proof. exact (fun P G C p0 callP fits spline_ok => call_is_fresh p0 callP fits spline_ok gen_cfg gen_cfg_all). Qed.
Print Assumptions C09_call_is_fresh.

(* the same, spelled over histories: after any operation list from the empty heap *)
Theorem C09_call_is_fresh_after_any_history :
  forall (P G C : Type) p0 emptyP zeroP fillP regrid callP fits geq same_dom spline_ok ffd_sub
         (h : list (op P G C)) (o : nat) (l : list (tag P G)),
  let s := run P G C p0 emptyP zeroP fillP regrid callP fits geq same_dom spline_ok ffd_sub gen_cfg (empty_state P G C) h in
  single s o ->
  snd (step P G C p0 emptyP zeroP fillP regrid callP fits geq same_dom spline_ok ffd_sub gen_cfg s (Call P G C o)) = Out P G l None ->
  exists t, l = [t] /\ held P G C p0 callP s o = Some t.
Proof.
  exact (fun P G C p0 emptyP zeroP fillP regrid callP fits geq same_dom spline_ok ffd_sub =>
           call_is_fresh_history p0 emptyP zeroP fillP regrid callP fits geq same_dom spline_ok ffd_sub gen_cfg gen_cfg_all).
Qed.
Print Assumptions C09_call_is_fresh_after_any_history.

(* 2. tensor()/disp() immediately after data_ / reset_parameters / condition_ / grid_ reflect the new
      state.  Full statement: for every transform class with buffered state.  It is FALSE of the code
      for linear transforms with callable parameters (see 3); what holds: every non-rigid model
      (displacement field, SVF, FFD, SVFFD; parameters held as tensor, Parameter, callable or link), in
      every state; `grid_replaces` excludes only a dense model with non-tensor parameters asked for the
      grid it already has (early return, nothing is replaced). *)
Theorem C09_disp_after_replace_partial :
  forall (P G C : Type) p0 emptyP zeroP fillP regrid callP fits geq same_dom spline_ok ffd_sub
         (s : state P G C) (o : nat) (x : op P G C) (s1 : state P G C),
  (exists ob, get_obj P G C s o = Some ob /\ is_nonrigid (o_kind P G C ob) = true) ->
  replacing geq s o x ->
  step P G C p0 emptyP zeroP fillP regrid callP fits geq same_dom spline_ok ffd_sub gen_cfg s x = (s1, Done P G) ->
  forall l s2, forward P G C p0 callP fits spline_ok gen_cfg s1 o = Ok l s2 ->
  exists t, l = [t] /\ held P G C p0 callP s1 o = Some t.
Proof.
  exact (fun P G C p0 emptyP zeroP fillP regrid callP fits geq same_dom spline_ok ffd_sub =>
           disp_after_replace p0 emptyP zeroP fillP regrid callP fits geq same_dom spline_ok ffd_sub gen_cfg gen_cfg_all).
Qed.
Print Assumptions C09_disp_after_replace_partial.

(* 3. ... and where the code does not: a linear transform with callable parameters right after
      condition_ or reset_parameters (tensor() reads the buffered p, clear_buffers leaves it) *)
Theorem C09_disp_after_replace_refuted :
  stale_after gen_cfg h_lin_fun x_cond x_obs 0 = true /\
  stale_after gen_cfg h_lin_fun (Reset PV nat CV 0) x_obs 0 = true.
Proof. exact (conj linear_callable_stale_after_condition linear_callable_stale_after_reset). Qed.
Print Assumptions C09_disp_after_replace_refuted.

(* 4. Changing the grid of a dense model re-expresses the parameters on the new grid and installs it,
      for EVERY new grid, so any world-space reading under which `regrid` is meaning-preserving is
      preserved.  `geq` is the early-return test of SpatialTransform.grid_ (Grid.__eq__ and equal
      align_corners), assumed to pass only for the grid the transform already has; `slots_wf`: params is
      stored in at most one of the instance __dict__ and the _buffers dict. *)
Theorem C09_regrid_preserves_world :
  forall (P G C : Type) (p0 : P) regrid fits geq spline_ok ffd_sub (W : Type) (world : P -> G -> W)
         (s : state P G C) o g s1 ob r ip,
  (forall a b, geq a b = true -> a = b) ->
  (forall k p a b, world (regrid k p a b) b = world p a) ->
  get_obj P G C s o = Some ob -> is_dense (o_kind P G C ob) = true -> slots_wf ob ->
  get_params P G C s ob = Some (VTen r ip) ->
  grid_set P G C p0 regrid fits geq spline_ok ffd_sub gen_cfg s o g = Ok tt s1 ->
  exists p', holds p0 s1 o p' g /\ world p' g = world (tval P G C p0 s r) (o_grid P G C ob).
Proof.
  exact (fun P G C p0 regrid fits geq spline_ok ffd_sub W world s o g s1 ob r ip Hq =>
           dense_grid_set_preserves_world p0 regrid fits geq spline_ok ffd_sub gen_cfg gen_cfg_all Hq W world s o g s1 ob r ip).
Qed.
Print Assumptions C09_regrid_preserves_world.

(* 5. Every state reachable by ANY operation history from the empty heap is well-formed: every tensor
      reference stored in a params slot, a shared _parameters dict, a buffer p or an aliasing u / v
      points into the tensor store, and `params` never sits in both the instance __dict__ and the
      _buffers dict (induction over the history; holds for every configuration). *)
Theorem C09_reachable_states_wellformed :
  forall (P G C : Type) p0 emptyP zeroP fillP regrid callP fits geq same_dom spline_ok ffd_sub (cf : cfg)
         (h : list (op P G C)),
  wf (run P G C p0 emptyP zeroP fillP regrid callP fits geq same_dom spline_ok ffd_sub cf (empty_state P G C) h).
Proof. exact (fun P G C => @reachable_wf P G C). Qed.
Print Assumptions C09_reachable_states_wellformed.

(* 6. Composite calls: after any history, a call of a SequentialTransform whose members are plain
      parametric transforms (tensor / Parameter / callable parameters; not composites, not links)
      returns, member by member in order, exactly what each member held when the call started.
      (Linked members read the linked transform's buffered parameters by design; they are covered by the
      correspondence and the search only.) *)
Theorem C09_composite_call_is_fresh_after_any_history :
  forall (P G C : Type) p0 emptyP zeroP fillP regrid callP fits geq same_dom spline_ok ffd_sub
         (h : list (op P G C)) (o : nat) ob (l : list (tag P G)),
  let s := run P G C p0 emptyP zeroP fillP regrid callP fits geq same_dom spline_ok ffd_sub gen_cfg (empty_state P G C) h in
  get_obj P G C s o = Some ob -> o_kind P G C ob = KSeq ->
  Forall (plain s) (o_members P G C ob) ->
  snd (step P G C p0 emptyP zeroP fillP regrid callP fits geq same_dom spline_ok ffd_sub gen_cfg s (Call P G C o)) = Out P G l None ->
  Forall2 (fun t m => held P G C p0 callP s m = Some t) l (o_members P G C ob).
Proof.
  exact (fun P G C p0 emptyP zeroP fillP regrid callP fits geq same_dom spline_ok ffd_sub =>
           seq_call_history p0 emptyP zeroP fillP regrid callP fits geq same_dom spline_ok ffd_sub gen_cfg gen_cfg_all).
Qed.
Print Assumptions C09_composite_call_is_fresh_after_any_history.

(* 7. Theorem 4 after any history: the well-formedness hypothesis is discharged by 5 *)
Theorem C09_regrid_preserves_world_after_any_history :
  forall (P G C : Type) p0 emptyP zeroP fillP regrid callP fits geq same_dom spline_ok ffd_sub,
  (forall a b, geq a b = true -> a = b) ->
  forall (W : Type) (world : P -> G -> W) (h : list (op P G C)) o g s1 ob r ip,
  let s := run P G C p0 emptyP zeroP fillP regrid callP fits geq same_dom spline_ok ffd_sub gen_cfg (empty_state P G C) h in
  (forall k p a b, world (regrid k p a b) b = world p a) ->
  get_obj P G C s o = Some ob -> is_dense (o_kind P G C ob) = true ->
  get_params P G C s ob = Some (VTen r ip) ->
  grid_set P G C p0 regrid fits geq spline_ok ffd_sub gen_cfg s o g = Ok tt s1 ->
  exists p', holds p0 s1 o p' g /\ world p' g = world (tval P G C p0 s r) (o_grid P G C ob).
Proof.
  exact (fun P G C p0 emptyP zeroP fillP regrid callP fits geq same_dom spline_ok ffd_sub =>
           regrid_history p0 emptyP zeroP fillP regrid callP fits geq same_dom spline_ok ffd_sub gen_cfg gen_cfg_all).
Qed.
Print Assumptions C09_regrid_preserves_world_after_any_history.

(* 8. Direct access to a composite: after any history, disp()/tensor()/forward() of a
      SequentialTransform (no __call__, so no update hook) right after clear_buffers() on the COMPOSITE
      returns, member by member, what each member holds -- the composite forwards the invalidation to
      its members (non-rigid members of any parameter kind, linear members holding a tensor). *)
Theorem C09_composite_direct_access_after_clear :
  forall (P G C : Type) p0 emptyP zeroP fillP regrid callP fits geq same_dom spline_ok ffd_sub
         (h : list (op P G C)) (o : nat) ob (l : list (tag P G)) (gout : option G),
  let s := run P G C p0 emptyP zeroP fillP regrid callP fits geq same_dom spline_ok ffd_sub gen_cfg (empty_state P G C) h in
  get_obj P G C s o = Some ob -> o_kind P G C ob = KSeq ->
  Forall (direct_member s) (o_members P G C ob) ->
  let s1 := fst (step P G C p0 emptyP zeroP fillP regrid callP fits geq same_dom spline_ok ffd_sub gen_cfg s (Clear P G C o)) in
  snd (step P G C p0 emptyP zeroP fillP regrid callP fits geq same_dom spline_ok ffd_sub gen_cfg s1 (Disp P G C o)) = Out P G l gout ->
  Forall2 (fun t m => held P G C p0 callP s1 m = Some t) l (o_members P G C ob).
Proof.
  exact (fun P G C p0 emptyP zeroP fillP regrid callP fits geq same_dom spline_ok ffd_sub =>
           composite_direct_history p0 emptyP zeroP fillP regrid callP fits geq same_dom spline_ok ffd_sub gen_cfg gen_cfg_all).
Qed.
Print Assumptions C09_composite_direct_access_after_clear.

(* ... and in general: in every well-formed state in which each member's buffered field is absent or
   equal to what the member holds (`ready`), direct access to the composite is fresh *)
Theorem C09_composite_direct_access :
  forall (P G C : Type) (p0 : P) (callP : nat -> option C -> P) (fits : kind -> P -> G -> bool) (spline_ok : G -> bool)
         (s : state P G C) o ob l s',
  wf s -> get_obj P G C s o = Some ob -> o_kind P G C ob = KSeq ->
  Forall (plain s) (o_members P G C ob) -> Forall (ready p0 callP s s) (o_members P G C ob) ->
  forward P G C p0 callP fits spline_ok gen_cfg s o = Ok l s' ->
  Forall2 (fun t m => held P G C p0 callP s m = Some t) l (o_members P G C ob).
Proof.
  exact (fun P G C p0 callP fits spline_ok =>
           composite_direct_fresh p0 (fun _ _ => p0) (fun x => x) (fun x _ => x) (fun _ x _ _ => x) callP fits
             (fun _ _ => true) (fun _ _ => true) spline_ok (fun _ _ => None) gen_cfg gen_cfg_all).
Qed.
Print Assumptions C09_composite_direct_access.

(* 9. A linear transform holding a tensor or Parameter is read fresh in every state (tensor() involves
      no buffer); together with 2 and 3 this settles every class x parameter kind for direct access:
      only linear + callable (3) and linked transforms (buffered by design) read a buffer *)
Theorem C09_linear_tensor_direct :
  forall (P G C : Type) (p0 : P) (callP : nat -> option C -> P) (fits : kind -> P -> G -> bool) (spline_ok : G -> bool)
         (s : state P G C) o ob r ip l s',
  get_obj P G C s o = Some ob -> o_kind P G C ob = KLin -> get_params P G C s ob = Some (VTen r ip) ->
  forward P G C p0 callP fits spline_ok gen_cfg s o = Ok l s' ->
  exists t, l = [t] /\ held P G C p0 callP s o = Some t.
Proof.
  exact (fun P G C p0 callP fits spline_ok =>
           linear_tensor_direct p0 callP fits spline_ok gen_cfg).
Qed.
Print Assumptions C09_linear_tensor_direct.

(* 10. B-spline models: grid_ with a subdivided control grid installs the new grid and the subdivided
       coefficients, after any history (the numerical exactness of the subdivision masks is C14) *)
Theorem C09_spline_regrid_preserves_world_after_any_history :
  forall (P G C : Type) p0 emptyP zeroP fillP regrid callP fits geq same_dom spline_ok ffd_sub
         (W : Type) (world : P -> G -> W) (h : list (op P G C)) o g s1 ob r ip,
  let s := run P G C p0 emptyP zeroP fillP regrid callP fits geq same_dom spline_ok ffd_sub gen_cfg (empty_state P G C) h in
  (forall k p a b, world (regrid k p a b) b = world p a) ->
  get_obj P G C s o = Some ob -> is_spline (o_kind P G C ob) = true ->
  get_params P G C s ob = Some (VTen r ip) ->
  ffd_sub (o_grid P G C ob) g = Some true ->
  grid_set P G C p0 regrid fits geq spline_ok ffd_sub gen_cfg s o g = Ok tt s1 ->
  exists p', holds p0 s1 o p' g /\ world p' g = world (tval P G C p0 s r) (o_grid P G C ob).
Proof.
  exact (fun P G C p0 emptyP zeroP fillP regrid callP fits geq same_dom spline_ok ffd_sub =>
           spline_regrid_history p0 emptyP zeroP fillP regrid callP fits geq same_dom spline_ok ffd_sub gen_cfg gen_cfg_all).
Qed.
Print Assumptions C09_spline_regrid_preserves_world_after_any_history.

(* 11. A velocity-field transform exponentiates with the align_corners flag of its OWN grid after any
       history of constructions, shallow copies, grid changes (in place or through the functional
       t.grid(g)) and inversions: grid_ installs a private ExpFlow (read from the source: gen_private_exp),
       so no other transform sharing the module is affected.  With the shared write of the code before
       5d5a4a7 the receiver of t.grid(g_other_flag) is left inconsistent (second conjunct). *)
Theorem C09_exp_flag_follows_own_grid :
  gen_private_exp = true /\ (forall h : list xop, xconsistent (xrun gen_private_exp h)) /\
  xconsistentb (xrun false [XNew false; XGridCopy 0 true]) = false.
Proof. exact (conj gen_private_exp_true (conj exp_flag_consistent_gen (proj1 shared_module_breaks_consistency))). Qed.
Print Assumptions C09_exp_flag_follows_own_grid.

(* 12. Accessor copies (ac06f87, 91d1617; read from the source: gen_accessor_private): a transform obtained
       through grid(g) or data(arg) has its own _parameters dict, so a later data_() on the original is not
       seen by it and data(arg) does not touch the original; a plain shallow copy, condition(...) and
       inverse() keep sharing the original's Parameter (witnesses on the executable instance, in the order:
       grid(g) copy keeps the old parameters; data(arg) copy holds arg; the original follows its own data_;
       copy / condition / inverse follow the original's data_). *)
Theorem C09_accessor_copies_independent : gen_accessor_private = true /\ accessor_witness = true.
Proof. exact (conj accessor_private_ok accessor_witness_ok). Qed.
Print Assumptions C09_accessor_copies_independent.

(* 13. What the abstract `regrid` of theorems 4 / 7 stands for in DenseVectorFieldTransform.grid_, read from the
       source: the old parameters are read on the OLD lattice with the old grid's own flags
       (prev_grid.reshape(params.shape[2:]) -- no flag of the new grid), sampled on the data grid of the new
       grid, converted to the new axes, then installed with data_ -- for every stride; and __deepcopy__
       hands the copy clones of the cached non-leaf buffers.  (Numerically: stride 2, 3 x align_corners flip on
       affine fields, and deep copies with cached buffers, are evaluated by the search on every run.) *)
Theorem C09_regrid_reads_old_lattice_and_deepcopy_clones :
  gen_regrid_reads_old_lattice = true /\ gen_deepcopy_clones = true.
Proof. exact (conj regrid_reads_old_lattice_ok deepcopy_clones_ok). Qed.
Print Assumptions C09_regrid_reads_old_lattice_and_deepcopy_clones.

(* non-vacuity: the hypotheses of 1, 2 and 4 are met by concrete reachable states of the executable
   instance, and the conclusions are observed there (including the two repaired cases: a B-spline model
   with callable parameters after grid_, a dense model moved to a grid differing only in align_corners) *)
Example C09_nonvacuous :
  fresh_after gen_cfg h_svf_fun x_cond x_obs 0 = true /\
  fresh_after gen_cfg h_disp_ten x_data (Disp PV nat CV 0) 0 = true /\
  fresh_after gen_cfg h_ffd_fun (GridSet PV nat CV 0 2) x_obs 0 = true /\
  world_kept gen_cfg h_disp_ten 0 2 = true /\ world_kept gen_cfg h_disp_ten 0 1 = true /\
  seq_fresh_after gen_cfg h_seq 2 = true /\
  (seq_direct_fresh_after gen_cfg h_seq_direct 2 = true /\ seq_direct_fresh_after gen_cfg h_seq_direct_noclear 2 = false).
Proof.
  exact (conj nonrigid_callable_fresh_after_condition (conj dense_fresh_after_data (conj spline_callable_fresh_after_grid
          (conj dense_grid_other_lattice_keeps_world (conj dense_grid_align_only_keeps_world (conj composite_call_fresh_witness composite_direct_witness)))))).
Qed.
