(* C15 -- object-graph / alias model for copies and with-argument accessors (definitions only).

   Tensors have an identity (tid) and a content version (bumped by every in-place write).  nn.Module
   containers (_parameters, _buffers) have an identity (cid).  An object is a value: its slots refer to
   tensors or plain values, and -- for modules -- it names its two containers.  Aliasing between objects
   therefore arises exactly through shared tids and shared cids, as in Python.

   Transcribed from: copy.copy of a __slots__ object (Grid, Cube), Grid.clone / __deepcopy__,
   SpatialTransform.__copy__ (spatial/base.py: __dict__ copied, _buffers and _modules dicts copied,
   _parameters dict SHARED), torch.nn.Module.__setattr__ (Parameter or None for a registered parameter
   name -> _parameters; tensor for a registered buffer name -> _buffers; otherwise __dict__),
   ParametricTransform.data / unlink, SpatialTransform.grid / condition, copy.deepcopy of a module. *)
From Coq Require Import List Bool Arith Lia.
Import ListNotations.

Definition tid := nat.
Definition cid := nat.
Inductive ref := RNone | RT (t : tid) | RV (v : nat).
Definition entry := (nat * ref)%type.                  (* name, value *)

Record obj := mkObj { slots : list entry; pc : cid; bc : cid; ismod : bool }.
Record store := mkSt { tv : tid -> nat; cv : cid -> list entry; nt : nat; nc : nat }.

Definition upd {A} (f : nat -> A) (k : nat) (v : A) : nat -> A := fun x => if x =? k then v else f x.

Fixpoint set_entry (l : list entry) (name : nat) (r : ref) : list entry :=
  match l with
  | [] => [(name, r)]
  | (n, x) :: rest => if n =? name then (n, r) :: rest else (n, x) :: set_entry rest name r
  end.
Fixpoint del_entry (l : list entry) (name : nat) : list entry :=
  match l with
  | [] => []
  | (n, x) :: rest => if n =? name then rest else (n, x) :: del_entry rest name
  end.
Fixpoint get_entry (l : list entry) (name : nat) : option ref :=
  match l with
  | [] => None
  | (n, x) :: rest => if n =? name then Some x else get_entry rest name
  end.
Definition has_entry (l : list entry) (name : nat) : bool := match get_entry l name with Some _ => true | None => false end.

(* ---- primitives ---- *)
Definition alloc_tensor (st : store) (v : nat) : store * tid :=
  (mkSt (upd (tv st) (nt st) v) (cv st) (S (nt st)) (nc st), nt st).
Definition alloc_cont (st : store) (l : list entry) : store * cid :=
  (mkSt (tv st) (upd (cv st) (nc st) l) (nt st) (S (nc st)), nc st).
Definition edit_tensor (st : store) (t : tid) : store :=
  mkSt (upd (tv st) t (S (tv st t))) (cv st) (nt st) (nc st).
Definition set_cont (st : store) (c : cid) (l : list entry) : store :=
  mkSt (tv st) (upd (cv st) c l) (nt st) (nc st).
Definition set_slot (o : obj) (name : nat) (r : ref) : obj := mkObj (set_entry (slots o) name r) (pc o) (bc o) (ismod o).

(* ---- copies ---- *)
(* copy.copy: Grid / Cube copy their slots; SpatialTransform.__copy__ also copies the _buffers dict *)
Definition shallow_copy (st : store) (o : obj) : store * obj :=
  if ismod o then
    let '(st1, b') := alloc_cont st (cv st (bc o)) in
    (st1, mkObj (slots o) (pc o) b' true)
  else (st, o).

(* copy = shallow_copy(self); copy._parameters = copy._parameters.copy(): the with-argument accessors that may rebind a
   parameter (grid / data / unlink / matrix) give the copy its own _parameters dict; the Parameter objects stay shared *)
Definition shallow_copy_own (st : store) (o : obj) : store * obj :=
  let '(st1, c) := shallow_copy st o in
  if ismod c then
    let '(st2, p') := alloc_cont st1 (cv st1 (pc c)) in
    (st2, mkObj (slots c) p' (bc c) true)
  else (st1, c).

(* clone of every tensor of a list of entries *)
Fixpoint clone_entries (st : store) (l : list entry) : store * list entry :=
  match l with
  | [] => (st, [])
  | (n, RT t) :: rest =>
      let '(st1, t') := alloc_tensor st (tv st t) in
      let '(st2, rest') := clone_entries st1 rest in
      (st2, (n, RT t') :: rest')
  | e :: rest =>
      let '(st1, rest') := clone_entries st rest in
      (st1, e :: rest')
  end.
(* Grid.clone / copy.deepcopy *)
Definition deep_copy (st : store) (o : obj) : store * obj :=
  let '(st1, s') := clone_entries st (slots o) in
  if ismod o then
    let '(st2, p') := clone_entries st1 (cv st1 (pc o)) in
    let '(st3, b') := clone_entries st2 (cv st2 (bc o)) in
    let '(st4, pc') := alloc_cont st3 p' in
    let '(st5, bc') := alloc_cont st4 b' in
    (st5, mkObj s' pc' bc' true)
  else (st1, mkObj s' (pc o) (bc o) false).

(* ---- torch.nn.Module.__setattr__ for the values that occur: Parameter, None, plain tensor ---- *)
Inductive setval := VParam (t : tid) | VNoneV | VTensor (t : tid).
Inductive setres := SOk (st : store) (o : obj) | SErr.
Definition module_setattr (st : store) (o : obj) (name : nat) (v : setval) : setres :=
  match v with
  | VParam t => (* removed from __dict__ / _buffers, registered in _parameters *)
      let st1 := set_cont st (bc o) (del_entry (cv st (bc o)) name) in
      SOk (set_cont st1 (pc o) (set_entry (cv st1 (pc o)) name (RT t))) (mkObj (del_entry (slots o) name) (pc o) (bc o) (ismod o))
  | VNoneV =>
      if has_entry (cv st (pc o)) name then SOk (set_cont st (pc o) (set_entry (cv st (pc o)) name RNone)) o
      else if has_entry (cv st (bc o)) name then SOk (set_cont st (bc o) (set_entry (cv st (bc o)) name RNone)) o
      else SOk st (set_slot o name RNone)
  | VTensor t =>
      if has_entry (cv st (pc o)) name then SErr            (* cannot assign a tensor as parameter *)
      else if has_entry (cv st (bc o)) name then SOk (set_cont st (bc o) (set_entry (cv st (bc o)) name (RT t))) o
      else SOk st (set_slot o name (RT t))
  end.

(* names *)
Definition n_params := 0.   Definition n_grid := 1.   Definition n_args := 2.   Definition n_u := 3.   Definition n_p := 4.
Definition n_center := 10.  Definition n_spacing := 11. Definition n_align := 12.

(* ---- with-argument accessors (shallow copy + setter on the copy) ---- *)
(* Grid.center(arg) / spacing(arg) / ... : shallow_copy(self).center_(arg), center_ rebinds the slot to a new tensor *)
Definition acc_simple (st : store) (o : obj) (name : nat) (v : nat) : store * obj :=
  let '(st1, c) := shallow_copy st o in
  let '(st2, t) := alloc_tensor st1 v in
  (st2, set_slot c name (RT t)).
Definition acc_flag (st : store) (o : obj) (name : nat) (v : nat) : store * obj :=
  let '(st1, c) := shallow_copy st o in (st1, set_slot c name (RV v)).
(* clear_buffers: the cached fields are removed from the buffers of the object it is called on *)
Definition clear_buffers (st : store) (o : obj) : store :=
  set_cont st (bc o) (del_entry (del_entry (cv st (bc o)) n_u) n_p).
(* SpatialTransform.grid(g) / condition(args): copy, (clear buffers,) rebind a plain attribute *)
Definition acc_grid (st : store) (o : obj) (g : nat) : store * obj :=
  let '(st1, c) := shallow_copy_own st o in (clear_buffers st1 c, set_slot c n_grid (RV g)).
Definition acc_condition (st : store) (o : obj) (a : nat) : store * obj :=
  let '(st1, c) := shallow_copy st o in (clear_buffers st1 c, set_slot c n_args (RV a)).
(* ParametricTransform.data(arg): copy.params = Parameter(arg) if params is a Parameter else arg *)
Definition acc_data (st : store) (o : obj) (v : nat) : setres :=
  let '(st1, c) := shallow_copy_own st o in
  let '(st2, t) := alloc_tensor st1 v in
  let isparam := match get_entry (cv st2 (pc c)) n_params with Some (RT _) => true | _ => false end in
  match module_setattr st2 c n_params (if isparam then VParam t else VTensor t) with
  | SOk st3 c' => SOk (clear_buffers st3 c') c'
  | SErr => SErr
  end.
(* ParametricTransform.unlink(): copy.params = None *)
Definition acc_unlink (st : store) (o : obj) : setres :=
  let '(st1, c) := shallow_copy_own st o in
  match module_setattr st1 c n_params VNoneV with
  | SOk st2 c' => SOk (set_cont st2 (bc c') (del_entry (cv st2 (bc c')) n_p)) c'
  | SErr => SErr
  end.

(* ---- observable state ---- *)
Definition res (st : store) (e : entry) : nat * nat * nat * nat :=
  match snd e with
  | RNone => (fst e, 0, 0, 0)
  | RT t => (fst e, 1, t, tv st t)         (* identity and content *)
  | RV v => (fst e, 2, v, 0)
  end.
Definition snap (st : store) (o : obj) : list (nat * nat * nat * nat) * list (nat * nat * nat * nat) * list (nat * nat * nat * nat) :=
  (map (res st) (slots o),
   if ismod o then map (res st) (cv st (pc o)) else [],
   if ismod o then map (res st) (cv st (bc o)) else []).

(* ---- in-place edits and rebinding on one object (for the independence of deep copies) ---- *)
Inductive mut :=
| MEditSlot (name : nat) | MEditParam (name : nat) | MEditBuf (name : nat)        (* x.add_(1) on the tensor bound there *)
| MSetSlot (name : nat) (v : nat) | MSetParam (name : nat) (v : nat) | MSetBuf (name : nat) (v : nat)   (* rebinding to a new tensor *)
| MUnsetParam (name : nat) | MDelBuf (name : nat).
Definition edit_ref (st : store) (r : option ref) : store :=
  match r with Some (RT t) => edit_tensor st t | _ => st end.
Definition apply_mut (st : store) (o : obj) (m : mut) : store * obj :=
  match m with
  | MEditSlot n => (edit_ref st (get_entry (slots o) n), o)
  | MEditParam n => (if ismod o then edit_ref st (get_entry (cv st (pc o)) n) else st, o)
  | MEditBuf n => (if ismod o then edit_ref st (get_entry (cv st (bc o)) n) else st, o)
  | MSetSlot n v => let '(st1, t) := alloc_tensor st v in (st1, set_slot o n (RT t))
  | MSetParam n v => if ismod o then let '(st1, t) := alloc_tensor st v in (set_cont st1 (pc o) (set_entry (cv st1 (pc o)) n (RT t)), o) else (st, o)
  | MSetBuf n v => if ismod o then let '(st1, t) := alloc_tensor st v in (set_cont st1 (bc o) (set_entry (cv st1 (bc o)) n (RT t)), o) else (st, o)
  | MUnsetParam n => if ismod o then (set_cont st (pc o) (set_entry (cv st (pc o)) n RNone), o) else (st, o)
  | MDelBuf n => if ismod o then (set_cont st (bc o) (del_entry (cv st (bc o)) n), o) else (st, o)
  end.

(* tensors / containers an object can reach *)
Fixpoint tids_of (l : list entry) : list tid :=
  match l with
  | [] => []
  | (_, RT t) :: r => t :: tids_of r
  | _ :: r => tids_of r
  end.
Definition reach_t (st : store) (o : obj) : list tid :=
  tids_of (slots o) ++ (if ismod o then tids_of (cv st (pc o)) ++ tids_of (cv st (bc o)) else []).
Definition reach_c (o : obj) : list cid := if ismod o then [pc o; bc o] else [].
Definition disjoint (a b : list nat) : Prop := forall x, In x a -> In x b -> False.
(* both objects live in the store and share neither tensors nor containers *)
Definition separated (st : store) (a b : obj) : Prop :=
  disjoint (reach_t st a) (reach_t st b) /\ disjoint (reach_c a) (reach_c b)
  /\ (forall t, In t (reach_t st a ++ reach_t st b) -> t < nt st)
  /\ (forall c, In c (reach_c a ++ reach_c b) -> c < nc st).

Inductive side := SA | SB.
(* a trace of mutations, each on one of the two objects *)
Fixpoint run_trace (st : store) (a b : obj) (tr : list (side * mut)) : store * obj * obj :=
  match tr with
  | [] => (st, a, b)
  | (SA, m) :: r => let '(st1, a') := apply_mut st a m in run_trace st1 a' b r
  | (SB, m) :: r => let '(st1, b') := apply_mut st b m in run_trace st1 a b' r
  end.

(* ---- replay of operation sequences on an environment of objects (for the correspondence) ---- *)
Inductive gop :=
| GCopy | GDeepCopy | GAccCenter | GAccSpacing | GAccAlign | GSetCenter | GEditCenter | GEditSpacing
| GAccGrid | GAccCondition | GAccData | GAccUnlink | GSetData | GEditParams.

Definition snap_eqb (a b : list (nat * nat * nat * nat) * list (nat * nat * nat * nat) * list (nat * nat * nat * nat)) : bool :=
  let q x y := match x, y with (a1, a2, a3, a4), (b1, b2, b3, b4) => (a1 =? b1) && (a2 =? b2) && (a3 =? b3) && (a4 =? b4) end in
  let fix leq (l m : list (nat * nat * nat * nat)) := match l, m with
      | [], [] => true | x :: l', y :: m' => q x y && leq l' m' | _, _ => false end in
  match a, b with (a1, a2, a3), (b1, b2, b3) => leq a1 b1 && leq a2 b2 && leq a3 b3 end.

Fixpoint replace_nth {A} (l : list A) (k : nat) (x : A) : list A :=
  match l, k with
  | [], _ => []
  | _ :: r, 0 => x :: r
  | y :: r, S j => y :: replace_nth r j x
  end.

Inductive gres := GOk (st : store) (env : list obj) | GErr.
Definition params_ref (st : store) (o : obj) : option ref :=
  match get_entry (cv st (pc o)) n_params with
  | Some r => Some r
  | None => match get_entry (cv st (bc o)) n_params with Some r => Some r | None => get_entry (slots o) n_params end
  end.
Definition gstep (st : store) (env : list obj) (op : gop) (k : nat) : gres :=
  match nth_error env k with
  | None => GErr
  | Some o =>
      let add (r : store * obj) := GOk (fst r) (env ++ [snd r]) in
      match op with
      | GCopy => add (shallow_copy st o)
      | GDeepCopy => add (deep_copy st o)
      | GAccCenter => if ismod o then GErr else add (acc_simple st o n_center 3)
      | GAccSpacing => if ismod o then GErr else add (acc_simple st o n_spacing 5)
      | GAccAlign => if ismod o then GErr else add (acc_flag st o n_align 0)
      | GSetCenter => if ismod o then GErr else let '(st1, t) := alloc_tensor st 7 in GOk st1 (replace_nth env k (set_slot o n_center (RT t)))
      | GEditCenter => if ismod o then GErr else GOk (edit_ref st (get_entry (slots o) n_center)) env
      | GEditSpacing => if ismod o then GErr else GOk (edit_ref st (get_entry (slots o) n_spacing)) env
      | GAccGrid => if ismod o then add (acc_grid st o 9) else GErr
      | GAccCondition => if ismod o then add (acc_condition st o 1) else GErr
      | GAccData => if ismod o then match acc_data st o 4 with SOk st' c => GOk st' (env ++ [c]) | SErr => GErr end else GErr
      | GAccUnlink => if ismod o then match acc_unlink st o with SOk st' c => GOk st' (env ++ [c]) | SErr => GErr end else GErr
      | GSetData =>
          if ismod o then
            let '(st1, t) := alloc_tensor st 6 in
            let isparam := match get_entry (cv st1 (pc o)) n_params with Some (RT _) => true | _ => false end in
            match module_setattr st1 o n_params (if isparam then VParam t else VTensor t) with
            | SOk st2 o' => GOk (clear_buffers st2 o') (replace_nth env k o')
            | SErr => GErr
            end
          else GErr
      | GEditParams => if ismod o then match params_ref st o with Some (RT t) => GOk (edit_tensor st t) env | _ => GErr end else GErr
      end
  end.
Definition changed_objs (st st' : store) (env env' : list obj) : list nat :=
  filter (fun j => match nth_error env j, nth_error env' j with
                   | Some a, Some b => negb (snap_eqb (snap st a) (snap st' b))
                   | _, _ => false
                   end) (seq 0 (length env)).
(* per step: None = error (the run stops), Some l = the previously existing objects whose state changed *)
Fixpoint greplay (st : store) (env : list obj) (steps : list (gop * nat)) : list (option (list nat)) :=
  match steps with
  | [] => []
  | (op, k) :: r => match gstep st env op k with
                    | GErr => [None]
                    | GOk st' env' => Some (changed_objs st st' env env') :: greplay st' env' r
                    end
  end.
Definition grid0 : store * obj :=
  (mkSt (fun t => 10 + t) (fun _ => []) 4 0,
   mkObj [(n_center, RT 0); (n_spacing, RT 1); (13, RT 2); (14, RT 3); (n_align, RV 1)] 0 0 false).
Definition tparam0 : store * obj :=
  (mkSt (fun t => 10 + t) (fun c => match c with 0 => [(n_params, RT 0)] | _ => [] end) 1 2, mkObj [(n_grid, RV 7); (n_args, RV 0)] 0 1 true).
Definition ttensor0 : store * obj :=
  (mkSt (fun t => 10 + t) (fun c => match c with 1 => [(n_params, RT 0)] | _ => [] end) 1 2, mkObj [(n_grid, RV 7); (n_args, RV 0)] 0 1 true).
