"""Gen/GridT.v -- core/grid.py: Grid.transform branch table (16 axes pairs, points and vectors,
same grid and two grids), Grid.transform_vectors closed-form path, Grid.apply_transform through the
public point API, Grid.origin, the arange literals of Grid.coords; core/cube.py: Cube.transform.
Grid attributes are symbols: sizes n_i (positive integers), spacings s_i, center c_i, direction d_ij."""
import itertools

import numpy as np

import symtorch as st
import trlib
from symtorch import E, TraceError

AXN = ["GRID", "CUBE", "CUBE_CORNERS", "WORLD"]
SH = {"GRID": "G", "CUBE": "C", "CUBE_CORNERS": "K", "WORLD": "W"}
COQF = {"T": "FT", "A": "FA", "H": "FH"}


def mk_grid(Grid, D, p="", align=True):
    g = object.__new__(Grid)
    g._size = st.Tensor(np.array([E.var(f"{p}n{i}", integer=True, positive=True) for i in range(D)], dtype=object))
    g._spacing = st.symvec(p + "s", D, positive=True)
    g._center = st.symvec(p + "c", D)
    g._direction = st.symmat(p + "d", D, D)
    g._align_corners = align
    return g


def grid_inputs(g, p=""):
    return [(p + "n", g._size), (p + "s", g._spacing), (p + "c", g._center), (p + "d", g._direction)]


def form_of(shape, D):
    if tuple(shape) == (D, D):
        return "A"
    if tuple(shape) == (D, D + 1):
        return "H"
    if tuple(shape) == (D, 1):
        return "T"
    raise TraceError(f"transform has shape {tuple(shape)}")


def check_rounded_size(Grid, Axes):
    """Grid stores sizes as floats (so that downsample().upsample() is lossless); the number of samples is the
    rounded size (size_tensor() = ceil).  Every coordinate map must use the number of samples: trace the maps of a
    grid whose stored size is a non-integer symbol nf_i with ceil(nf_i) = n_i and require that nf_i does not occur."""
    import math
    orig = st.Tensor.ceil

    def ceil2(self):
        def f(x):
            if x.op == "var" and str(x.args[0]).startswith("nf"):
                return E.var("n" + str(x.args[0])[2:], integer=True, positive=True)
            if x.flags().get("integer"):
                return x
            if x.is_const():
                return E.const(math.ceil(x.value()))
            raise TraceError("ceil() of non-integer symbolic value")
        return self._new(st._un(f)(self.a))
    st.Tensor.ceil = ceil2
    try:
        for D in (2, 3):
            for align in (True, False):
                g = mk_grid(Grid, D, align=align)
                g._size = st.Tensor(np.array([E.var(f"nf{i}", positive=True) for i in range(D)], dtype=object))
                what = [("origin()", g.origin())]
                for a, b in itertools.product(AXN, AXN):
                    for vec in (False, True):
                        what.append((f"transform({a}, {b}, vectors={vec})", g.transform(Axes(a.lower()), Axes(b.lower()), vectors=vec)))
                    v = st.symvec("v", D)
                    what.append((f"transform_vectors({a}, {b})", g.transform_vectors(v, Axes(a.lower()), Axes(b.lower()))))
                for name, t in what:
                    if any("nf" in st.to_text(e) for e in t.a.reshape(-1)):
                        raise TraceError(f"Grid.{name} (D={D}, align_corners={align}) depends on the unrounded stored size _size "
                                         "instead of the number of samples size_tensor()")
    finally:
        st.Tensor.ceil = orig


def generate(loader):
    G = loader.load("deepali.core.grid")
    Grid, Axes = G.Grid, G.Axes
    check_rounded_size(Grid, Axes)
    out = ["Section Gen.", "Context {K : fld}.", ""]
    forms = {}
    for D in (2, 3):
        g = mk_grid(Grid, D)
        gi = grid_inputs(g)
        # origin
        out.append(trlib.emit_match_def(f"gen_origin_{D}", gi, [], g.origin(), comment=f"Grid.origin, D = {D}"))
        out.append(trlib.emit_match_def(f"gen_affine_{D}", gi, [], g.affine(), comment="Grid.affine"))
        out.append(trlib.emit_match_def(f"gen_inverse_affine_{D}", gi, [], g.inverse_affine(), comment="Grid.inverse_affine"))
        x = st.symvec("x", D)
        for a, b in itertools.product(AXN, AXN):
            A_, B_ = Axes(a.lower()), Axes(b.lower())
            for vec in (False, True):
                m = g.transform(A_, B_, vectors=vec)
                f = form_of(m.shape, D)
                if forms.setdefault((a, b, vec), f) != f:
                    raise TraceError(f"form of transform {a}->{b} depends on D")
                # the align_corners flag of the grid must not influence an explicit axes pair
                m2 = mk_grid(Grid, D, align=False).transform(A_, B_, vectors=vec)
                if not trlib.same_tensor(m.a, m2.a):
                    raise TraceError(f"transform {a}->{b} depends on the grid's align_corners flag")
                out.append(trlib.emit_match_def(f"gen_T{'v' if vec else ''}_{SH[a]}{SH[b]}_{D}", gi, [], m,
                                                comment=f"Grid.transform({a}, {b}, vectors={vec}), D = {D}"))
            # point API (decimals=None: rounding is modelled separately) and vector API
            y = g.apply_transform(x, A_, B_, decimals=None)
            out.append(trlib.emit_match_def(f"gen_pts_{SH[a]}{SH[b]}_{D}", gi + [("x", x)], [], y,
                                            comment=f"Grid.transform_points({a}, {b}, decimals=None)"))
            y2 = g.transform_points(x, A_, B_, decimals=None)
            if not trlib.same_tensor(y.a, y2.a):
                raise TraceError("transform_points differs from apply_transform")
            v = g.transform_vectors(x, A_, B_)
            out.append(trlib.emit_match_def(f"gen_vecs_{SH[a]}{SH[b]}_{D}", gi + [("x", x)], [], v,
                                            comment=f"Grid.transform_vectors({a}, {b}) closed-form path"))
            # two grids
            h = mk_grid(Grid, D, p="t")
            st.GENERIC_DISTINCT = True
            try:
                for vec in (False, True):
                    m = g.transform(A_, B_, to_grid=h, vectors=vec)
                    f = form_of(m.shape, D)
                    if forms.setdefault((a, b, vec, "2"), f) != f:
                        raise TraceError("form of two-grid transform depends on D")
                    out.append(trlib.emit_match_def(f"gen_T2{'v' if vec else ''}_{SH[a]}{SH[b]}_{D}",
                                                    gi + grid_inputs(h, "t"), [], m,
                                                    comment=f"Grid.transform({a}, {b}, to_grid, vectors={vec})"))
                y = g.apply_transform(x, A_, B_, to_grid=h, decimals=None)
                out.append(trlib.emit_match_def(f"gen_pts2_{SH[a]}{SH[b]}_{D}", gi + grid_inputs(h, "t") + [("x", x)], [], y,
                                                comment=f"Grid.transform_points({a}, {b}, to_grid, decimals=None)"))
                v = g.transform_vectors(x, A_, B_, to_grid=h)
                out.append(trlib.emit_match_def(f"gen_vecs2_{SH[a]}{SH[b]}_{D}", gi + grid_inputs(h, "t") + [("x", x)], [], v,
                                                comment=f"Grid.transform_vectors({a}, {b}, to_grid)"))
            finally:
                st.GENERIC_DISTINCT = False
        # named helpers must be the table entries they claim to be
        for nm, a, b in (("index_to_world", "GRID", "WORLD"), ("world_to_index", "WORLD", "GRID")):
            y = getattr(g, nm)(x, decimals=None)
            ref = g.apply_transform(x, Axes(a.lower()), Axes(b.lower()), decimals=None)
            if not trlib.same_tensor(y.a, ref.a):
                raise TraceError(f"{nm} is not transform_points({a},{b})")
        for nm, a, b, ac in (("index_to_cube", "GRID", None, None), ("cube_to_index", None, "GRID", None),
                             ("cube_to_world", None, "WORLD", None), ("world_to_cube", "WORLD", None, None)):
            for flag in (True, False):
                cube = "CUBE_CORNERS" if flag else "CUBE"
                aa, bb = a or cube, b or cube
                y = getattr(g, nm)(x, decimals=None, align_corners=flag)
                ref = g.apply_transform(x, Axes(aa.lower()), Axes(bb.lower()), decimals=None)
                if not trlib.same_tensor(y.a, ref.a):
                    raise TraceError(f"{nm}(align_corners={flag}) is not transform_points({aa},{bb})")
        # Cube
        Cm = loader.load("deepali.core.cube")
        cu = object.__new__(Cm.Cube)
        cu._extent = st.symvec("e", D, positive=True)
        cu._center = st.symvec("c", D)
        cu._direction = st.symmat("d", D, D)
        ci = [("e", cu._extent), ("c", cu._center), ("d", cu._direction)]
        for a, b in (("CUBE", "WORLD"), ("WORLD", "CUBE"), ("CUBE_CORNERS", "WORLD"), ("WORLD", "CUBE_CORNERS")):
            for vec in (False, True):
                m = cu.transform(Axes(a.lower()), Axes(b.lower()), vectors=vec)
                out.append(trlib.emit_match_def(f"gen_cubeT{'v' if vec else ''}_{SH[a]}{SH[b]}_{D}", ci, [], m,
                                                comment=f"Cube.transform({a}, {b}, vectors={vec})"))
        # two cubes: with to_cube given, every axes pair is "this cube -> world -> other cube" (structural check on traces)
        co = object.__new__(Cm.Cube)
        co._extent = st.symvec("te", D, positive=True)
        co._center = st.symvec("tc", D)
        co._direction = st.symmat("td", D, D)
        xx = st.symvec("x", D)
        hom = loader.load("deepali.core.linalg").homogeneous_transform
        eq_orig = Cm.Cube.__eq__
        Cm.Cube.__eq__ = lambda a_, b_: a_ is b_   # the two cubes are generic, hence different (allclose is numeric)
        try:
            for a, b in itertools.product(("CUBE", "WORLD"), repeat=2):
                for vec in (False, True):
                    m = cu.transform(Axes(a.lower()), Axes(b.lower()), to_cube=co, vectors=vec)
                    # (syntactic comparison is too weak here: the composite is a matrix product; emitted and proved equal
                    #  to "this cube -> world -> other cube" in Proofs/C01Cube.v)
                    out.append(trlib.emit_match_def(f"gen_cube2T{'v' if vec else ''}_{SH[a]}{SH[b]}_{D}",
                                                    ci + [("te", co._extent), ("tc", co._center), ("td", co._direction)], [], m,
                                                    comment=f"Cube.transform({a}, {b}, to_cube=other, vectors={vec})"))
        finally:
            Cm.Cube.__eq__ = eq_orig
    # dispatchers
    def disp(name, pre, extra_args, extra_call, rty="list (list K)", two=False):
        arms = []
        for D in (2, 3):
            for a, b in itertools.product(AXN, AXN):
                call = f"{pre}_{SH[a]}{SH[b]}_{D} n s c d" + (" tn ts tc td" if two else "") + extra_call
                arms.append(f"  | {D}%nat, {a}, {b} => {call}")
        sig = "(D : nat) (a b : axes) (n s c : list K) (d : list (list K))" + \
              (" (tn ts tc : list K) (td : list (list K))" if two else "") + extra_args
        return (f"Definition {name} {sig} : {rty} :=\n  match D, a, b with\n" + "\n".join(arms) +
                "\n  | _, _, _ => []\n  end.\n")
    out.append(disp("gen_T", "gen_T", "", ""))
    out.append(disp("gen_Tv", "gen_Tv", "", ""))
    out.append(disp("gen_pts", "gen_pts", " (x : list K)", " x", "list K"))
    out.append(disp("gen_vecs", "gen_vecs", " (x : list K)", " x", "list K"))
    out.append(disp("gen_T2", "gen_T2", "", "", two=True))
    out.append(disp("gen_T2v", "gen_T2v", "", "", two=True))
    out.append(disp("gen_vecs2", "gen_vecs2", " (x : list K)", " x", "list K", two=True))
    out.append(disp("gen_pts2", "gen_pts2", " (x : list K)", " x", "list K", two=True))
    for nm, key in (("gen_T_form", False), ("gen_Tv_form", True)):
        arms = [f"  | {a}, {b} => {COQF[forms[(a, b, key)]]}" for a, b in itertools.product(AXN, AXN)]
        out.append(f"Definition {nm} (a b : axes) : form :=\n  match a, b with\n" + "\n".join(arms) + "\n  end.\n")
    for nm, key in (("gen_T2_form", False), ("gen_T2v_form", True)):
        arms = [f"  | {a}, {b} => {COQF[forms[(a, b, key, '2')]]}" for a, b in itertools.product(AXN, AXN)]
        out.append(f"Definition {nm} (a b : axes) : form :=\n  match a, b with\n" + "\n".join(arms) + "\n  end.\n")
    out.append("Definition gen_origin (D : nat) (n s c : list K) (d : list (list K)) : list K :=\n"
               "  match D with 2%nat => gen_origin_2 n s c d | 3%nat => gen_origin_3 n s c d | _ => [] end.\n")
    out.append("End Gen.\n")
    return "\n".join(out)
