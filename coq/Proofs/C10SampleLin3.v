(* D = 3 version of C10SampleLin.v: resampling the data of a 3-D flow field commutes with representation changes. *)
From Coq Require Import ZArith List Field Ring Lia Bool.
From DV Require Import Base.Field Base.FieldFacts Base.LinAlg Base.Tactics Model.Enums Model.Homog Model.Grid Model.Sampler
  Model.Flow Model.FlowRepr Gen.GridT Proofs.SamplerFacts Proofs.C11Interp Proofs.C11Compose Proofs.C13Compose
  Proofs.C10Axes Proofs.C10Sample Proofs.C10SampleLin.
Import ListNotations.
Local Open Scope fld_scope.

Section SampleLin3.
Variable K : fld.
Hypothesis Kf : is_field K.
Hypothesis Kc : char0 K.
Add Field KFSL3 : Kf.
Variable floorK : K -> Z.
Notation f3 := (Z -> Z -> Z -> K).

Definition e3 (b : nat) : list K := match b with O => [1; 0; 0] | S O => [0; 1; 0] | _ => [0; 0; 1] end.
Lemma gvecs_matrix3 A B (g : @gridf K) (v0 v1 v2 : K) :
  gvecs 3 A B g [v0; v1; v2]
  = [nth 0 (gvecs 3 A B g (e3 0)) 0 * v0 + nth 0 (gvecs 3 A B g (e3 1)) 0 * v1 + nth 0 (gvecs 3 A B g (e3 2)) 0 * v2;
     nth 1 (gvecs 3 A B g (e3 0)) 0 * v0 + nth 1 (gvecs 3 A B g (e3 1)) 0 * v1 + nth 1 (gvecs 3 A B g (e3 2)) 0 * v2;
     nth 2 (gvecs 3 A B g (e3 0)) 0 * v0 + nth 2 (gvecs 3 A B g (e3 1)) 0 * v1 + nth 2 (gvecs 3 A B g (e3 2)) 0 * v2].
Proof. destruct g as [[[n s] c] d]. destruct A, B; fcbv; list_eq; rewrite ?(Fdiv_def Kf); ring. Qed.
Lemma gvecs2_WW3 (g g' : @gridf K) (v0 v1 v2 : K) : gvecs2 3 WORLD WORLD g g' [v0; v1; v2] = [v0; v1; v2].
Proof. destruct g as [[[n s] c] d], g' as [[[n' s'] c'] d']. reflexivity. Qed.
Lemma l3eta (v : list K) : length v = 3%nat -> v = [nth 0 v 0; nth 1 v 0; nth 2 v 0].
Proof. destruct v as [|a [|b [|c [|? ?]]]]; try discriminate. reflexivity. Qed.

Definition px3 pad nx ny nz (f : f3) ix iy iz : K := getp pad 0 (getp pad [] (getp pad [] (tab3 nx ny nz f) iz) iy) ix.
Lemma getp_nil_row pad iy : getp pad (@nil K) [] iy = [].
Proof.
  unfold getp. destruct pad.
  - destruct (inb iy (zlen (@nil (list K)))); [destruct (Z.to_nat iy)|]; reflexivity.
  - destruct (Z.to_nat (clampz iy (zlen (@nil (list K))))); reflexivity.
Qed.
Lemma px3_val pad nx ny nz f ix iy iz : (1 <= nx)%Z -> (1 <= ny)%Z -> (1 <= nz)%Z ->
  px3 pad nx ny nz f ix iy iz
  = match pad with PZeros => if inb iz nz && (inb iy ny && inb ix nx) then f ix iy iz else 0
                 | PBorder => f (clampz ix nx) (clampz iy ny) (clampz iz nz) end.
Proof.
  intros Hx Hy Hz. unfold px3, tab3. rewrite getp_tab_gen by lia. destruct pad.
  - destruct (inb iz nz); cbn [andb]; [|rewrite getp_nil_row; apply (getp_nil K)].
    fold (px2 K PZeros nx ny (fun x y => f x y iz) ix iy). now rewrite (px2_val K) by lia.
  - fold (px2 K PBorder nx ny (fun x y => f x y (clampz iz nz)) ix iy). now rewrite (px2_val K) by lia.
Qed.
Lemma px3_lin pad nx ny nz (a b c : K) f g h ix iy iz : (1 <= nx)%Z -> (1 <= ny)%Z -> (1 <= nz)%Z ->
  px3 pad nx ny nz (fun x y z => a * f x y z + b * g x y z + c * h x y z) ix iy iz
  = a * px3 pad nx ny nz f ix iy iz + b * px3 pad nx ny nz g ix iy iz + c * px3 pad nx ny nz h ix iy iz.
Proof. intros Hx Hy Hz. rewrite !px3_val by lia. destruct pad; [destruct (inb iz nz && (inb iy ny && inb ix nx))|]; ring. Qed.

Definition tri (P : Z -> Z -> Z -> K) ix iy iz tx ty tz : K :=
  lerp (lerp (lerp (P ix iy iz) (P (ix + 1)%Z iy iz) tx) (lerp (P ix (iy + 1)%Z iz) (P (ix + 1)%Z (iy + 1)%Z iz) tx) ty)
       (lerp (lerp (P ix iy (iz + 1)%Z) (P (ix + 1)%Z iy (iz + 1)%Z) tx) (lerp (P ix (iy + 1)%Z (iz + 1)%Z) (P (ix + 1)%Z (iy + 1)%Z (iz + 1)%Z) tx) ty) tz.
Lemma interp3_px pad nx ny nz f ix iy iz tx ty tz :
  interp3 pad (tab3 nx ny nz f) ix iy iz tx ty tz = tri (px3 pad nx ny nz f) ix iy iz tx ty tz.
Proof. reflexivity. Qed.

Lemma gs3_lin pad ac nx ny nz (a b c : K) f g h p q r : (1 <= nx)%Z -> (1 <= ny)%Z -> (1 <= nz)%Z ->
  grid_sample3 floorK pad ac (tab3 nx ny nz (fun x y z => a * f x y z + b * g x y z + c * h x y z)) p q r
  = a * grid_sample3 floorK pad ac (tab3 nx ny nz f) p q r + b * grid_sample3 floorK pad ac (tab3 nx ny nz g) p q r
    + c * grid_sample3 floorK pad ac (tab3 nx ny nz h) p q r.
Proof.
  intros Hx Hy Hz. unfold grid_sample3. rewrite !zlen_tab3, !zlen_hd_tab3, !zlen_hd_hd_tab3 by lia. unfold sample3.
  destruct (cell floorK _) as [ix tx]. destruct (cell floorK _) as [iy ty]. destruct (cell floorK _) as [iz tz].
  rewrite !interp3_px. unfold tri. rewrite !px3_lin by lia. unfold lerp. ring.
Qed.

Lemma field_map3_field3g nx ny nz F (f0 f1 f2 : f3) : (1 <= nx)%Z -> (1 <= ny)%Z -> (1 <= nz)%Z ->
  field_map3 F (field3 K nx ny nz f0 f1 f2)
  = field3 K nx ny nz (fun x y z => nth 0 (F [f0 x y z; f1 x y z; f2 x y z]) 0) (fun x y z => nth 1 (F [f0 x y z; f1 x y z; f2 x y z]) 0)
           (fun x y z => nth 2 (F [f0 x y z; f1 x y z; f2 x y z]) 0).
Proof.
  intros Hx Hy Hz. unfold field_map3, field3. cbn [nth seq map]. rewrite zlen_tab3, zlen_hd_tab3, zlen_hd_hd_tab3 by lia.
  f_equal; [|f_equal; [|f_equal]]; apply tab3_ext; intros x y z Hxr Hyr Hzr; now rewrite !get3_tab3 by lia.
Qed.

Let D3 : 3%nat = 2%nat \/ 3%nat = 3%nat := or_intror eq_refl.
Lemma gvecs2_len3 (g g' : @gridf K) A B v0 v1 v2 : gwf 3 g -> gwf 3 g' -> length (gvecs2 3 A B g g' [v0; v1; v2]) = 3%nat.
Proof.
  intros Hw Hw'. rewrite <- (gpts2_lin K Kf Kc 3 D3 g g' A B (vzero 3) [v0; v1; v2] Hw Hw' eq_refl eq_refl).
  rewrite (length_vsub K); rewrite !(gpts2_len K Kf Kc 3 D3) by auto; reflexivity.
Qed.

Definition sdata3 pad ac (g g' : @gridf K) nx' ny' nz' (u : list (list (list (list K)))) :=
  map (fun c => tab3 nx' ny' nz' (fun x y z =>
    let pos := gpts2 3 (cube_of ac) (cube_of ac) g' g [ncoord ac nx' x; ncoord ac ny' y; ncoord ac nz' z] in
    grid_sample3 floorK pad ac (nth c u []) (nth 0 pos 0) (nth 1 pos 0) (nth 2 pos 0))) (seq 0 3).

Lemma sample_item3_all pad ac A g g' nx' ny' nz' u : (1 <= nx')%Z -> (1 <= ny')%Z -> (1 <= nz')%Z ->
  sample_item3 floorK pad ac A g g' nx' ny' nz' u = field_map3 (gvecs2 3 A A g g') (sdata3 pad ac g g' nx' ny' nz' u).
Proof.
  intros Hx Hy Hz. unfold sample_item3. fold (sdata3 pad ac g g' nx' ny' nz' u). destruct A; try reflexivity.
  unfold sdata3. cbn [seq map].
  change [tab3 nx' ny' nz' ?a; tab3 nx' ny' nz' ?b; tab3 nx' ny' nz' ?c] with (field3 K nx' ny' nz' a b c).
  rewrite field_map3_field3g by lia. unfold field3. f_equal; [|f_equal; [|f_equal]]; apply tab3_ext; intros; now rewrite gvecs2_WW3.
Qed.

Lemma sdata3_commutes pad ac A B g g' nx ny nz nx' ny' nz' f0 f1 f2 :
  (1 <= nx)%Z -> (1 <= ny)%Z -> (1 <= nz)%Z -> (1 <= nx')%Z -> (1 <= ny')%Z -> (1 <= nz')%Z ->
  sdata3 pad ac g g' nx' ny' nz' (field_map3 (gvecs 3 A B g) (field3 K nx ny nz f0 f1 f2))
  = field_map3 (gvecs 3 A B g) (sdata3 pad ac g g' nx' ny' nz' (field3 K nx ny nz f0 f1 f2)).
Proof.
  intros Hx Hy Hz Hx' Hy' Hz'. rewrite field_map3_field3g by lia. unfold sdata3, field3. cbn [seq map nth].
  change [tab3 nx' ny' nz' ?a; tab3 nx' ny' nz' ?b; tab3 nx' ny' nz' ?c] with (field3 K nx' ny' nz' a b c).
  rewrite field_map3_field3g by lia. unfold field3.
  f_equal; [|f_equal; [|f_equal]]; apply tab3_ext; intros x y z Hxr Hyr Hzr; cbv zeta;
    set (pos := gpts2 3 (cube_of ac) (cube_of ac) g' g [ncoord ac nx' x; ncoord ac ny' y; ncoord ac nz' z]);
    rewrite (gvecs_matrix3 A B g (grid_sample3 floorK pad ac (tab3 nx ny nz f0) (nth 0 pos 0) (nth 1 pos 0) (nth 2 pos 0))); cbn [nth];
    rewrite <- gs3_lin by lia; f_equal; apply tab3_ext; intros; rewrite gvecs_matrix3; reflexivity.
Qed.

Theorem sample_item3_commutes_with_axes pad ac A B g g' nx ny nz nx' ny' nz' f0 f1 f2 :
  (1 <= nx)%Z -> (1 <= ny)%Z -> (1 <= nz)%Z -> (1 <= nx')%Z -> (1 <= ny')%Z -> (1 <= nz')%Z -> gwf 3 g -> gwf 3 g' ->
  sample_item3 floorK pad ac B g g' nx' ny' nz' (field_map3 (gvecs 3 A B g) (field3 K nx ny nz f0 f1 f2))
  = field_map3 (gvecs 3 A B g') (sample_item3 floorK pad ac A g g' nx' ny' nz' (field3 K nx ny nz f0 f1 f2)).
Proof.
  intros Hx Hy Hz Hx' Hy' Hz' Hw Hw'. rewrite !sample_item3_all by lia. rewrite sdata3_commutes by lia.
  unfold sdata3, field3. cbn [seq map nth].
  change [tab3 nx' ny' nz' ?a; tab3 nx' ny' nz' ?b; tab3 nx' ny' nz' ?c] with (field3 K nx' ny' nz' a b c).
  rewrite !field_map3_field3g by lia. unfold field3.
  f_equal; [|f_equal; [|f_equal]]; apply tab3_ext; intros x y z Hxr Hyr Hzr; cbv zeta;
    set (pos := gpts2 3 (cube_of ac) (cube_of ac) g' g [ncoord ac nx' x; ncoord ac ny' y; ncoord ac nz' z]);
    set (V := [grid_sample3 floorK pad ac (tab3 nx ny nz f0) (nth 0 pos 0) (nth 1 pos 0) (nth 2 pos 0);
               grid_sample3 floorK pad ac (tab3 nx ny nz f1) (nth 0 pos 0) (nth 1 pos 0) (nth 2 pos 0);
               grid_sample3 floorK pad ac (tab3 nx ny nz f2) (nth 0 pos 0) (nth 1 pos 0) (nth 2 pos 0)]);
    rewrite <- (l3eta (gvecs 3 A B g V)) by (apply (gvecs_len K Kf Kc 3 D3); auto);
    rewrite <- (l3eta (gvecs2 3 A A g g' V)) by (now apply gvecs2_len3);
    now rewrite (regrid_commutes_with_axes K Kf Kc 3 D3) by auto.
Qed.
End SampleLin3.
