(* C12: Jacobian determinant (with and without identity), divergence, curl and Lie bracket of affine vector fields,
   assembled from the finite-difference derivative tensors, equal their analytic values at every grid point where the
   scheme is supported along every axis (2-D and 3-D, all six modes, all shapes and spacings). *)
From Coq Require Import ZArith List Field Ring Lia Bool.
From DV Require Import Base.Field Base.FieldFacts Base.LinAlg Base.Tactics Model.BSplineBase Gen.BSpline Model.BSpline
  Gen.FlowDeriv Model.FiniteDiff Proofs.C14Tac Proofs.C14Eval Proofs.C12FD Proofs.C12ND Proofs.C12ND3 Proofs.C12Flow.
Import ListNotations.
Local Open Scope fld_scope.

(* a point coordinate at which mode m differentiates exactly along an axis of length n (every index for
   forward_central_backward / prewitt / sobel; all but the replicate-padded end(s) for forward / backward / central) *)
Definition reg1 (m : fdmode) (n i : nat) : Prop := exact1 m n i.

Section Fields.
Context {K : fld}.
(* u(p) = A p + t sampled at p = (x hx, y hy [, z hz]) *)
Definition affvec2 (A : list (list K)) (t : list K) (hx hy : K) (nx ny : nat) : list (list (list K)) :=
  map (fun i => field2 (nth i t 0) (jat A i 0) (jat A i 1) hx hy nx ny) (seq 0 2).
Definition affvec3 (A : list (list K)) (t : list K) (hx hy hz : K) (nx ny nz : nat) : list (list (list (list K))) :=
  map (fun i => field3 (nth i t 0) (jat A i 0) (jat A i 1) (jat A i 2) hx hy hz nx ny nz) (seq 0 3).
Definition mat2 (a b c d : K) := [[a; b]; [c; d]].
Definition mat3 (a b c d e f g h i : K) := [[a; b; c]; [d; e; f]; [g; h; i]].
End Fields.

Section Proofs.
Variable K : fld.
Hypothesis Kf : is_field K.
Hypothesis Kc : char0 K.
Add Field KF : Kf.

Lemma nth_tab2 {R} (ny nx : nat) (f : nat -> nat -> R) (y x : nat) (d : R) : (y < ny)%nat -> (x < nx)%nat ->
  nth x (nth y (tab2 ny nx f) []) d = f y x.
Proof.
  intros Hy Hx. unfold tab2. rewrite (nth_map_seq (fun y => map (fun x => f y x) (seq 0 nx))) by exact Hy.
  apply (nth_map_seq (fun x => f y x)). exact Hx.
Qed.

Lemma nth_tab3 {R} (nz ny nx : nat) (f : nat -> nat -> nat -> R) (z y x : nat) (d : R) :
  (z < nz)%nat -> (y < ny)%nat -> (x < nx)%nat -> nth x (nth y (nth z (tab3 nz ny nx f) []) []) d = f z y x.
Proof.
  intros Hz Hy Hx. unfold tab3. rewrite (nth_map_seq (fun z => tab2 ny nx (f z))) by exact Hz.
  apply nth_tab2; assumption.
Qed.

Lemma reg_lt m n i : reg1 m n i -> (i < n)%nat.
Proof. intro H. destruct m; cbn in H; lia. Qed.

(* ---------------- D = 2 ---------------- *)
Section D2.
Variables (m : fdmode) (a00 a01 a10 a11 t0 t1 hx hy : K) (nx ny x y : nat).
Hypothesis Hhx : hx <> 0.
Hypothesis Hhy : hy <> 0.
Hypothesis Rx : reg1 m nx x.
Hypothesis Ry : reg1 m ny y.
Let A := mat2 a00 a01 a10 a11.
Let u := affvec2 A [t0; t1] hx hy nx ny.

Lemma jac2_affine : jac2_at (jacT2 m [hx; hy] u) y x = A.
Proof.
  pose proof (reg_lt _ _ _ Rx) as Lx'. pose proof (reg_lt _ _ _ Ry) as Ly'. unfold reg1 in *.
  unfold jac2_at, je2, jacT2, u, affvec2, A, mat2, jat, at2. cbn [map seq nth].
  rewrite !(dstep2_affine_x K Kf Kc) by assumption. rewrite !(dstep2_affine_y K Kf Kc) by assumption. reflexivity.
Qed.

Lemma vec2_affine : vec2_at u y x = [t0 + a00 * (zn x * hx) + a01 * (zn y * hy); t1 + a10 * (zn x * hx) + a11 * (zn y * hy)].
Proof.
  pose proof (reg_lt _ _ _ Rx) as Lx'. pose proof (reg_lt _ _ _ Ry) as Ly'.
  unfold vec2_at, u, affvec2, A, mat2, jat, at2. cbn [map seq nth].
  rewrite !(field2_row K Kf) by exact Ly'. rewrite !(nth_aff K) by exact Lx'. list_eq; ring.
Qed.

Theorem det_div_curl_2d :
  nth x (nth y (det2_field m [hx; hy] false u ny nx) []) 0 = det2 A /\
  nth x (nth y (det2_field m [hx; hy] true u ny nx) []) 0 = det2 (plus_id 2 A) /\
  nth x (nth y (div2_field m [hx; hy] u ny nx) []) 0 = trace_spec 2 A /\
  nth x (nth y (curl2_field m [hx; hy] u ny nx) []) [] = curl2_spec A.
Proof.
  pose proof (reg_lt _ _ _ Rx) as Lx'. pose proof (reg_lt _ _ _ Ry) as Ly'.
  unfold det2_field, div2_field, curl2_field. rewrite !nth_tab2 by assumption. rewrite !jac2_affine.
  unfold on4, A, mat2, jat. cbn [nth].
  destruct (det2_formula K Kf a00 a01 a10 a11) as [D1 D2].
  destruct (div_formula K Kf a00 a01 0 a10 a11 0 0 0 0) as [V _].
  destruct (curl_formula K a00 a01 0 a10 a11 0 0 0 0) as [C _].
  repeat split; assumption.
Qed.
End D2.

Section Lie2.
Variables (m : fdmode) (a00 a01 a10 a11 s0 s1 b00 b01 b10 b11 t0 t1 hx hy : K) (nx ny x y : nat).
Hypothesis Hhx : hx <> 0.
Hypothesis Hhy : hy <> 0.
Hypothesis Rx : reg1 m nx x.
Hypothesis Ry : reg1 m ny y.
Let A := mat2 a00 a01 a10 a11.
Let B := mat2 b00 b01 b10 b11.
Let u := affvec2 A [s0; s1] hx hy nx ny.
Let v := affvec2 B [t0; t1] hx hy nx ny.

(* [v, u] = Jac(v) u - Jac(u) v = B u(p) - A v(p) *)
Theorem lie_2d :
  nth x (nth y (lie2_field m [hx; hy] v u ny nx) []) [] = lie_spec B A (vec2_at v y x) (vec2_at u y x).
Proof.
  pose proof (reg_lt _ _ _ Rx) as Lx'. pose proof (reg_lt _ _ _ Ry) as Ly'.
  unfold lie2_field. cbv zeta. rewrite nth_tab2 by assumption.
  unfold v, u, A, B. rewrite !(jac2_affine m) by assumption.
  unfold lie2_at, on4, mat2, jat. cbn [nth].
  rewrite (lie2_formula K Kf). reflexivity.
Qed.
End Lie2.

(* ---------------- D = 3 ---------------- *)
Section D3.
Variables (m : fdmode) (a00 a01 a02 a10 a11 a12 a20 a21 a22 t0 t1 t2 hx hy hz : K) (nx ny nz x y z : nat).
Hypothesis Hhx : hx <> 0.
Hypothesis Hhy : hy <> 0.
Hypothesis Hhz : hz <> 0.
Hypothesis Rx : reg1 m nx x.
Hypothesis Ry : reg1 m ny y.
Hypothesis Rz : reg1 m nz z.
Let A := mat3 a00 a01 a02 a10 a11 a12 a20 a21 a22.
Let u := affvec3 A [t0; t1; t2] hx hy hz nx ny nz.

Lemma jac3_affine : jac3_at (jacT3 m [hx; hy; hz] u) z y x = A.
Proof.
  pose proof (reg_lt _ _ _ Rx) as Lx'. pose proof (reg_lt _ _ _ Ry) as Ly'. pose proof (reg_lt _ _ _ Rz) as Lz'. unfold reg1 in *.
  unfold jac3_at, je3, jacT3, u, affvec3, A, mat3, jat. cbn [map seq nth].
  rewrite !(dstep3_affine_x K Kf Kc) by assumption. rewrite !(dstep3_affine_y K Kf Kc) by assumption.
  rewrite !(dstep3_affine_z K Kf Kc) by assumption. reflexivity.
Qed.

Lemma vec3_affine : vec3_at u z y x =
  [t0 + a00 * (zn x * hx) + a01 * (zn y * hy) + a02 * (zn z * hz);
   t1 + a10 * (zn x * hx) + a11 * (zn y * hy) + a12 * (zn z * hz);
   t2 + a20 * (zn x * hx) + a21 * (zn y * hy) + a22 * (zn z * hz)].
Proof.
  pose proof (reg_lt _ _ _ Rx) as Lx'. pose proof (reg_lt _ _ _ Ry) as Ly'. pose proof (reg_lt _ _ _ Rz) as Lz'.
  unfold vec3_at, u, affvec3, A, mat3, jat. cbn [map seq nth].
  rewrite !(acc_field3 K) by assumption. reflexivity.
Qed.

Theorem det_div_curl_3d :
  nth x (nth y (nth z (det3_field m [hx; hy; hz] false u nz ny nx) []) []) 0 = det3 A /\
  nth x (nth y (nth z (det3_field m [hx; hy; hz] true u nz ny nx) []) []) 0 = det3 (plus_id 3 A) /\
  nth x (nth y (nth z (div3_field m [hx; hy; hz] u nz ny nx) []) []) 0 = trace_spec 3 A /\
  nth x (nth y (nth z (curl3_field m [hx; hy; hz] u nz ny nx) []) []) [] = curl3_spec A.
Proof.
  pose proof (reg_lt _ _ _ Rx) as Lx'. pose proof (reg_lt _ _ _ Ry) as Ly'. pose proof (reg_lt _ _ _ Rz) as Lz'.
  unfold det3_field, div3_field, curl3_field. rewrite !nth_tab3 by assumption. rewrite !jac3_affine.
  unfold on9, A, mat3, jat. cbn [nth].
  destruct (det3_formula K Kf a00 a01 a02 a10 a11 a12 a20 a21 a22) as [D1 D2].
  destruct (div_formula K Kf a00 a01 a02 a10 a11 a12 a20 a21 a22) as [_ V].
  destruct (curl_formula K a00 a01 a02 a10 a11 a12 a20 a21 a22) as [_ C].
  repeat split; assumption.
Qed.
End D3.

Section Lie3.
Variables (m : fdmode) (a00 a01 a02 a10 a11 a12 a20 a21 a22 s0 s1 s2 : K).
Variables (b00 b01 b02 b10 b11 b12 b20 b21 b22 t0 t1 t2 hx hy hz : K) (nx ny nz x y z : nat).
Hypothesis Hhx : hx <> 0.
Hypothesis Hhy : hy <> 0.
Hypothesis Hhz : hz <> 0.
Hypothesis Rx : reg1 m nx x.
Hypothesis Ry : reg1 m ny y.
Hypothesis Rz : reg1 m nz z.
Let A := mat3 a00 a01 a02 a10 a11 a12 a20 a21 a22.
Let B := mat3 b00 b01 b02 b10 b11 b12 b20 b21 b22.
Let u := affvec3 A [s0; s1; s2] hx hy hz nx ny nz.
Let v := affvec3 B [t0; t1; t2] hx hy hz nx ny nz.

Theorem lie_3d :
  nth x (nth y (nth z (lie3_field m [hx; hy; hz] v u nz ny nx) []) []) [] = lie_spec B A (vec3_at v z y x) (vec3_at u z y x).
Proof.
  pose proof (reg_lt _ _ _ Rx) as Lx'. pose proof (reg_lt _ _ _ Ry) as Ly'. pose proof (reg_lt _ _ _ Rz) as Lz'.
  unfold lie3_field. cbv zeta. rewrite nth_tab3 by assumption.
  unfold v, u, A, B. rewrite !(jac3_affine m) by assumption.
  unfold lie3_at, on9, mat3, jat. cbn [nth].
  rewrite (lie3_formula K Kf). reflexivity.
Qed.
End Lie3.
End Proofs.
