From Coq Require Import ZArith QArith Qround Qabs List Lia Lqa Qfield.
From DV Require Import Model.Enums Model.Lattice Gen.GridCoords.
Import ListNotations.
Local Open Scope Q_scope.

Lemma Qceiling_unique (x : Q) (z : Z) : inject_Z z - 1 < x -> x <= inject_Z z -> Qceiling x = z.
Proof.
  intros H1 H2.
  pose proof (Qle_ceiling x) as A. pose proof (Qceiling_lt x) as B.
  assert (L1 : inject_Z z - 1 < inject_Z (Qceiling x)) by lra.
  assert (L2 : inject_Z (Qceiling x - 1) < inject_Z z) by lra.
  assert (E1 : inject_Z z - 1 == inject_Z (z - 1)) by (unfold Z.sub; rewrite inject_Z_plus, inject_Z_opp; ring).
  rewrite E1 in L1. rewrite <- Zlt_Qlt in L1, L2. lia.
Qed.

Lemma inj_pos (n : Z) : (2 <= n)%Z -> 2 <= inject_Z n.
Proof. intro H. change 2 with (inject_Z 2). now rewrite <- Zle_Qle. Qed.

(* there are exactly n coordinates per axis, for every n >= 2 and both conventions *)
Lemma coords_count_ac (n : Z) : (2 <= n)%Z ->
  arange_count (gen_coords_start_ac (inject_Z n)) (gen_coords_stop_ac (inject_Z n)) (gen_coords_step_ac (inject_Z n)) = n.
Proof.
  intro Hn. pose proof (inj_pos n Hn) as H. unfold arange_count.
  set (m := inject_Z n) in *.
  assert (E : (gen_coords_stop_ac m - gen_coords_start_ac m) / gen_coords_step_ac m == m - (9 # 10))
    by (unfold gen_coords_start_ac, gen_coords_stop_ac, gen_coords_step_ac; field; lra).
  apply Qceiling_unique; rewrite E; subst m; lra.
Qed.

Lemma coords_count_nac (n : Z) : (2 <= n)%Z ->
  arange_count (gen_coords_start_nac (inject_Z n)) (gen_coords_stop_nac (inject_Z n)) (gen_coords_step_nac (inject_Z n)) = n.
Proof.
  intro Hn. pose proof (inj_pos n Hn) as H. unfold arange_count.
  set (m := inject_Z n) in *.
  assert (E : (gen_coords_stop_nac m - gen_coords_start_nac m) / gen_coords_step_nac m == m - (1 # 2))
    by (unfold gen_coords_start_nac, gen_coords_stop_nac, gen_coords_step_nac; field; lra).
  apply Qceiling_unique; rewrite E; subst m; lra.
Qed.

(* the i-th coordinate is the grid map applied to index i, lies in [-1, 1], and un-normalises to i *)
Lemma coords_elem_ac (n i : Z) : (2 <= n)%Z ->
  arange_elem (gen_coords_start_ac (inject_Z n)) (gen_coords_step_ac (inject_Z n)) i
  == coord_spec true (inject_Z n) (inject_Z i).
Proof.
  intro Hn. pose proof (inj_pos n Hn). unfold arange_elem, coord_spec, gen_coords_start_ac, gen_coords_step_ac.
  field. lra.
Qed.
Lemma coords_elem_nac (n i : Z) : (2 <= n)%Z ->
  arange_elem (gen_coords_start_nac (inject_Z n)) (gen_coords_step_nac (inject_Z n)) i
  == coord_spec false (inject_Z n) (inject_Z i).
Proof.
  intro Hn. pose proof (inj_pos n Hn). unfold arange_elem, coord_spec, gen_coords_start_nac, gen_coords_step_nac.
  field. lra.
Qed.

Lemma coord_in_range (ac : bool) (n i : Z) : (2 <= n)%Z -> (0 <= i <= n - 1)%Z ->
  -1 <= coord_spec ac (inject_Z n) (inject_Z i) <= 1.
Proof.
  intros Hn [Hi1 Hi2]. pose proof (inj_pos n Hn) as H.
  assert (I1 : 0 <= inject_Z i) by (change 0 with (inject_Z 0); now rewrite <- Zle_Qle).
  assert (I2 : inject_Z i <= inject_Z n - 1).
  { assert (E : inject_Z n - 1 == inject_Z (n - 1)) by (unfold Z.sub; rewrite inject_Z_plus, inject_Z_opp; ring).
    rewrite E. now rewrite <- Zle_Qle. }
  set (m := inject_Z n) in *. set (j := inject_Z i) in *.
  destruct ac; unfold coord_spec; split.
  - apply Qle_minus_iff. assert (E : 2 * j / (m - 1) - 1 + - -1 == 2 * j / (m - 1)) by (field; lra).
    rewrite E. apply Qle_shift_div_l; lra.
  - apply Qle_minus_iff. assert (E : 1 + - (2 * j / (m - 1) - 1) == 2 * (m - 1 - j) / (m - 1)) by (field; lra).
    rewrite E. apply Qle_shift_div_l; lra.
  - apply Qle_minus_iff. assert (E : (2 * j + 1) / m - 1 + - -1 == (2 * j + 1) / m) by (field; lra).
    rewrite E. apply Qle_shift_div_l; lra.
  - apply Qle_minus_iff. assert (E : 1 + - ((2 * j + 1) / m - 1) == (2 * (m - 1 - j) + 1) / m) by (field; lra).
    rewrite E. apply Qle_shift_div_l; lra.
Qed.

Lemma unnormalize_coord (ac : bool) (n i : Q) : ~ n == 0 -> ~ n - 1 == 0 ->
  unnormalize ac n (coord_spec ac n i) == i.
Proof. intros H0 H1. destruct ac; unfold unnormalize, coord_spec; field; auto. Qed.

(* the list model has the stated length and entries, for every n (induction) *)
Lemma arange_list_length start step k i : length (arange_list start step k i) = k.
Proof. revert i; induction k as [|k IH]; intro i; cbn; [reflexivity | now rewrite IH]. Qed.

Lemma arange_list_nth start step k i j : (j < k)%nat ->
  nth j (arange_list start step k i) 0 = arange_elem start step (i + Z.of_nat j).
Proof.
  revert i j; induction k as [|k IH]; intros i j Hj; [lia|].
  destruct j as [|j]; cbn [arange_list nth].
  - now rewrite Z.add_0_r.
  - rewrite IH by lia. f_equal. lia.
Qed.

Lemma coords_lattice (ac : bool) (n : Z) : (2 <= n)%Z ->
  let start := if ac then gen_coords_start_ac (inject_Z n) else gen_coords_start_nac (inject_Z n) in
  let stop := if ac then gen_coords_stop_ac (inject_Z n) else gen_coords_stop_nac (inject_Z n) in
  let step := if ac then gen_coords_step_ac (inject_Z n) else gen_coords_step_nac (inject_Z n) in
  length (arange start stop step) = Z.to_nat n /\
  forall j : nat, (j < Z.to_nat n)%nat ->
    nth j (arange start stop step) 0 == coord_spec ac (inject_Z n) (inject_Z (Z.of_nat j)) /\
    -1 <= nth j (arange start stop step) 0 <= 1.
Proof.
  intros Hn start stop step. unfold arange.
  assert (C : arange_count start stop step = n)
    by (destruct ac; [apply coords_count_ac | apply coords_count_nac]; assumption).
  rewrite C. split; [apply arange_list_length|].
  intros j Hj. rewrite arange_list_nth by assumption. rewrite Z.add_0_l.
  assert (E : arange_elem start step (Z.of_nat j) == coord_spec ac (inject_Z n) (inject_Z (Z.of_nat j)))
    by (destruct ac; [apply coords_elem_ac | apply coords_elem_nac]; assumption).
  split; [exact E|]. rewrite E. apply coord_in_range; [assumption | lia].
Qed.

(* decimal rounding *)
Lemma round_half_even_err (x : Q) : Qabs (inject_Z (round_half_even x) - x) <= 1 # 2.
Proof.
  unfold round_half_even.
  pose proof (Qfloor_le x) as A. pose proof (Qlt_floor x) as B.
  set (f := Qfloor x) in *.
  assert (E1 : inject_Z (f + 1) == inject_Z f + 1) by (rewrite inject_Z_plus; reflexivity).
  rewrite E1 in B.
  destruct (Qcompare (x - inject_Z f) (1 # 2)) eqn:C.
  - apply Qeq_alt in C. destruct (Z.even f); [|rewrite E1]; apply Qabs_case; intros; lra.
  - apply Qlt_alt in C. apply Qabs_case; intros; lra.
  - apply Qgt_alt in C. rewrite E1. apply Qabs_case; intros; lra.
Qed.

Lemma pow10_pos (d : Z) : (0 <= d)%Z -> 0 < pow10 d.
Proof.
  intro H. unfold pow10. change 0 with (inject_Z 0). rewrite <- Zlt_Qlt. apply Z.pow_pos_nonneg; lia.
Qed.

Lemma round_decimals_err (d : Z) (x : Q) : (0 <= d)%Z ->
  Qabs (round_decimals d x - x) <= (1 # 2) / pow10 d.
Proof.
  intro Hd. pose proof (pow10_pos d Hd) as P. unfold round_decimals.
  set (p := pow10 d) in *. set (r := inject_Z (round_half_even (x * p))).
  assert (E : r / p - x == (r - x * p) / p) by (field; lra).
  rewrite E. unfold Qdiv. rewrite Qabs_Qmult.
  rewrite (Qabs_pos (/ p)) by (apply Qlt_le_weak, Qinv_lt_0_compat; exact P).
  apply Qmult_le_compat_r; [apply round_half_even_err | apply Qlt_le_weak, Qinv_lt_0_compat; exact P].
Qed.

(* consequence for a round trip through a diagonal (per-axis) map y = a x + b whose result is rounded *)
Lemma round_trip_bound (d : Z) (a b x : Q) : (0 <= d)%Z -> ~ a == 0 ->
  Qabs ((round_decimals d (a * x + b) - b) / a - x) <= (1 # 2) / pow10 d / Qabs a.
Proof.
  intros Hd Ha. pose proof (round_decimals_err d (a * x + b) Hd) as R.
  set (y := round_decimals d (a * x + b)) in *.
  assert (E : (y - b) / a - x == (y - (a * x + b)) / a) by (field; exact Ha).
  rewrite E. unfold Qdiv at 1. rewrite Qabs_Qmult.
  assert (Ea : Qabs (/ a) == / Qabs a) by apply Qabs_Qinv.
  rewrite Ea. unfold Qdiv. apply Qmult_le_compat_r; [exact R|].
  apply Qlt_le_weak, Qinv_lt_0_compat.
  pose proof (Qabs_nonneg a) as N. destruct (Qeq_dec (Qabs a) 0) as [Z0|NZ]; [|lra].
  exfalso. apply Ha. revert Z0. apply Qabs_case; intros; lra.
Qed.
