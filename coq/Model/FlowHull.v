(* Computable hull-invariance predicate for affine maps over the rationals (definitions only).
   The sample hull of an axis with n samples is [-r, r] in normalised coordinates with r = 1 (align_corners) or
   (n-1)/n (otherwise).  x -> A x + t maps the box prod_a [-r_a, r_a] into itself iff, for every row a,
   sum_b |A_ab| r_b + |t_a| <= r_a.  With A = I + G and -1 <= G_aa <= 0 this is weighted diagonal dominance of G
   with negative diagonal: sum_{b<>a} |G_ab| r_b + |g_a| <= -G_aa r_a. *)
From Coq Require Import ZArith QArith Qabs Qcanon List Bool.
From DV Require Import Base.Field Base.LinAlg Base.QcInst Model.Flow.
Import ListNotations.
Local Open Scope Q_scope.

Definition hull_half (ac : bool) (n : Z) : Q := if ac then 1 else (inject_Z n - 1) / inject_Z n.

Definition hull_inv1 (r0 : Q) (A : list (list Qc)) : bool :=
  match A with
  | [[a; t]] => Qle_bool (Qabs (this a) * r0 + Qabs (this t)) r0
  | _ => false
  end.
Definition hull_inv2 (r0 r1 : Q) (A : list (list Qc)) : bool :=
  match A with
  | [[a00; a01; t0]; [a10; a11; t1]] =>
      Qle_bool (Qabs (this a00) * r0 + Qabs (this a01) * r1 + Qabs (this t0)) r0 &&
      Qle_bool (Qabs (this a10) * r0 + Qabs (this a11) * r1 + Qabs (this t1)) r1
  | _ => false
  end.
Definition hull_inv3 (r0 r1 r2 : Q) (A : list (list Qc)) : bool :=
  match A with
  | [[a00; a01; a02; t0]; [a10; a11; a12; t1]; [a20; a21; a22; t2]] =>
      Qle_bool (Qabs (this a00) * r0 + Qabs (this a01) * r1 + Qabs (this a02) * r2 + Qabs (this t0)) r0 &&
      Qle_bool (Qabs (this a10) * r0 + Qabs (this a11) * r1 + Qabs (this a12) * r2 + Qabs (this t1)) r1 &&
      Qle_bool (Qabs (this a20) * r0 + Qabs (this a21) * r1 + Qabs (this a22) * r2 + Qabs (this t2)) r2
  | _ => false
  end.
Definition hull_invariant1 (ac : bool) (nx : Z) := hull_inv1 (hull_half ac nx).
Definition hull_invariant2 (ac : bool) (nx ny : Z) := hull_inv2 (hull_half ac nx) (hull_half ac ny).
Definition hull_invariant3 (ac : bool) (nx ny nz : Z) := hull_inv3 (hull_half ac nx) (hull_half ac ny) (hull_half ac nz).

(* weighted diagonal dominance with negative diagonal of a (scaled) generator [H | h], row by row *)
Definition dd_row2 (r0 r1 : Q) (d o1 h : Q) : Prop := -1 <= d /\ d <= 0 /\ Qabs o1 * r1 + Qabs h <= - d * r0.
Definition dd_row3 (r0 r1 r2 : Q) (d o1 o2 h : Q) : Prop :=
  -1 <= d /\ d <= 0 /\ Qabs o1 * r1 + Qabs o2 * r2 + Qabs h <= - d * r0.
Definition diag_dominant1 (g h : Q) (r0 : Q) : Prop := -1 <= g /\ g <= 0 /\ Qabs h <= - g * r0.
Definition diag_dominant2 (r0 r1 : Q) (g00 g01 h0 g10 g11 h1 : Q) : Prop :=
  dd_row2 r0 r1 g00 g01 h0 /\ dd_row2 r1 r0 g11 g10 h1.
Definition diag_dominant3 (r0 r1 r2 : Q) (g00 g01 g02 h0 g10 g11 g12 h1 g20 g21 g22 h2 : Q) : Prop :=
  dd_row3 r0 r1 r2 g00 g01 g02 h0 /\ dd_row3 r1 r0 r2 g11 g10 g12 h1 /\ dd_row3 r2 r0 r1 g22 g20 g21 h2.
