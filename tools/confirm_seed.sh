#!/bin/bash
# usage: tools/confirm_seed.sh <dir with patch.diff demo.py meta.json> <seed-id> <PID>
# Confirms in a scratch worktree: demo passes on the clean tree, fails with the patch; the repository's test
# suite still passes with the patch. On success stores the seed under /verif/seeded/<seed-id>/.
set -u
SRC=$(readlink -f "$1"); ID=$2; PID=$3
WT=/tmp/cs_$$_wt
git -C /repo worktree add --detach "$WT" HEAD >/dev/null 2>&1 || exit 2
sed "s#/tmp/mut_$PID#$WT#g" "$SRC/demo.py" > /tmp/cs_$$_demo.py
(cd /tmp && PYTHONPATH=$WT/src timeout 900 /venv/bin/python -W ignore /tmp/cs_$$_demo.py >/tmp/cs_$$_clean.log 2>&1); RC_CLEAN=$?
git -C "$WT" apply "$SRC/patch.diff" || { echo "patch does not apply"; git -C /repo worktree remove --force "$WT"; exit 2; }
(cd /tmp && PYTHONPATH=$WT/src timeout 900 /venv/bin/python -W ignore /tmp/cs_$$_demo.py >/tmp/cs_$$_mut.log 2>&1); RC_MUT=$?
(cd "$WT" && PYTHONPATH=$WT/src timeout 1800 /venv/bin/python -m pytest -q -p no:cacheprovider --timeout=900 2>&1 | tail -1 > /tmp/cs_$$_tests.log)
TESTS=$(cat /tmp/cs_$$_tests.log)
echo "demo clean rc=$RC_CLEAN  demo mutated rc=$RC_MUT  tests: $TESTS"
OK=0
if [ $RC_CLEAN -eq 0 ] && [ $RC_MUT -ne 0 ] && echo "$TESTS" | grep -q "88 passed"; then
  OK=1; mkdir -p /verif/seeded/$ID; cp "$SRC/patch.diff" "$SRC/demo.py" /verif/seeded/$ID/
  /venv/bin/python - "$SRC/meta.json" "/verif/seeded/$ID/meta.json" "$RC_CLEAN" "$RC_MUT" "$TESTS" <<'PY'
import json,sys
m=json.load(open(sys.argv[1])); m["confirmed"]={"demo_rc_clean":int(sys.argv[3]),"demo_rc_with_patch":int(sys.argv[4]),"test_suite_with_patch":sys.argv[5],
 "how":"tools/confirm_seed.sh in a scratch worktree of /repo (PYTHONPATH=<worktree>/src)"}
json.dump(m,open(sys.argv[2],"w"),indent=1)
PY
fi
tail -3 /tmp/cs_$$_mut.log | cut -c1-200
git -C /repo worktree remove --force "$WT"; rm -f /tmp/cs_$$_*
[ $OK -eq 1 ] && echo "CONFIRMED -> /verif/seeded/$ID" || echo "NOT CONFIRMED"
