(* C14: control point grid size -- coverage, minimality, refinement bookkeeping (integers). *)
From Coq Require Import ZArith List Lia.
From DV Require Import Base.Field Model.BSplineBase Gen.BSpline Model.BSpline.
Ltac Zify.zify_post_hook ::= Z.to_euclidean_division_equations.
Local Open Scope Z_scope.

Lemma ctrl_size_cases (m s : Z) : 0 < s ->
  gen_ctrl_size m s = m / s + 3 + (if m mod s =? 0 then 0 else 1).
Proof. intro H. unfold gen_ctrl_size. destruct (m mod s =? 0); lia. Qed.

(* the (n - 3) s samples that n control points support include all m image samples *)
Lemma ctrl_covers (m s : Z) : 1 <= m -> 1 <= s -> s * (gen_ctrl_size m s - 3) >= m.
Proof.
  intros Hm Hs. rewrite ctrl_size_cases by lia.
  destruct (m mod s =? 0) eqn:E; [apply Z.eqb_eq in E|apply Z.eqb_neq in E]; nia.
Qed.

(* every sample x < m lies in cell x / s and uses control points x / s .. x / s + 3, all inside the grid:
   one control point before the first sample, two after the last cell *)
Lemma ctrl_indices_in_range (m s x : Z) : 1 <= s -> 0 <= x < m -> 0 <= x / s /\ x / s + 3 < gen_ctrl_size m s.
Proof.
  intros Hs Hx. rewrite ctrl_size_cases by lia.
  destruct (m mod s =? 0) eqn:E; [apply Z.eqb_eq in E|apply Z.eqb_neq in E]; split; nia.
Qed.

(* and no smaller grid would do: with one control point less the last sample is not supported *)
Lemma ctrl_minimal (m s : Z) : 1 <= m -> 1 <= s -> s * (gen_ctrl_size m s - 4) < m.
Proof.
  intros Hm Hs. rewrite ctrl_size_cases by lia.
  destruct (m mod s =? 0) eqn:E; [apply Z.eqb_eq in E|apply Z.eqb_neq in E]; nia.
Qed.

Lemma ctrl_size_ge4 (m s : Z) : 1 <= m -> 1 <= s -> 4 <= gen_ctrl_size m s.
Proof.
  intros Hm Hs. rewrite ctrl_size_cases by lia.
  destruct (m mod s =? 0) eqn:E; [apply Z.eqb_eq in E|apply Z.eqb_neq in E]; nia.
Qed.

(* refinement (grid_): after subdividing n -> 2 n - 1 coefficients and dropping the first one, enough
   coefficients are left for the control grid of the refined image grid, and the last (zero-padded) one is not among them *)
Lemma refine_size_fits (m s : Z) : 1 <= m -> 1 <= s ->
  1 + gen_ctrl_size (2 * m - 1) s <= 2 * gen_ctrl_size m s - 1 - 1.
Proof.
  intros Hm Hs. rewrite !ctrl_size_cases by lia.
  destruct (m mod s =? 0) eqn:E; [apply Z.eqb_eq in E|apply Z.eqb_neq in E];
  destruct ((2 * m - 1) mod s =? 0) eqn:E2; [apply Z.eqb_eq in E2|apply Z.eqb_neq in E2| apply Z.eqb_eq in E2|apply Z.eqb_neq in E2];
  nia.
Qed.

Lemma ctrl_size_nat (m s : nat) : (1 <= m)%nat -> (1 <= s)%nat ->
  Z.of_nat (ctrl_size m s) = gen_ctrl_size (Z.of_nat m) (Z.of_nat s).
Proof.
  intros Hm Hs. unfold ctrl_size. rewrite Z2Nat.id; [reflexivity|].
  pose proof (ctrl_size_ge4 (Z.of_nat m) (Z.of_nat s)). lia.
Qed.

Lemma ctrl_nat_in_range (m s x : nat) : (1 <= s)%nat -> (x < m)%nat -> (x / s + 3 < ctrl_size m s)%nat.
Proof.
  intros Hs Hx.
  pose proof (ctrl_indices_in_range (Z.of_nat m) (Z.of_nat s) (Z.of_nat x) ltac:(lia) ltac:(lia)) as [_ H].
  apply Nat2Z.inj_lt. rewrite ctrl_size_nat by lia.
  rewrite Nat2Z.inj_add, Nat2Z.inj_div. exact H.
Qed.
