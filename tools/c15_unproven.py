"""List the effect skeletons of coq/Gen/MutSkeleton.v that Model/Heap.v cannot prove free of argument mutation and that are
not yet on the exception list coq/Model/HeapPins.v (heap_unproven).  Run after regenerating the skeletons:

    cd /verif/tools && /venv/bin/python translate.py MutSkeleton && /venv/bin/python c15_unproven.py

A name printed here is either a genuine in-place write on an argument (the runtime sweep of ./check C15 then reports it with a
concrete call) or an over-approximation of the may-alias abstraction; only in the second case add it to heap_unproven by hand.
"""
import os
import re
import subprocess
import tempfile

COQ = os.path.join(os.path.dirname(os.path.dirname(os.path.abspath(__file__))), "coq")
TEXT = """From Coq Require Import List String Bool.
From DV Require Import Model.Heap Model.HeapPins Gen.MutSkeleton.
Import ListNotations.
Eval vm_compute in (all_summaries_ok gen_skeletons gen_summaries, map (fun p => sk_name (fst p)) (filter (fun p => negb (no_arg_mutation (snd p) || existsb (String.eqb (sk_name (fst p))) heap_unproven)) (combine gen_skeletons gen_summaries))).
"""
with tempfile.TemporaryDirectory() as d:
    p = os.path.join(d, "q.v")
    open(p, "w").write(TEXT)
    subprocess.run(["make", "-C", COQ, "Model/HeapPins.vo", "Gen/MutSkeleton.vo"], capture_output=True)
    out = subprocess.run(["timeout", "600", "coqc", "-Q", COQ, "DV", p], capture_output=True, text=True, cwd=d).stdout
print(re.findall(r'"([^"]+)"%string', out))
