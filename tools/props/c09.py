"""C09 -- a transform evaluates its current parameters and grid, never a stale snapshot."""
import copy
import json
import os
import re
from fractions import Fraction

import vlib
from vlib import Violation, qc, coq_list

ID = "C09"
GEN_UNITS = ["TState"]
PROPS_FILE = "Props/C09.v"
PROPS_MOD = "Props.C09"
COQ_TARGETS = ["Props/C09.vo"]
SOURCES = ["deepali/spatial/base.py", "deepali/spatial/parametric.py", "deepali/spatial/nonrigid.py",
           "deepali/spatial/bspline.py", "deepali/spatial/composite.py", "deepali/spatial/generic.py"]
TRUSTED = [
    "Coq 8.16.1 kernel + vm_compute",
    "translator unit TState: Python ast walk of the state-affecting statements (clear_buffers / register_buffer / delattr / "
    "attribute assignments / cascades / branch tests) of the anchored methods; any change of that skeleton breaks an obligation",
    "modelled not verified: Python attribute lookup order and torch.nn.Module.__setattr__/register_buffer/__delattr__ routing, "
    "copy.copy of __dict__, forward pre-hooks, tensor views sharing storage (validated by the correspondence on random histories)",
    "numeric evaluation (interpolation, scaling and squaring, B-spline evaluation) is abstract in the theorems; the correspondence "
    "runs on constant vector fields, for which every model evaluates to the constant itself",
]
ASSUMPTIONS = [
    "composites are SequentialTransform objects over non-composite members (no nesting)",
    "B-spline transforms whose linked/callable parameters have a control-grid size different from the current grid's are outside the model",
    "GenericSpatialTransform (spatial/generic.py) is a SequentialTransform built from a configuration; only its SequentialTransform behaviour is covered",
]

# the family of grids: ids 0,1,3,4,6 share centre and corner points hull (4 x 3 world units); 2 and 5 have the sample points of 0 and 1
# but align_corners=False: equal to 0 / 1 under Grid.__eq__, different under the test of SpatialTransform.grid_
GRIDS = [
    {"size": [5, 4], "spacing": [1, 1], "align": True},
    {"size": [9, 7], "spacing": [0.5, 0.5], "align": True},
    {"size": [5, 4], "spacing": [1, 1], "align": False},
    {"size": [9, 4], "spacing": [0.5, 1], "align": True},
    {"size": [3, 4], "spacing": [2, 1], "align": True},
    {"size": [9, 7], "spacing": [0.5, 0.5], "align": False},
    {"size": [17, 13], "spacing": [0.25, 0.25], "align": True},
]
KINDS = ["disp", "svf", "ffd", "svffd", "lin"]
COQK = {"disp": "KDisp", "svf": "KSvf", "ffd": "KFfd", "svffd": "KSvffd", "lin": "KLin", "seq": "KSeq"}
ERRS = ["TypeErr", "ValueErr", "AssertErr", "AttrErr", "ReadOnly", "NotImpl", "IndexErr"]
CREATING = ("new", "seq", "inverse", "copy", "cond", "grid", "data")


def ext(g):
    return [Fraction(s).limit_denominator(64) * ((n - 1) if g["align"] else n) for n, s in zip(g["size"], g["spacing"])]


def ffd_sub(a, b, same_domain):
    """BSplineTransform.grid_ admissibility: None = ValueError, True = subdivide"""
    if not same_domain:
        return None
    sub = False
    for na, nb in zip(a["size"], b["size"]):
        if nb == 2 * na - 1 and nb != na:
            sub = True
        elif nb != na:
            return None
    return sub


# ------------------------------------------------------------------------------------------------
# Coq emission
# ------------------------------------------------------------------------------------------------
def pv(val, g):
    return f"({coq_list([qc(Fraction(v)) for v in val])}, {g}%nat)"


def b(x):
    return "true" if x else "false"


def coq_op(op):
    k = op["op"]
    T = "PV nat CV"
    if k == "new":
        pk = op["pk"]
        if pk == "param":
            p = "PkBool PV true"
        elif pk == "buf":
            p = "PkBool PV false"
        elif pk == "none":
            p = "PkNone PV"
        elif pk in ("tensor", "ptensor"):
            p = f"PkTen PV {pv(op['val'], op['gfor'])} {b(pk == 'ptensor')}"
        else:
            p = f"PkFun PV {op['f'] * 16 + op['gfor']} {b(pk == 'mod')}"
        return f"New {T} {COQK[op['kind']]} {op['grid']} ({p})"
    if k == "seq":
        return f"NewSeq {T} {coq_list([str(m) for m in op['members']])}"
    o = op["o"]
    if k == "data_":
        return f"DataSet {T} {o} {pv(op['val'], op['gfor'])} {b(op.get('isparam'))}"
    if k == "edit":
        return f"Edit {T} {o} {pv(op['val'], 0)}"
    if k == "grid_":
        return f"GridSet {T} {o} {op['grid']}"
    if k == "cond_":
        return f"CondSet {T} {o} ({op['c'][0]}, {op['c'][1]})%nat"
    if k == "cond":
        return f"CondNew {T} {o} ({op['c'][0]}, {op['c'][1]})%nat"
    if k == "grid":
        return f"GridNew {T} {o} {op['grid']}"
    if k == "data":
        return f"DataNew {T} {o} {pv(op['val'], op['gfor'])} {b(op.get('isparam'))}"
    if k == "inverse":
        return f"Inverse {T} {o} {b(op['link'])} {b(op['upd'])}"
    if k == "link_":
        return f"LinkTo {T} {o} {op['other']}"
    simple = {"reset": "Reset", "update": "Update", "call": "Call", "disp": "Disp", "tensor": "TensorOf",
              "unlink_": "Unlink", "clear": "Clear", "copy": "Copy"}
    return f"{simple[k]} {T} {o}"


def coq_iout(r):
    if r["st"] == "err":
        e = r["err"] if r["err"] in ERRS else "OtherErr"
        return f"IErr {e}"
    if "val" in r:
        if r.get("spread", 0.0) > 1e-3:
            return "ISkip"
        if r["val"] is None:
            return "IObs [] None"
        sh = "None" if "shape" not in r else "(Some " + coq_list([str(n) for n in r["shape"]]) + ")"
        return f"IObs {coq_list([qc(float(v)) for v in r['val']])} {sh}"
    return "IDone"


def coq_tables(tables):
    n = len(GRIDS)
    lines = []
    lines.append("Definition t_ext (g : nat) : list Qc := nth g " +
                 coq_list([coq_list([qc(e) for e in ext(g)]) for g in GRIDS]) + " [].")
    rows = []
    for k in KINDS:
        cells = ["None" if s is None else "Some " + coq_list([str(x) for x in s]) for s in tables["dshape"][k]]
        rows.append(f"  | {COQK[k]} => nth g {coq_list(cells)} None")
    lines.append("Definition t_dshape (k : kind) (g : nat) : option (list nat) :=\n  match k with\n" + "\n".join(rows) +
                 "\n  | KSeq => None\n  end.")
    lines.append("Definition t_gshape (g : nat) : list nat := nth g " +
                 coq_list([coq_list([str(x) for x in reversed(g["size"])]) for g in GRIDS]) + " [].")

    def mat(name, m, conv, default):
        body = coq_list([coq_list([conv(x) for x in row]) for row in m])
        lines.append(f"Definition {name} (a b : nat) := nth b (nth a {body} []) {default}.")
    mat("t_geq", tables["geq"], b, "false")
    mat("t_same", tables["same_domain"], b, "false")
    lines.append("Definition t_align (g : nat) : bool := nth g " + coq_list([b(g["align"]) for g in GRIDS]) + " false.")
    sub = [[ffd_sub(GRIDS[i], GRIDS[j], tables["same_domain"][i][j]) for j in range(n)] for i in range(n)]
    mat("t_ffdsub", sub, lambda x: "None" if x is None else f"Some {b(x)}", "None")
    return lines


HEADER = ["From Coq Require Import ZArith QArith Qcanon List String.",
          "From DV Require Import Base.Field Base.QcInst Model.TransformState Model.TransformStateRun Gen.TState Model.TransformCfg.",
          "Import ListNotations.", "Open Scope nat_scope.", "Definition tol : Q := 1 # 10000."]


def run_cases(ctx, hists, results, tables, name, dump=()):
    lines = list(HEADER) + coq_tables(tables)
    lines.append("Definition chk := check_hist t_ext t_dshape t_gshape t_geq t_same t_align t_ffdsub gen_cfg tol.")
    lines.append("Definition mtr := model_trace t_ext t_dshape t_geq t_same t_align t_ffdsub gen_cfg (empty_state PV nat CV).")
    for i, (h, r) in enumerate(zip(hists, results)):
        lines.append(f"Definition h{i} : list rop := {coq_list([coq_op(o) for o in h])}.")
        lines.append(f"Definition r{i} : list iout := {coq_list([coq_iout(x) for x in r])}.")
    lines.append("Definition results : list nat := " + coq_list([f"chk h{i} r{i}" for i in range(len(hists))]) + ".")
    lines.append('Eval vm_compute in ("FAIL"%string, results).')
    lines.append('Eval vm_compute in ("LEFT"%string, [List.length (filter (fun h => leaves_domain t_ext t_dshape t_geq t_same t_align t_ffdsub gen_cfg '
                 '(empty_state PV nat CV) h) ' + coq_list([f"h{i}" for i in range(len(hists))]) + ')]).')
    for i in dump:
        lines.append(f'Eval vm_compute in ("DUMP{i}"%string, mtr h{i}).')
    rc, out = vlib.coqc_text("\n".join(lines) + "\n", ctx.scratch, name)
    res = vlib.parse_nat_list(out, "FAIL")
    left = vlib.parse_nat_list(out, "LEFT")
    ctx.left_domain = getattr(ctx, "left_domain", 0) + (left[0] if left and name.startswith("cases") else 0)
    return rc, out, res


def tables_of(ctx):
    return vlib.run_impl("c09_impl", {"fn": "tables", "grids": GRIDS})


def evaluate(ctx, hists, tables, name, dump=()):
    res = vlib.run_impl("c09_impl", {"fn": "histories", "grids": GRIDS, "histories": hists})
    rc, out, verdict = run_cases(ctx, hists, res, tables, name, dump)
    return res, rc, out, verdict


def shrink(ctx, h, tables, budget=6):
    """greedy removal of non-creating operations while the disagreement persists"""
    cur = h
    for _ in range(budget):
        cands = []
        for i, op in enumerate(cur[:-1]):
            if op["op"] in CREATING:
                continue
            cands.append(cur[:i] + cur[i + 1:])
        if not cands:
            break
        res, rc, out, verdict = evaluate(ctx, cands, tables, "shrink")
        if rc != 0 or verdict is None:
            break
        better = [c[:v] for c, v in zip(cands, verdict) if v != 0]
        if not better:
            break
        cur = min(better, key=len)
    return cur


def correspondence(ctx):
    rng = ctx.rng
    tables = tables_of(ctx)
    n = ctx.n(220, 1500)
    maxlen = ctx.n(12, 40)
    gen = vlib.run_impl("c09_impl", {"fn": "generate", "grids": GRIDS, "seed": rng.randrange(2 ** 31), "n": n, "maxlen": maxlen})
    hists, gres = gen["histories"], gen["results"]
    failures = []
    dist = {"ops": {}, "kinds": {}, "param_kinds": {}, "outcomes": {}, "lengths": {}}
    evaluations = 0
    shard = 250
    all_res = []
    for s0 in range(0, n, shard):
        hs = hists[s0:s0 + shard]
        res = gres[s0:s0 + shard]
        rc, out, verdict = run_cases(ctx, hs, res, tables, f"cases_c09_{s0}")
        all_res += res
        if rc != 0 or verdict is None or len(verdict) != len(hs):
            failures.append({"why": "case file did not evaluate", "coq": out[-800:]})
            continue
        for i, v in enumerate(verdict):
            if v != 0:
                h = hs[i][:v]
                small = shrink(ctx, h, tables) if len(failures) < 3 else h
                r2, _, out2, _ = evaluate(ctx, [small], tables, "dump", dump=(0,))
                m = re.search(r'\("DUMP0"(?:%string)?,\s*(.*?)\)\s*:\s', out2, flags=re.S)
                failures.append({"why": "model and implementation disagree at the last operation of this history",
                                 "history": small, "impl": r2[0], "model": (m.group(1) if m else out2[-600:])[-1500:]})
    for h, r in zip(hists, all_res):
        dist["lengths"][len(h)] = dist["lengths"].get(len(h), 0) + 1
        for op, x in zip(h, r):
            evaluations += 1
            dist["ops"][op["op"]] = dist["ops"].get(op["op"], 0) + 1
            oc = "ok" if x["st"] == "ok" else x["err"]
            dist["outcomes"][oc] = dist["outcomes"].get(oc, 0) + 1
            if op["op"] == "new":
                dist["kinds"][op["kind"]] = dist["kinds"].get(op["kind"], 0) + 1
                dist["param_kinds"][op["pk"]] = dist["param_kinds"].get(op["pk"], 0) + 1
    # ExpFlow sharing (Model/ExpShare.v): construction / copy / grid_ / grid() / inverse on real SVF objects
    nx = ctx.n(60, 400)
    xh = []
    for _ in range(nx):
        h = [["new", rng.random() < 0.5]]
        for _ in range(rng.randint(1, ctx.n(6, 12))):
            n_obj = 1 + sum(1 for op in h[1:] if op[0] in ("new", "copy", "grid", "inverse"))
            k = rng.choice(["new", "copy", "grid_", "grid_", "grid", "grid", "inverse"])
            o = rng.randrange(n_obj)
            if k == "new":
                h.append(["new", rng.random() < 0.5])
            elif k == "copy":
                h.append(["copy", o])
            elif k in ("grid_", "grid"):
                h.append([k, o, rng.random() < 0.5])
            else:
                h.append(["inverse", o, False, rng.random() < 0.5])
        xh.append(h)
    xres = vlib.run_impl("c09_impl", {"fn": "expshare", "histories": xh})
    xl = ["From Coq Require Import List Bool String.", "From DV Require Import Model.ExpShare Gen.TState Model.TransformCfg.",
          "Import ListNotations."]

    def xop(op):
        k = op[0]
        if k == "new":
            return f"XNew {b(op[1])}"
        if k == "copy":
            return f"XCopy {op[1]}"
        if k == "grid_":
            return f"XGrid {op[1]} {b(op[2])}"
        if k == "grid":
            return f"XGridCopy {op[1]} {b(op[2])}"
        return f"XInverse {op[1]}"
    xn = []
    for i, (h, r) in enumerate(zip(xh, xres)):
        if "error" in r:
            failures.append({"why": "ExpFlow sharing history raised on the implementation", "history": h, "impl": r})
            continue
        view = coq_list([f"({b(v[0])}, {b(v[1])}, {v[2]})" for v in r["view"]])
        xl.append(f"Definition x{i} : bool := xagree gen_private_exp {coq_list([xop(o) for o in h])} {view}.")
        xn.append((i, f"x{i}"))
    xl.append("Fixpoint failing_from (i : nat) (l : list bool) : list nat := match l with [] => [] | c :: r => if c then failing_from (S i) r else i :: failing_from (S i) r end.")
    xl.append("Definition results : list bool := " + coq_list([nm for _, nm in xn]) + ".")
    xl.append('Eval vm_compute in ("FAIL"%string, failing_from 0 results).')
    rc, out = vlib.coqc_text("\n".join(xl) + "\n", ctx.scratch, "cases_c09_expshare")
    bad = vlib.parse_nat_list(out, "FAIL")
    if rc != 0 or bad is None:
        failures.append({"why": "ExpFlow sharing case file did not evaluate", "coq": out[-600:]})
    else:
        for j in bad:
            i = xn[j][0]
            failures.append({"why": "ExpFlow sharing: model and implementation disagree (flags or module identity)", "xhistory": xh[i], "impl": xres[i]})
    evaluations += sum(len(h) for h in xh)
    dist["expshare_histories"] = nx
    samples = [{"history": hists[i], "impl": all_res[i]} for i in range(min(2, len(hists)))]
    nontrivial = sum(1 for h, r in zip(hists, all_res)
                     if sum(1 for op, x in zip(h, r) if op["op"] in ("call", "disp", "tensor") and x["st"] == "ok") >= 1
                     and sum(1 for op, x in zip(h, r) if op["op"] in ("data_", "edit", "grid_", "cond_", "reset", "inverse", "link_") and x["st"] == "ok") >= 1)
    return {"evaluations": evaluations, "distinct_nontrivial": nontrivial,
            "rule": "evaluations = operations interpreted on both sides; a history counts as non-trivial when at least one state-changing "
                    "operation succeeded and at least one later or earlier observation (call/disp/tensor) returned a value; histories are "
                    "distinct by construction (seeded)",
            "samples": samples, "failures": failures, "distribution": dist,
            "tolerances": {"observed constant displacement vs model value": "1e-4 absolute (versions differ by >= 1/64)",
                           "error kinds, buffer shapes": "exact"},
            "exploration": {"histories": n, "max_ops": maxlen,
                            "histories_cut_short_because_they_left_the_modelled_domain": getattr(ctx, "left_domain", 0)}}


def search(ctx, broken, corr_failures):
    n = ctx.n(120, 900)
    maxlen = ctx.n(8, 16)
    payload = {"fn": "oracle", "seed": ctx.seed, "n": n, "maxlen": maxlen, "grids": GRIDS,
               "domain_groups": [[0, 1, 3, 4, 6], [0, 2], [1, 5]]}
    r = vlib.run_impl("c09_impl", payload)
    ctx.notes.append(f"implementation-side property evaluation: {r['counts']}")
    out = []
    for f in r["fails"]:
        out.append(Violation(key=f["key"], what=f["what"], replay={"oracle": payload, "failure": f}))
    # disagreements of the correspondence are concrete failing histories of the modelled behaviour
    for f in corr_failures[:3]:
        if "xhistory" in f:
            out.append(Violation(key="C09:StationaryVelocityFieldTransform.grid_:ExpFlow-sharing:model-vs-implementation", what=f["why"],
                                 replay={"xhistory": f["xhistory"], "impl": f.get("impl")}))
        if "history" in f:
            last = f["history"][-1]["op"]
            out.append(Violation(key=f"C09:model-vs-implementation:{last}", what="implementation leaves the modelled state machine: " + f["why"],
                                 replay={"history": f["history"], "impl": f.get("impl"), "model": f.get("model")}))
    return out


def explains(broken_item, found):
    """a broken obligation is explained only by a concrete failure that is not an already known finding"""
    known, _ = vlib.load_findings()
    return any(v.key not in known for v in found)


def replay(ctx, data):
    if "oracle" in data:
        r = vlib.run_impl("c09_impl", data["oracle"])
        for g in r["fails"]:
            if g["key"] == data["failure"]["key"]:
                return g["what"]
        return None
    if "xhistory" in data:
        h = data["xhistory"]
        r = vlib.run_impl("c09_impl", {"fn": "expshare", "histories": [h]})[0]
        if "error" in r:
            return "ExpFlow sharing history raises: " + str(r)[:160]
        names = {"new": "XNew", "copy": "XCopy", "grid_": "XGrid", "grid": "XGridCopy", "inverse": "XInverse"}
        ops = coq_list([names[o[0]] + " " + " ".join((b(x) if isinstance(x, bool) else str(x)) for x in (o[1:3] if o[0] != "inverse" else o[1:2])) for o in h])
        view = coq_list([f"({b(v[0])}, {b(v[1])}, {v[2]})" for v in r["view"]])
        txt = ("From Coq Require Import List Bool String.\nFrom DV Require Import Model.ExpShare Gen.TState Model.TransformCfg.\nImport ListNotations.\n"
               f'Eval vm_compute in ("FAIL"%string, [if xagree gen_private_exp {ops} {view} then 0 else 1]).\n')
        rc, out = vlib.coqc_text(txt, ctx.scratch, "replay_x")
        bad = vlib.parse_nat_list(out, "FAIL")
        return "ExpFlow sharing: model and implementation still disagree" if (rc != 0 or bad != [0]) else None
    if "history" in data:
        tables = tables_of(ctx)
        res, rc, out, verdict = evaluate(ctx, [data["history"]], tables, "replay")
        if rc != 0 or verdict is None or verdict[0] != 0:
            return "model and implementation still disagree on the recorded history"
    return None


MANIFEST_ENTRY = {
    "text": "Coq state machine of deepali's transform objects (Model/TransformState.v): heap of objects, mutable tensor cells, the "
            "`params` attribute with Python's lookup order and torch.nn.Module.__setattr__ routing, the _parameters dict shared by shallow "
            "copies, buffers p/u/v as aliases or snapshots of (content, grid, sign), update()/pre-hook, tensor(), disp(), data_, in-place "
            "edit, reset_parameters, grid_ per class, condition_, inverse(link, update_buffers), link_/unlink_, clear_buffers, copy, "
            "SequentialTransform; numeric evaluation abstract. Theorems (all closed under the global context, for arbitrary contents/"
            "grids/conditions): C09_call_is_fresh -- in EVERY state, hence after every history, a call of a non-composite transform that "
            "returns yields exactly the evaluation of the parameters (through links / the callable on the current condition), grid and "
            "sign held at that moment; C09_disp_after_replace_partial -- tensor()/disp() right after data_/reset_parameters/condition_/"
            "grid_ reflect the new state for every non-rigid model and parameter kind; C09_regrid_preserves_world -- dense "
            "grid_ installs the new grid and the re-expressed parameters for EVERY new grid (after repair 4571259; the early-return test "
            "of SpatialTransform.grid_ is assumed to pass only for the grid already held); refutation (vm_compute witnesses, reproduced on "
            "the implementation by the search): linear transform with callable parameters after condition_/reset_parameters. Tie: (1) translator "
            "unit TState (Python ast) regenerates the state-affecting skeleton of 37 methods; the model's configuration flags are computed "
            "from it inside Coq and the whole skeleton is pinned (C09_skeleton_unchanged); (2) correspondence: random operation histories "
            "(<= 12 ops quick, <= 40 thorough; 17 operation kinds incl. condition(args)/condition(kw=...), 5 transform classes + composites, 7 parameter kinds, 7 grids) run on "
            "the real classes and on the model by vm_compute, outputs canonicalised to the parameter/grid version they were computed from "
            "(constant vector fields), error kinds and buffer shapes compared exactly inside Coq, failing histories shrunk.",
    "note": "Round 3: link_ with Parameter, SVF private ExpFlow and steps=0 are repaired in /repo and modelled (un-sharing of the _parameters dict in link_; Model/ExpShare.v + C09_exp_flag_follows_own_grid by induction over histories, tied by an exact correspondence on real SVF objects: flags and module identity). Round 2: added C09_reachable_states_wellformed (induction over histories), C09_composite_call_is_fresh_after_any_history, "
            "C09_composite_direct_access(_after_clear) (disp/tensor/forward of a composite without __call__ right after clear_buffers on it; "
            "general form for any state whose members are `ready`), C09_linear_tensor_direct, C09_spline_regrid_preserves_world_after_any_history, "
            "C09_regrid_preserves_world(_after_any_history) at full strength. Still partial, by nature of the code: linear transform with callable "
            "parameters after condition_/reset_parameters (refuted, known finding); composites with LINKED members (a linked member reads the "
            "linked transform's buffered p, so the result depends on member order -- correspondence/search only); composite direct access after "
            "condition_/grid_ on the composite is covered by the general `ready` theorem plus the search, not by a dedicated corollary; numeric "
            "exactness of regridding (interpolation, subdivision masks) is C05/C14's; GenericSpatialTransform only through its SequentialTransform "
            "behaviour; StationaryVelocityFieldTransform.grid_ writing the shared ExpFlow.align_corners is found by the search only (constant "
            "fields cannot see it). Trusted: Coq kernel, vm_compute, the modelled Python/torch object semantics (validated by the "
            "correspondence), harness canonicalisation on constant fields.",
}
