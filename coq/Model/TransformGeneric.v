(* C06: what the notation of the generic configurable transform (spatial/generic.py, TransformConfig) denotes.
   `transform` is a composition "A o B" (B is applied first); its "Affine" component is the matrix product written by
   the letters of `affine_model` (right-most letter applied first), each letter naming one elementary transform.
   Definitions only. *)
From Coq Require Import List Bool String.
From DV Require Import Base.Field Base.LinAlg Model.Enums Model.Homog.
Import ListNotations.
Open Scope string_scope.

Definition slookup (t : list (string * string)) (k : string) : string :=
  match find (fun p => String.eqb (fst p) k) t with Some p => snd p | None => "?" end.
Fixpoint slist_eqb (a b : list string) : bool :=
  match a, b with
  | [], [] => true
  | x :: a', y :: b' => String.eqb x y && slist_eqb a' b'
  | _, _ => false
  end.
(* members in the order they are applied: walk the components from right to left; inside "Affine" the letters from right to left *)
Definition generic_expected (affine nonrigid : list (string * string)) (by_class : bool) (comps letters : list string) : list string :=
  flat_map (fun c => if String.eqb c "Affine" then map (slookup affine) (rev letters)
                     else [if by_class then slookup nonrigid c else "nonrigid"]) (rev comps).
Definition generic_row_ok (names classes nonrigid : list (string * string))
    (row : list string * list string * list string * list string) : bool :=
  let '(comps, letters, seen_names, seen_classes) := row in
  slist_eqb seen_names (generic_expected names nonrigid false comps letters) &&
  slist_eqb seen_classes (generic_expected classes nonrigid true comps letters).
(* the documented letters *)
Definition documented_affine_classes : list (string * string) :=
  [("A", "HomogeneousTransform"); ("K", "Shearing"); ("T", "Translation"); ("R", "EulerRotation"); ("S", "AnisotropicScaling");
   ("Q", "QuaternionRotation")].
Definition documented_nonrigid_classes : list (string * string) :=
  [("DDF", "DisplacementFieldTransform"); ("FFD", "FreeFormDeformation"); ("SVF", "StationaryVelocityFieldTransform");
   ("SVFFD", "StationaryVelocityFreeFormDeformation")].
Fixpoint stable_eqb (a b : list (string * string)) : bool :=
  match a, b with
  | [], [] => true
  | x :: a', y :: b' => String.eqb (fst x) (fst y) && String.eqb (snd x) (snd y) && stable_eqb a' b'
  | _, _ => false
  end.
