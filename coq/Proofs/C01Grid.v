From Coq Require Import ZArith List Field Ring Lia.
From DV Require Import Base.Field Base.FieldFacts Base.LinAlg Base.Tactics Model.Enums Model.Homog Model.Grid Gen.GridT.
Import ListNotations.
Local Open Scope fld_scope.

Section Proofs.
Variable K : fld.
Hypothesis Kf : is_field K.
Hypothesis Kc : char0 K.
Add Field KF : Kf.

Lemma K1nz : (1 : K) <> 0.
Proof. destruct Kf as [_ H1 _ _]. exact H1. Qed.
Lemma K2nz : (1 + 1 : K) <> 0.
Proof. exact (two_nz K Kf Kc). Qed.
Hint Resolve K1nz K2nz : core.

Lemma rule2 (a b r : K) : a + (b + 0) = r -> a = r - b.
Proof. intros <-. ring. Qed.
Lemma rule3 (a b c r : K) : a + (b + (c + 0)) = r -> a = r - b - c.
Proof. intros <-. ring. Qed.

Ltac side := repeat split; auto.

(* component facts of a well-formed grid; orthonormality turned into rewrite rules
   (R* from R^T R = I, Q* from R R^T = I) *)
Ltac wf2 H :=
  let Hs := fresh "Hs" in let Hn := fresh "Hn" in let Hn1 := fresh "Hn1" in
  let Ho1 := fresh "Ho" in let Ho2 := fresh "Ho'" in
  destruct H as (Hs & Hn & Hn1 & Ho1 & Ho2);
  pose proof (Hs 0%nat ltac:(lia)); pose proof (Hs 1%nat ltac:(lia));
  pose proof (Hn 0%nat ltac:(lia)); pose proof (Hn 1%nat ltac:(lia));
  pose proof (Hn1 0%nat ltac:(lia)); pose proof (Hn1 1%nat ltac:(lia));
  fcbv_in Ho1; fcbv_in Ho2;
  let R00 := fresh "R00" in let R01 := fresh "R01" in let R10 := fresh "R10" in let R11 := fresh "R11" in let Q00 := fresh "Q00" in let Q01 := fresh "Q01" in let Q10 := fresh "Q10" in let Q11 := fresh "Q11" in 
  injection Ho1 as R00 R01 R10 R11; injection Ho2 as Q00 Q01 Q10 Q11;
  apply rule2 in R00; apply rule2 in R01; apply rule2 in R11;
  apply rule2 in Q00; apply rule2 in Q01; apply rule2 in Q11;
  clear R10 Q10 Hs Hn Hn1.
Ltac wf3 H :=
  let Hs := fresh "Hs" in let Hn := fresh "Hn" in let Hn1 := fresh "Hn1" in
  let Ho1 := fresh "Ho" in let Ho2 := fresh "Ho'" in
  destruct H as (Hs & Hn & Hn1 & Ho1 & Ho2);
  pose proof (Hs 0%nat ltac:(lia)); pose proof (Hs 1%nat ltac:(lia)); pose proof (Hs 2%nat ltac:(lia));
  pose proof (Hn 0%nat ltac:(lia)); pose proof (Hn 1%nat ltac:(lia)); pose proof (Hn 2%nat ltac:(lia));
  pose proof (Hn1 0%nat ltac:(lia)); pose proof (Hn1 1%nat ltac:(lia)); pose proof (Hn1 2%nat ltac:(lia));
  fcbv_in Ho1; fcbv_in Ho2;
  let R00 := fresh "R00" in let R01 := fresh "R01" in let R02 := fresh "R02" in let R10 := fresh "R10" in let R11 := fresh "R11" in let R12 := fresh "R12" in let R20 := fresh "R20" in let R21 := fresh "R21" in let R22 := fresh "R22" in let Q00 := fresh "Q00" in let Q01 := fresh "Q01" in let Q02 := fresh "Q02" in let Q10 := fresh "Q10" in let Q11 := fresh "Q11" in let Q12 := fresh "Q12" in let Q20 := fresh "Q20" in let Q21 := fresh "Q21" in let Q22 := fresh "Q22" in 
  injection Ho1 as R00 R01 R02 R10 R11 R12 R20 R21 R22;
  injection Ho2 as Q00 Q01 Q02 Q10 Q11 Q12 Q20 Q21 Q22;
  apply rule3 in R00; apply rule3 in R01; apply rule3 in R02; apply rule3 in R11; apply rule3 in R12; apply rule3 in R22;
  apply rule3 in Q00; apply rule3 in Q01; apply rule3 in Q02; apply rule3 in Q11; apply rule3 in Q12; apply rule3 in Q22;
  clear R10 R20 R21 Q10 Q20 Q21 Hs Hn Hn1.

Definition not_WW (A B : axes) : Prop := ~ (A = WORLD /\ B = WORLD).

Ltac len2 X H := destruct X as [|?x0 [|?x1 [|? ?]]]; try discriminate H; clear H.
Ltac len3 X H := destruct X as [|?x0 [|?x1 [|?x2 [|? ?]]]]; try discriminate H; clear H.

(* 1. the public point API computes the specified map (no orthonormality needed) *)
Lemma pts_is_T_map (D : nat) (A B : axes) (n s c : nat -> K) (d : nat -> nat -> K) (X : list K) :
  D = 2%nat \/ D = 3%nat -> wf D n s d -> not_WW A B -> length X = D ->
  gen_pts D A B (vtab D n) (vtab D s) (vtab D c) (tab D D d) X
  = T_map D A B (vtab D n) (vtab D s) (vtab D c) (tab D D d) X.
Proof.
  intros [-> | ->] H NW HX.
  - len2 X HX. wf2 H. destruct A, B; try (exfalso; apply NW; split; reflexivity); fcbv; list_eq; field; side.
  - len3 X HX. wf3 H. destruct A, B; try (exfalso; apply NW; split; reflexivity); fcbv; list_eq; field; side.
Qed.

Lemma pts_WW (D : nat) (n s c : nat -> K) (d : nat -> nat -> K) (X : list K) :
  D = 2%nat \/ D = 3%nat -> length X = D ->
  gen_pts D WORLD WORLD (vtab D n) (vtab D s) (vtab D c) (tab D D d) X = X.
Proof. intros [-> | ->] HX; [len2 X HX | len3 X HX]; reflexivity. Qed.

Lemma origin_shape (D : nat) (n s c : nat -> K) (d : nat -> nat -> K) :
  D = 2%nat \/ D = 3%nat ->
  exists o, length o = D /\ origin_spec D (vtab D n) (vtab D s) (vtab D c) (tab D D d) = o.
Proof. intros [-> | ->]; eexists; split; try reflexivity; fcbv; reflexivity. Qed.

Lemma gen_origin_is_spec (D : nat) (n s c : nat -> K) (d : nat -> nat -> K) :
  D = 2%nat \/ D = 3%nat ->
  gen_origin D (vtab D n) (vtab D s) (vtab D c) (tab D D d)
  = origin_spec D (vtab D n) (vtab D s) (vtab D c) (tab D D d).
Proof. intros [-> | ->]; fcbv; list_eq; field; side. Qed.

(* orthonormality cancellations in 3-D, by exhibiting the entries of R^T R (resp. R R^T) syntactically *)
Lemma RtR_cancel3 (d : nat -> nat -> K) (s y : nat -> K) :
  mm 3 (mT 3 (tab 3 3 d)) (tab 3 3 d) = eye 3 ->
  s 0%nat <> 0 -> s 1%nat <> 0 -> s 2%nat <> 0 ->
  vdiv (mv (mT 3 (tab 3 3 d)) (mv (tab 3 3 d) (vmul (vtab 3 s) (vtab 3 y)))) (vtab 3 s) = vtab 3 y.
Proof.
  intros Ho H0 H1 H2. fcbv_in Ho.
  injection Ho as R00 R01 R02 R10 R11 R12 R20 R21 R22.
  fcbv. list_eq.
  - transitivity (((d 0%nat 0%nat * d 0%nat 0%nat + (d 1%nat 0%nat * d 1%nat 0%nat + (d 2%nat 0%nat * d 2%nat 0%nat + 0))) * (s 0%nat * y 0%nat)
                 + (d 0%nat 0%nat * d 0%nat 1%nat + (d 1%nat 0%nat * d 1%nat 1%nat + (d 2%nat 0%nat * d 2%nat 1%nat + 0))) * (s 1%nat * y 1%nat)
                 + (d 0%nat 0%nat * d 0%nat 2%nat + (d 1%nat 0%nat * d 1%nat 2%nat + (d 2%nat 0%nat * d 2%nat 2%nat + 0))) * (s 2%nat * y 2%nat)) / s 0%nat);
      [field; auto | rewrite R00, R01, R02; field; auto].
  - transitivity (((d 0%nat 1%nat * d 0%nat 0%nat + (d 1%nat 1%nat * d 1%nat 0%nat + (d 2%nat 1%nat * d 2%nat 0%nat + 0))) * (s 0%nat * y 0%nat)
                 + (d 0%nat 1%nat * d 0%nat 1%nat + (d 1%nat 1%nat * d 1%nat 1%nat + (d 2%nat 1%nat * d 2%nat 1%nat + 0))) * (s 1%nat * y 1%nat)
                 + (d 0%nat 1%nat * d 0%nat 2%nat + (d 1%nat 1%nat * d 1%nat 2%nat + (d 2%nat 1%nat * d 2%nat 2%nat + 0))) * (s 2%nat * y 2%nat)) / s 1%nat);
      [field; auto | rewrite R10, R11, R12; field; auto].
  - transitivity (((d 0%nat 2%nat * d 0%nat 0%nat + (d 1%nat 2%nat * d 1%nat 0%nat + (d 2%nat 2%nat * d 2%nat 0%nat + 0))) * (s 0%nat * y 0%nat)
                 + (d 0%nat 2%nat * d 0%nat 1%nat + (d 1%nat 2%nat * d 1%nat 1%nat + (d 2%nat 2%nat * d 2%nat 1%nat + 0))) * (s 1%nat * y 1%nat)
                 + (d 0%nat 2%nat * d 0%nat 2%nat + (d 1%nat 2%nat * d 1%nat 2%nat + (d 2%nat 2%nat * d 2%nat 2%nat + 0))) * (s 2%nat * y 2%nat)) / s 2%nat);
      [field; auto | rewrite R20, R21, R22; field; auto].
Qed.

Lemma RRt_cancel3 (d : nat -> nat -> K) (s z : nat -> K) :
  mm 3 (tab 3 3 d) (mT 3 (tab 3 3 d)) = eye 3 ->
  s 0%nat <> 0 -> s 1%nat <> 0 -> s 2%nat <> 0 ->
  mv (tab 3 3 d) (vmul (vtab 3 s) (vdiv (mv (mT 3 (tab 3 3 d)) (vtab 3 z)) (vtab 3 s))) = vtab 3 z.
Proof.
  intros Ho H0 H1 H2. fcbv_in Ho.
  injection Ho as Q00 Q01 Q02 Q10 Q11 Q12 Q20 Q21 Q22.
  fcbv. list_eq.
  - transitivity ((d 0%nat 0%nat * d 0%nat 0%nat + (d 0%nat 1%nat * d 0%nat 1%nat + (d 0%nat 2%nat * d 0%nat 2%nat + 0))) * z 0%nat
                + (d 0%nat 0%nat * d 1%nat 0%nat + (d 0%nat 1%nat * d 1%nat 1%nat + (d 0%nat 2%nat * d 1%nat 2%nat + 0))) * z 1%nat
                + (d 0%nat 0%nat * d 2%nat 0%nat + (d 0%nat 1%nat * d 2%nat 1%nat + (d 0%nat 2%nat * d 2%nat 2%nat + 0))) * z 2%nat);
      [field; auto | rewrite Q00, Q01, Q02; ring].
  - transitivity ((d 1%nat 0%nat * d 0%nat 0%nat + (d 1%nat 1%nat * d 0%nat 1%nat + (d 1%nat 2%nat * d 0%nat 2%nat + 0))) * z 0%nat
                + (d 1%nat 0%nat * d 1%nat 0%nat + (d 1%nat 1%nat * d 1%nat 1%nat + (d 1%nat 2%nat * d 1%nat 2%nat + 0))) * z 1%nat
                + (d 1%nat 0%nat * d 2%nat 0%nat + (d 1%nat 1%nat * d 2%nat 1%nat + (d 1%nat 2%nat * d 2%nat 2%nat + 0))) * z 2%nat);
      [field; auto | rewrite Q10, Q11, Q12; ring].
  - transitivity ((d 2%nat 0%nat * d 0%nat 0%nat + (d 2%nat 1%nat * d 0%nat 1%nat + (d 2%nat 2%nat * d 0%nat 2%nat + 0))) * z 0%nat
                + (d 2%nat 0%nat * d 1%nat 0%nat + (d 2%nat 1%nat * d 1%nat 1%nat + (d 2%nat 2%nat * d 1%nat 2%nat + 0))) * z 1%nat
                + (d 2%nat 0%nat * d 2%nat 0%nat + (d 2%nat 1%nat * d 2%nat 1%nat + (d 2%nat 2%nat * d 2%nat 2%nat + 0))) * z 2%nat);
      [field; auto | rewrite Q20, Q21, Q22; ring].
Qed.

Lemma vtab3_of (a b c : K) : [a; b; c] = vtab 3 (fun i => nth i [a; b; c] 0).
Proof. reflexivity. Qed.

Lemma addsub3 (a o : list K) : length a = 3%nat -> length o = 3%nat ->
  vsub (vadd a o) o = a /\ vadd (vsub a o) o = a.
Proof. intros Ha Ho. len3 a Ha. len3 o Ho. split; fcbv; list_eq; ring. Qed.

Lemma mv_len3 (d : nat -> nat -> K) (v : list K) : length (mv (tab 3 3 d) v) = 3%nat.
Proof. reflexivity. Qed.

(* 2. index <-> axes maps are mutually inverse *)
Lemma to_from_index (D : nat) (A : axes) (n s c : nat -> K) (d : nat -> nat -> K) (Y : list K) :
  D = 2%nat \/ D = 3%nat -> wf D n s d -> length Y = D ->
  to_index D A (vtab D n) (vtab D s) (vtab D c) (tab D D d)
    (from_index D A (vtab D n) (vtab D s) (vtab D c) (tab D D d) Y) = Y.
Proof.
  intros HD H HY. destruct (origin_shape D n s c d HD) as (o & Ho & Eo).
  destruct A; unfold to_index, from_index; rewrite ?Eo; destruct HD as [-> | ->].
  all: try (len2 Y HY; len2 o Ho; wf2 H; fcbv; list_eq; field [R00 R01 R11]; side).
  all: try (len3 Y HY; len3 o Ho; wf3 H; fcbv; list_eq; field; side).
  (* 3-D, WORLD *)
  destruct H as (Hs & Hn & Hn1 & Ho1 & Ho2).
  assert (L : length (mv (tab 3 3 d) (vmul (vtab 3 s) Y)) = 3%nat) by reflexivity.
  rewrite (proj1 (addsub3 _ o L Ho)).
  len3 Y HY. rewrite (vtab3_of x0 x1 x2).
  apply RtR_cancel3; auto.
Qed.

Lemma from_to_index (D : nat) (A : axes) (n s c : nat -> K) (d : nat -> nat -> K) (X : list K) :
  D = 2%nat \/ D = 3%nat -> wf D n s d -> length X = D ->
  from_index D A (vtab D n) (vtab D s) (vtab D c) (tab D D d)
    (to_index D A (vtab D n) (vtab D s) (vtab D c) (tab D D d) X) = X.
Proof.
  intros HD H HX. destruct (origin_shape D n s c d HD) as (o & Ho & Eo).
  destruct A; unfold to_index, from_index; rewrite ?Eo; destruct HD as [-> | ->].
  all: try (len2 X HX; len2 o Ho; wf2 H; fcbv; list_eq; field [Q00 Q01 Q11]; side).
  all: try (len3 X HX; len3 o Ho; wf3 H; fcbv; list_eq; field; side).
  (* 3-D, WORLD *)
  destruct H as (Hs & Hn & Hn1 & Ho1 & Ho2).
  len3 X HX. len3 o Ho.
  assert (E : vsub [x0; x1; x2] [x3; x4; x5] = vtab 3 (fun i => nth i [x0 - x3; x1 - x4; x2 - x5] 0)) by reflexivity.
  rewrite E, RRt_cancel3; auto. fcbv. list_eq; ring.
Qed.

Lemma to_index_length (D : nat) (A : axes) (n s c : nat -> K) (d : nat -> nat -> K) (X : list K) :
  D = 2%nat \/ D = 3%nat -> length X = D ->
  length (to_index D A (vtab D n) (vtab D s) (vtab D c) (tab D D d) X) = D.
Proof. intros [-> | ->] HX; [len2 X HX | len3 X HX]; destruct A; reflexivity. Qed.

Lemma from_index_length (D : nat) (A : axes) (n s c : nat -> K) (d : nat -> nat -> K) (X : list K) :
  D = 2%nat \/ D = 3%nat -> length X = D ->
  length (from_index D A (vtab D n) (vtab D s) (vtab D c) (tab D D d) X) = D.
Proof. intros [-> | ->] HX; [len2 X HX | len3 X HX]; destruct A; reflexivity. Qed.
End Proofs.
