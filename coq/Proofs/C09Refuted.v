(* C09 -- concrete witnesses: where the code as it is does NOT reflect the new state (linear transforms
   with callable parameters), and non-vacuity of the positive theorems (evaluation of the executable instance). *)
From Coq Require Import List Bool ZArith QArith Qcanon.
From DV Require Import Base.QcInst Model.TransformState Model.TransformStateRun Model.TransformStateEx
  Gen.TState Model.TransformCfg.
Import ListNotations.

(* a linear transform whose parameters come from a callable keeps returning the buffered p:
   tensor()/disp() right after condition_() (or reset_parameters()) is stale until update() *)
Lemma linear_callable_stale_after_condition :
  stale_after gen_cfg h_lin_fun x_cond x_obs 0 = true.
Proof. vm_compute. reflexivity. Qed.
Lemma linear_callable_stale_after_reset :
  stale_after gen_cfg h_lin_fun (Reset PV nat CV 0) x_obs 0 = true.
Proof. vm_compute. reflexivity. Qed.

(* non-vacuity *)
Lemma nonrigid_callable_fresh_after_condition :
  fresh_after gen_cfg h_svf_fun x_cond x_obs 0 = true.
Proof. vm_compute. reflexivity. Qed.
Lemma dense_fresh_after_data :
  fresh_after gen_cfg h_disp_ten x_data (Disp PV nat CV 0) 0 = true.
Proof. vm_compute. reflexivity. Qed.
Lemma dense_grid_other_lattice_keeps_world :
  world_kept gen_cfg h_disp_ten 0 2 = true.
Proof. vm_compute. reflexivity. Qed.
(* repaired: a grid that differs only in align_corners is installed, the world displacement is kept *)
Lemma dense_grid_align_only_keeps_world :
  world_kept gen_cfg h_disp_ten 0 1 = true.
Proof. vm_compute. reflexivity. Qed.
(* repaired: BSplineTransform.grid_ with callable parameters clears the buffered field *)
Lemma spline_callable_fresh_after_grid :
  fresh_after gen_cfg h_ffd_fun (GridSet PV nat CV 0 2) x_obs 0 = true.
Proof. vm_compute. reflexivity. Qed.

(* a composite with a callable-parameter member used twice and a tensor member, after an in-place edit
   and re-conditioning: the call returns what the three members hold *)
Lemma composite_call_fresh_witness : seq_fresh_after gen_cfg h_seq 2 = true.
Proof. vm_compute. reflexivity. Qed.

(* direct access to a composite after an in-place edit of a member: fresh after clear_buffers() on the
   composite, stale without it (the stale case is documented behaviour, shown to make the witness non-trivial) *)
Lemma composite_direct_witness :
  seq_direct_fresh_after gen_cfg h_seq_direct 2 = true /\ seq_direct_fresh_after gen_cfg h_seq_direct_noclear 2 = false.
Proof. vm_compute. split; reflexivity. Qed.

(* accessor copies (ac06f87): a transform obtained through grid(g) or data(arg) from a transform holding an
   nn.Parameter has its own _parameters dict -- a later data_() on the original is not seen by it (and the
   original is not touched by data(arg)); a plain shallow copy, condition(...) and inverse() keep sharing *)
Definition x_call_gives (h : list rop) (o : nat) (want : list Qc) : bool :=
  match snd (x_step gen_cfg (x_run gen_cfg h) (Call PV nat CV o)) with
  | Out _ _ l _ => vclose 0%Q (out_val l) want
  | _ => false
  end.
Definition h_acc (mk : rop) : list rop :=
  [New PV nat CV KLin 0 (PkTen PV (qv 1 2, 0) true); mk; DataSet PV nat CV 0 (qv 3 (-5), 0) false].
Lemma accessor_copies_independent :
  x_call_gives (h_acc (GridNew PV nat CV 0 2)) 1 (qv 1 2) = true /\
  x_call_gives (h_acc (DataNew PV nat CV 0 (qv 7 7, 0) false)) 1 (qv 7 7) = true /\
  x_call_gives (h_acc (DataNew PV nat CV 0 (qv 7 7, 0) false)) 0 (qv 3 (-5)) = true /\
  x_call_gives (h_acc (Copy PV nat CV 0)) 1 (qv 3 (-5)) = true /\
  x_call_gives (h_acc (CondNew PV nat CV 0 (1, 0))) 1 (qv 3 (-5)) = true /\
  x_call_gives (h_acc (Inverse PV nat CV 0 false false)) 1 (qv (-3) 5) = true.
Proof. vm_compute. repeat split; reflexivity. Qed.

(* the six observations above as one boolean (in the order: grid(g) copy keeps the old parameters; data(arg) copy
   holds arg; the original follows its own data_; copy / condition / inverse follow the original's data_) *)
Definition accessor_witness : bool :=
  x_call_gives (h_acc (GridNew PV nat CV 0 2)) 1 (qv 1 2) &&
  x_call_gives (h_acc (DataNew PV nat CV 0 (qv 7 7, 0) false)) 1 (qv 7 7) &&
  x_call_gives (h_acc (DataNew PV nat CV 0 (qv 7 7, 0) false)) 0 (qv 3 (-5)) &&
  x_call_gives (h_acc (Copy PV nat CV 0)) 1 (qv 3 (-5)) &&
  x_call_gives (h_acc (CondNew PV nat CV 0 (1, 0))) 1 (qv 3 (-5)) &&
  x_call_gives (h_acc (Inverse PV nat CV 0 false false)) 1 (qv (-3) 5).
Lemma accessor_witness_ok : accessor_witness = true.
Proof. vm_compute. reflexivity. Qed.
