"""Implementation-side runner for C05 (resampling on another oriented grid vs. an independent reference)."""
import itertools
import json
import math
import random
import sys

import numpy as np
import torch

from vlib import emit_json

from deepali.core.grid import Axes, Grid
from deepali.core import image as CI
from deepali.data.image import Image, ImageBatch
from deepali.modules.sample import AlignImage, SampleImage, TransformImage

AX = {"GRID": Axes.GRID, "CUBE": Axes.CUBE, "CUBE_CORNERS": Axes.CUBE_CORNERS, "WORLD": Axes.WORLD}


def mk(g):
    return Grid(size=g["size"], spacing=g["spacing"], center=g["center"],
                direction=[v for r in g["direction"] for v in r], align_corners=g["align_corners"])


def stored(g):
    return {"n": [float(v) for v in g.size_tensor()], "s": [float(v) for v in g.spacing()],
            "c": [float(v) for v in g.center()], "d": [[float(v) for v in r] for r in g.direction()],
            "o": [float(v) for v in g.origin()], "ac": bool(g.align_corners())}


def err(e):
    return {"error": type(e).__name__, "msg": str(e)[:200]}


def pad_arg(p):
    return p if isinstance(p, str) or p is None else float(p)


def tensor_of(data, dtype=torch.float64):
    return torch.tensor(data, dtype=dtype)


def run_case(c):
    """one correspondence case: returns sampled values in tensor order (N, ...) for channel 0"""
    src = [mk(g) for g in c["src"]]
    tgt = [mk(g) for g in c["tgt"]] if c.get("tgt") else []
    data = tensor_of(c["data"])  # (N, ...X) one channel
    N = data.shape[0]
    data = data.unsqueeze(1)
    mode, padding = c["mode"], pad_arg(c["padding"])
    api = c["api"]
    before = data.clone()
    r = {"src": [stored(g) for g in src], "tgt": [stored(g) for g in tgt]}
    if api == "image_sample_grid":
        im = Image(data[0], src[0])
        out = im.sample(tgt[0], mode=mode, padding=padding)
        r["val"] = out.tensor().double()[0].unsqueeze(0).tolist()
        r["out_grid_is_target"] = bool(out.grid() is tgt[0] or out.grid() == tgt[0])
        r["out_shape_ok"] = tuple(out.shape[1:]) == tuple(tgt[0].shape)
        r["ac"] = src[0].align_corners()
    elif api == "batch_sample_grid":
        b = ImageBatch(data, src if len(src) > 1 else src[0])
        out = b.sample(tgt if len(tgt) > 1 else tgt[0], mode=mode, padding=padding)
        r["val"] = out.tensor().double()[:, 0].tolist()
        r["n_out_grids"] = len(out.grids())
        r["n_out"] = int(out.shape[0])
        r["out_grid_is_target"] = all(go == gt for go, gt in zip(out.grids(), itertools.cycle(tgt)))
        r["ac"] = src[0].align_corners()
    elif api in ("image_sample_coords", "batch_sample_coords", "core_sample_image", "core_grid_sample"):
        pts = tensor_of(c["coords"], torch.float64)  # (M, D) or (N, M, D)
        if api == "image_sample_coords":
            out = Image(data[0], src[0]).sample(pts.to(torch.float32), mode=mode, padding=padding)  # (C, M)
            r["val"] = [out.double()[0].tolist()]
            r["ac"] = src[0].align_corners()
        elif api == "batch_sample_coords":
            out = ImageBatch(data, src if len(src) > 1 else src[0]).sample(pts.to(torch.float32), mode=mode, padding=padding)
            r["val"] = out.double()[:, 0].tolist()
            r["ac"] = src[0].align_corners()
        elif api == "core_sample_image":
            out = CI.sample_image(data, pts, mode=mode, padding=padding, align_corners=c["ac"])
            r["val"] = out.double()[:, 0].tolist()
            r["ac"] = c["ac"]
        else:
            D = data.ndim - 2
            g = pts.reshape((pts.shape[0],) + (1,) * (D - 1) + (-1, D)) if pts.ndim == 3 else pts.reshape((1,) * D + (-1, D))[0]
            out = CI.grid_sample(data, g, mode=mode, padding=padding, align_corners=c["ac"])
            r["val"] = out.double()[:, 0].reshape(out.shape[0], -1).tolist()
            r["ac"] = c["ac"]
    elif api in ("SampleImage", "AlignImage", "TransformImage"):
        axes = AX[c["axes"]] if c.get("axes") else None
        cls = {"SampleImage": SampleImage, "AlignImage": AlignImage, "TransformImage": TransformImage}[api]
        m = cls(tgt[0], src[0], axes=axes, sampling=mode, padding=padding)
        x = data.to(torch.float32)
        if api == "SampleImage":
            pts = tgt[0].points(m.axes()) if axes is not None else tgt[0].coords(align_corners=tgt[0].align_corners())
            out = m(pts.unsqueeze(0), x)
        else:
            out = m(None, x)
        r["val"] = out.double()[:, 0].tolist()
        r["ac"] = tgt[0].align_corners()
        r["axes"] = m.axes().value
    else:
        raise ValueError(api)
    r["input_unchanged"] = bool(torch.equal(before, data))
    return r


def model_cases(p):
    out = []
    for c in p["cases"]:
        try:
            out.append(run_case(c))
        except Exception as e:  # noqa
            out.append(err(e))
    return out


# ------------------------------------------------------------------------------------------------
def sitk_resample(src_grid, data, tgt_grid, mode, dflt, via_image_sitk=True):
    """SimpleITK.Resample(Image.sitk(), reference = target header, identity transform)"""
    import SimpleITK as sitk
    im = Image(data.unsqueeze(0) if data.ndim == src_grid.ndim else data, src_grid)
    simg = im.sitk()
    D = src_grid.ndim
    interp = {"linear": sitk.sitkLinear, "nearest": sitk.sitkNearestNeighbor}[mode]
    size = [int(n) for n in tgt_grid.size()]
    origin = [float(v) for v in tgt_grid.origin()]
    spacing = [float(v) for v in tgt_grid.spacing()]
    direction = [float(v) for v in tgt_grid.direction().flatten()]
    out = sitk.Resample(simg, size, sitk.Transform(D, sitk.sitkIdentity), interp, origin, spacing, direction, float(dflt),
                        simg.GetPixelID())
    arr = sitk.GetArrayFromImage(out)
    hdr = {"size": list(simg.GetSize()), "origin": list(simg.GetOrigin()), "spacing": list(simg.GetSpacing()),
           "direction": list(simg.GetDirection())}
    return np.asarray(arr, dtype=np.float64), hdr


def itk_cases(p):
    out = []
    for c in p["cases"]:
        try:
            src, tgt = mk(c["src"][0]), mk(c["tgt"][0])
            data = tensor_of(c["data"])[0]
            arr, hdr = sitk_resample(src, data, tgt, c["mode"], c["dflt"])
            out.append({"src": [stored(src)], "tgt": [stored(tgt)], "val": [arr.tolist()], "sitk_header": hdr})
        except Exception as e:  # noqa
            out.append(err(e))
    return out


# ------------------------------------------------------------------------------------------------
# the property itself on the implementation
# ------------------------------------------------------------------------------------------------
def rot_from_quat(q):
    w, x, y, z = q
    n = w * w + x * x + y * y + z * z
    return [[(w * w + x * x - y * y - z * z) / n, 2 * (x * y - w * z) / n, 2 * (x * z + w * y) / n],
            [2 * (x * y + w * z) / n, (w * w - x * x + y * y - z * z) / n, 2 * (y * z - w * x) / n],
            [2 * (x * z - w * y) / n, 2 * (y * z + w * x) / n, (w * w - x * x - y * y + z * z) / n]]


def rand_dir(rng, D):
    kind = rng.random()
    if D == 2:
        if kind < 0.2:
            return [[1.0, 0.0], [0.0, 1.0]]
        if kind < 0.45:
            return rng.choice([[[0.0, -1.0], [1.0, 0.0]], [[-1.0, 0.0], [0.0, -1.0]], [[0.0, 1.0], [1.0, 0.0]], [[1.0, 0.0], [0.0, -1.0]],
                               [[0.0, 1.0], [-1.0, 0.0]]])
        a, b = rng.choice([(3, 4), (5, 12), (8, 15), (7, 24), (20, 21)])
        h = math.hypot(a, b)
        c, s = a / h, b / h
        if rng.random() < .5:
            s = -s
        return [[c, -s], [s, c]]
    if kind < 0.15:
        return [[1.0, 0, 0], [0, 1.0, 0], [0, 0, 1.0]]
    if kind < 0.4:
        perm = rng.choice(list(itertools.permutations(range(3))))
        m = [[0.0] * 3 for _ in range(3)]
        for i, pp in enumerate(perm):
            m[i][pp] = rng.choice([1.0, -1.0])
        return m
    q = [rng.randint(-4, 4) for _ in range(4)]
    if not any(q):
        q = [1, 0, 0, 0]
    return rot_from_quat(q)


def rand_src(rng, D, max_n=12):
    size = [rng.randint(2, max_n) for _ in range(D)]
    spacing = [rng.choice([0.5, 0.75, 1.0, 1.5, 2.0]) for _ in range(D)]
    center = [rng.randint(-80, 80) / 4 for _ in range(D)]
    return dict(size=size, spacing=spacing, center=center, direction=rand_dir(rng, D), align_corners=rng.random() < .5)


def rand_tgt_inside(rng, D, src, max_n=12):
    """target grid of arbitrary orientation whose samples mostly fall inside the source field of view: centred near the
    source centre with an extent below the source's inscribed ball"""
    ext = [s * (n - 1) for s, n in zip(src["spacing"], src["size"])]
    r = 0.5 * min(ext)
    size = [rng.randint(2, max_n) for _ in range(D)]
    # diagonal of the target lattice <= 2 r * shrink
    shrink = rng.choice([0.5, 0.8, 1.0, 1.4])
    diag = math.sqrt(sum((n - 1) ** 2 for n in size))
    base = 2 * r * shrink / diag
    spacing = [base * rng.choice([0.5, 0.75, 1.0]) for _ in range(D)]
    center = [c + rng.uniform(-0.25, 0.25) * r for c in src["center"]]
    return dict(size=size, spacing=spacing, center=center, direction=rand_dir(rng, D), align_corners=rng.random() < .5)


def src_index_f64(src, tgt):
    """continuous source index of every target sample, computed independently in float64 from the stored headers
    (origin + direction * spacing * index, inverted with the transposed direction): shape (*tgt.shape, D) in (x,..) order"""
    D = src.ndim
    idx = tgt.coords(normalize=False, dtype=torch.float64)  # (..., D) order (x, y, z)
    Rt, st, ot = tgt.direction().double(), tgt.spacing().double(), tgt.origin().double()
    Rs, ss, os_ = src.direction().double(), src.spacing().double(), src.origin().double()
    w = (idx * st) @ Rt.T + ot
    return ((w - os_) @ Rs) / ss


def oracle(p):
    rng = random.Random(p["seed"])
    torch.manual_seed(p["seed"])
    fails = []
    counts = {"pairs": 0, "samples_compared": 0, "inside_fov": 0, "self": 0, "coords_vs_grid": 0, "batch": 0, "const": 0, "modules": 0,
              "nearest_skipped_ties": 0}

    def fail(key, what, **kw):
        if not any(f["key"] == key for f in fails):
            fails.append(dict(key=key, what=what, **kw))

    # border padding on the whole ITK buffer: a finer target grid covering the same cube (align_corners = False puts its outer
    # samples in the half-voxel band beyond the first / last source sample centre)
    for D in (2, 3):
        for flag in (False, True):
            sd = dict(size=[5, 4, 3][:D], spacing=[1.0, 2.0, 1.5][:D], center=[1.0, -2.0, 0.5][:D], direction=rand_dir(rng, D), align_corners=flag)
            try:
                src = mk(sd)
                tgt = src.resize([2 * v for v in src.size()])
                data = ((torch.randn((1,) + tuple(src.shape), dtype=torch.float64) * 32).round() / 8)
                got = Image(data, src).sample(tgt, mode="linear", padding="border").tensor().double()[0]
                ref, _ = sitk_resample(src, data, tgt, "linear", 0.0)
                x = src_index_f64(src, tgt)
                n = torch.tensor([float(v) for v in src.size()], dtype=torch.float64)
                sel = ((x >= -0.5 + 2e-3) & (x <= n - 0.5 - 2e-3)).all(dim=-1)
                inside = ((x >= 0) & (x <= n - 1)).all(dim=-1)
                counts["border_band"] = counts.get("border_band", 0) + int((sel & ~inside).sum())
                diff = (got - torch.from_numpy(ref)).abs()
                if bool((diff[sel] > 2e-4 * (float(data.abs().max()) + 1)).any()):
                    j = torch.nonzero((diff > 2e-4 * (float(data.abs().max()) + 1)) & sel)[0].tolist()
                    fail("C05:Image.sample:linear:border:vs-itk-whole-buffer",
                         f"border padding differs from sitk.Resample inside ITK's buffer at target sample {j[::-1]} (x,..): deepali "
                         f"{float(got[tuple(j)]):.6g} ITK {float(ref[tuple(j)]):.6g}, source index {x[tuple(j)].tolist()}", src=sd, data=data.tolist())
            except Exception as e:  # noqa
                fail("C05:Image.sample:linear:border:raises", f"raises {type(e).__name__}: {str(e)[:120]}", src=sd)

    # module API on the image's OWN grid (source omitted, or an equal grid): through the precomputed same-grid matrix the image
    # itself is returned, for every axes argument and both flags (C05_module_own_index_id)
    for D in (2, 3):
        for flag in (True, False):
            gd = dict(size=[5, 4, 3][:D], spacing=[1.0, 2.0, 1.5][:D], center=[1.0, -2.0, 0.5][:D], direction=rand_dir(rng, D), align_corners=flag)
            g = mk(gd)
            data = ((torch.randn((1, 1) + tuple(g.shape), dtype=torch.float64) * 32).round() / 8)
            for axn in (None, "GRID", "CUBE", "CUBE_CORNERS", "WORLD"):
                for sname, sgrid in (("source-omitted", None), ("source-equal", mk(gd))):
                    for mode in ("linear", "nearest"):
                        try:
                            counts["own_modules"] = counts.get("own_modules", 0) + 1
                            kw = dict(axes=None if axn is None else AX[axn], sampling=mode, padding="border")
                            outs = {}
                            m = SampleImage(g, sgrid, **kw)
                            outs["SampleImage"] = m(g.points(m.axes()).unsqueeze(0), data.float())
                            outs["AlignImage"] = AlignImage(g, sgrid, **kw)(None, data.float())
                            outs["TransformImage"] = TransformImage(g, sgrid, **kw)(None, data.float())
                            for nm, o_ in outs.items():
                                if tuple(o_.shape) != tuple(data.shape) or not bool(((o_.double() - data).abs() <= 2e-4 * (float(data.abs().max()) + 1)).all()):
                                    j = torch.nonzero((o_.double() - data).abs()[0, 0] > 2e-4 * (float(data.abs().max()) + 1))
                                    j = j[0].tolist() if len(j) else []
                                    fail(f"C05:{nm}:{axn or 'default'}:own-grid:{sname}",
                                         f"{nm}(target, {'source=None' if sgrid is None else 'source=equal grid'}, axes={axn}, {mode}) on the image's own "
                                         f"grid (align_corners={flag}) does not return the image: sample {j[::-1]} (x,..) is "
                                         f"{float(o_.double()[0, 0][tuple(j)]) if j else None} instead of {float(data[0, 0][tuple(j)]) if j else None}",
                                         src=gd, mode=mode, data=data[0].tolist())
                        except Exception as e:  # noqa
                            fail(f"C05:modules:{axn or 'default'}:own-grid:raises", f"raises {type(e).__name__}: {str(e)[:120]}", src=gd, mode=mode)
    # mixed align_corners flags whose cube extents coincide: spacing_a * (n_a - 1) == spacing_b * n_b on every axis, same centre
    # and orientation (e.g. 10 x 8 samples with align_corners=False and 11 x 9 samples of the same spacing with align_corners=True)
    for D in (2, 3):
        for k, (n_nac, sp_nac, n_ac, sp_ac) in enumerate([([10, 8, 5], [1.0, 1.5, 2.0], [11, 9, 6], [1.0, 1.5, 2.0]),
                                                          ([12, 12, 6], [1.0, 1.0, 1.0], [13, 7, 4], [1.0, 2.0, 2.0])]):
            dirn = rand_dir(rng, D)
            cen = [1.0, -2.0, 0.5][:D]
            g_nac = dict(size=n_nac[:D], spacing=sp_nac[:D], center=cen, direction=dirn, align_corners=False)
            g_ac = dict(size=n_ac[:D], spacing=sp_ac[:D], center=cen, direction=dirn, align_corners=True)
            for sd, td in ((g_nac, g_ac), (g_ac, g_nac)):
                for mode in ("linear", "nearest"):
                    ctx = dict(src=sd, tgt=td, mode=mode, padding="border")
                    try:
                        src, tgt = mk(sd), mk(td)
                        data = ((torch.randn((1,) + tuple(src.shape), dtype=torch.float64) * 32).round() / 8)
                        ref, _ = sitk_resample(src, data, tgt, mode, 0.0)
                        x = src_index_f64(src, tgt)
                        n = torch.tensor([float(v) for v in src.size()], dtype=torch.float64)
                        sel = ((x >= 0) & (x <= n - 1)).all(dim=-1)
                        if mode == "nearest":
                            sel = sel & ~((x - torch.floor(x) - 0.5).abs() < 2e-3).any(dim=-1)
                        tol = 2e-4 * (float(data.abs().max()) + 1)
                        outs = {"Image.sample": Image(data, src).sample(tgt, mode=mode, padding="border").tensor().double()[0],
                                "ImageBatch.sample": ImageBatch(data.unsqueeze(0), src).sample(tgt, mode=mode, padding="border").tensor().double()[0, 0],
                                "SampleImage": SampleImage(tgt, src, sampling=mode, padding="border")(
                                    tgt.coords(align_corners=tgt.align_corners()).unsqueeze(0), data.unsqueeze(0).float()).double()[0, 0],
                                "AlignImage": AlignImage(tgt, src, sampling=mode, padding="border")(None, data.unsqueeze(0).float()).double()[0, 0]}
                        counts["coincident_extents"] = counts.get("coincident_extents", 0) + 1
                        for nm, got in outs.items():
                            diff = (got - torch.from_numpy(ref)).abs()
                            if bool((diff[sel] > tol).any()):
                                j = torch.nonzero((diff > tol) & sel)[0].tolist()
                                fail(f"C05:{nm}:{mode}:vs-itk:coincident-extents",
                                     f"mixed align_corners flags with coinciding cube extents: differs from sitk.Resample at target sample {j[::-1]} "
                                     f"(x,..): deepali {float(got[tuple(j)]):.6g} ITK {float(ref[tuple(j)]):.6g}, source index {x[tuple(j)].tolist()}",
                                     data=data.tolist(), **ctx)
                    except Exception as e:  # noqa
                        fail(f"C05:coincident-extents:{mode}:raises", f"raises {type(e).__name__}: {str(e)[:120]}", **ctx)

    for it in range(p["n"]):
        D = 2 if rng.random() < .55 else 3
        maxn = 12 if D == 2 else 7
        sd = rand_src(rng, D, maxn)
        td = rand_tgt_inside(rng, D, sd, maxn)
        mode = "linear" if rng.random() < .6 else "nearest"
        padding = rng.choice(["zeros", "border", rng.choice([-2.5, 0.75, 3.0])])
        ctx = dict(src=sd, tgt=td, mode=mode, padding=padding)
        try:
            src, tgt = mk(sd), mk(td)
            data = torch.randn((1,) + tuple(src.shape), dtype=torch.float64) * 4
            data = (data * 8).round() / 8
            im = Image(data, src)
            out = im.sample(tgt, mode=mode, padding=pad_arg(padding))
        except Exception as e:  # noqa
            fail(f"C05:Image.sample:{mode}:raises", f"raises {type(e).__name__}: {str(e)[:120]}", **ctx)
            continue
        counts["pairs"] += 1
        tol = 2e-4 * (float(data.abs().max()) + 1)
        try:
            if tuple(out.shape[1:]) != tuple(tgt.shape) or not (out.grid() == tgt):
                fail("C05:Image.sample:grid", "result does not carry the target grid / shape", **ctx)
            ref, _ = sitk_resample(src, data, tgt, mode, 0.0)
            x = src_index_f64(src, tgt)
            n = torch.tensor([float(v) for v in src.size()], dtype=torch.float64)
            inside = ((x >= 0) & (x <= n - 1)).all(dim=-1)
            if mode == "nearest":
                fr = (x - torch.floor(x) - 0.5).abs()
                tie = (fr < 2e-3).any(dim=-1)
                inbuf = ((x >= -0.5 + 2e-3) & (x <= n - 0.5 - 2e-3)).all(dim=-1)
                counts["nearest_skipped_ties"] += int((tie & inbuf).sum())
                sel = inbuf & ~tie
            elif padding == "border":
                # border padding: equality on ITK's whole buffer [-1/2, n-1/2) (C05_sample_matches_itk_border2/3), which
                # includes the outer half-voxel band of the source field of view for align_corners = False
                sel = ((x >= -0.5 + 2e-3) & (x <= n - 0.5 - 2e-3)).all(dim=-1)
                counts["border_band"] = counts.get("border_band", 0) + int((sel & ~inside).sum())
            else:
                sel = inside
            counts["inside_fov"] += int(sel.sum())
            got = out.tensor().double()[0]
            diff = (got - torch.from_numpy(ref)).abs()
            counts["samples_compared"] += int(sel.numel())
            if bool((diff[sel] > tol).any()):
                j = torch.nonzero((diff > tol) & sel)[0].tolist()
                fail(f"C05:Image.sample:{mode}:vs-itk", f"differs from sitk.Resample at target sample {j[::-1]} (x,..): "
                     f"deepali {float(got[tuple(j)]):.6g} ITK {float(ref[tuple(j)]):.6g}, source index {x[tuple(j)].tolist()}",
                     data=data.tolist(), **ctx)
            # the same through ImageBatch with N > 1 (shared grids) and per-image grids
            counts["batch"] += 1
            sd2 = rand_src(rng, D, maxn)
            sd2["size"] = sd["size"]
            sd2["center"] = [c + rng.choice([-0.35, 0.3, 0.45]) * sp_ for c, sp_ in zip(sd["center"], sd["spacing"])]
            sd2["spacing"] = sd["spacing"]
            sd2["align_corners"] = sd["align_corners"]
            sd2["direction"] = sd["direction"]
            src2 = mk(sd2)
            data2 = ((torch.randn_like(data) * 32).round() / 8)
            b = ImageBatch(torch.cat([data.unsqueeze(0), data2.unsqueeze(0)], 0), [src, src2])
            ob = b.sample([tgt, tgt], mode=mode, padding=pad_arg(padding))
            o1 = Image(data2, src2).sample(tgt, mode=mode, padding=pad_arg(padding))
            if not bool(((ob.tensor().double()[0, 0] - got).abs() <= tol).all()) or \
                    not bool(((ob.tensor().double()[1] - o1.tensor().double()).abs() <= tol).all()):
                fail(f"C05:ImageBatch.sample:per-image-grids:{mode}", "batch entry k is not image k sampled with its own grid", **ctx, src2=sd2)
            if len(ob.grids()) != 2 or not all(g == tgt for g in ob.grids()):
                fail("C05:ImageBatch.sample:per-image-grids:grids", "result grids are not the target grids", **ctx)
            # images on different grids, ONE shared target (a new grid, and the grid of image 0 itself)
            for tname, tshared in (("shared-target", tgt), ("target-is-grid-of-image-0", src)):
                osh = b.sample(tshared, mode=mode, padding=pad_arg(padding))
                w0 = im.sample(tshared, mode=mode, padding=pad_arg(padding)).tensor().double()
                w1 = Image(data2, src2).sample(tshared, mode=mode, padding=pad_arg(padding)).tensor().double()
                if not isinstance(osh, ImageBatch) or int(osh.shape[0]) != 2 or \
                        not bool(((osh.tensor().double()[0] - w0).abs() <= tol).all()) or \
                        not bool(((osh.tensor().double()[1] - w1).abs() <= tol).all()):
                    fail(f"C05:ImageBatch.sample:per-image-grids:{tname}:{mode}",
                         "one shared target grid for images on different grids: batch entry k is not image k sampled on the target", **ctx, src2=sd2)
                elif len(osh.grids()) != 2 or not all(g == tshared for g in osh.grids()):
                    fail(f"C05:ImageBatch.sample:per-image-grids:{tname}:grids", "result grids are not the target grid", **ctx)
            bs = ImageBatch(torch.cat([data.unsqueeze(0), data2.unsqueeze(0)], 0), src)
            os_ = bs.sample(tgt, mode=mode, padding=pad_arg(padding))
            o2 = Image(data2, src).sample(tgt, mode=mode, padding=pad_arg(padding))
            if not bool(((os_.tensor().double()[0, 0] - got).abs() <= tol).all()) or \
                    not bool(((os_.tensor().double()[1] - o2.tensor().double()).abs() <= tol).all()):
                fail(f"C05:ImageBatch.sample:shared-grid:{mode}", "shared-grid batch differs from sampling each image", **ctx)
            if len(os_.grids()) != int(os_.shape[0]):
                fail("C05:ImageBatch.sample:one-grid:grid-count", f"result has {int(os_.shape[0])} items but {len(os_.grids())} grid(s)", **ctx)
            # sampling at explicit coordinates = sampling on the grid they came from
            counts["coords_vs_grid"] += 1
            ac = src.align_corners()
            ax = Axes.from_align_corners(ac)
            co = tgt.coords(align_corners=ac)
            cs = tgt.transform_points(co, ax, ax, to_grid=src)
            oc = im.sample(cs, mode=mode, padding=pad_arg(padding))
            if tuple(oc.shape) != tuple(got.unsqueeze(0).shape) or not bool(((oc.double()[0] - got).abs() <= tol).all()):
                fail(f"C05:Image.sample:coords-vs-grid:{mode}", "sampling at the grid's coordinates differs from sampling on the grid", **ctx)
            flat = cs.reshape(-1, D)
            of = im.sample(flat, mode=mode, padding=pad_arg(padding))
            if not bool(((of.double()[0] - got.reshape(-1)).abs() <= tol).all()):
                fail(f"C05:Image.sample:point-set-vs-grid:{mode}", "sampling at a flat point set differs from sampling on the grid", **ctx)
            # own grid
            counts["self"] += 1
            same = Grid(size=sd["size"], spacing=sd["spacing"], center=sd["center"], direction=[v for r_ in sd["direction"] for v in r_],
                        align_corners=not sd["align_corners"])
            for g_ in (src, same):
                o_ = im.sample(g_, mode=mode, padding=pad_arg(padding))
                if not bool(torch.equal(o_.tensor().double(), data)):
                    fail("C05:Image.sample:own-grid", "sampling on the own grid changes the image", **ctx)
            own = im.sample(src.coords(align_corners=ac), mode=mode, padding=pad_arg(padding))
            if not bool(((own.double() - data).abs() <= tol).all()):
                fail(f"C05:Image.sample:own-coords:{mode}", "sampling at the own coordinates does not return the image", **ctx)
            # constant padding = the image extended by c (independent construction: ring of c, ITK on the padded image)
            if not isinstance(padding, str) and mode == "linear":
                counts["const"] += 1
                c = float(padding)
                pd = torch.full((1,) + tuple(s + 4 for s in src.shape), c, dtype=torch.float64)
                sl = (slice(None),) + tuple(slice(2, 2 + s) for s in src.shape)
                pd[sl] = data
                big = Grid(size=[s + 4 for s in sd["size"]], spacing=sd["spacing"], center=sd["center"],
                           direction=[v for r_ in sd["direction"] for v in r_], align_corners=sd["align_corners"])
                wide = dict(td)
                wide["spacing"] = [s * 1.6 for s in td["spacing"]]
                tw = mk(wide)
                refc, _ = sitk_resample(big, pd, tw, "linear", c)
                gotc = im.sample(tw, mode="linear", padding=c).tensor().double()[0]
                xw = src_index_f64(src, tw)
                ok = ((xw >= -1.5) & (xw <= n + 0.5)).all(dim=-1)
                dc = (gotc - torch.from_numpy(refc)).abs()
                if bool((dc[ok] > tol + 2e-4 * abs(c)).any()):
                    j = torch.nonzero((dc > tol + 2e-4 * abs(c)) & ok)[0].tolist()
                    fail("C05:Image.sample:constant-padding", f"constant padding {c} differs from interpolating the image extended by {c}: "
                         f"deepali {float(gotc[tuple(j)]):.6g} reference {float(refc[tuple(j)]):.6g} at source index {xw[tuple(j)].tolist()}",
                         **ctx, wide=wide)
                far = ((xw < -1.001) | (xw > n + 0.001)).any(dim=-1)
                if bool(far.any()) and bool(((gotc[far] - c).abs() > 1e-5 * (1 + abs(c))).any()):
                    fail("C05:Image.sample:constant-padding:far", "far outside the image the constant is not returned", **ctx)
            # module API
            counts["modules"] += 1
            axn = rng.choice([None, "GRID", "CUBE", "CUBE_CORNERS", "WORLD"])
            x32 = data.unsqueeze(0).float()
            refm, _ = sitk_resample(src, data, tgt, mode, 0.0)
            for cls in (SampleImage, AlignImage, TransformImage):
                m = cls(tgt, src, axes=None if axn is None else AX[axn], sampling=mode, padding=pad_arg(padding))
                if cls is SampleImage:
                    om = m(tgt.points(m.axes()).unsqueeze(0), x32)
                    if axn is None:
                        # documented default: points are normalised coordinates of the target grid w.r.t. the cube convention
                        # of target.align_corners(); coordinates supplied by the caller (not derived from m.axes())
                        if m.axes() != Axes.from_grid(tgt):
                            fail("C05:SampleImage:default-axes", f"default axes {m.axes()} for a target with align_corners="
                                 f"{tgt.align_corners()} (documented: {Axes.from_grid(tgt)})", **ctx)
                        oc_ = m(tgt.coords(align_corners=tgt.align_corners()).unsqueeze(0), x32)
                        dmc = (oc_.double()[0, 0] - torch.from_numpy(refm)).abs()
                        if bool((dmc[sel] > tol).any()):
                            j = torch.nonzero((dmc > tol) & sel)[0].tolist()
                            fail(f"C05:SampleImage:default:caller-coords:{mode}:vs-itk",
                                 f"SampleImage(target, source)(target.coords(align_corners={tgt.align_corners()}), image) differs from "
                                 f"sitk.Resample at target sample {j[::-1]} (x,..): deepali {float(oc_.double()[0, 0][tuple(j)]):.6g} "
                                 f"ITK {float(refm[tuple(j)]):.6g}", data=data.tolist(), **ctx)
                else:
                    om = m(None, x32)
                dm = (om.double()[0, 0] - torch.from_numpy(refm)).abs()
                if tuple(om.shape[2:]) != tuple(tgt.shape) or bool((dm[sel] > tol).any()):
                    fail(f"C05:{cls.__name__}:{axn or 'default'}:{mode}:vs-itk", "module output differs from sitk.Resample inside the source field of view", **ctx)
            if not bool(torch.equal(im.tensor().double(), data)):
                fail("C05:Image.sample:mutates-input", "sampling modified the source image data", **ctx)
        except Exception as e:  # noqa
            import traceback
            fail(f"C05:oracle:{mode}:raises", f"raises {type(e).__name__}: {str(e)[:160]} @ {traceback.format_exc(limit=2)[-200:]}", **ctx)
    return {"fails": fails, "counts": counts}


if __name__ == "__main__":
    payload = json.load(sys.stdin)
    fn = {"model_cases": model_cases, "itk_cases": itk_cases, "oracle": oracle}[payload["fn"]]
    emit_json(fn(payload))
