(* C07 -- inverse() really inverts: T^-1(T(x)) = x for every invertible transform model.
   Statements only; every proof is `exact <lemma>`.  K ranges over all fields; the matrices are the
   traces of the tensor() bodies of spatial/linear.py regenerated on every run (Gen/LinInv.v);
   `inverts D f A B` says: B o A = id and A o B = id as point maps of operands of form f. *)
From Coq Require Import ZArith QArith Qcanon List Bool.
From DV Require Import Base.Field Base.LinAlg Base.QcInst Model.Enums Model.Homog Model.Rotation
  Gen.Euler Gen.Quat Gen.LinInv Gen.TState Model.TransformState Model.TransformStateRun Model.TransformStateEx Model.TransformCfg
  Model.VelocityAffine Base.FieldFacts
  Proofs.C07Linear Proofs.C07Sequential Proofs.C07Shared Proofs.C07Velocity Proofs.C07Reparam Proofs.C07Refuted Proofs.C09Skeleton.
Import ListNotations.
Local Open Scope fld_scope.

(* 1. Translation: negated offset *)
Theorem C07_translation :
  forall (K : fld), is_field K -> forall p0 p1 p2 : K,
  inverts K 2 FT (gen_translation2_fwd p0 p1) (gen_translation2_inv p0 p1) /\
  inverts K 3 FT (gen_translation3_fwd p0 p1 p2) (gen_translation3_inv p0 p1 p2).
Proof. exact (fun K Kf p0 p1 p2 => conj (translation2_inverts K Kf p0 p1) (translation3_inverts K Kf p0 p1 p2)). Qed.
Print Assumptions C07_translation.

(* 2. Scalings: reciprocal factors, for every non-zero factor *)
Theorem C07_scaling :
  forall (K : fld), is_field K -> forall p0 p1 p2 : K, p0 <> 0 -> p1 <> 0 -> p2 <> 0 ->
  inverts K 2 FA (gen_isoscale2_fwd p0) (gen_isoscale2_inv p0) /\
  inverts K 3 FA (gen_isoscale3_fwd p0) (gen_isoscale3_inv p0) /\
  inverts K 2 FA (gen_anisoscale2_fwd p0 p1) (gen_anisoscale2_inv p0 p1) /\
  inverts K 3 FA (gen_anisoscale3_fwd p0 p1 p2) (gen_anisoscale3_inv p0 p1 p2).
Proof.
  exact (fun K Kf p0 p1 p2 H0 H1 H2 =>
    conj (isoscale2_inverts K Kf p0 H0) (conj (isoscale3_inverts K Kf p0 H0)
    (conj (anisoscale2_inverts K Kf p0 p1 H0 H1) (anisoscale3_inverts K Kf p0 p1 p2 H0 H1 H2)))).
Qed.
Print Assumptions C07_scaling.

(* 3. Shearing (t_i = tan of the shear angles): always invertible *)
Theorem C07_shearing :
  forall (K : fld), is_field K -> forall t0 t1 t2 : K,
  inverts K 2 FA (gen_shear2_fwd t0) (gen_shear2_inv t0) /\
  inverts K 3 FA (gen_shear3_fwd t0 t1 t2) (gen_shear3_inv t0 t1 t2).
Proof. exact (fun K Kf t0 t1 t2 => conj (shear2_inverts K Kf t0) (shear3_inverts K Kf t0 t1 t2)). Qed.
Print Assumptions C07_shearing.

(* 4. Euler rotations, all 27 orders and 2-D: the inverted tensor is the transpose and inverts the
      rotation for all (c_i, s_i) on the unit circle -- i.e. for all angles *)
Theorem C07_euler_rotation :
  forall (K : fld), is_field K -> forall (o : order) (c0 c1 c2 s0 s1 s2 : K),
  c0 * c0 + s0 * s0 = 1 -> c1 * c1 + s1 * s1 = 1 -> c2 * c2 + s2 * s2 = 1 ->
  gen_euler3_fwd o c0 c1 c2 s0 s1 s2 = gen_euler o c0 c1 c2 s0 s1 s2 /\
  gen_euler3_inv o c0 c1 c2 s0 s1 s2 = mT 3 (gen_euler3_fwd o c0 c1 c2 s0 s1 s2) /\
  inverts K 3 FA (gen_euler3_fwd o c0 c1 c2 s0 s1 s2) (gen_euler3_inv o c0 c1 c2 s0 s1 s2) /\
  inverts K 2 FA (gen_euler2_fwd c0 s0) (gen_euler2_inv c0 s0).
Proof.
  exact (fun K Kf o c0 c1 c2 s0 s1 s2 H0 H1 H2 =>
    conj (euler3_fwd_is_gen_euler K o c0 c1 c2 s0 s1 s2) (conj (euler3_inv_is_transpose K o c0 c1 c2 s0 s1 s2)
    (conj (euler3_inverts K Kf o c0 c1 c2 s0 s1 s2 H0 H1 H2) (euler2_inverts K Kf c0 s0 H0)))).
Qed.
Print Assumptions C07_euler_rotation.

(* 5. Quaternion rotation (n = the norm the code divides by) *)
Theorem C07_quaternion_rotation :
  forall (K : fld), is_field K -> forall n w x y z : K,
  n <> 0 -> n * n = gen_quat_norm2 w x y z ->
  inverts K 3 FA (gen_quaternion_fwd n w x y z) (gen_quaternion_inv n w x y z).
Proof. exact quaternion_inverts. Qed.
Print Assumptions C07_quaternion_rotation.

(* 6. Homogeneous transform: inverse of the augmented matrix, whenever the linear part is invertible *)
Theorem C07_homogeneous :
  forall (K : fld), is_field K ->
  (forall h00 h01 h02 h10 h11 h12 : K, det2 [[h00; h01]; [h10; h11]] <> 0 ->
     inverts K 2 FH (gen_homogeneous2_fwd h00 h01 h02 h10 h11 h12) (gen_homogeneous2_inv h00 h01 h02 h10 h11 h12)) /\
  (forall h00 h01 h02 h03 h10 h11 h12 h13 h20 h21 h22 h23 : K,
     det3 [[h00; h01; h02]; [h10; h11; h12]; [h20; h21; h22]] <> 0 ->
     inverts K 3 FH (gen_homogeneous3_fwd h00 h01 h02 h03 h10 h11 h12 h13 h20 h21 h22 h23)
                    (gen_homogeneous3_inv h00 h01 h02 h03 h10 h11 h12 h13 h20 h21 h22 h23)).
Proof. exact (fun K Kf => conj (homogeneous2_inverts K Kf) (homogeneous3_inverts K Kf)). Qed.
Print Assumptions C07_homogeneous.

(* 7. SequentialTransform.inverse (reversed list of member inverses) inverts the composite, in both
      orders, for composites of ANY length, over any point type *)
Theorem C07_sequential_inverse :
  forall (X : Type) (l : list (member X)),
  (Forall (fun p => forall x, snd p (fst p x) = x) l ->
     forall x, apply_seq X (map fst (inverse_seq X l)) (apply_seq X (map fst l) x) = x) /\
  (Forall (fun p => forall x, fst p (snd p x) = x) l ->
     forall x, apply_seq X (map fst l) (apply_seq X (map fst (inverse_seq X l)) x) = x).
Proof. exact (fun X l => conj (sequential_inverse X l) (sequential_inverse_other_order X l)). Qed.
Print Assumptions C07_sequential_inverse.

(* 8. The inverse shares the forward parameters: in the transform state machine (Model/TransformState.v,
      configuration read from the source), after inverse(link=False, update_buffers=any) of a transform
      holding a tensor or Parameter, and then ANY sequence of in-place parameter updates through any
      objects, the two transforms hold the same parameters and grid with opposite sign.  (Together with
      C09_call_is_fresh: calling them evaluates exactly that.) *)
Theorem C07_inverse_stays_inverse :
  forall (P G C : Type) (p0 : P) (fillP : P -> P -> P) (callP : nat -> option C -> P)
         (s : state P G C) o upd n s1 ob r ip (es : list (nat * P)),
  get_obj P G C s o = Some ob -> get_params P G C s ob = Some (VTen r ip) ->
  inverse1 P G C p0 gen_cfg s o false upd = Ok n s1 ->
  exists p g sg, held P G C p0 callP (edits p0 fillP s1 es) o = Some (p, g, sg) /\
                 held P G C p0 callP (edits p0 fillP s1 es) n = Some (p, g, negb sg).
Proof. exact (fun P G C p0 fillP callP => inverse_stays_inverse p0 fillP callP gen_cfg gen_cfg_all). Qed.
Print Assumptions C07_inverse_stays_inverse.

(* 8b. ... the same for link in {False, True} when the transform holds a fixed tensor (Parameter + link
       raises, see 9), and for link=False when the parameters come from a callable (both evaluate the
       same callable on the same condition) *)
Theorem C07_inverse_stays_inverse_link_and_callable :
  forall (P G C : Type) (p0 : P) (fillP : P -> P -> P) (callP : nat -> option C -> P)
         (s : state P G C) o link upd n s1 ob (es : list (nat * P)),
  get_obj P G C s o = Some ob ->
  ((exists r ip, get_params P G C s ob = Some (VTen r ip)) \/
   (link = false /\ exists f, get_params P G C s ob = Some (VFun f))) ->
  inverse1 P G C p0 gen_cfg s o link upd = Ok n s1 ->
  exists p g sg, held P G C p0 callP (edits p0 fillP s1 es) o = Some (p, g, sg) /\
                 held P G C p0 callP (edits p0 fillP s1 es) n = Some (p, g, negb sg).
Proof. exact (fun P G C p0 fillP callP => inverse_stays_inverse_general p0 fillP callP gen_cfg gen_cfg_all). Qed.
Print Assumptions C07_inverse_stays_inverse_link_and_callable.

(* 8d. inverse(update_buffers=True) of a velocity-field model whose velocity field is buffered: the
       inverse's buffered displacement is the exponential of that velocity field with the NEGATED sign, on
       the same grid -- the inverse is usable through forward()/tensor()/disp() without update().  (Rests
       on the statement order read from the source: the negated ExpFlow is assigned before the
       update_buffers block uses it.) *)
Theorem C07_inverse_update_buffers_gives_inverse_field :
  forall (P G C : Type) (p0 : P) (s : state P G C) o n s1 ob vb,
  get_obj P G C s o = Some ob -> has_exp (o_kind P G C ob) = true -> o_v P G C ob = Some vb ->
  inverse1 P G C p0 gen_cfg s o false true = Ok n s1 ->
  exists obn, get_obj P G C s1 n = Some obn /\
    o_u P G C obn = Some (mkU P G (Snap P (u_content P G C p0 s vb)) (u_grid P G vb) (negb (o_inv P G C ob))).
Proof. exact (fun P G C p0 => inverse_update_buffers_field p0 gen_cfg gen_cfg_all). Qed.
Print Assumptions C07_inverse_update_buffers_gives_inverse_field.

(* 8c. Velocity-field models on an affine invariant generator v(x) = h x (each axis of a diagonal
       generator): for EVERY number k of scaling-and-squaring steps the inverse composed with the forward
       map is x -> (1 - h^2/4^k)^(2^k) x exactly -- the identity up to a term of second order in h.
       (exp_k k s h = (1 + s h / 2^k)^(2^k) is the multiplier the code computes: compared with
       StationaryVelocityFieldTransform on every run, agreement ~1e-9.) *)
Theorem C07_affine_generator_second_order :
  forall (K : fld), is_field K -> char0 K -> forall (k : nat) (h : K),
  exp_k k (- (1)) h * exp_k k 1 h = sq_iter k (1 - h * h / (pow2 k * pow2 k)).
Proof. exact round_trip_second_order. Qed.
Print Assumptions C07_affine_generator_second_order.

(* 9. inverse(link=True) / .inv on a transform that holds an nn.Parameter (repaired by 34360e2: link_
      gives the copy a private _parameters dict without `params`): it succeeds, the original keeps its nn.Parameter,
      and the inverse reads that very cell -- so it follows every later in-place edit /
      optimiser step (8b applies: its hypothesis VTen r ip covers ip = true). *)
Theorem C07_inverse_link_parameter :
  forall (P G C : Type) (p0 : P) (fillP : P -> P -> P) (callP : nat -> option C -> P)
         (s : state P G C) o upd ob r,
  get_obj P G C s o = Some ob -> invertible (o_kind P G C ob) = true ->
  get_params P G C s ob = Some (VTen r true) -> get_pd P G C s (o_pd P G C ob) = Some (Some r) ->
  exists n s1,
    inverse1 P G C p0 gen_cfg s o true upd = Ok n s1 /\
    get_obj P G C s1 o = Some ob /\ get_params P G C s1 ob = Some (VTen r true) /\
    forall es : list (nat * P),
      exists p g sg, held P G C p0 callP (edits p0 fillP s1 es) o = Some (p, g, sg) /\
                     held P G C p0 callP (edits p0 fillP s1 es) n = Some (p, g, negb sg).
Proof. exact (fun P G C p0 fillP callP => inverse_link_parameter p0 fillP callP gen_cfg gen_cfg_all). Qed.
Print Assumptions C07_inverse_link_parameter.

(* 9b. ... including the re-parameterised classes (EulerRotation, Isotropic/AnisotropicScaling, Shearing):
       has_parameters(), which switches the tanh / exp re-parameterisation of angles() / scales(), is traced
       from the source for every class and every way `params` can be held -- a linked transform answers what
       the transform it is linked to answers (repaired by 338287c), and only an nn.Parameter is
       re-parameterised.  Hence forward and linked inverse feed the SAME (c_i, s_i) / scales / tan into the
       tensor() forms of theorems 2-4, which invert each other. *)
Theorem C07_linked_inverse_same_reparameterisation : link_follows_reparam = true.
Proof. exact link_follows_reparam_ok. Qed.
Print Assumptions C07_linked_inverse_same_reparameterisation.

(* 10. GenericSpatialTransform (spatial/generic.py) is a SequentialTransform whose member parameters may come
       from a callable: its inverse() is the SequentialTransform inverse (theorem 7) and replaces the source of
       the parameters only for link=True; without link the copy keeps the callable and its update() re-runs it
       and writes the result into the members before the cascade -- read from the source on every run.  (The
       numerical consequence -- the inverse keeps inverting after the callable's output changed or both were
       re-conditioned -- is evaluated by the search on the implementation.) *)
Theorem C07_generic_inverse_keeps_parameter_source : gen_generic_inverse_ok = true.
Proof. exact generic_inverse_ok. Qed.
Print Assumptions C07_generic_inverse_keeps_parameter_source.

(* 11. Replacement (data_) instead of an in-place update of the forward parameters: followed by the inverse
       for link=True (both parameter kinds) and, for link=False, when the parameters are an nn.Parameter
       (shared _parameters dict); NOT followed for link=False with a fixed tensor -- the inverse keeps the
       old tensor (last conjunct: it still applies -(1/8, 2/8)).  Witnesses on the executable instance; the
       implementation agrees (correspondence histories contain data_ after inverse). *)
Theorem C07_replacement_followed_through_shared_container :
  call_gives (h_replace true false) 1%nat (qv (-3) 5) = true /\
  call_gives (h_replace false true) 1%nat (qv (-3) 5) = true /\
  call_gives (h_replace true true) 1%nat (qv (-3) 5) = true /\
  call_gives (h_replace false false) 1%nat (qv (-1) (-2)) = true.
Proof. exact replacement_followed_through_shared_container. Qed.
Print Assumptions C07_replacement_followed_through_shared_container.

(* non-vacuity: a proper rotation / invertible matrices satisfy the hypotheses; linked and unlinked
   inverses follow an in-place update on the executable instance *)
Example C07_nonvacuous :
  qeqb (Qcplus (Qcmult (q 3 5) (q 3 5)) (Qcmult (q 4 5) (q 4 5))) (q 1 1) = true /\
  call_gives h_link 1%nat (qv (-3) 5) = true /\ call_gives h_nolink 1%nat (qv (-3) 5) = true /\
  (call_gives h_link_param 1%nat (qv (-3) 5) = true /\ keeps_parameter h_link_param 0%nat = true /\
   call_gives h_link_param_svf 1%nat (qv (-3) 5) = true).
Proof.
  split; [vm_compute; reflexivity|].
  split; [exact (proj1 (proj2 inverse_follows_updates))|].
  split; [exact (proj2 (proj2 (proj2 inverse_follows_updates)))|].
  destruct inverse_link_parameter_follows as (_ & A & B & _ & D & _). exact (conj A (conj B D)).
Qed.
