(* The Lie bracket of core/flow.py (generated formula over the Jacobians) is bilinear for every pair of linear derivative
   operators (one per argument), and antisymmetric when both Jacobians are computed by the SAME operator -- which is what the
   source does: the options lie_bracket forwards to flow_derivatives for its two Jacobians are identical (generated). *)
From Coq Require Import ZArith List Field Ring Lia Bool.
From DV Require Import Base.Field Base.LinAlg Base.Tactics Model.BCH Gen.FlowDeriv Gen.FlowBCH Model.Lie.
Import ListNotations.
Local Open Scope fld_scope.

Section LieFacts.
Variable K : fld.
Hypothesis Kf : is_field K.
Add Field KFL : Kf.
Variable P : Type.

Section TwoOps.
Variables dxv dxu : nat -> (P -> K) -> (P -> K).
Hypothesis Hv : linear_opg P dxv.
Hypothesis Hu : linear_opg P dxu.

Ltac lin := destruct Hv as [Hvadd Hvsc]; destruct Hu as [Huadd Husc]; intro p;
  cbn [fst snd lie2g lie3g vadd2 vscale2 vadd3 vscale3];
  rewrite ?Hvadd, ?Hvsc, ?Huadd, ?Husc; unfold gen_lie2, gen_lie3, sadd, sscale; cbn [nth]; repeat split; ring.

Theorem lie2g_add_l v v' u : veq2 P (lie2g P dxv dxu (vadd2 P v v') u) (vadd2 P (lie2g P dxv dxu v u) (lie2g P dxv dxu v' u)).
Proof. destruct v as [v0 v1], v' as [w0 w1], u as [u0 u1]. lin. Qed.
Theorem lie2g_add_r v u u' : veq2 P (lie2g P dxv dxu v (vadd2 P u u')) (vadd2 P (lie2g P dxv dxu v u) (lie2g P dxv dxu v u')).
Proof. destruct v as [v0 v1], u' as [w0 w1], u as [u0 u1]. lin. Qed.
Theorem lie2g_scale_l c v u : veq2 P (lie2g P dxv dxu (vscale2 P c v) u) (vscale2 P c (lie2g P dxv dxu v u)).
Proof. destruct v as [v0 v1], u as [u0 u1]. lin. Qed.
Theorem lie2g_scale_r c v u : veq2 P (lie2g P dxv dxu v (vscale2 P c u)) (vscale2 P c (lie2g P dxv dxu v u)).
Proof. destruct v as [v0 v1], u as [u0 u1]. lin. Qed.
(* swapping the arguments AND the operators negates the bracket *)
Theorem lie2g_swap v u : veq2 P (lie2g P dxv dxu v u) (vscale2 P (- (1)) (lie2g P dxu dxv u v)).
Proof. destruct v as [v0 v1], u as [u0 u1]. lin. Qed.

Theorem lie3g_add_l v v' u : veq3 P (lie3g P dxv dxu (vadd3 P v v') u) (vadd3 P (lie3g P dxv dxu v u) (lie3g P dxv dxu v' u)).
Proof. destruct v as [[v0 v1] v2], v' as [[w0 w1] w2], u as [[u0 u1] u2]. lin. Qed.
Theorem lie3g_add_r v u u' : veq3 P (lie3g P dxv dxu v (vadd3 P u u')) (vadd3 P (lie3g P dxv dxu v u) (lie3g P dxv dxu v u')).
Proof. destruct v as [[v0 v1] v2], u' as [[w0 w1] w2], u as [[u0 u1] u2]. lin. Qed.
Theorem lie3g_scale_l c v u : veq3 P (lie3g P dxv dxu (vscale3 P c v) u) (vscale3 P c (lie3g P dxv dxu v u)).
Proof. destruct v as [[v0 v1] v2], u as [[u0 u1] u2]. lin. Qed.
Theorem lie3g_scale_r c v u : veq3 P (lie3g P dxv dxu v (vscale3 P c u)) (vscale3 P c (lie3g P dxv dxu v u)).
Proof. destruct v as [[v0 v1] v2], u as [[u0 u1] u2]. lin. Qed.
Theorem lie3g_swap v u : veq3 P (lie3g P dxv dxu v u) (vscale3 P (- (1)) (lie3g P dxu dxv u v)).
Proof. destruct v as [[v0 v1] v2], u as [[u0 u1] u2]. lin. Qed.
End TwoOps.

(* one operator for both arguments *)
Variable dx : nat -> (P -> K) -> (P -> K).
Hypothesis Hlin : linear_op P dx.
Theorem lie2_add_l v v' u : veq2 P (lie2 P dx (vadd2 P v v') u) (vadd2 P (lie2 P dx v u) (lie2 P dx v' u)).
Proof. now apply lie2g_add_l. Qed.
Theorem lie2_add_r v u u' : veq2 P (lie2 P dx v (vadd2 P u u')) (vadd2 P (lie2 P dx v u) (lie2 P dx v u')).
Proof. now apply lie2g_add_r. Qed.
Theorem lie2_scale_l c v u : veq2 P (lie2 P dx (vscale2 P c v) u) (vscale2 P c (lie2 P dx v u)).
Proof. now apply lie2g_scale_l. Qed.
Theorem lie2_scale_r c v u : veq2 P (lie2 P dx v (vscale2 P c u)) (vscale2 P c (lie2 P dx v u)).
Proof. now apply lie2g_scale_r. Qed.
Theorem lie2_antisym v u : veq2 P (lie2 P dx v u) (vscale2 P (- (1)) (lie2 P dx u v)).
Proof. now apply lie2g_swap. Qed.
Theorem lie2_self v : veq2 P (lie2 P dx v v) (fun _ => 0, fun _ => 0).
Proof. destruct v as [v0 v1]. intro p. cbn [fst snd]. unfold lie2, lie2g, gen_lie2. cbn [nth fst snd]. split; ring. Qed.
Theorem lie3_add_l v v' u : veq3 P (lie3 P dx (vadd3 P v v') u) (vadd3 P (lie3 P dx v u) (lie3 P dx v' u)).
Proof. now apply lie3g_add_l. Qed.
Theorem lie3_add_r v u u' : veq3 P (lie3 P dx v (vadd3 P u u')) (vadd3 P (lie3 P dx v u) (lie3 P dx v u')).
Proof. now apply lie3g_add_r. Qed.
Theorem lie3_scale_l c v u : veq3 P (lie3 P dx (vscale3 P c v) u) (vscale3 P c (lie3 P dx v u)).
Proof. now apply lie3g_scale_l. Qed.
Theorem lie3_scale_r c v u : veq3 P (lie3 P dx v (vscale3 P c u)) (vscale3 P c (lie3 P dx v u)).
Proof. now apply lie3g_scale_r. Qed.
Theorem lie3_antisym v u : veq3 P (lie3 P dx v u) (vscale3 P (- (1)) (lie3 P dx u v)).
Proof. now apply lie3g_swap. Qed.
Theorem lie3_self v : veq3 P (lie3 P dx v v) (fun _ => 0, fun _ => 0, fun _ => 0).
Proof. destruct v as [[v0 v1] v2]. intro p. cbn [fst snd]. unfold lie3, lie3g, gen_lie3. cbn [nth fst snd]. repeat split; ring. Qed.

(* ---- lie_bracket AS CODED: the operator of each Jacobian is determined by the options the source forwards for it ---- *)
Lemma gen_lie_opts_equal : gen_lie_opts_first_arg = gen_lie_opts_second_arg.
Proof. reflexivity. Qed.
Lemma gen_lie_opts_all : gen_lie_opts_first_arg = (true, true, true, true) /\ gen_lie_opts_second_arg = (true, true, true, true).
Proof. split; reflexivity. Qed.

Variable dxo : lopts -> nat -> (P -> K) -> (P -> K).
Hypothesis Hlo : forall o, linear_opg P (dxo o).
Theorem lie2_code_is_single_operator v u : lie2_code P dxo v u = lie2 P (dxo (true, true, true, true)) v u.
Proof. unfold lie2_code, lie2. destruct gen_lie_opts_all as [-> ->]. reflexivity. Qed.
Theorem lie3_code_is_single_operator v u : lie3_code P dxo v u = lie3 P (dxo (true, true, true, true)) v u.
Proof. unfold lie3_code, lie3. destruct gen_lie_opts_all as [-> ->]. reflexivity. Qed.
Theorem lie2_code_antisym v u : veq2 P (lie2_code P dxo v u) (vscale2 P (- (1)) (lie2_code P dxo u v)).
Proof. unfold lie2_code. rewrite gen_lie_opts_equal. now apply lie2g_swap. Qed.
Theorem lie3_code_antisym v u : veq3 P (lie3_code P dxo v u) (vscale3 P (- (1)) (lie3_code P dxo u v)).
Proof. unfold lie3_code. rewrite gen_lie_opts_equal. now apply lie3g_swap. Qed.
Theorem lie2_code_self v : veq2 P (lie2_code P dxo v v) (fun _ => 0, fun _ => 0).
Proof.
  rewrite lie2_code_is_single_operator. destruct v as [v0 v1]. intro p. cbn [fst snd]. unfold lie2, lie2g, gen_lie2.
  cbn [nth fst snd]. split; ring.
Qed.
Theorem lie3_code_self v : veq3 P (lie3_code P dxo v v) (fun _ => 0, fun _ => 0, fun _ => 0).
Proof.
  rewrite lie3_code_is_single_operator. destruct v as [[v0 v1] v2]. intro p. cbn [fst snd]. unfold lie3, lie3g, gen_lie3.
  cbn [nth fst snd]. repeat split; ring.
Qed.
Theorem lie2_code_bilinear c v v' u u' :
  veq2 P (lie2_code P dxo (vadd2 P v v') u) (vadd2 P (lie2_code P dxo v u) (lie2_code P dxo v' u)) /\
  veq2 P (lie2_code P dxo v (vadd2 P u u')) (vadd2 P (lie2_code P dxo v u) (lie2_code P dxo v u')) /\
  veq2 P (lie2_code P dxo (vscale2 P c v) u) (vscale2 P c (lie2_code P dxo v u)) /\
  veq2 P (lie2_code P dxo v (vscale2 P c u)) (vscale2 P c (lie2_code P dxo v u)).
Proof.
  unfold lie2_code. split; [|split; [|split]];
    [apply lie2g_add_l | apply lie2g_add_r | apply lie2g_scale_l | apply lie2g_scale_r]; apply Hlo.
Qed.
Theorem lie3_code_bilinear c v v' u u' :
  veq3 P (lie3_code P dxo (vadd3 P v v') u) (vadd3 P (lie3_code P dxo v u) (lie3_code P dxo v' u)) /\
  veq3 P (lie3_code P dxo v (vadd3 P u u')) (vadd3 P (lie3_code P dxo v u) (lie3_code P dxo v u')) /\
  veq3 P (lie3_code P dxo (vscale3 P c v) u) (vscale3 P c (lie3_code P dxo v u)) /\
  veq3 P (lie3_code P dxo v (vscale3 P c u)) (vscale3 P c (lie3_code P dxo v u)).
Proof.
  unfold lie3_code. split; [|split; [|split]];
    [apply lie3g_add_l | apply lie3g_add_r | apply lie3g_scale_l | apply lie3g_scale_r]; apply Hlo.
Qed.
End LieFacts.
