(* C16 -- Image similarity and overlap losses satisfy their defining axioms.
   Statements only; every proof is `exact <lemma>`.  A list of any length is a flattened image of
   any shape / batch / channel count; K ranges over all fields (instances: Qc runs the model in the
   correspondence check, R is the semantics); facts that need order are stated over R.
   The model (Model/Losses.v) is tied to losses/functional.py by the C16_gen_* theorems (formulas
   traced from the source on short symbolic images) and by the correspondence check. *)
From Coq Require Import ZArith QArith List Reals Bool.
From DV Require Import Base.Field Base.LinAlg Base.RInst Base.QcInst Model.Losses Model.LossesR Gen.Losses
  Proofs.C16Lists Proofs.C16Pointwise Proofs.C16Corr Proofs.C16Overlap Proofs.C16MI Proofs.C16Real
  Proofs.C16Gen Proofs.C16GenWin Proofs.C16GenWin2 Proofs.C16Box.
Import ListNotations.
Local Open Scope fld_scope.

(* ================= 1. pointwise losses: identical inputs, symmetry, masks, reductions, norm ========== *)

(* zero for identical inputs: any pointwise loss vanishing on the diagonal, any mask / reduction / norm *)
Theorem C16_pointwise_identical :
  forall (K : fld), is_field K -> forall (fleb : K -> K -> bool) (f : K -> K -> K) r (x : list K) m norm,
  (forall a, f a a = 0) -> Forall (fun v => v = 0) (elementwise_loss fleb f r x x m norm).
Proof. exact elementwise_identical. Qed.
Print Assumptions C16_pointwise_identical.

Theorem C16_diagonals :
  (forall (K : fld), is_field K -> forall a : K, sqd a a = 0) /\
  (forall a : R, absd (K:=RF) Rabs' a a = 0%R) /\
  (forall delta a : R, (0 <= delta)%R -> huber (K:=RF) Rabs' Rleb' delta a a = 0%R) /\
  (forall beta a : R, (0 <= beta)%R -> smooth_l1 (K:=RF) Rabs' Rleb' beta a a = 0%R).
Proof. exact (conj sqd_diag (conj absd_diag (conj huber_diag smooth_l1_diag))). Qed.
Print Assumptions C16_diagonals.

Theorem C16_pointwise_symmetric :
  forall (K : fld), is_field K -> forall (fleb : K -> K -> bool) (f : K -> K -> K) r (x y : list K) m norm,
  (forall a b, f a b = f b a) ->
  elementwise_loss fleb f r x y m norm = elementwise_loss fleb f r y x m norm.
Proof. exact (fun K _ => elementwise_symmetric K). Qed.
Print Assumptions C16_pointwise_symmetric.

Theorem C16_pointwise_kernels_symmetric :
  (forall (K : fld), is_field K -> forall a b : K, sqd a b = sqd b a) /\
  (forall a b : R, absd (K:=RF) Rabs' a b = absd (K:=RF) Rabs' b a) /\
  (forall d a b : R, huber (K:=RF) Rabs' Rleb' d a b = huber (K:=RF) Rabs' Rleb' d b a) /\
  (forall d a b : R, smooth_l1 (K:=RF) Rabs' Rleb' d a b = smooth_l1 (K:=RF) Rabs' Rleb' d b a).
Proof. exact (conj sqd_sym (conj absd_sym (conj huber_sym smooth_l1_sym))). Qed.
Print Assumptions C16_pointwise_kernels_symmetric.

(* samples where the mask is zero are ignored entirely (both images may change there arbitrarily) *)
Theorem C16_mask_zero_ignored :
  forall (K : fld), is_field K -> forall (fleb : K -> K -> bool) (f : K -> K -> K) r (m x x' y y' : list K) norm,
  same_on_mask m x x' y y' ->
  elementwise_loss fleb f r x y (Some m) norm = elementwise_loss fleb f r x' y' (Some m) norm.
Proof. exact mask_zero_ignored. Qed.
Print Assumptions C16_mask_zero_ignored.

(* with a binary mask, 'mean' is the mean over the selected samples only *)
Theorem C16_masked_mean_over_region :
  forall (K : fld), is_field K -> forall (b : list bool) (l : list K),
  length b = length l ->
  reduce_loss RMean (masked_loss l (Some (mask_of b))) (Some (mask_of b)) = [vmean (select b l)].
Proof. exact masked_mean_region. Qed.
Print Assumptions C16_masked_mean_over_region.

(* 'sum' / 'mean' are the sum / mean of 'none' (mean: divided by the mask sum when a mask is given) *)
Theorem C16_sum_mean_of_none :
  forall (K : fld), is_field K -> forall (fleb : K -> K -> bool) (f : K -> K -> K) (x y : list K) m norm,
  let none := elementwise_loss fleb f RNone x y m norm in
  elementwise_loss fleb f RSum x y m norm = [vsum none] /\
  elementwise_loss fleb f RMean x y m norm = [vsum none / mean_divisor K none m].
Proof. intros K Kf fleb f x y m norm. split; [exact (sum_of_none K Kf fleb f x y m norm) | exact (mean_of_none K Kf fleb f x y m norm)]. Qed.
Print Assumptions C16_sum_mean_of_none.

(* normalisation factor: norm = c^2 (c > 0 for |.|: norm = c) is the loss of the images divided by c *)
Theorem C16_norm_scaling :
  (forall (K : fld), is_field K -> forall r (c : K) (x y : list K) m, c <> 0 ->
     pointwise_loss sqd r (map (fun a => a / c) x) (map (fun a => a / c) y) m
     = div_norm (c * c) (pointwise_loss sqd r x y m)) /\
  (forall r (c : RF) (x y : list RF) m, (0 < c)%R ->
     pointwise_loss (absd (K:=RF) Rabs') r (map (fun a => a / c) x) (map (fun a => a / c) y) m
     = div_norm (K:=RF) c (pointwise_loss (absd (K:=RF) Rabs') r x y m)) /\
  (forall (K : fld) (fleb : K -> K -> bool) (c : K) (v : list K),
     fleb c 0 = false -> apply_norm fleb (Some c) v = div_norm c v).
Proof. exact (conj ssd_norm_is_prescaling (conj mae_norm_is_prescaling apply_norm_pos)). Qed.
Print Assumptions C16_norm_scaling.

(* non-negativity (range) of the pointwise losses over R *)
Theorem C16_pointwise_nonneg :
  forall (f : RF -> RF -> RF) r (x y : list RF) m norm,
  (forall a b, (0 <= f a b)%R) -> mask_ok m (vmap2 f x y) ->
  Forall (fun v => (0 <= v)%R) (elementwise_loss Rleb' f r x y m norm).
Proof. exact elementwise_nonneg. Qed.
Print Assumptions C16_pointwise_nonneg.

Theorem C16_pointwise_kernels_nonneg :
  (forall a b : R, (0 <= sqd (K:=RF) a b)%R) /\ (forall a b : R, (0 <= absd (K:=RF) Rabs' a b)%R) /\
  (forall d a b : R, (0 <= d)%R -> (0 <= huber (K:=RF) Rabs' Rleb' d a b)%R) /\
  (forall d a b : R, (0 <= d)%R -> (0 <= smooth_l1 (K:=RF) Rabs' Rleb' d a b)%R).
Proof. exact (conj sqd_nonneg (conj absd_nonneg (conj huber_nonneg smooth_l1_nonneg))). Qed.
Print Assumptions C16_pointwise_kernels_nonneg.

(* every documented mask shape (1|N, 1|C, X) is accepted and broadcast over the missing dimension *)
Theorem C16_mask_shapes_accepted :
  forall (A : Type) (n : nat) (l : list A), length l = 1%nat \/ length l = n ->
  exists e, expand_dim n l = Some e /\ length e = n /\
            forall i d, (i < n)%nat -> nth i e d = nth (if Nat.eqb (length l) 1 then 0 else i) l d.
Proof. exact (fun A => @expand_dim_ok A). Qed.
Print Assumptions C16_mask_shapes_accepted.

(* ================= 2. global normalised cross correlation ============================================ *)
Theorem C16_ncc_identical :
  forall (K : fld), is_field K -> forall (eps : K) (s : list K),
  let b := dot (center s) (center s) in
  (b * b + eps <> 0 -> ncc_one eps s s = eps / (b * b + eps)) /\ (b <> 0 -> ncc_one 0 s s = 0).
Proof. intros K Kf eps s. split; [exact (ncc_identical K Kf eps s) | exact (ncc_identical_zero K Kf s)]. Qed.
Print Assumptions C16_ncc_identical.

Theorem C16_ncc_range :
  forall (eps : RF) (s t : list RF),
  (0 <= eps)%R -> (0 < dot (center s) (center s) * dot (center t) (center t) + eps)%R ->
  (0 <= ncc_one eps s t <= 1)%R.
Proof. exact ncc_range. Qed.
Print Assumptions C16_ncc_range.

Theorem C16_ncc_symmetric :
  forall (K : fld), is_field K -> forall (eps : K) (s t : list K), ncc_one eps s t = ncc_one eps t s.
Proof. exact ncc_symmetric. Qed.
Print Assumptions C16_ncc_symmetric.

(* intensity scale and offset: a s + b with epsilon scaled by a^2 gives the same value; invariant for epsilon = 0 *)
Theorem C16_ncc_affine_invariant :
  forall (K : fld), is_field K -> forall (a b eps : K) (s t : list K),
  a <> 0 -> of_nat (K:=K) (length s) <> 0 ->
  dot (center s) (center s) * dot (center t) (center t) + eps <> 0 ->
  ncc_one (a * a * eps) (map (fun v => a * v + b) s) t = ncc_one eps s t.
Proof. exact ncc_affine. Qed.
Print Assumptions C16_ncc_affine_invariant.

Theorem C16_ncc_affine_invariant_eps0 :
  forall (K : fld), is_field K -> forall (a b : K) (s t : list K),
  a <> 0 -> of_nat (K:=K) (length s) <> 0 ->
  dot (center s) (center s) * dot (center t) (center t) <> 0 ->
  ncc_one 0 (map (fun v => a * v + b) s) t = ncc_one 0 s t.
Proof. exact ncc_affine_eps0. Qed.
Print Assumptions C16_ncc_affine_invariant_eps0.

(* ncc_loss with a mask (weighted correlation, weights = the mask broadcast to the image): symmetric, samples where
   the mask is zero are ignored entirely (both images may change there arbitrarily), value on identical inputs,
   a mask of ones is no mask, range [0, 1] by the weighted Cauchy-Schwarz inequality *)
Theorem C16_ncc_masked :
  forall (K : fld), is_field K -> forall (eps : K) (s t w : list K),
  ncc_w eps s t w = ncc_w eps t s w /\
  (forall s' t', same_on_mask w s s' t t' -> ncc_w eps s t w = ncc_w eps s' t' w) /\
  (let b := vsum (vmul (vmul (wcenter s w) w) (wcenter s w)) in b * b + eps <> 0 -> ncc_w eps s s w = eps / (b * b + eps)) /\
  (length s = length t -> ncc_w eps s t (repeat 1 (length s)) = ncc_one eps s t).
Proof.
  intros K Kf eps s t w.
  exact (conj (ncc_w_symmetric K Kf eps s t w) (conj (fun s' t' H => ncc_mask_zero_ignored K Kf eps w s s' t t' H)
        (conj (ncc_w_identical K Kf eps s w) (ncc_w_ones K Kf eps s t)))).
Qed.
Print Assumptions C16_ncc_masked.

Theorem C16_ncc_masked_range :
  forall (eps : RF) (s t w : list RF),
  nonneg w -> (0 <= eps)%R ->
  (0 < vsum (vmul (vmul (wcenter s w) w) (wcenter s w)) * vsum (vmul (vmul (wcenter t w) w) (wcenter t w)) + eps)%R ->
  (0 <= ncc_w eps s t w <= 1)%R.
Proof. exact ncc_w_range. Qed.
Print Assumptions C16_ncc_masked_range.

(* ================= 3. windowed correlation (any window system nb: any D, kernel size, shape) ========== *)
Theorem C16_lcc_range :
  forall (eps : RF) nb (s t : list RF), (0 < eps)%R -> Forall (fun v => (0 <= v <= 1)%R) (lcc_none nb eps s t).
Proof. exact lcc_range. Qed.
Print Assumptions C16_lcc_range.

Theorem C16_wlcc_range :
  forall (eps : RF) nb (s t : list RF) wc ws wt,
  (0 < eps)%R -> Forall (fun v => (0 <= v <= 1)%R) (wlcc_none nb eps s t wc ws wt).
Proof. exact wlcc_range. Qed.
Print Assumptions C16_wlcc_range.

Theorem C16_lcc_symmetric :
  forall (K : fld), is_field K -> forall r nb (eps : K) (s t : list K) m,
  lcc_loss r nb eps s t m = lcc_loss r nb eps t s m.
Proof. exact lcc_symmetric. Qed.
Print Assumptions C16_lcc_symmetric.

Theorem C16_wlcc_symmetric :
  forall (K : fld), is_field K -> forall r nb (eps : K) (s t : list K) mask smask tmask,
  wlcc_loss r nb eps s t mask smask tmask = wlcc_loss r nb eps t s mask tmask smask.
Proof. exact wlcc_symmetric. Qed.
Print Assumptions C16_wlcc_symmetric.

Theorem C16_lcc_identical :
  forall (K : fld), is_field K -> forall nb (eps : K) (s : list K),
  let x := vsub s (local_mean nb s) in
  lcc_none nb eps s s = map (fun bi => cc_score eps bi bi bi) (local_sum nb (vmul x x)) /\
  forall b : K, b * b + eps <> 0 -> cc_score eps b b b = eps / (b * b + eps).
Proof. intros K Kf nb eps s. split; [exact (lcc_identical K nb eps s) | exact (cc_score_identical K Kf eps)]. Qed.
Print Assumptions C16_lcc_identical.

Theorem C16_lcc_affine_invariant :
  forall (K : fld), is_field K -> forall (a b eps : K) nb (s t : list K),
  a <> 0 -> nb_ok K (length s) nb ->
  (let x := vsub s (local_mean nb s) in let y := vsub t (local_mean nb t) in
   denoms_nz K eps (local_sum nb (vmul x x)) (local_sum nb (vmul y y))) ->
  lcc_none nb (a * a * eps) (map (fun v => a * v + b) s) t = lcc_none nb eps s t.
Proof. exact lcc_affine. Qed.
Print Assumptions C16_lcc_affine_invariant.

(* the box windows of lcc_loss / wlcc_loss (kernel k >= 1 per axis, padding k/2, stride 1, row-major lattice of ANY
   dimension and shape) are a valid window system: every window is non-empty and inside the image -- so the
   hypothesis nb_ok of the invariance theorem above holds for the windows the code uses *)
Theorem C16_box_windows_valid :
  forall (sh ks : list nat), pos sh -> pos ks ->
  (forall i, (i < prodn sh)%nat -> box_nb sh ks i <> [] /\ Forall (fun j => (j < prodn sh)%nat) (box_nb sh ks i)) /\
  (forall (K : fld), is_field K -> char0 K -> nb_ok K (prodn sh) (box_nb sh ks)).
Proof.
  intros sh ks Hs Hk. split; [intros i Hi; exact (box_nb_valid sh ks i Hs Hk Hi) | intros K Kf Kc; exact (box_nb_ok K Kf Kc sh ks Hs Hk)].
Qed.
Print Assumptions C16_box_windows_valid.

(* windowed losses weight their local scores by the mask *)
Theorem C16_windowed_mask_weighting :
  forall (K : fld), is_field K -> forall nb (eps : K) (s t m : list K),
  (lcc_loss RNone nb eps s t (Some m) = vmul (lcc_none nb eps s t) m /\
   lcc_loss RSum nb eps s t (Some m) = [dot (lcc_none nb eps s t) m] /\
   lcc_loss RMean nb eps s t (Some m) = [dot (lcc_none nb eps s t) m / vsum m]) /\
  (let l := wlcc_none nb eps s t (Some m) (Some m) (Some m) in
   wlcc_loss RNone nb eps s t (Some m) None None = vmul l m /\
   wlcc_loss RMean nb eps s t (Some m) None None = [dot l m / vsum m]) /\
  (forall r, wlcc_loss r nb eps s t None None None = lcc_loss r nb eps s t None).
Proof.
  intros K Kf nb eps s t m.
  exact (conj (lcc_mask_weighting K nb eps s t m) (conj (wlcc_mask_weighting K nb eps s t m)
        (fun r => wlcc_no_mask_is_lcc K r nb eps s t))).
Qed.
Print Assumptions C16_windowed_mask_weighting.

(* ================= 4. overlap measures ================================================================ *)
Theorem C16_dice_identical :
  forall (K : fld), is_field K -> forall (eps : K) (x : list K) w,
  dotw x x w + dotw x x w + eps <> 0 -> dice_score eps x x w = 1.
Proof. exact dice_identical. Qed.
Print Assumptions C16_dice_identical.

Theorem C16_overlap_symmetric :
  forall (K : fld), is_field K -> forall (alpha beta eps : K) (p t : list K) w,
  dice_score eps p t w = dice_score eps t p w /\
  tversky_index alpha beta eps p t w = tversky_index beta alpha eps t p w.
Proof. intros K Kf alpha beta eps p t w. split; [exact (dice_symmetric K Kf eps p t w) | exact (tversky_swap K Kf alpha beta eps p t w)]. Qed.
Print Assumptions C16_overlap_symmetric.

Theorem C16_tversky_half_is_dice :
  forall (K : fld), is_field K -> char0 K -> forall (eps : K) (p t : list K) w,
  binary p -> binary t -> length p = length t -> wlen_ok K p w ->
  dotw p p w + dotw t t w + (1 + 1) * eps <> 0 ->
  tversky_index (1 / (1 + 1)) (1 / (1 + 1)) eps p t w = dice_score ((1 + 1) * eps) p t w.
Proof. exact tversky_half_is_dice. Qed.
Print Assumptions C16_tversky_half_is_dice.

Theorem C16_tversky_identical_binary :
  forall (K : fld), is_field K -> forall (alpha beta eps : K) (x : list K) w,
  binary x -> wlen_ok K x w -> dotw x x w + eps <> 0 -> tversky_index alpha beta eps x x w = 1.
Proof. exact tversky_identical_binary. Qed.
Print Assumptions C16_tversky_identical_binary.

(* tversky_loss = (1 - Tversky index)^gamma (gamma = 0 encodes None): zero on identical binary inputs,
   alpha <-> beta symmetry, and the documented clause through tversky_loss itself: alpha = beta = 1/2 on
   binary inputs is the Dice loss with 2 epsilon *)
Theorem C16_tversky_loss :
  forall (K : fld), is_field K -> char0 K -> forall gamma (alpha beta eps : K) (p t : list K) w,
  tversky_loss gamma alpha beta eps p t w = tversky_loss gamma beta alpha eps t p w /\
  (binary p -> wlen_ok K p w -> dotw p p w + eps <> 0 -> tversky_loss gamma alpha beta eps p p w = 0) /\
  (binary p -> binary t -> length p = length t -> wlen_ok K p w ->
   dotw p p w + dotw t t w + (1 + 1) * eps <> 0 ->
   tversky_loss gamma (1 / (1 + 1)) (1 / (1 + 1)) eps p t w = fpow (dice_loss ((1 + 1) * eps) p t w) (Nat.max gamma 1) /\
   ((gamma <= 1)%nat -> tversky_loss gamma (1 / (1 + 1)) (1 / (1 + 1)) eps p t w = dice_loss ((1 + 1) * eps) p t w)).
Proof.
  intros K Kf Kc gamma alpha beta eps p t w.
  exact (conj (tversky_loss_swap K Kf gamma alpha beta eps p t w)
        (conj (tversky_loss_identical_binary K Kf gamma alpha beta eps p w)
              (tversky_loss_half_is_dice_loss K Kf Kc gamma eps p t w))).
Qed.
Print Assumptions C16_tversky_loss.

Theorem C16_dice_range :
  forall (eps : RF) (p t : list RF) w,
  wnonneg w -> (0 < dotw p p w + dotw t t w + eps)%R ->
  (dice_score eps p t w <= 1)%R /\
  (nonneg p -> nonneg t -> (0 <= eps)%R -> (0 <= dice_score eps p t w)%R).
Proof.
  intros eps p t w Hw Hd. split; [exact (dice_le_1 eps p t w Hw Hd) |
    exact (fun Hp Ht He => dice_ge_0 eps p t w Hp Ht Hw He Hd)].
Qed.
Print Assumptions C16_dice_range.

(* Tversky index in (0, 1] and tversky_loss in [0, 1] for probabilities in [0, 1], non-negative weights and multipliers *)
Theorem C16_tversky_range :
  forall gamma (alpha beta eps : RF) (p t : list RF) w,
  unit01 p -> unit01 t -> wnonneg w -> (0 <= alpha)%R -> (0 <= beta)%R -> (0 < eps)%R ->
  (0 < tversky_index alpha beta eps p t w <= 1)%R /\ (0 <= tversky_loss gamma alpha beta eps p t w <= 1)%R.
Proof.
  intros gamma alpha beta eps p t w Hp Ht Hw Ha Hb He.
  exact (conj (tversky_range alpha beta eps p t w Hp Ht Hw Ha Hb He) (tversky_loss_range gamma alpha beta eps p t w Hp Ht Hw Ha Hb He)).
Qed.
Print Assumptions C16_tversky_range.

(* ================= 5. mutual information: structural symmetry only ==================================== *)
(* PARTIAL: the Parzen window pw and the logarithm lg are abstract; what is proved is that swapping
   the images transposes the joint histogram and leaves MI and NMI unchanged.  Values and ranges of
   MI/NMI (Gaussian windows, logarithms, random sampling) are explored numerically only. *)
Theorem C16_mi_symmetric_partial :
  forall (K : fld), is_field K -> forall (pw : K -> nat -> K) (lg : K -> K) (nbins : nat) (x y : list K) (c : K),
  (forall a b, p_joint pw nbins y x c a b = p_joint pw nbins x y c b a) /\
  mi_one pw lg nbins y x c = mi_one pw lg nbins x y c /\ nmi_one pw lg nbins y x c = nmi_one pw lg nbins x y c.
Proof.
  intros K Kf pw lg nbins x y c. split; [exact (p_joint_T K Kf pw nbins x y c) | exact (mi_symmetric K Kf pw lg nbins x y c)].
Qed.
Print Assumptions C16_mi_symmetric_partial.

(* the default intensity range of mi_loss / nmi_loss (traced): min of both minima, max of both maxima -- symmetric
   in (input, target), so the bins of the symmetry theorem above are the same for both orders *)
Theorem C16_mi_default_range_symmetric :
  forall (K : fld) (fmin2 fmax2 : K -> K -> K) (xmin xmax tmin tmax : K),
  gen_mi_default_range fmin2 fmax2 xmin xmax tmin tmax = (fmin2 xmin tmin, fmax2 xmax tmax) /\
  ((forall a b, fmin2 a b = fmin2 b a) -> (forall a b, fmax2 a b = fmax2 b a) ->
   gen_mi_default_range fmin2 fmax2 tmin tmax xmin xmax = gen_mi_default_range fmin2 fmax2 xmin xmax tmin tmax).
Proof. exact mi_default_range_ok. Qed.
Print Assumptions C16_mi_default_range_symmetric.

(* ================= 6. the model is the source's formula (translator tie) ============================== *)
Theorem C16_gen_pointwise :
  forall (K : fld), is_field K -> forall (fabs : K -> K) (x0 x1 x2 x3 y0 y1 y2 y3 w0 w1 w2 w3 c : K),
  let X := [x0; x1; x2; x3] in let Y := [y0; y1; y2; y3] in let W := [w0; w1; w2; w3] in
  (gen_ssd_loss_none_mask X Y W = pointwise_loss sqd RNone X Y (Some W) /\
   gen_ssd_loss_mean_mask X Y W = pointwise_loss sqd RMean X Y (Some W) /\
   gen_ssd_loss_sum_mask X Y W = pointwise_loss sqd RSum X Y (Some W) /\
   gen_ssd_loss_none X Y = pointwise_loss sqd RNone X Y None /\
   gen_ssd_loss_mean X Y = pointwise_loss sqd RMean X Y None /\
   gen_ssd_loss_sum X Y = pointwise_loss sqd RSum X Y None) /\
  (gen_mse_loss_none_mask X Y W = pointwise_loss sqd RNone X Y (Some W) /\
   gen_mse_loss_mean_mask X Y W = pointwise_loss sqd RMean X Y (Some W) /\
   gen_mse_loss_sum_mask X Y W = pointwise_loss sqd RSum X Y (Some W) /\
   gen_mse_loss_none X Y = pointwise_loss sqd RNone X Y None /\
   gen_mse_loss_mean X Y = pointwise_loss sqd RMean X Y None /\
   gen_mse_loss_sum X Y = pointwise_loss sqd RSum X Y None) /\
  (gen_mae_loss_none_mask fabs X Y W = pointwise_loss (absd fabs) RNone X Y (Some W) /\
   gen_mae_loss_mean_mask fabs X Y W = pointwise_loss (absd fabs) RMean X Y (Some W) /\
   gen_mae_loss_sum_mask fabs X Y W = pointwise_loss (absd fabs) RSum X Y (Some W) /\
   gen_mae_loss_none fabs X Y = pointwise_loss (absd fabs) RNone X Y None /\
   gen_mae_loss_mean fabs X Y = pointwise_loss (absd fabs) RMean X Y None /\
   gen_mae_loss_sum fabs X Y = pointwise_loss (absd fabs) RSum X Y None) /\
  (gen_l1_loss_none_mask fabs X Y W = pointwise_loss (absd fabs) RNone X Y (Some W) /\
   gen_l1_loss_mean_mask fabs X Y W = pointwise_loss (absd fabs) RMean X Y (Some W) /\
   gen_l1_loss_sum_mask fabs X Y W = pointwise_loss (absd fabs) RSum X Y (Some W) /\
   gen_l1_loss_none fabs X Y = pointwise_loss (absd fabs) RNone X Y None /\
   gen_l1_loss_mean fabs X Y = pointwise_loss (absd fabs) RMean X Y None /\
   gen_l1_loss_sum fabs X Y = pointwise_loss (absd fabs) RSum X Y None) /\
  (gen_ssd_loss_mean_mask_norm c X Y W = div_norm c (pointwise_loss sqd RMean X Y (Some W)) /\
   gen_mse_loss_mean_mask_norm c X Y W = div_norm c (pointwise_loss sqd RMean X Y (Some W))) /\
  (gen_mae_loss_mean_mask_norm fabs c X Y W = div_norm c (pointwise_loss (absd fabs) RMean X Y (Some W)) /\
   gen_l1_loss_mean_mask_norm fabs c X Y W = div_norm c (pointwise_loss (absd fabs) RMean X Y (Some W))).
Proof.
  intros K Kf fabs x0 x1 x2 x3 y0 y1 y2 y3 w0 w1 w2 w3 c.
  exact (conj (gen_ssd_ok K Kf x0 x1 x2 x3 y0 y1 y2 y3 w0 w1 w2 w3)
        (conj (gen_mse_ok K Kf x0 x1 x2 x3 y0 y1 y2 y3 w0 w1 w2 w3)
        (conj (gen_mae_ok K Kf fabs x0 x1 x2 x3 y0 y1 y2 y3 w0 w1 w2 w3)
        (conj (gen_l1_ok K Kf fabs x0 x1 x2 x3 y0 y1 y2 y3 w0 w1 w2 w3)
        (conj (gen_ssd_norm_ok K Kf x0 x1 x2 x3 y0 y1 y2 y3 w0 w1 w2 w3 c)
              (gen_mae_norm_ok K Kf fabs x0 x1 x2 x3 y0 y1 y2 y3 w0 w1 w2 w3 c)))))).
Qed.
Print Assumptions C16_gen_pointwise.

Theorem C16_gen_mask_broadcast :
  forall (K : fld), is_field K -> forall (fleb : K -> K -> bool)
    (x0 x1 x2 x3 x4 x5 x6 x7 y0 y1 y2 y3 y4 y5 y6 y7 w0 w1 : K),
  Some (gen_ssd_bcast_mean [x0; x1; x2; x3; x4; x5; x6; x7] [y0; y1; y2; y3; y4; y5; y6; y7] [w0; w1])
  = b_elementwise fleb sqd RMean [[[x0; x1]; [x2; x3]]; [[x4; x5]; [x6; x7]]]
      [[[y0; y1]; [y2; y3]]; [[y4; y5]; [y6; y7]]] [1; 2]%nat (Some ([[[w0; w1]]], [1; 2]%nat)) None.
Proof. exact gen_ssd_bcast_ok. Qed.
Print Assumptions C16_gen_mask_broadcast.

Theorem C16_gen_overlap :
  forall (K : fld), is_field K -> forall (x0 x1 x2 x3 y0 y1 y2 y3 w0 w1 w2 w3 al be eps : K),
  let X := [x0; x1; x2; x3] in let Y := [y0; y1; y2; y3] in let W := [w0; w1; w2; w3] in
  (gen_dice_w eps X Y W = [dice_score eps X Y (Some W)] /\
   gen_dice eps X Y = [dice_score eps X Y None] /\
   gen_dice_loss_w eps X Y W = [1 - dice_score eps X Y (Some W)]) /\
  gen_tversky al be eps X Y = [tversky_index al be eps X Y None] /\
  Some (gen_tversky_c2w al be eps X Y [w0; w1])
  = b_overlap (tversky_index al be eps) RNone [[[x0; x1]; [x2; x3]]] [[[y0; y1]; [y2; y3]]]
      (Some ([[[w0; w1]]], [1; 2]%nat)).
Proof.
  intros K Kf x0 x1 x2 x3 y0 y1 y2 y3 w0 w1 w2 w3 al be eps.
  exact (conj (gen_dice_ok K Kf x0 x1 x2 x3 y0 y1 y2 y3 w0 w1 w2 w3 eps)
        (conj (gen_tversky_ok K Kf x0 x1 x2 x3 y0 y1 y2 y3 al be eps)
              (gen_tversky_c2w_ok K Kf x0 x1 x2 x3 y0 y1 y2 y3 w0 w1 al be eps))).
Qed.
Print Assumptions C16_gen_overlap.

Theorem C16_gen_tversky_loss :
  forall (K : fld), is_field K -> forall (x0 x1 x2 x3 y0 y1 y2 y3 w0 w1 w2 w3 al be eps : K),
  let X := [x0; x1; x2; x3] in let Y := [y0; y1; y2; y3] in let W := [w0; w1; w2; w3] in
  gen_tversky_w al be eps X Y W = [tversky_index al be eps X Y (Some W)] /\
  gen_tversky_loss_w al be eps X Y W = [tversky_loss 0 al be eps X Y (Some W)] /\
  gen_tversky_loss_g1 al be eps X Y = [tversky_loss 1 al be eps X Y None] /\
  gen_tversky_loss_g3 al be eps X Y = [tversky_loss 3 al be eps X Y None] /\
  Some (gen_tversky_loss_mean al be eps X Y)
  = b_overlap (tversky_loss 0 al be eps) RMean [[[x0; x1]; [x2; x3]]] [[[y0; y1]; [y2; y3]]] None.
Proof. intros K Kf x0 x1 x2 x3 y0 y1 y2 y3 w0 w1 w2 w3 al be eps. exact (gen_tversky_loss_ok K Kf x0 x1 x2 x3 y0 y1 y2 y3 w0 w1 w2 w3 al be eps). Qed.
Print Assumptions C16_gen_tversky_loss.

Theorem C16_gen_tversky_forms :
  forall (K : fld), is_field K -> forall (x0 x1 x2 x3 y0 y1 y2 y3 al be eps : K),
  gen_tversky_p2t1 al be eps [x0; x1; x2; x3] [y0; y1] = [tversky_index al be eps [x2; x3] [y0; y1] None] /\
  gen_tversky_p1t2 al be eps [x0; x1] [y0; y1; y2; y3] = [tversky_index al be eps [x0; x1] [y2; y3] None].
Proof. intros K Kf x0 x1 x2 x3 y0 y1 y2 y3 al be eps. exact (gen_tversky_forms_ok K Kf x0 x1 x2 x3 y0 y1 y2 y3 al be eps). Qed.
Print Assumptions C16_gen_tversky_forms.

From Coq Require Import String.
(* module wrappers with implicit normalisation (losses/base.py, traced): which images the default factor
   max_difference(.,.)^2 is computed from, for every way of constructing the loss *)
Theorem C16_norm_defaults :
  gen_norm_defaults =
  [("source", "max_difference(source, source)^2"); ("target", "max_difference(target, target)^2");
   ("source, target", "max_difference(source, target)^2"); ("target, norm=True", "max_difference(target, target)^2");
   ("source, norm=True", "max_difference(source, source)^2"); ("source, target, norm=False", "None");
   ("norm=c", "c"); ("source, target, norm=c", "c"); ("nothing", "None")]%string.
Proof. exact norm_defaults_ok. Qed.
Print Assumptions C16_norm_defaults.

Theorem C16_gen_ncc :
  forall (K : fld), is_field K -> forall (x0 x1 x2 x3 y0 y1 y2 y3 eps : K),
  gen_ncc eps [x0; x1; x2; x3] [y0; y1; y2; y3] = [ncc_one eps [x0; x1; x2; x3] [y0; y1; y2; y3]] /\
  Some (gen_ncc_batch_mean eps [x0; x1; x2; x3] [y0; y1; y2; y3])
  = b_ncc RMean eps [[[x0; x1]]; [[x2; x3]]] [[[y0; y1]]; [[y2; y3]]] [1; 2]%nat None.
Proof.
  intros K Kf x0 x1 x2 x3 y0 y1 y2 y3 eps.
  exact (conj (gen_ncc_ok K Kf x0 x1 x2 x3 y0 y1 y2 y3 eps) (gen_ncc_batch_ok K Kf x0 x1 x2 x3 y0 y1 y2 y3 eps)).
Qed.
Print Assumptions C16_gen_ncc.

Theorem C16_gen_ncc_masked :
  forall (K : fld), is_field K ->
  (forall x0 x1 x2 x3 y0 y1 y2 y3 w0 w1 w2 w3 eps : K,
     gen_ncc_mask eps [x0; x1; x2; x3] [y0; y1; y2; y3] [w0; w1; w2; w3]
     = [ncc_w eps [x0; x1; x2; x3] [y0; y1; y2; y3] [w0; w1; w2; w3]]) /\
  (forall eps x0 x1 x2 x3 x4 x5 x6 x7 y0 y1 y2 y3 y4 y5 y6 y7 w0 w1 : K,
     Some (gen_ncc_mask_bcast eps [x0; x1; x2; x3; x4; x5; x6; x7] [y0; y1; y2; y3; y4; y5; y6; y7] [w0; w1])
     = b_ncc RSum eps [[[x0; x1]; [x2; x3]]; [[x4; x5]; [x6; x7]]] [[[y0; y1]; [y2; y3]]; [[y4; y5]; [y6; y7]]] [1; 2]%nat
         (Some ([[[w0; w1]]], [1; 2]%nat))).
Proof.
  intros K Kf. split.
  - intros x0 x1 x2 x3 y0 y1 y2 y3 w0 w1 w2 w3 eps. exact (gen_ncc_mask_ok K Kf x0 x1 x2 x3 y0 y1 y2 y3 w0 w1 w2 w3 eps).
  - exact (gen_ncc_mask_bcast_ok K Kf).
Qed.
Print Assumptions C16_gen_ncc_masked.

Theorem C16_gen_windowed :
  forall (K : fld), is_field K ->
  forall (x0 x1 x2 x3 y0 y1 y2 y3 w0 w1 w2 w3 u0 u1 u2 u3 v0 v1 v2 v3 eps : K),
  let X := [x0; x1; x2; x3] in let Y := [y0; y1; y2; y3] in let W := [w0; w1; w2; w3] in
  let U := [u0; u1; u2; u3] in let V := [v0; v1; v2; v3] in
  let nb := box_nb [1; 4]%nat [1; 3]%nat in
  (gen_lcc14 eps X Y = lcc_loss RNone nb eps X Y None /\
   gen_lcc14_mean_mask eps X Y W = lcc_loss RMean nb eps X Y (Some W)) /\
  gen_wlcc14_mask eps X Y W = wlcc_loss RMean nb eps X Y (Some W) None None /\
  gen_wlcc14_st eps X Y U V = wlcc_loss RMean nb eps X Y None (Some U) (Some V) /\
  gen_wlcc14_all eps X Y W U V = wlcc_loss RNone nb eps X Y (Some W) (Some U) (Some V) /\
  gen_wlcc14_s eps X Y U = wlcc_loss RNone nb eps X Y None (Some U) None.
Proof.
  intros K Kf x0 x1 x2 x3 y0 y1 y2 y3 w0 w1 w2 w3 u0 u1 u2 u3 v0 v1 v2 v3 eps.
  exact (conj (C16GenWin.gen_lcc14_ok K Kf x0 x1 x2 x3 y0 y1 y2 y3 w0 w1 w2 w3 eps)
        (conj (gen_wlcc14_mask_ok K Kf x0 x1 x2 x3 y0 y1 y2 y3 w0 w1 w2 w3 eps)
        (conj (gen_wlcc14_st_ok K Kf x0 x1 x2 x3 y0 y1 y2 y3 u0 u1 u2 u3 v0 v1 v2 v3 eps)
        (conj (gen_wlcc14_all_ok K Kf x0 x1 x2 x3 y0 y1 y2 y3 w0 w1 w2 w3 u0 u1 u2 u3 v0 v1 v2 v3 eps)
              (gen_wlcc14_s_ok K Kf x0 x1 x2 x3 y0 y1 y2 y3 u0 u1 u2 u3 eps))))).
Qed.
Print Assumptions C16_gen_windowed.

Theorem C16_gen_lcc_2d :
  forall (K : fld), is_field K -> forall (eps x0 x1 x2 x3 x4 x5 y0 y1 y2 y3 y4 y5 : K),
  gen_lcc23 eps [x0; x1; x2; x3; x4; x5] [y0; y1; y2; y3; y4; y5]
  = lcc_none (box_nb [2; 3] [3; 3])%nat eps [x0; x1; x2; x3; x4; x5] [y0; y1; y2; y3; y4; y5].
Proof. exact gen_lcc23_ok. Qed.
Print Assumptions C16_gen_lcc_2d.

(* non-vacuity: hypotheses are satisfiable by non-trivial values; the model computes *)
Example C16_nonvacuous :
  let s : list QcF := [q 1 1; q 3 1; q 2 1; q 7 2] in
  let t : list QcF := [q 2 1; q 1 2; q 5 1; q 1 1] in
  let p : list QcF := [q 1 1; q 0 1; q 1 1; q 1 1] in
  let g : list QcF := [q 1 1; q 1 1; q 0 1; q 1 1] in
  let zero : QcF := q 0 1 in let one : QcF := q 1 1 in let half : QcF := q 1 2 in let two : QcF := q 2 1 in
  (* denominators of the ncc theorems are non-zero, the loss is strictly between 0 and 1 *)
  qeqb (dot (center s) (center s) * dot (center t) (center t)) zero = false /\
  Qcleb (ncc_one (q 1 100 : QcF) s t) zero = false /\ Qcleb one (ncc_one (q 1 100 : QcF) s t) = false /\
  qeqb (ncc_one zero (map (fun v : QcF => (q 3 1 : QcF) * v + (q 5 1 : QcF)) s) t) (ncc_one zero s t) = true /\
  (* binary overlap: Tversky(1/2,1/2,eps) = Dice(2 eps), neither 0 nor 1 *)
  qeqb (tversky_index half half (q 1 8 : QcF) p g None) (dice_score (two * (q 1 8 : QcF)) p g None) = true /\
  qeqb (dice_score (q 1 4 : QcF) p g None) one = false /\
  (* a mask that is zero somewhere, on images that differ there *)
  qeqb (nth 0 (pointwise_loss sqd RMean s t (Some p)) zero)
       (nth 0 (pointwise_loss sqd RMean ([q 1 1; q 9 1; q 2 1; q 7 2] : list QcF) t (Some p)) zero) = true /\
  qeqb (nth 0 (pointwise_loss sqd RMean s t (Some p)) zero) zero = false /\
  (* windows of a 3 x 4 image with a 3 x 3 kernel: corner has 4 members, interior 9 *)
  (List.length (box_nb [3; 4] [3; 3] 0), List.length (box_nb [3; 4] [3; 3] 5))%nat = (4, 9)%nat.
Proof. vm_compute. repeat split. Qed.
