(* C06 (round 2): the generic configurable transform -- traced constructor of spatial/generic.py. *)
From Coq Require Import ZArith List Field Ring Bool.
From DV Require Import Base.Field Base.LinAlg Base.Tactics Model.Enums Model.Homog Model.Transform Model.TransformGeneric
  Gen.Transform.
Import ListNotations.
Local Open Scope fld_scope.

(* every traced configuration composes its members in the order its notation denotes, with the documented classes *)
Lemma generic_order_traced :
  forallb (generic_row_ok gen_generic_affine_names gen_generic_affine_classes gen_generic_nonrigid_classes) gen_generic_table = true /\
  stable_eqb gen_generic_affine_classes documented_affine_classes = true /\
  stable_eqb gen_generic_nonrigid_classes documented_nonrigid_classes = true /\
  (12 <= List.length gen_generic_table)%nat.
Proof. repeat split; try (vm_compute; reflexivity). cbn. repeat constructor. Qed.

Section Generic.
Variable K : fld.
Hypothesis Kf : is_field K.
Add Field KF_C06Generic : Kf.

(* every traced linear configuration is the identity when freshly constructed *)
Lemma generic_fresh_identity :
  Forall (fun e : form * list (list K) => forall x : nat -> K, form_apply 2 (fst e) (snd e) (vtab 2 x) = vtab 2 x) gen_generic_fresh_2 /\
  Forall (fun e : form * list (list K) => forall x : nat -> K, form_apply 3 (fst e) (snd e) (vtab 3 x) = vtab 3 x) gen_generic_fresh_3 /\
  (6 <= List.length (gen_generic_fresh_2 (K:=K)))%nat /\ (7 <= List.length (gen_generic_fresh_3 (K:=K)))%nat.
Proof.
  split; [|split; [|split]].
  - repeat constructor; intro x; fcbv; list_eq; ring.
  - repeat constructor; intro x; fcbv; list_eq; ring.
  - cbn. repeat constructor.
  - cbn. repeat constructor.
Qed.
End Generic.
