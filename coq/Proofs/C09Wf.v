(* C09 -- well-formedness of every reachable state of the transform state machine (induction over
   arbitrary operation histories): every tensor reference stored anywhere (params slots, the shared
   _parameters dicts, buffers p, aliases in u / v) points into the tensor store, and `params` is never
   stored both in the instance __dict__ and in the _buffers dict.  Holds for every configuration. *)
From Coq Require Import List Bool Arith Lia.
From DV Require Import Model.TransformState Proofs.C09Fresh.
Import ListNotations.

Section Wf.
Context {P G C : Type}.
Variable p0 : P.
Variable emptyP : kind -> G -> P.
Variable zeroP : P -> P.
Variable fillP : P -> P -> P.
Variable regrid : kind -> P -> G -> G -> P.
Variable callP : nat -> option C -> P.
Variable fits : kind -> P -> G -> bool.
Variable geq same_dom : G -> G -> bool.
Variable spline_ok : G -> bool.
Variable ffd_sub : G -> G -> option bool.
Variable cf : cfg.

Notation state := (state P G C).
Notation obj := (obj P G C).
Notation ubuf := (ubuf P G).
Notation get_obj := (get_obj P G C).
Notation set_obj := (set_obj P G C).
Notation get_params := (get_params P G C).
Notation tlen s := (length (tens P G C s)).

Definition u_ok (n : nat) (u : option ubuf) : Prop :=
  forall b r, u = Some b -> u_src P G b = Alias P r -> r < n.

Definition obj_ok (n : nat) (ob : obj) : Prop :=
  (o_adict P G C ob = None \/ o_bpar P G C ob = None) /\
  (forall r, o_adict P G C ob = Some (ATen r) -> r < n) /\
  (forall r, o_bpar P G C ob = Some (Some r) -> r < n) /\
  (forall r, o_p P G C ob = Some r -> r < n) /\
  u_ok n (o_u P G C ob) /\ u_ok n (o_v P G C ob).

Definition wf (s : state) : Prop :=
  Forall (obj_ok (tlen s)) (objs P G C s) /\
  (forall d r, pds P G C s d = Some (Some r) -> r < tlen s).

Definition st_of {A} (m : res P G C A) : state := match m with Ok _ s => s | Er _ s => s end.

(* ---------- basic facts ---------- *)
Lemma u_ok_mono n m u : u_ok n u -> n <= m -> u_ok m u.
Proof. unfold u_ok. intros H L b r E1 E2. specialize (H b r E1 E2). lia. Qed.
Lemma obj_ok_mono n m ob : obj_ok n ob -> n <= m -> obj_ok m ob.
Proof.
  unfold obj_ok. intros (H0 & H1 & H2 & H3 & H4 & H5) L. repeat split; auto.
  - intros r E. specialize (H1 r E). lia.
  - intros r E. specialize (H2 r E). lia.
  - intros r E. specialize (H3 r E). lia.
  - eapply u_ok_mono; eauto.
  - eapply u_ok_mono; eauto.
Qed.
Lemma u_ok_none n : u_ok n None.
Proof. unfold u_ok. intros; discriminate. Qed.
Lemma u_ok_snap n p g sg : u_ok n (Some (mkU P G (Snap P p) g sg)).
Proof. unfold u_ok. intros b r E1 E2. injection E1 as <-. discriminate. Qed.
Lemma u_ok_alias n r g sg : r < n -> u_ok n (Some (mkU P G (Alias P r) g sg)).
Proof. unfold u_ok. intros L b r' E1 E2. injection E1 as <-. cbn in E2. injection E2 as <-. exact L. Qed.

Lemma Forall_replace {A} (Q : A -> Prop) l n x : Forall Q l -> Q x -> Forall Q (replace n x l).
Proof.
  revert n. induction l as [|a l IH]; intros [|n] H Hx; cbn; auto; inversion H; subst; constructor; auto.
Qed.
Lemma length_replace {A} (l : list A) n x : length (replace n x l) = length l.
Proof. revert n. induction l as [|a l IH]; intros [|n]; cbn; auto. Qed.

Lemma wf_get s o ob : wf s -> get_obj s o = Some ob -> obj_ok (tlen s) ob.
Proof.
  intros [H _] E. unfold TransformState.get_obj in E. apply nth_error_In in E.
  rewrite Forall_forall in H. auto.
Qed.
Lemma wf_set_obj s o ob : wf s -> obj_ok (tlen s) ob -> wf (set_obj s o ob).
Proof. intros [H1 H2] Hob. split; cbn; auto. apply Forall_replace; auto. Qed.
Lemma wf_push s ob : wf s -> obj_ok (tlen s) ob -> wf (snd (push_obj P G C s ob)).
Proof. intros [H1 H2] Hob. split; cbn; auto. apply Forall_app; split; auto. Qed.
Lemma wf_new_ten s p : wf s -> wf (snd (new_ten P G C s p)).
Proof.
  intros [H1 H2]. split; cbn; rewrite app_length; cbn.
  - eapply Forall_impl; [|exact H1]. intros ob Hob. eapply obj_ok_mono; eauto. lia.
  - intros d r E. specialize (H2 d r E). lia.
Qed.
Lemma tlen_new_ten s p : tlen (snd (new_ten P G C s p)) = S (tlen s).
Proof. cbn. rewrite app_length. cbn. lia. Qed.
Lemma wf_set_ten s r p : wf s -> wf (set_ten P G C s r p).
Proof. intros [H1 H2]. split; cbn; rewrite length_replace; auto. Qed.
Lemma wf_set_pd s d v : wf s -> (forall r, v = Some (Some r) -> r < tlen s) -> wf (set_pd P G C s d v).
Proof.
  intros [H1 H2] Hv. split; cbn; auto. intros d' r E. destruct (Nat.eqb d' d); eauto.
Qed.
Lemma wf_new_pd s v : wf s -> (forall r, v = Some (Some r) -> r < tlen s) -> wf (snd (new_pd P G C s v)).
Proof.
  intros [H1 H2] Hv. split; cbn; auto. intros d' r E. destruct (Nat.eqb d' (next_pd P G C s)); eauto.
Qed.

(* setters *)
Lemma ok_set_grid n ob g : obj_ok n ob -> obj_ok n (set_grid P G C ob g).
Proof. destruct ob; exact (fun H => H). Qed.
Lemma ok_set_cond n ob c : obj_ok n ob -> obj_ok n (set_cond P G C ob c).
Proof. destruct ob; exact (fun H => H). Qed.
Lemma ok_set_inv n ob i : obj_ok n ob -> obj_ok n (set_inv P G C ob i).
Proof. destruct ob; exact (fun H => H). Qed.
Lemma ok_set_members n ob l : obj_ok n ob -> obj_ok n (set_members P G C ob l).
Proof. destruct ob; exact (fun H => H). Qed.
Lemma ok_set_p n ob p : obj_ok n ob -> (forall r, p = Some r -> r < n) -> obj_ok n (set_p P G C ob p).
Proof. destruct ob; unfold obj_ok; cbn. intuition. Qed.
Lemma ok_set_uv n ob u v : obj_ok n ob -> u_ok n u -> u_ok n v -> obj_ok n (set_uv P G C ob u v).
Proof. destruct ob; unfold obj_ok; cbn. intuition. Qed.
Lemma ok_u n ob : obj_ok n ob -> u_ok n (o_u P G C ob).
Proof. intros (_ & _ & _ & _ & H & _). exact H. Qed.
Lemma ok_v n ob : obj_ok n ob -> u_ok n (o_v P G C ob).
Proof. intros (_ & _ & _ & _ & _ & H). exact H. Qed.
Lemma ok_set_slots n ob a b m :
  obj_ok n ob -> (a = None \/ b = None) -> (forall r, a = Some (ATen r) -> r < n) -> (forall r, b = Some (Some r) -> r < n) ->
  obj_ok n (set_slots P G C ob a b m).
Proof. destruct ob; unfold obj_ok; cbn. intuition. Qed.

(* ---------- references handed out are valid ---------- *)
Lemma get_params_ref s ob r ip : wf s -> obj_ok (tlen s) ob -> get_params s ob = Some (VTen r ip) -> r < tlen s.
Proof.
  intros [_ Hpd] (_ & Ha & Hb & _) E. unfold TransformState.get_params, get_pd in E.
  destruct (o_adict P G C ob) as [[| r' | f]|] eqn:Ea; try discriminate.
  - injection E as <- <-. auto.
  - destruct (pds P G C s (o_pd P G C ob)) as [[r'|]|] eqn:Ed; try discriminate.
    + injection E as <- <-. eauto.
    + destruct (o_bpar P G C ob) as [[r'|]|] eqn:Eb; try discriminate.
      * injection E as <- <-. auto.
      * destruct (o_mpar P G C ob) as [[[|]|]|]; discriminate.
Qed.

Lemma data_ref_ok s ob r s' :
  wf s -> obj_ok (tlen s) ob -> data_ref P G C s ob = Ok r s' -> s' = s /\ r < tlen s.
Proof.
  intros Hw Hob E. unfold data_ref in E.
  destruct (get_params s ob) as [[| r' ip | f | o']|] eqn:Eg; try discriminate.
  - injection E as <- <-. split; auto. eapply get_params_ref; eauto.
  - destruct (o_p P G C ob) eqn:Ep; try discriminate. injection E as <- <-. split; auto.
    destruct Hob as (_ & _ & _ & Hp & _). auto.
  - destruct (o_p P G C ob) eqn:Ep; try discriminate. injection E as <- <-. split; auto.
    destruct Hob as (_ & _ & _ & Hp & _). auto.
Qed.
Lemma data_ref_st s ob : st_of (data_ref P G C s ob) = s.
Proof.
  unfold data_ref. destruct (get_params s ob) as [[| r' ip | f | o']|]; cbn; auto; destruct (o_p P G C ob); auto.
Qed.

(* result of an operation that hands out a reference *)
Definition ref_post (s : state) (m : res P G C nat) : Prop :=
  wf (st_of m) /\ tlen s <= tlen (st_of m) /\ match m with Ok r s' => r < tlen s' | Er _ _ => True end.

Lemma fresh_data_ok s ob : wf s -> obj_ok (tlen s) ob -> ref_post s (fresh_data P G C callP fits s ob).
Proof.
  intros Hw Hob. unfold fresh_data, ref_post.
  destruct (get_params s ob) as [[| r ip | f | o']|] eqn:Eg; cbn [st_of]; auto.
  - split; [exact Hw | split; [lia | eapply get_params_ref; eauto]].
  - destruct (fits _ _ _); cbn [st_of new_ten]; auto.
    split; [apply (wf_new_ten s _ Hw) | cbn; rewrite app_length; cbn; split; lia].
  - unfold with_obj. destruct (TransformState.get_obj P G C s o') as [ob'|] eqn:Eo; cbn [st_of]; auto.
    pose proof (wf_get _ _ _ Hw Eo) as Hob'. rewrite data_ref_st.
    split; [exact Hw | split; [lia|]].
    destruct (data_ref P G C s ob') as [r s'|] eqn:Ed; auto.
    destruct (data_ref_ok _ _ _ _ Hw Hob' Ed) as [-> L]. exact L.
Qed.

(* ---------- clear_buffers ---------- *)
Lemma ok_clear_obj n ob : obj_ok n ob -> obj_ok n (clear_obj P G C cf ob).
Proof.
  intro H. unfold clear_obj. destruct (is_nonrigid _); auto.
  apply ok_set_uv; auto; [destruct (c_clear_u cf) | destruct (c_clear_v cf)];
    auto using u_ok_none, ok_u, ok_v.
Qed.
Lemma wf_clear1 s o : wf s -> wf (clear1 P G C cf s o).
Proof.
  intro Hw. unfold clear1. destruct (TransformState.get_obj P G C s o) eqn:E; auto.
  apply wf_set_obj; auto. apply ok_clear_obj. eapply wf_get; eauto.
Qed.
Lemma tlen_clear1 s o : tlen (clear1 P G C cf s o) = tlen s.
Proof. unfold clear1. destruct (TransformState.get_obj P G C s o); reflexivity. Qed.
Lemma wf_fold_clear l : forall s, wf s -> wf (fold_left (clear1 P G C cf) l s).
Proof. induction l; cbn; auto using wf_clear1. Qed.
Lemma tlen_fold_clear l : forall s, tlen (fold_left (clear1 P G C cf) l s) = tlen s.
Proof. induction l as [|a l IH]; cbn; auto. intro s. rewrite IH. apply tlen_clear1. Qed.
Lemma wf_clear_buffers s o : wf s -> wf (clear_buffers P G C cf s o).
Proof.
  intro Hw. unfold clear_buffers. destruct (TransformState.get_obj P G C s o) as [ob|]; auto.
  destruct (o_kind P G C ob); auto using wf_clear1. destruct (c_seq_clear cf); auto using wf_fold_clear.
Qed.
Lemma tlen_clear_buffers s o : tlen (clear_buffers P G C cf s o) = tlen s.
Proof.
  unfold clear_buffers. destruct (TransformState.get_obj P G C s o) as [ob|]; auto.
  destruct (o_kind P G C ob); auto using tlen_clear1. destruct (c_seq_clear cf); auto using tlen_fold_clear.
Qed.

(* ---------- postcondition combinators ---------- *)
Definition post {A} (s : state) (m : res P G C A) : Prop := wf (st_of m) /\ tlen s <= tlen (st_of m).

Lemma post_ret {A} s (a : A) s' : wf s' -> tlen s <= tlen s' -> post s (Ok a s').
Proof. split; auto. Qed.
Lemma post_err {A} s e s' : wf s' -> tlen s <= tlen s' -> @post A s (Er e s').
Proof. split; auto. Qed.
Lemma post_bind {A B} s (m : res P G C A) (f : A -> state -> res P G C B) :
  post s m -> (forall a s1, m = Ok a s1 -> wf s1 -> tlen s <= tlen s1 -> post s1 (f a s1)) -> post s (bind P G C m f).
Proof.
  intros [Hw Hl] Hf. destruct m as [a s1|e s1]; cbn in *.
  - destruct (Hf a s1 eq_refl Hw Hl) as [H1 H2]. split; auto. lia.
  - split; auto.
Qed.
Lemma post_with_obj {A} s o (f : obj -> res P G C A) :
  wf s -> (forall ob, get_obj s o = Some ob -> post s (f ob)) -> post s (with_obj P G C s o f).
Proof.
  intros Hw Hf. unfold with_obj. destruct (TransformState.get_obj P G C s o) eqn:E; auto. apply post_err; auto.
Qed.
Lemma post_weaken {A} s s0 (m : res P G C A) : post s m -> tlen s0 <= tlen s -> post s0 m.
Proof. intros [H1 H2] L. split; auto. lia. Qed.

(* ---------- update ---------- *)
Lemma mk_view_ok s k r g sg n : r < n -> u_ok n (Some (mk_view P G C p0 fits s k r g sg)).
Proof. intro L. unfold mk_view. destruct (fits _ _ _); [apply u_ok_alias | apply u_ok_snap]; auto. Qed.

Lemma update1_post s o : wf s -> post s (update1 P G C p0 callP fits spline_ok cf s o).
Proof.
  intro Hw. unfold update1. apply post_with_obj; auto. intros ob Hg.
  pose proof (wf_get _ _ _ Hw Hg) as Hob.
  (* stage 1: refresh p *)
  set (m1 := match o_p P G C ob with Some _ => _ | None => _ end).
  assert (H1 : post s m1 /\ forall ob1 s1, m1 = Ok ob1 s1 -> obj_ok (tlen s1) ob1).
  { subst m1. destruct (o_p P G C ob) eqn:Ep; [destruct (c_update_p cf)|].
    - destruct (fresh_data_ok s ob Hw Hob) as (Hw1 & Hl1 & Hr1).
      destruct (fresh_data P G C callP fits s ob) as [r s1|e s1]; cbn in *.
      + assert (Hob1 : obj_ok (tlen s1) (set_p P G C ob (Some r))).
        { apply ok_set_p; [eapply obj_ok_mono; eauto|]. intros r' E; injection E as <-; auto. }
        split; [split; cbn; auto; apply wf_set_obj; auto|].
        intros ob1 s1' E. injection E as <- <-. exact Hob1.
      + split; [split; auto|]. intros; discriminate.
    - split; [split; auto|]. intros ob1 s1 E. injection E as <- <-. auto.
    - split; [split; auto|]. intros ob1 s1 E. injection E as <- <-. auto. }
  destruct H1 as [Hp1 Hok1]. apply post_bind; auto.
  intros ob1 s1 E Hw1 Hl1. specialize (Hok1 _ _ E).
  assert (Hd : post s1 (data_ref P G C s1 ob1)).
  { unfold post. rewrite data_ref_st. split; [assumption | lia]. }
  destruct (o_kind P G C ob1); try (apply post_ret; [assumption | lia]).
  all: apply post_bind; [exact Hd|].
  all: intros r s2 Ed Hw2 Hl2; destruct (data_ref_ok _ _ _ _ Hw1 Hok1 Ed) as [-> Lr].
  all: repeat match goal with |- context [if ?c then _ else _] => destruct c end;
    try (apply post_err; [assumption | lia]); apply post_ret; try lia; try assumption;
    apply wf_set_obj; auto; apply ok_set_uv; auto using ok_u, ok_v, u_ok_snap, mk_view_ok.
Qed.

Notation update1 := (update1 P G C p0 callP fits spline_ok cf).
Notation tensor1 := (tensor1 P G C p0 callP fits spline_ok cf).

Lemma post_refl {A} s (a : A) : wf s -> post s (Ok a s).
Proof. intro H. split; cbn; auto. Qed.
Lemma post_err_refl {A} s e : wf s -> @post A s (Er e s).
Proof. intro H. split; cbn; auto. Qed.
Hint Resolve post_refl post_err_refl : wfdb.

Lemma update_all_post l : forall s, wf s -> post s (update_all P G C p0 callP fits spline_ok cf s l).
Proof.
  induction l as [|o l IH]; intros s Hw; cbn; auto with wfdb.
  apply post_bind; [apply update1_post; auto|]. intros [] s1 _ Hw1 _. auto.
Qed.
Lemma update_post s o : wf s -> post s (update P G C p0 callP fits spline_ok cf s o).
Proof.
  intro Hw. unfold update. apply post_with_obj; auto. intros ob _.
  destruct (o_kind P G C ob); try (apply update1_post; auto).
  destruct (c_seq_update cf); auto with wfdb. apply update_all_post; auto.
Qed.

Lemma tensor1_post s o : wf s -> post s (tensor1 s o).
Proof.
  intro Hw. unfold TransformState.tensor1. apply post_with_obj; auto. intros ob Hg.
  destruct (o_kind P G C ob); auto with wfdb.
  1-4: destruct (o_u P G C ob); auto with wfdb; destruct (c_tensor_updates cf); auto with wfdb;
    (apply post_bind; [apply update1_post; auto|]); intros [] s1 _ Hw1 _;
    (apply post_with_obj; auto); intros ob1 _; destruct (o_u P G C ob1); auto with wfdb.
  apply post_bind; [unfold post; rewrite data_ref_st; split; auto|].
  intros r s1 Ed _ _. destruct (data_ref_ok _ _ _ _ Hw (wf_get _ _ _ Hw Hg) Ed) as [-> _]. auto with wfdb.
Qed.
Lemma tensor_all_post l : forall s, wf s -> post s (tensor_all P G C p0 callP fits spline_ok cf s l).
Proof.
  induction l as [|o l IH]; intros s Hw; cbn; auto with wfdb.
  apply post_bind; [apply tensor1_post; auto|]. intros t s1 _ Hw1 _.
  apply post_bind; [apply IH; auto|]. intros ts s2 _ Hw2 _. auto with wfdb.
Qed.
Lemma forward_post s o : wf s -> post s (forward P G C p0 callP fits spline_ok cf s o).
Proof.
  intro Hw. unfold forward. apply post_with_obj; auto. intros ob _.
  destruct (o_kind P G C ob); try (apply tensor_all_post; auto).
  all: apply post_bind; [apply tensor1_post; auto|]; intros t s1 _ Hw1 _; auto with wfdb.
Qed.
Lemma call_post s o : wf s -> post s (call P G C p0 callP fits spline_ok cf s o).
Proof.
  intro Hw. unfold call. apply post_bind.
  - destruct (c_hook cf); auto with wfdb. apply update_post; auto.
  - intros [] s1 _ Hw1 _. apply forward_post; auto.
Qed.

(* ---------- assigning params ---------- *)
Lemma set_params_post s o v :
  wf s -> (forall r ip, v = SetTen r ip -> r < tlen s) -> post s (set_params P G C s o v).
Proof.
  intros Hw Hv. unfold set_params. apply post_with_obj; auto. intros ob Hg.
  pose proof (wf_get _ _ _ Hw Hg) as Hob.
  pose proof Hob as (H0 & H1 & H2 & _).
  assert (Hclr : forall m, obj_ok (tlen s) (set_slots P G C ob None None m)).
  { intro m. apply ok_set_slots; auto; intros; discriminate. }
  assert (Hb : forall x m, o_bpar P G C ob <> None -> (forall r, x = Some r -> r < tlen s) ->
               obj_ok (tlen s) (set_slots P G C ob (o_adict P G C ob) (Some x) m)).
  { intros x m Hne Hx. apply ok_set_slots; auto.
    - destruct H0 as [H0|H0]; [left; exact H0 | congruence].
    - intros r E. injection E as ->. auto. }
  assert (Ha : forall a m, o_bpar P G C ob = None -> (forall r, a = ATen r -> r < tlen s) ->
               obj_ok (tlen s) (set_slots P G C ob (Some a) None m)).
  { intros a m Hn Hx. apply ok_set_slots; auto.
    - intros r E. injection E as ->. auto.
    - intros; discriminate. }
  assert (Hm : forall m, obj_ok (tlen s) (set_slots P G C ob (o_adict P G C ob) (o_bpar P G C ob) m)).
  { intro m. apply ok_set_slots; auto. }
  assert (Hr : forall r ip, v = SetTen r ip -> r < tlen s) by exact Hv.
  destruct v as [| r [|] | o'].
  - destruct (get_pd P G C s (o_pd P G C ob)).
    + apply post_ret; [apply wf_set_pd; auto; intros; discriminate | cbn; lia].
    + destruct (o_mpar P G C ob).
      * apply post_ret; [apply wf_set_obj; auto | cbn; lia].
      * destruct (o_bpar P G C ob) eqn:Eb.
        -- apply post_ret; [apply wf_set_obj; auto | cbn; lia].
           apply Hb; [first [discriminate | rewrite Eb; discriminate] | intros; discriminate].
        -- apply post_ret; [apply wf_set_obj; auto | cbn; lia].
           apply Ha; [first [reflexivity | exact Eb] | intros; discriminate].
  - apply post_ret; [|cbn; lia]. apply wf_set_pd.
    + apply wf_set_obj; auto.
    + intros r' E. injection E as <-. cbn. eapply Hr; eauto.
  - destruct (get_pd P G C s (o_pd P G C ob)); auto with wfdb.
    destruct (o_mpar P G C ob); auto with wfdb.
    destruct (o_bpar P G C ob) eqn:Eb.
    + apply post_ret; [apply wf_set_obj; auto | cbn; lia].
      apply Hb; [first [discriminate | rewrite Eb; discriminate] | intros r' E; injection E as <-; eapply Hr; eauto].
    + apply post_ret; [apply wf_set_obj; auto | cbn; lia].
      apply Ha; [first [reflexivity | exact Eb] | intros r' E; injection E as <-; eapply Hr; eauto].
  - destruct (get_pd P G C s (o_pd P G C ob)); auto with wfdb.
    apply post_ret; [apply wf_set_obj; auto | cbn; lia].
Qed.

(* plain-state helpers as posts *)
Lemma post_state {A} s s' (a : A) : wf s' -> tlen s <= tlen s' -> post s (Ok a s').
Proof. apply post_ret. Qed.

Notation clear_buffers := (clear_buffers P G C cf).
Notation data_set := (data_set P G C fits cf).

Lemma data_set_post s o p ip : wf s -> post s (data_set s o p ip).
Proof.
  intro Hw. unfold TransformState.data_set. apply post_with_obj; auto. intros ob Hg.
  assert (R : post s (match get_params s ob with
              | None => Er AttrErr s
              | Some pv => if is_callable pv then Er ReadOnly s else
                  if negb (fits (o_kind P G C ob) p (o_grid P G C ob)) then Er ValueErr s else
                  let (r, s1) := new_ten P G C s p in
                  let keep := match pv with VTen _ true => true | _ => false end in
                  bind P G C (set_params P G C s1 o (SetTen r (keep || ip)))
                    (fun _ s2 => Ok tt (if c_data_clears cf then clear_buffers s2 o else s2))
              end)).
  { destruct (get_params s ob) as [pv|]; auto with wfdb.
    destruct (is_callable pv); auto with wfdb.
    destruct (negb _); auto with wfdb.
    destruct (new_ten P G C s p) as [r s1] eqn:En.
    assert (Es : s1 = snd (new_ten P G C s p)) by (rewrite En; reflexivity).
    assert (Er : r = tlen s) by (unfold new_ten in En; injection En as <- _; reflexivity).
    assert (Hw1 : wf s1) by (rewrite Es; apply wf_new_ten; auto).
    assert (Hl1 : tlen s1 = S (tlen s)) by (rewrite Es; apply tlen_new_ten).
    eapply post_weaken with (s := s1); [|lia].
    apply post_bind.
    - apply set_params_post; auto. intros r' ip' E. injection E as <- _. lia.
    - intros [] s2 _ Hw2 Hl2. destruct (c_data_clears cf); apply post_ret; auto.
      + apply wf_clear_buffers; auto.
      + rewrite tlen_clear_buffers. lia. }
  destruct (o_kind P G C ob); auto with wfdb.
Qed.

Lemma reset_post s o : wf s -> post s (reset P G C p0 zeroP cf s o).
Proof.
  intro Hw. unfold reset. apply post_with_obj; auto. intros ob Hg.
  assert (R : post s (match get_params s ob with
      | None => Er AttrErr s
      | Some VNone => Ok tt s
      | Some pv =>
        bind P G C (if is_callable pv then match o_p P G C ob with Some r => Ok r s | None => Er AttrErr s end
              else match pv with VTen r _ => Ok r s | _ => Er OtherErr s end)
        (fun r s1 =>
          let s2 := set_ten P G C s1 r (zeroP (tval P G C p0 s1 r)) in
          Ok tt (if c_reset_clears cf then clear_buffers s2 o else s2))
      end)).
  { destruct (get_params s ob) as [[| r ip | f | o']|]; auto with wfdb.
    all: apply post_bind; [cbn; try destruct (o_p P G C ob); auto with wfdb|].
    all: intros r' s1 _ Hw1 Hl1; cbn zeta; destruct (c_reset_clears cf); apply post_ret;
      try apply wf_clear_buffers; try apply wf_set_ten; auto;
      try rewrite tlen_clear_buffers; cbn; rewrite length_replace; lia. }
  destruct (o_kind P G C ob); auto with wfdb.
Qed.

Lemma edit_post s o p : wf s -> post s (edit P G C p0 fillP s o p).
Proof.
  intro Hw. unfold edit. apply post_with_obj; auto. intros ob Hg.
  assert (R : post s (bind P G C (data_ref P G C s ob)
                 (fun r s1 => Ok tt (set_ten P G C s1 r (fillP (tval P G C p0 s1 r) p))))).
  { apply post_bind; [unfold post; rewrite data_ref_st; split; auto|].
    intros r s1 _ Hw1 Hl1. apply post_ret; [apply wf_set_ten; auto | cbn; rewrite length_replace; lia]. }
  destruct (o_kind P G C ob); auto with wfdb.
Qed.

Lemma wf_cond1 c s o : wf s -> wf (cond1 P G C cf c s o).
Proof.
  intro Hw. unfold cond1.
  set (s1 := if c_cond_clears cf then clear_buffers s o else s).
  assert (Hw1 : wf s1) by (subst s1; destruct (c_cond_clears cf); auto using wf_clear_buffers).
  destruct (TransformState.get_obj P G C s1 o) eqn:E; auto.
  apply wf_set_obj; auto. apply ok_set_cond. eapply wf_get; eauto.
Qed.
Lemma tlen_cond1 c s o : tlen (cond1 P G C cf c s o) = tlen s.
Proof.
  unfold cond1. set (s1 := if c_cond_clears cf then clear_buffers s o else s).
  assert (E : tlen s1 = tlen s) by (subst s1; destruct (c_cond_clears cf); auto using tlen_clear_buffers).
  destruct (TransformState.get_obj P G C s1 o); auto.
Qed.
Lemma wf_fold_cond c l : forall s, wf s -> wf (fold_left (cond1 P G C cf c) l s).
Proof. induction l; cbn; auto using wf_cond1. Qed.
Lemma tlen_fold_cond c l : forall s, tlen (fold_left (cond1 P G C cf c) l s) = tlen s.
Proof. induction l as [|a l IH]; cbn; auto. intro s. rewrite IH. apply tlen_cond1. Qed.
Lemma cond_set_post s o c : wf s -> post s (cond_set P G C cf s o c).
Proof.
  intro Hw. unfold cond_set. apply post_with_obj; auto. intros ob Hg.
  destruct (o_kind P G C ob); try (apply post_ret; [apply wf_cond1; auto | rewrite tlen_cond1; lia]).
  destruct (c_seq_cond cf); apply post_ret; auto using wf_cond1, wf_fold_cond;
    rewrite ?tlen_fold_cond, tlen_cond1; lia.
Qed.

Lemma wf_base_grid s o g : wf s -> wf (base_grid_set P G C geq cf s o g).
Proof.
  intro Hw. unfold base_grid_set. destruct (TransformState.get_obj P G C s o) as [ob|]; auto.
  destruct (geq _ _); auto.
  set (s1 := if c_grid_clears cf then clear_buffers s o else s).
  assert (Hw1 : wf s1) by (subst s1; destruct (c_grid_clears cf); auto using wf_clear_buffers).
  destruct (TransformState.get_obj P G C s1 o) eqn:E; auto.
  apply wf_set_obj; auto. apply ok_set_grid. eapply wf_get; eauto.
Qed.
Lemma tlen_base_grid s o g : tlen (base_grid_set P G C geq cf s o g) = tlen s.
Proof.
  unfold base_grid_set. destruct (TransformState.get_obj P G C s o) as [ob|]; auto.
  destruct (geq _ _); auto.
  set (s1 := if c_grid_clears cf then clear_buffers s o else s).
  assert (E : tlen s1 = tlen s) by (subst s1; destruct (c_grid_clears cf); auto using tlen_clear_buffers).
  destruct (TransformState.get_obj P G C s1 o); auto.
Qed.
Lemma wf_spline_install s o g : wf s -> wf (spline_install P G C cf s o g).
Proof.
  intro Hw. unfold spline_install.
  set (s1 := if c_spline_grid_clears cf then clear_buffers s o else s).
  assert (Hw1 : wf s1) by (subst s1; destruct (c_spline_grid_clears cf); auto using wf_clear_buffers).
  destruct (TransformState.get_obj P G C s1 o) eqn:E; auto.
  apply wf_set_obj; auto. apply ok_set_grid. eapply wf_get; eauto.
Qed.
Lemma tlen_spline_install s o g : tlen (spline_install P G C cf s o g) = tlen s.
Proof.
  unfold spline_install. set (s1 := if c_spline_grid_clears cf then clear_buffers s o else s).
  assert (E : tlen s1 = tlen s) by (subst s1; destruct (c_spline_grid_clears cf); auto using tlen_clear_buffers).
  destruct (TransformState.get_obj P G C s1 o); auto.
Qed.

Lemma grid_set_post s o g : wf s -> post s (grid_set P G C p0 regrid fits geq spline_ok ffd_sub cf s o g).
Proof.
  intro Hw. unfold grid_set. apply post_with_obj; auto. intros ob Hg.
  destruct (is_dense _).
  - destruct (get_params s ob) as [[| r ip | f | o']|]; auto with wfdb;
      try (apply post_ret; [apply wf_base_grid; auto | rewrite tlen_base_grid; lia]).
    destruct (c_dense_grid_data cf); [|apply post_ret; [apply wf_base_grid; auto | rewrite tlen_base_grid; lia]].
    pose proof (data_set_post (base_grid_set P G C geq cf s o g) o
                  (regrid (o_kind P G C ob) (tval P G C p0 s r) (o_grid P G C ob) g) false (wf_base_grid s o g Hw)) as [Hd1 Hd2].
    rewrite tlen_base_grid in Hd2.
    destruct (data_set _ _ _ _) as [[] s2|e s2]; cbn in *.
    + apply post_ret; auto.
    + apply post_err; [|cbn; destruct (TransformState.get_obj P G C s2 o); cbn; lia].
      destruct (TransformState.get_obj P G C s2 o) eqn:E; auto.
      apply wf_set_obj; auto. apply ok_set_grid. eapply wf_get; eauto.
  - destruct (is_spline _); [|apply post_ret; [apply wf_base_grid; auto | rewrite tlen_base_grid; lia]].
    destruct (get_params s ob) as [[| r ip | f | o']|]; auto with wfdb;
      try (apply post_ret; [apply wf_spline_install; auto | rewrite tlen_spline_install; lia]).
    destruct (negb _); auto with wfdb.
    destruct (ffd_sub _ _) as [[|]|]; auto with wfdb.
    + eapply post_weaken; [apply data_set_post; apply wf_spline_install; auto | rewrite tlen_spline_install; lia].
    + apply post_ret; [apply wf_spline_install; auto | rewrite tlen_spline_install; lia].
Qed.

(* ---------- link_, unlink_, copy, inverse ---------- *)
Lemma ok_set_pdid n ob d : obj_ok n ob -> obj_ok n (set_pdid P G C ob d).
Proof. destruct ob; exact (fun H => H). Qed.

Lemma unshare_wf s o ob : wf s -> get_obj s o = Some ob ->
  wf (unshare_params P G C cf s o ob) /\ tlen (unshare_params P G C cf s o ob) = tlen s.
Proof.
  intros Hw Hg. unfold unshare_params.
  destruct (get_pd P G C s (o_pd P G C ob)) as [[r|]|]; auto.
  destruct (c_link_unshares cf); auto. cbn [new_pd]. split; [|reflexivity].
  apply wf_set_obj; [apply (wf_new_pd s None Hw); intros; discriminate|].
  apply ok_set_pdid. exact (wf_get _ _ _ Hw Hg).
Qed.

Lemma link_set_post s o o' : wf s -> post s (link_set P G C cf s o o').
Proof.
  intro Hw. unfold link_set. apply post_with_obj; auto. intros ob Hg. apply post_with_obj; auto. intros ob' Hg'.
  destruct (Nat.eqb o o'); auto with wfdb. destruct (negb _); auto with wfdb.
  destruct (unshare_wf s o ob Hw Hg) as [Hwu Hlu].
  set (su := unshare_params P G C cf s o ob) in *.
  assert (R : post s (bind P G C (set_params P G C su o (SetLink o')) (fun _ s1 =>
        with_obj P G C s1 o (fun ob1 =>
          match o_p P G C ob1 with
          | Some _ => Ok tt s1
          | None =>
            match get_params s1 ob' with
            | None => Er AttrErr s1
            | Some VNone => Er OtherErr s1
            | Some _ =>
                bind P G C (with_obj P G C s1 o' (fun ob'' => data_ref P G C s1 ob'')) (fun r s2 =>
                  Ok tt (set_obj s2 o (set_p P G C ob1 (Some r))))
            end
          end)))).
  { eapply post_weaken with (s := su); [|lia].
    apply post_bind; [apply set_params_post; auto; intros; discriminate|].
    intros [] s1 _ Hw1 Hl1. apply post_with_obj; auto. intros ob1 Hg1.
    destruct (o_p P G C ob1); auto with wfdb.
    assert (Q : post s1 (bind P G C (with_obj P G C s1 o' (fun ob'' => data_ref P G C s1 ob'')) (fun r s2 =>
                  Ok tt (set_obj s2 o (set_p P G C ob1 (Some r)))))).
    { unfold with_obj. destruct (TransformState.get_obj P G C s1 o') as [ob''|] eqn:E''; cbn [bind]; auto with wfdb.
      destruct (data_ref P G C s1 ob'') as [r s2|e s2] eqn:Ed; cbn [bind].
      - destruct (data_ref_ok _ _ _ _ Hw1 (wf_get _ _ _ Hw1 E'') Ed) as [-> Lr].
        apply post_ret; [|cbn; lia]. apply wf_set_obj; auto. apply ok_set_p; [eapply wf_get; eauto|].
        intros r' E. injection E as <-. exact Lr.
      - pose proof (data_ref_st s1 ob'') as Est. rewrite Ed in Est. cbn in Est. subst s2. auto with wfdb. }
    destruct (get_params s1 ob') as [[| r ip | f | o'']|]; auto with wfdb. }
  destruct (o_kind P G C ob); auto with wfdb.
Qed.

Lemma unlink_post s o : wf s -> post s (unlink P G C s o).
Proof.
  intro Hw. unfold unlink. apply post_with_obj; auto. intros ob Hg.
  assert (R : post s (bind P G C (set_params P G C s o SetNone) (fun _ s1 =>
        with_obj P G C s1 o (fun ob1 => Ok tt (set_obj s1 o (set_p P G C ob1 None)))))).
  { apply post_bind; [apply set_params_post; auto; intros; discriminate|].
    intros [] s1 _ Hw1 Hl1. apply post_with_obj; auto. intros ob1 Hg1.
    apply post_ret; [|cbn; lia]. apply wf_set_obj; auto. apply ok_set_p; [eapply wf_get; eauto | intros; discriminate]. }
  destruct (o_kind P G C ob); auto with wfdb.
Qed.

Lemma copy_obj_post s o : wf s -> post s (copy_obj P G C s o).
Proof.
  intro Hw. unfold copy_obj. apply post_with_obj; auto. intros ob Hg.
  cbn. apply post_ret; [|cbn; lia]. apply (wf_push s ob Hw). eapply wf_get; eauto.
Qed.

Lemma u_content_ok n u : u_ok n (Some (mkU P G (Snap P (u_content P G C p0 (mkSt P G C [] (fun _ => None) 0 []) u)) (u_grid P G u) true)).
Proof. apply u_ok_snap. Qed.

Lemma inverse1_post s o link upd : wf s -> post s (inverse1 P G C p0 cf s o link upd).
Proof.
  intro Hw. unfold inverse1. apply post_with_obj; auto. intros ob Hg.
  destruct (negb _); auto with wfdb.
  pose proof (wf_get _ _ _ Hw Hg) as Hob.
  cbn [push_obj]. set (s1 := mkSt P G C (tens P G C s) (pds P G C s) (npd P G C s) (objs P G C s ++ [ob])).
  assert (Hw1 : wf s1) by (apply (wf_push s ob Hw Hob)).
  assert (Hl1 : tlen s1 = tlen s) by reflexivity.
  set (m := if link && c_inv_link cf then link_set P G C cf s1 (length (objs P G C s)) o else Ok tt s1).
  assert (Hm : post s1 m) by (subst m; destruct (link && c_inv_link cf); auto using link_set_post with wfdb).
  destruct m as [[] s2|e s2]; [|auto with wfdb].
  destruct Hm as [Hw2 Hl2]. cbn in Hw2, Hl2.
  eapply post_weaken with (s := s2); [|lia].
  apply post_with_obj; auto. intros ob2 Hg2. pose proof (wf_get _ _ _ Hw2 Hg2) as Hob2.
  apply post_ret; [|cbn; lia]. apply wf_set_obj; auto.
  destruct (has_exp _ && upd); [|apply ok_set_inv; auto].
  destruct (o_v P G C (set_inv P G C ob2 _)) eqn:Ev; [|apply ok_set_inv; auto].
  apply ok_set_uv; [apply ok_set_inv; auto | apply u_ok_snap | rewrite <- Ev; apply ok_v; apply ok_set_inv; auto].
Qed.

Lemma inverse_all_post l link upd : forall s, wf s -> post s (inverse_all P G C p0 cf s l link upd).
Proof.
  induction l as [|o l IH]; intros s Hw; cbn; auto with wfdb.
  apply post_bind; [apply inverse1_post; auto|]. intros n s1 _ Hw1 _.
  apply post_bind; [apply IH; auto|]. intros ns s2 _ Hw2 _. auto with wfdb.
Qed.

Lemma inverse_post s o link upd : wf s -> post s (inverse P G C p0 cf s o link upd).
Proof.
  intro Hw. unfold inverse. apply post_with_obj; auto. intros ob Hg.
  pose proof (wf_get _ _ _ Hw Hg) as Hob.
  destruct (o_kind P G C ob); try (apply inverse1_post; auto).
  destruct (inverse_all_post (rev (o_members P G C ob)) link upd s Hw) as [Hw1 Hl1].
  destruct (inverse_all P G C p0 cf s (rev (o_members P G C ob)) link upd) as [ns s1|e s1]; cbn in *; auto with wfdb.
  apply post_ret; [|cbn; lia]. apply (wf_push s1 _ Hw1). apply ok_set_members. eapply obj_ok_mono; eauto.
Qed.

(* ---------- constructors ---------- *)
Lemma blank_ok n k g a d b m p :
  (a = None \/ b = None) -> (forall r, a = Some (ATen r) -> r < n) -> (forall r, b = Some (Some r) -> r < n) ->
  (forall r, p = Some r -> r < n) ->
  obj_ok n (mkObj P G C k g None a d b m p None None false []).
Proof. intros. unfold obj_ok; cbn. repeat split; auto using u_ok_none. Qed.

Lemma new_obj_post s k g pk : wf s -> post s (new_obj P G C emptyP zeroP fits spline_ok s k g pk).
Proof.
  intro Hw. unfold new_obj.
  assert (R : post s (
    if is_spline k && negb (spline_ok g) then Er ValueErr s else
    let blank a d b m p := mkObj P G C k g None a d b m p None None false [] in
    match pk with
    | PkNone _ => let (d, s1) := new_pd P G C s None in let (n, s2) := push_obj P G C s1 (blank (Some ANone) d None None None) in Ok n s2
    | PkBool _ b =>
        let (r, s1) := new_ten P G C s (zeroP (emptyP k g)) in
        if b then let (d, s2) := new_pd P G C s1 (Some (Some r)) in let (n, s3) := push_obj P G C s2 (blank None d None None None) in Ok n s3
        else let (d, s2) := new_pd P G C s1 None in let (n, s3) := push_obj P G C s2 (blank None d (Some (Some r)) None None) in Ok n s3
    | PkTen _ p isparam =>
        if negb (fits k p g) then Er ValueErr s else
        let (r, s1) := new_ten P G C s p in
        if isparam then let (d, s2) := new_pd P G C s1 (Some (Some r)) in let (n, s3) := push_obj P G C s2 (blank None d None None None) in Ok n s3
        else let (d, s2) := new_pd P G C s1 None in let (n, s3) := push_obj P G C s2 (blank None d (Some (Some r)) None None) in Ok n s3
    | PkFun _ f ismod =>
        let (r, s1) := new_ten P G C s (zeroP (emptyP k g)) in
        let (d, s2) := new_pd P G C s1 None in
        let (n, s3) := push_obj P G C s2 (if ismod then blank None d None (Some (Some (MFun f))) (Some r)
                                    else blank (Some (AFun f)) d None None (Some r)) in
        Ok n s3
    end)).
  { destruct (is_spline k && negb (spline_ok g)); auto with wfdb.
    assert (Hnew : forall p, wf (snd (new_ten P G C s p)) /\ tlen (snd (new_ten P G C s p)) = S (tlen s))
      by (intro p; split; [apply wf_new_ten; auto | apply tlen_new_ten]).
    destruct pk as [b | p ip | f im |]; cbn zeta.
    - destruct (Hnew (zeroP (emptyP k g))) as [Hw1 Hl1]. cbn [new_ten fst snd] in *.
      destruct b; cbn [new_pd push_obj]; (apply post_ret; [|cbn; cbn in Hl1; lia]).
      + apply wf_push; [apply wf_new_pd; auto; intros r E; injection E as <-; cbn in *; lia|].
        apply blank_ok; auto; intros; discriminate.
      + apply wf_push; [apply wf_new_pd; auto; intros; discriminate|].
        apply blank_ok; auto; try (intros; discriminate). intros r E. injection E as <-. cbn in *. lia.
    - destruct (negb _); auto with wfdb.
      destruct (Hnew p) as [Hw1 Hl1]. cbn [new_ten fst snd] in *.
      destruct ip; cbn [new_pd push_obj]; (apply post_ret; [|cbn; cbn in Hl1; lia]).
      + apply wf_push; [apply wf_new_pd; auto; intros r E; injection E as <-; cbn in *; lia|].
        apply blank_ok; auto; intros; discriminate.
      + apply wf_push; [apply wf_new_pd; auto; intros; discriminate|].
        apply blank_ok; auto; try (intros; discriminate). intros r E. injection E as <-. cbn in *. lia.
    - destruct (Hnew (zeroP (emptyP k g))) as [Hw1 Hl1]. cbn [new_ten fst snd] in *.
      cbn [new_pd push_obj]. apply post_ret; [|cbn; cbn in Hl1; lia].
      apply wf_push; [apply wf_new_pd; auto; intros; discriminate|].
      destruct im; apply blank_ok; auto; try (intros; discriminate); intros r E; injection E as <-; cbn in *; lia.
    - cbn [new_pd push_obj]. apply post_ret; [|cbn; lia].
      apply wf_push; [apply wf_new_pd; auto; intros; discriminate|].
      apply blank_ok; auto; intros; discriminate. }
  destruct k; auto with wfdb.
Qed.

Lemma new_seq_post s ms : wf s -> post s (new_seq P G C same_dom s ms).
Proof.
  intro Hw. unfold new_seq. destruct ms as [|m0 ms']; auto with wfdb.
  apply post_with_obj; auto. intros ob0 _.
  destruct (forallb _ _); auto with wfdb.
  cbn [new_pd push_obj]. apply post_ret; [|cbn; lia].
  apply wf_push; [apply wf_new_pd; auto; intros; discriminate|].
  unfold obj_ok; cbn. repeat split; auto using u_ok_none; intros; discriminate.
Qed.

(* ---------- accessor copies ---------- *)
Lemma private_copy_post s o : wf s -> post s (private_copy P G C s o).
Proof.
  intro Hw. unfold private_copy. apply post_with_obj; auto. intros ob Hg.
  cbn [new_pd push_obj]. apply post_ret; [|cbn; lia].
  apply wf_push.
  - apply wf_new_pd; auto. intros r E. destruct Hw as [_ Hp]. unfold get_pd in E. eauto.
  - apply ok_set_pdid. exact (wf_get _ _ _ Hw Hg).
Qed.
Lemma copy_all_post l : forall s, wf s -> post s (copy_all P G C s l).
Proof.
  induction l as [|o l IH]; intros s Hw; cbn; auto with wfdb.
  apply post_bind; [apply copy_obj_post; auto|]. intros n s1 _ Hw1 _.
  apply post_bind; [apply IH; auto|]. intros ns s2 _ Hw2 _. auto with wfdb.
Qed.
Lemma copy_with_transforms_post s o : wf s -> post s (copy_with_transforms P G C s o).
Proof.
  intro Hw. unfold copy_with_transforms. apply post_with_obj; auto. intros ob Hg.
  pose proof (wf_get _ _ _ Hw Hg) as Hob.
  destruct (copy_all_post (o_members P G C ob) s Hw) as [Hw1 Hl1].
  destruct (copy_all P G C s (o_members P G C ob)) as [ns s1|e s1]; cbn in *; auto with wfdb.
  apply post_ret; [|cbn; lia]. apply (wf_push s1 _ Hw1). apply ok_set_members. eapply obj_ok_mono; eauto.
Qed.
Lemma accessor_copy_post s o b : wf s -> post s (accessor_copy P G C s o b).
Proof.
  intro Hw. unfold accessor_copy. apply post_with_obj; auto. intros ob _.
  destruct (o_kind P G C ob); try (destruct b; [apply private_copy_post | apply copy_obj_post]; auto).
  apply copy_with_transforms_post; auto.
Qed.
Lemma post_rollback {A} s (m : res P G C A) :
  wf s -> post s m -> post s (match m with Ok a s0 => Ok a s0 | Er e _ => Er e s end).
Proof. intros Hw Hm. destruct m; auto with wfdb. Qed.

Lemma data_new_post s o p ip : wf s -> post s (data_new P G C fits cf s o p ip).
Proof.
  intro Hw. unfold data_new. apply post_with_obj; auto. intros ob Hg.
  assert (R : post s (match get_params s ob with
      | None => Er AttrErr s
      | Some pv =>
        if negb (fits (o_kind P G C ob) p (o_grid P G C ob)) then Er ValueErr s else
        match private_copy P G C s o with
        | Er e _ => Er e s
        | Ok n s1 =>
          match (if is_callable pv
                 then with_obj P G C s1 n (fun obn => match o_p P G C obn with
                                               | Some _ => Ok tt (set_obj s1 n (set_p P G C obn None))
                                               | None => Er AttrErr s1 end)
                 else Ok tt s1) with
          | Er e _ => Er e s
          | Ok _ s2 =>
            let (r, s3) := new_ten P G C s2 p in
            let keep := match pv with VTen _ true => true | _ => false end in
            match set_params P G C s3 n (SetTen r (keep || ip)) with
            | Er e _ => Er e s
            | Ok _ s4 => Ok n (clear_buffers s4 n)
            end
          end
        end
      end)).
  { destruct (get_params s ob) as [pv|]; auto with wfdb.
    destruct (negb _); auto with wfdb.
    destruct (private_copy_post s o Hw) as [Hw1 Hl1].
    destruct (private_copy P G C s o) as [n s1|e s1]; cbn in Hw1, Hl1; auto with wfdb.
    set (m2 := if is_callable pv then _ else _).
    assert (H2 : post s1 m2).
    { subst m2. destruct (is_callable pv); auto with wfdb. apply post_with_obj; auto. intros obn Hgn.
      destruct (o_p P G C obn); auto with wfdb. apply post_ret; [|cbn; lia].
      apply wf_set_obj; auto. apply ok_set_p; [eapply wf_get; eauto | intros; discriminate]. }
    destruct m2 as [[] s2|e s2]; auto with wfdb. destruct H2 as [Hw2 Hl2]. cbn in Hw2, Hl2.
    destruct (new_ten P G C s2 p) as [r s3] eqn:En.
    assert (Es : s3 = snd (new_ten P G C s2 p)) by (rewrite En; reflexivity).
    assert (Er : r = tlen s2) by (unfold new_ten in En; injection En as <- _; reflexivity).
    assert (Hw3 : wf s3) by (rewrite Es; apply wf_new_ten; auto).
    assert (Hl3 : tlen s3 = S (tlen s2)) by (rewrite Es; apply tlen_new_ten).
    cbn zeta.
    assert (H4 : post s3 (set_params P G C s3 n (SetTen r (match pv with VTen _ true => true | _ => false end || ip)))).
    { apply set_params_post; auto. intros r' ip' E. injection E as <- _. lia. }
    destruct (set_params P G C s3 n _) as [[] s4|e s4]; auto with wfdb.
    destruct H4 as [Hw4 Hl4]. cbn in Hw4, Hl4.
    apply post_ret; [apply wf_clear_buffers; auto | rewrite tlen_clear_buffers; lia]. }
  destruct (o_kind P G C ob); auto with wfdb.
Qed.

(* ---------- every operation, every history ---------- *)
Notation step := (step P G C p0 emptyP zeroP fillP regrid callP fits geq same_dom spline_ok ffd_sub cf).
Notation run := (run P G C p0 emptyP zeroP fillP regrid callP fits geq same_dom spline_ok ffd_sub cf).

Lemma fin_wf {A} s (m : res P G C A) f : post s m -> wf (fst (fin P G C m f)).
Proof. intros [H _]. destruct m; exact H. Qed.

Theorem step_wf s x : wf s -> wf (fst (step s x)).
Proof.
  intro Hw. destruct x; cbn [TransformState.step].
  - apply (fin_wf s). apply new_obj_post; auto.
  - apply (fin_wf s). apply new_seq_post; auto.
  - apply (fin_wf s). apply data_set_post; auto.
  - apply (fin_wf s). apply edit_post; auto.
  - apply (fin_wf s). apply grid_set_post; auto.
  - apply (fin_wf s). apply cond_set_post; auto.
  - apply (fin_wf s). apply post_rollback; auto.
    apply post_bind; [apply accessor_copy_post; auto|]. intros n s1 _ Hw1 _. apply cond_set_post; auto.
  - apply (fin_wf s). apply post_rollback; auto.
    apply post_bind; [apply accessor_copy_post; auto|]. intros n s1 _ Hw1 _. apply grid_set_post; auto.
  - apply (fin_wf s). apply data_new_post; auto.
  - apply (fin_wf s). apply reset_post; auto.
  - apply (fin_wf s). apply update_post; auto.
  - apply (fin_wf s). apply call_post; auto.
  - destruct (TransformState.get_obj P G C s o); [apply (fin_wf s); apply forward_post; auto | exact Hw].
  - apply (fin_wf s). apply forward_post; auto.
  - apply (fin_wf s). apply inverse_post; auto.
  - apply (fin_wf s). apply link_set_post; auto.
  - apply (fin_wf s). apply unlink_post; auto.
  - destruct (TransformState.get_obj P G C s o); [apply wf_clear_buffers; auto | exact Hw].
  - apply (fin_wf s). apply copy_obj_post; auto.
Qed.

Lemma wf_empty : wf (empty_state P G C).
Proof. split; cbn; [constructor | intros; discriminate]. Qed.

Theorem run_wf h : forall s, wf s -> wf (run s h).
Proof. induction h as [|x h IH]; intros s Hw; cbn; auto. apply IH. apply step_wf; auto. Qed.

Corollary reachable_wf h : wf (run (empty_state P G C) h).
Proof. apply run_wf. apply wf_empty. Qed.

End Wf.
