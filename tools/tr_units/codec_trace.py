"""Tracer behind Gen/Codec.v (run as a subprocess by tr_units/codec.py with PYTHONPATH = <repo>/src : tools).

deepali's own I/O functions (utils/imageio/meta.py, nifti.py, sitk.py, utils/simpleitk/torch.py) are EXECUTED
from the working tree; only their third-party end points are replaced by recorders (nibabel's load / save /
Nifti1Image, StorageObject, Grid construction).  Header values are symbols (symtorch.E inside numpy object
arrays -- the writers only str() them, the NIfTI code does arithmetic on them) or, where the code parses text
into floats, *position-coded numbers* decoded back into symbols (only signed selections are accepted, anything
else aborts: fail-closed).  Voxel data are position-coded integers, so the captured arrays are the index
permutations the code performs.  Output: the body of coq/Gen/Codec.v on stdout after the marker line.
"""
import io
import itertools
import json
import os
import sys
import traceback
import zlib

import numpy as np
import torch

import symtorch as st
from symtorch import E, TraceError

import deepali.utils.imageio.meta as M
import deepali.utils.imageio.nifti as NI
import deepali.utils.imageio.sitk as SK
import deepali.utils.simpleitk.torch as ST
import SimpleITK as sitk

NPTY = {"uint8": "U8", "int8": "I8", "int16": "I16", "uint16": "U16", "int32": "I32", "uint32": "U32", "int64": "I64",
        "uint64": "U64", "float32": "F32", "float64": "F64"}
TORCH_TYPES = ["uint8", "int8", "int16", "int32", "int64", "float32", "float64"]
PRIMES = [5, 7, 11]           # X, Y, Z sizes used to decode size permutations
SMALL = [3, 2, 2]             # X, Y, Z sizes of the payload samples
ERR = {"ValueError": "EValue", "TypeError": "EType", "IndexError": "EIndex", "NotImplementedError": "EOther"}


def estatus(e):
    return ERR.get(type(e).__name__, "EOther")


def symarr(prefix, *shape):
    a = np.empty(shape, dtype=object)
    for idx in np.ndindex(*shape):
        a[idx] = E.var(prefix + "".join(str(i) for i in idx))
    return a


class TAdapter:
    """what deepali's I/O code calls on a grid attribute tensor"""

    def __init__(self, a):
        self.a = a

    def cpu(self):
        return self

    def numpy(self):
        return self.a.copy()

    def tolist(self):
        return self.a.tolist()

    def flatten(self):
        return TAdapter(self.a.reshape(-1))


class FakeGrid:
    def __init__(self, D, size=None):
        self.ndim = D
        self._o, self._s, self._d = symarr("o", D), symarr("s", D), symarr("d", D, D)
        self._size = size
        self.shape = tuple(reversed(size)) if size else None

    def origin(self):
        return TAdapter(self._o)

    def spacing(self):
        return TAdapter(self._s)

    def direction(self):
        return TAdapter(self._d)

    def affine(self):
        # Grid.affine of the working tree, evaluated symbolically on this grid's attributes
        return TAdapter(sym_grid_affine(self))


_SYM = {}


def sym_grid_module():
    if "G" not in _SYM:
        import symload
        _SYM["G"] = symload.SymLoader().load("deepali.core.grid")
    return _SYM["G"]


def sym_grid(D):
    G = sym_grid_module()
    g = object.__new__(G.Grid)
    g._size = st.Tensor(np.array([E.var(f"n{i}", integer=True, positive=True) for i in range(D)], dtype=object))
    g._spacing = st.Tensor(symarr("s", D))
    g._center = st.Tensor(symarr("c", D))
    g._direction = st.Tensor(symarr("d", D, D))
    g._align_corners = True
    return g


def sym_grid_affine(fg):
    return sym_grid(fg.ndim).affine().a


class FakeStorage:
    """StorageObject.from_path(...) context manager recording written bytes"""
    written = None

    def __init__(self, path):
        self.path = path

    @classmethod
    def from_path(cls, path):
        return cls(path)

    def __enter__(self):
        return self

    def __exit__(self, *a):
        return False

    def write_bytes(self, blob):
        FakeStorage.written = blob

    def pull(self, force=False):
        return self

    def push(self, force=False):
        return self


LAYOUTS = ("contiguous", "fortran", "strided")


def relayout(t, layout):
    """same logical tensor, different memory layout: Fortran-ordered (permuted view of a contiguous tensor) or a
    strided slice of a larger buffer"""
    if layout == "contiguous":
        return t
    if layout == "fortran":
        rev = tuple(reversed(range(t.ndim)))
        return t.permute(*rev).contiguous().permute(*rev)
    if layout == "strided":
        big = torch.zeros(t.shape[:-1] + (2 * t.shape[-1],), dtype=t.dtype)
        big[..., ::2] = t
        return big[..., ::2]
    raise KeyError(layout)


def coded(shape, dtype=torch.int64, layout="contiguous"):
    n = int(np.prod(shape))
    t = relayout(torch.arange(n, dtype=dtype).reshape(shape), layout)
    if layout != "contiguous" and t.ndim > 1 and t.is_contiguous() and n > max(shape):
        raise TraceError("non-contiguous test layout came out contiguous")
    return t


def tok_expr(tok):
    """header token -> E; only  name  or  (-name)  are signed selections"""
    t = tok.strip()
    neg = False
    if t.startswith("(-") and t.endswith(")"):
        neg, t = True, t[2:-1]
    if not t.replace("_", "").isalnum():
        raise TraceError(f"header token {tok!r} is not a signed selection of a grid attribute")
    e = E.var(t)
    return -e if neg else e


def coq_list(items):
    return "[" + "; ".join(items) + "]"


def coq_e(e):
    return st.to_coq(e)


def nat_list(l):
    return coq_list([f"{int(x)}%nat" for x in l])


def pat_vec(prefix, n):
    return coq_list([f"{prefix}{i}" for i in range(n)])


def pat_mat(prefix, r, c):
    return coq_list([coq_list([f"{prefix}{i}{j}" for j in range(c)]) for i in range(r)])


out = []          # Coq text
notes = []


def emit(s):
    out.append(s)


# =================================================================================================
# A. MetaImage writer
# =================================================================================================
def trace_meta_write(D, C, size, dtype="int16", compress=False, with_channel_dim=True, layout="contiguous"):
    """run write_meta_image, then the real meta_image_bytes on the captured (position-coded) array"""
    shape = ((C,) if with_channel_dim else ()) + tuple(reversed(size))
    data = coded(shape, layout=layout)
    grid = FakeGrid(D, size)
    cap = {}
    real_mib = M.meta_image_bytes
    real_so = M.StorageObject

    def capture(arr, meta):
        cap["arr"], cap["meta"] = arr, dict(meta)      # the very array object (its memory layout matters to tobytes)
        return b""
    M.meta_image_bytes, M.StorageObject = capture, FakeStorage
    try:
        M.write_meta_image(data, grid, "x.mha", compress=compress)
    finally:
        M.meta_image_bytes, M.StorageObject = real_mib, real_so
    arr, meta = cap["arr"], cap["meta"]
    blob = real_mib(arr.astype(np.dtype(dtype)), meta)
    head, _, body = blob.partition(b"ElementDataFile = LOCAL\n")
    hdr = {}
    for line in head.decode("ascii").splitlines():
        k, v = line.split("=", 1)
        hdr[k.strip()] = v.strip()
    if hdr.get("CompressedData") == "True":
        body = zlib.decompress(body[: int(hdr["CompressedDataSize"])])
    payload = np.frombuffer(body, dtype=np.dtype(dtype)).astype(np.int64).tolist()
    return hdr, payload, arr.shape


def size_syms(dimsize, size):
    """decode a list of sizes (distinct primes) into positions of grid.size()"""
    r = []
    for v in dimsize:
        if v not in size:
            raise TraceError(f"size entry {v} is not one of the grid sizes {size}")
        r.append(size.index(v))
    return r


def gen_meta_writer():
    emit("(* ---- MetaImage writer: write_meta_image + meta_image_bytes ---- *)")
    ints = []
    for D in (2, 3):
        size = PRIMES[:D]
        hdr1 = None
        for C in (1, 2, 3):
            hdr, payload, shp = trace_meta_write(D, C, size)
            ints.append(f"(({D}%nat, {C}%nat), ({int(hdr['NDims'])}%nat, {int(hdr.get('ElementNumberOfChannels', 1))}%nat))")
            key = (hdr["Offset"], hdr["TransformMatrix"], hdr["ElementSpacing"], hdr["DimSize"])
            if hdr1 is None:
                hdr1 = (hdr, key)
            elif key != hdr1[1]:
                raise TraceError("MetaImage header geometry depends on the channel count")
        hdr = hdr1[0]
        for k in ("Position", "Origin", "Orientation", "Rotation"):
            if k in hdr:
                raise TraceError(f"writer emits alias key {k}")
        off = [tok_expr(t) for t in hdr["Offset"].split()]
        tm = [tok_expr(t) for t in hdr["TransformMatrix"].split()]
        sp = [tok_expr(t) for t in hdr["ElementSpacing"].split()]
        pos = size_syms([int(t) for t in hdr["DimSize"].split()], size)
        emit(f"Definition gen_meta_w_offset_{D} (o : list K) : list K :=\n  match o with {pat_vec('o', D)} => {coq_list([coq_e(e) for e in off])} | _ => [] end.")
        emit(f"Definition gen_meta_w_spacing_{D} (s : list K) : list K :=\n  match s with {pat_vec('s', D)} => {coq_list([coq_e(e) for e in sp])} | _ => [] end.")
        emit(f"Definition gen_meta_w_tm_{D} (d : list (list K)) : list K :=\n  match d with {pat_mat('d', D, D)} => {coq_list([coq_e(e) for e in tm])} | _ => [] end.")
        emit(f"Definition gen_meta_w_dimsize_{D} (n : list nat) : list nat :=\n  match n with {pat_vec('n', D)} => {coq_list(['n%d' % p for p in pos])} | _ => [] end.")
    emit("Definition gen_meta_w_ints : list ((nat * nat) * (nat * nat)) :=\n  " + coq_list(ints) + ".")
    # dtype table of the writer
    rows = []
    for dt in TORCH_TYPES:
        try:
            hdr, _, _ = trace_meta_write(3, 1, SMALL, dtype=dt)
            rows.append(f"({NPTY[dt]}, Some \"{hdr['ElementType']}\"%string)")
        except Exception as e:  # noqa
            rows.append(f"({NPTY[dt]}, None)")
    emit("Definition gen_meta_w_type : list (npty * option string) :=\n  " + coq_list(rows) + ".")
    # payload order samples (position-coded data), D x C x compress x memory layout of the input tensor
    rows = []
    for D in (2, 3):
        for C in (1, 2, 3):
            for comp in (False, True):
                for layout in LAYOUTS:
                    hdr, payload, shp = trace_meta_write(D, C, SMALL[:D], compress=comp, layout=layout)
                    if (hdr.get("CompressedData") == "True") != comp:
                        raise TraceError("CompressedData header does not follow the compress argument")
                    rows.append(f"(({D}%nat, {C}%nat, {nat_list(SMALL[:D])}), {nat_list(payload)})")
    emit("Definition gen_meta_w_payload_samples : list ((nat * nat * list nat) * list nat) :=\n  " + coq_list(rows) + ".")
    # data without channel dimension (write_image accepts data.ndim == grid.ndim)
    try:
        hdr, payload, shp = trace_meta_write(3, 1, PRIMES, with_channel_dim=False)
        pos = [int(t) for t in hdr["DimSize"].split()]
        okdims = pos == PRIMES and int(hdr["NDims"]) == 3 and int(hdr.get("ElementNumberOfChannels", 1)) == 1
        emit(f"Definition gen_meta_w_nochannel_ok : bool := {'true' if okdims else 'false'}.  (* NDims={hdr['NDims']} DimSize={hdr['DimSize']} channels={hdr.get('ElementNumberOfChannels')} for a 3-D scalar array of size {PRIMES} *)")
    except Exception as e:  # noqa
        emit(f"Definition gen_meta_w_nochannel_ok : bool := false. (* raises {type(e).__name__} *)")
    # ... and the whole file (header and payload) must be the one written for the same data with a leading channel axis of 1
    same = True
    for D in (2, 3):
        for comp in (False, True):
            try:
                h0, p0, _ = trace_meta_write(D, 1, SMALL[:D], compress=comp, with_channel_dim=False)
                h1, p1, _ = trace_meta_write(D, 1, SMALL[:D], compress=comp, with_channel_dim=True)
                same = same and h0 == h1 and p0 == p1
            except Exception:  # noqa
                same = False
    emit(f"Definition gen_meta_w_nochannel_same_as_c1 : bool := {'true' if same else 'false'}.")


# =================================================================================================
# B. MetaImage reader
# =================================================================================================
class GridCapture:
    last = None

    def __init__(self, **kw):
        GridCapture.last = kw
        self.ndim = len(kw["size"])


class TorchShim:
    @staticmethod
    def from_numpy(a):
        return a


def mha_bytes(D, C, size, elemtype="MET_SHORT", compress=False, tm_key="TransformMatrix", off_key="Offset", msb=None):
    """a well-formed MetaImage with position-coded header values and payload (form written by ITK and by the library)"""
    n = int(np.prod(size)) * C
    payload = np.arange(n).astype(M.META_IMAGE_TYPES[elemtype])
    if msb:
        payload = payload.astype(payload.dtype.newbyteorder(">"))
    payload = payload.tobytes()
    order = [f"{msb} = True"] if msb else ["BinaryDataByteOrderMSB = False"]
    lines = ["ObjectType = Image", f"NDims = {D}", "BinaryData = True"] + order + [
             f"CompressedData = {compress}"]
    if compress:
        payload = zlib.compress(payload, level=2)
        lines.append(f"CompressedDataSize = {len(payload)}")
    lines += [f"{tm_key} = " + " ".join(str(300 + k) for k in range(D * D)),
              f"{off_key} = " + " ".join(str(100 + k) for k in range(D)),
              "ElementSpacing = " + " ".join(str(200 + k) for k in range(D)),
              "DimSize = " + " ".join(str(s) for s in size)]
    if C > 1:
        lines.append(f"ElementNumberOfChannels = {C}")
    lines += [f"ElementType = {elemtype}", "ElementDataFile = LOCAL"]
    return ("\n".join(lines) + "\n").encode("ascii") + payload


def decode(v, base, prefix, n):
    """position-coded number -> signed symbol"""
    for sign in (1, -1):
        k = sign * float(v) - base
        if abs(k - round(k)) < 1e-9 and 0 <= round(k) < n:
            e = E.var(f"{prefix}{int(round(k))}")
            return e if sign == 1 else -e
    raise TraceError(f"value {v} read from the header is not a signed selection of a header entry")


def trace_meta_read(D, C, size, **kw):
    blob = mha_bytes(D, C, size, **kw)
    real_grid, real_torch = M.Grid, M.torch
    M.Grid, M.torch = GridCapture, TorchShim
    GridCapture.last = None
    try:
        data, grid = M.read_meta_image(blob)
    finally:
        M.Grid, M.torch = real_grid, real_torch
    return np.asarray(data), GridCapture.last


def gen_meta_reader():
    emit("(* ---- MetaImage reader: read_meta_image + read_meta_image_from_fileobj ---- *)")
    status = []
    for D in (2, 3):
        size = PRIMES[:D]
        geo = None
        for C in (1, 2, 3):
            for comp in (False, True):
                try:
                    data, kw = trace_meta_read(D, C, size, compress=comp)
                    st_ = "ROk"
                    if list(data.shape) != [C] + list(reversed(size)):
                        st_ = "RShape"
                    g = (np.asarray(kw["origin"]).tolist(), np.asarray(kw["direction"]).tolist(), np.asarray(kw["spacing"]).tolist(),
                         [int(x) for x in kw["size"]])
                    if geo is None:
                        geo = g
                    elif g != geo:
                        raise TraceError("MetaImage reader geometry depends on channel count / compression")
                except TraceError:
                    raise
                except Exception as e:  # noqa
                    st_ = estatus(e)
                status.append(f"(({D}%nat, {C}%nat, {'true' if comp else 'false'}), {st_})")
        if geo is None:
            # no configuration of this dimension can be read: the geometry functions are undefined
            emit(f"Definition gen_meta_r_origin_{D} (o : list K) : option (list K) := None.")
            emit(f"Definition gen_meta_r_spacing_{D} (s : list K) : option (list K) := None.")
            emit(f"Definition gen_meta_r_direction_{D} (t : list K) : option (list (list K)) := None.")
            emit(f"Definition gen_meta_r_size_{D} (n : list nat) : option (list nat) := None.")
            continue
        o, d, s, n = geo
        oe = [decode(v, 100, "o", D) for v in o]
        se = [decode(v, 200, "s", D) for v in s]
        de = [[decode(v, 300, "t", D * D) for v in row] for row in d]
        pos = size_syms(n, size)
        emit(f"Definition gen_meta_r_origin_{D} (o : list K) : option (list K) :=\n  match o with {pat_vec('o', D)} => Some {coq_list([coq_e(e) for e in oe])} | _ => None end.")
        emit(f"Definition gen_meta_r_spacing_{D} (s : list K) : option (list K) :=\n  match s with {pat_vec('s', D)} => Some {coq_list([coq_e(e) for e in se])} | _ => None end.")
        emit(f"Definition gen_meta_r_direction_{D} (t : list K) : option (list (list K)) :=\n  match t with {pat_vec('t', D * D)} => Some {coq_list([coq_list([coq_e(e) for e in r]) for r in de])} | _ => None end.")
        emit(f"Definition gen_meta_r_size_{D} (n : list nat) : option (list nat) :=\n  match n with {pat_vec('n', D)} => Some {coq_list(['n%d' % p for p in pos])} | _ => None end.")
    emit("Definition gen_meta_r_status : list ((nat * nat * bool) * rstatus) :=\n  " + coq_list(status) + ".")
    # alias keys: Position > Origin > Offset ; Rotation > Orientation > TransformMatrix
    alias = []
    for tmk, ofk in itertools.product(("TransformMatrix", "Orientation", "Rotation"), ("Offset", "Origin", "Position")):
        try:
            data, kw = trace_meta_read(3, 1, PRIMES, tm_key=tmk, off_key=ofk)
            ok = (np.asarray(kw["origin"]).tolist() == [100, 101, 102]) and sorted(np.asarray(kw["direction"]).reshape(-1).tolist()) == list(range(300, 309))
        except Exception:  # noqa
            ok = False
        alias.append(f"((\"{tmk}\"%string, \"{ofk}\"%string), {'true' if ok else 'false'})")
    emit("Definition gen_meta_r_alias : list ((string * string) * bool) :=\n  " + coq_list(alias) + ".")
    # element types
    rows = []
    for name in M.META_IMAGE_TYPES:
        try:
            data, kw = trace_meta_read(3, 1, SMALL, elemtype=name)
            rows.append(f"(\"{name}\"%string, Some {NPTY[np.asarray(data).dtype.name]})")
        except Exception as e:  # noqa
            rows.append(f"(\"{name}\"%string, None)")
    emit("Definition gen_meta_r_type : list (string * option npty) :=\n  " + coq_list(rows) + ".")
    rows = []
    for name, ty in M.META_IMAGE_TYPES.items():
        rows.append(f"(\"{name}\"%string, {NPTY[np.dtype(ty).name]})")
    emit("Definition gen_meta_types : list (string * npty) :=\n  " + coq_list(rows) + ".")
    # big-endian files (BinaryDataByteOrderMSB / ElementByteOrderMSB = True): position-coded payload must come back in order
    rows = []
    for key in ("BinaryDataByteOrderMSB", "ElementByteOrderMSB"):
        for C in (1, 2):
            for comp in (False, True):
                try:
                    data, kw = trace_meta_read(3, C, SMALL, compress=comp, msb=key)
                    ok = np.asarray(data).reshape(-1).tolist() == trace_meta_read(3, C, SMALL, compress=comp)[0].reshape(-1).tolist()
                except Exception:  # noqa
                    ok = False
                rows.append(f"((\"{key}\"%string, {C}%nat, {'true' if comp else 'false'}), {'true' if ok else 'false'})")
    emit("Definition gen_meta_r_msb : list ((string * nat * bool) * bool) :=\n  " + coq_list(rows) + ".")
    # payload order samples
    rows = []
    for D in (2, 3):
        for C in (1, 2, 3):
            for comp in (False, True):
                try:
                    data, kw = trace_meta_read(D, C, SMALL[:D], compress=comp)
                    rows.append(f"(({D}%nat, {C}%nat, {nat_list(SMALL[:D])}), Some {nat_list(np.asarray(data).reshape(-1).tolist())})")
                except Exception:  # noqa
                    rows.append(f"(({D}%nat, {C}%nat, {nat_list(SMALL[:D])}), None)")
    emit("Definition gen_meta_r_payload_samples : list ((nat * nat * list nat) * option (list nat)) :=\n  " + coq_list(rows) + ".")


# =================================================================================================
# C. NIfTI writer / reader (nibabel end points recorded)
# =================================================================================================
class FakeNib:
    class Nifti1Image:
        def __init__(self, dataobj, affine):
            affine = np.asarray(affine)
            if affine.shape != (4, 4):           # nibabel.Nifti1Image: "Affine should be shape 4,4"
                raise ValueError("Affine should be shape 4,4")
            self.dataobj, self.affine = np.asarray(dataobj), affine
            self.header = FakeNib.Header()

    class Header:
        """the part of nibabel's header interface a writer may touch; anything else aborts the trace"""
        def __init__(self):
            self.intent = 0

        def set_intent(self, code, *a, **k):
            codes = {"vector": 1007, "none": 0}
            self.intent = codes.get(code, code) if isinstance(code, str) else int(code)

        def __getattr__(self, name):
            raise TraceError(f"NIfTI header method {name} is outside the traced vocabulary")

    saved = None

    @staticmethod
    def save(img, path):
        FakeNib.saved = img

    to_load = None

    @staticmethod
    def load(path):
        return FakeNib.to_load


class FakeDataobj:
    def __init__(self, a):
        self.a, self.slope, self.inter = a, 1.0, 0.0

    def get_unscaled(self):
        return self.a


class FakeNiftiFile:
    def __init__(self, dim, pixdim, affine, intent, data):
        self.header = {"dim": np.array(dim), "pixdim": pixdim, "intent_code": intent}
        self.affine = affine
        self.dataobj = FakeDataobj(data)

    def get_fdata(self):
        raise TraceError("scaled NIfTI data path is outside the traced configuration")


class NpProxy:
    """numpy with  abs  made symbolic-aware: |x| < eps is answered 'no' for symbols (generic branch of the
    snap-to-zero step; recorded as an assumption), concretely for constants"""

    def __getattr__(self, name):
        return getattr(np, name)

    @staticmethod
    def abs(a):
        a = np.asarray(a)
        if a.dtype != object:
            return np.abs(a)
        r = np.empty(a.shape, dtype=float)
        for idx in np.ndindex(*a.shape):
            e = a[idx]
            if isinstance(e, E) and e.is_const():
                r[idx] = abs(float(e.value()))
            else:
                r[idx] = 1.0      # generic symbol: not below machine epsilon
                NpProxy.used = True
        return r

    used = False


class NpObj:
    """numpy whose constant matrix constructors give object arrays, so that symbolic grid attributes can be written into them"""

    def __getattr__(self, name):
        return getattr(np, name)

    @staticmethod
    def _obj(a):
        o = np.empty(a.shape, dtype=object)
        for idx in np.ndindex(*a.shape):
            o[idx] = E.const(int(a[idx])) if float(a[idx]).is_integer() else E.const(float(a[idx]))
        return o

    def eye(self, *a, **k):
        k.pop("dtype", None)
        return self._obj(np.eye(*a, **k))

    def zeros(self, *a, **k):
        k.pop("dtype", None)
        return self._obj(np.zeros(*a, **k))

    def identity(self, *a, **k):
        k.pop("dtype", None)
        return self._obj(np.identity(*a, **k))


def written_layout(img, D, C):
    shp, intent = list(np.asarray(img.dataobj).shape), img.header.intent
    if C == 1 and len(shp) == D and intent == 0:
        return "LScalar"
    if len(shp) == D + 1 and shp[-1] == C and intent == 0:
        return "LOwn"
    if C > 1 and len(shp) == 5 and shp[D:4] == [1] * (4 - D) and shp[4] == C and intent == 1007:
        return "LItkVector"
    return None


def trace_nifti_write(D, C, size, with_channel_dim=True, layout="contiguous"):
    shape = ((C,) if with_channel_dim else ()) + tuple(reversed(size))
    data = coded(shape, layout=layout)
    grid = FakeGrid(D, size)
    real = (NI.nib, NI.StorageObject, NI.unlink_or_mkdir, NI.np)
    NI.nib, NI.StorageObject, NI.unlink_or_mkdir, NI.np = FakeNib, FakeStorage, (lambda p: p), NpObj()
    FakeNib.saved = None
    try:
        NI.write_nifti_image(data, grid, "x.nii")
    finally:
        NI.nib, NI.StorageObject, NI.unlink_or_mkdir, NI.np = real
    return FakeNib.saved


def trace_nifti_read(dim, D, intent, datashape):
    """dim: NIfTI dim[0..7]; header with symbolic pixdim p_i and affine a_ij; position-coded data in nibabel's
    (X, Y, ...) array order (Fortran order on disk = C order of the reversed axes)"""
    n = int(np.prod(datashape))
    data = np.arange(n).reshape(tuple(reversed(datashape))).transpose()   # data[x, y, ...] coded by disk position
    pixdim = np.array([E.const(1)] + [E.var(f"p{i}") for i in range(7)], dtype=object)
    aff = symarr("a", 4, 4)
    FakeNib.to_load = FakeNiftiFile(dim, pixdim, aff, intent, data)
    real = (NI.nib, NI.StorageObject, NI.Grid, NI.torch, NI.np)
    NI.nib, NI.StorageObject, NI.Grid, NI.torch, NI.np = FakeNib, FakeStorage, GridCapture, TorchShim, NpProxy()
    GridCapture.last = None
    try:
        out, _ = NI.read_nifti_image("x.nii")
    finally:
        NI.nib, NI.StorageObject, NI.Grid, NI.torch, NI.np = real
    return np.asarray(out), GridCapture.last


def gen_nifti():
    emit("(* ---- NIfTI writer: write_nifti_image (nibabel.Nifti1Image / save recorded; it accepts 4x4 affines only) ---- *)")
    wstatus, wlayout = [], []
    for D in (2, 3):
        aff = None
        for C in (1, 2, 3):
            try:
                img = trace_nifti_write(D, C, PRIMES[:D])
                wstatus.append(f"(({D}%nat, {C}%nat), ROk)")
                lay = written_layout(img, D, C)
                wlayout.append(f"(({D}%nat, {C}%nat), {'Some ' + lay if lay else 'None'})")
                a = img.affine
                key = [[st.to_text(E.const(x)) for x in r] for r in a]
                if aff is None:
                    aff = (a, key, list(img.dataobj.shape))
                elif key != aff[1]:
                    raise TraceError("NIfTI affine depends on the channel count")
            except TraceError:
                raise
            except Exception as e:  # noqa
                wstatus.append(f"(({D}%nat, {C}%nat), {estatus(e)})")
        args = f"(o : list K) (s : list K) (d : list (list K))"
        if aff is None:
            emit(f"Definition gen_nifti_w_affine_{D} {args} : option (list (list K)) := None.")
        else:
            rows = coq_list([coq_list([coq_e(E.const(x)) for x in r]) for r in aff[0]])
            emit(f"Definition gen_nifti_w_affine_{D} {args} : option (list (list K)) :=\n  match o, s, d with {pat_vec('o', D)}, {pat_vec('s', D)}, {pat_mat('d', D, D)} => Some {rows} | _, _, _ => None end.")
    emit("Definition gen_nifti_w_status : list ((nat * nat) * rstatus) :=\n  " + coq_list(wstatus) + ".")
    emit("(* array layout handed to nibabel (dimensions and intent code), classified; None = not one of the modelled layouts *)")
    emit("Definition gen_nifti_w_layout : list ((nat * nat) * option nlayout) :=\n  " + coq_list(wlayout) + ".")
    rows = []
    for D in (2, 3):
        for C in (1, 2, 3):
          for layout in LAYOUTS:
            try:
                img = trace_nifti_write(D, C, SMALL[:D], layout=layout)
                a = np.asarray(img.dataobj)
                # on-disk order of a NIfTI array (first index fastest) = C order of the transposed array
                lay = written_layout(img, D, C)
                if lay is None:
                    raise ValueError("unmodelled layout")
                rows.append(f"(({D}%nat, {C}%nat, {nat_list(SMALL[:D])}), Some ({lay}, {nat_list(a.shape)}, {nat_list(a.transpose().reshape(-1).tolist())}))")
            except TraceError:
                raise
            except Exception:  # noqa
                rows.append(f"(({D}%nat, {C}%nat, {nat_list(SMALL[:D])}), None)")
    emit("Definition gen_nifti_w_payload_samples : list ((nat * nat * list nat) * option (nlayout * list nat * list nat)) :=\n  " + coq_list(rows) + ".")

    emit("(* ---- NIfTI reader: read_nifti_image.  Layouts: scalar D-dimensional (dim[0] = D), ITK vector layout\n"
         "        (dim[0] = 5, dim[5] = C, intent 1007), and the layout the library's own writer produces (dim[0] = D + 1,\n"
         "        channels on the next axis, intent 0).  Branch traced for the snap-to-zero step: entries are not below\n"
         "        machine epsilon in magnitude. ---- *)")
    layouts = []
    for D in (2, 3):
        sz = PRIMES[:D]
        layouts.append((f"LScalar", D, 1, [D] + sz + [1] * (7 - D), 0, sz))
        for C in (2, 3):
            layouts.append((f"LItkVector", D, C, [5] + sz + [1] * (4 - D) + [C, 1, 1], 1007, sz + [1] * (4 - D) + [C]))
            layouts.append((f"LOwn", D, C, [D + 1] + sz + [C] + [1] * (6 - D), 0, sz + [C]))
        layouts.append((f"LOwn", D, 1, [D + 1] + sz + [1] + [1] * (6 - D), 0, sz + [1]))
    rstatus, geo_done = [], {}
    for name, D, C, dim, intent, dshape in layouts:
        try:
            data, kw = trace_nifti_read(dim, D, intent, dshape)
            ok_shape = list(data.shape) == [C] + list(reversed(PRIMES[:D]))
            gsize = [int(x) for x in np.asarray(kw["size"]).tolist()]
            ok_grid = gsize == PRIMES[:D]
            rstatus.append(f"(({name}, {D}%nat, {C}%nat), {'ROk' if (ok_shape and ok_grid) else 'RShape'})")
            if (ok_shape and ok_grid) and D not in geo_done:
                geo_done[D] = kw
        except TraceError:
            raise
        except Exception as e:  # noqa
            rstatus.append(f"(({name}, {D}%nat, {C}%nat), {estatus(e)})")
    emit("Definition gen_nifti_r_status : list ((nlayout * nat * nat) * rstatus) :=\n  " + coq_list(rstatus) + ".")
    for D in (2, 3):
        args = "(a : list (list K)) (p : list K)"
        if D not in geo_done:
            emit(f"Definition gen_nifti_r_origin_{D} {args} : option (list K) := None.")
            emit(f"Definition gen_nifti_r_spacing_{D} {args} : option (list K) := None.")
            emit(f"Definition gen_nifti_r_direction_{D} {args} : option (list (list K)) := None.")
            continue
        kw = geo_done[D]
        pat = f"match a, p with {pat_mat('a', 4, 4)}, p0 :: p1 :: p2 :: _ =>"
        o = [coq_e(E.const(x)) for x in np.asarray(kw["origin"]).tolist()]
        s = [coq_e(E.const(x)) for x in np.asarray(kw["spacing"]).tolist()]
        d = [[coq_e(E.const(x)) for x in r] for r in np.asarray(kw["direction"]).tolist()]
        emit(f"Definition gen_nifti_r_origin_{D} {args} : option (list K) :=\n  {pat} Some {coq_list(o)} | _, _ => None end.")
        emit(f"Definition gen_nifti_r_spacing_{D} {args} : option (list K) :=\n  {pat} Some {coq_list(s)} | _, _ => None end.")
        emit(f"Definition gen_nifti_r_direction_{D} {args} : option (list (list K)) :=\n  {pat} Some {coq_list([coq_list(r) for r in d])} | _, _ => None end.")
    rows = []
    for name, D, C in (("LScalar", 2, 1), ("LScalar", 3, 1), ("LItkVector", 2, 2), ("LItkVector", 3, 2), ("LOwn", 3, 2), ("LOwn", 2, 2)):
        sz = SMALL[:D]
        if name == "LScalar":
            dim, intent, dshape = [D] + sz + [1] * (7 - D), 0, sz
        elif name == "LItkVector":
            dim, intent, dshape = [5] + sz + [1] * (4 - D) + [C, 1, 1], 1007, sz + [1] * (4 - D) + [C]
        else:
            dim, intent, dshape = [D + 1] + sz + [C] + [1] * (6 - D), 0, sz + [C]
        try:
            data, kw = trace_nifti_read(dim, D, intent, dshape)
            rows.append(f"(({name}, {D}%nat, {C}%nat, {nat_list(sz)}), Some ({nat_list(data.shape)}, {nat_list(data.reshape(-1).tolist())}))")
        except TraceError:
            raise
        except Exception:  # noqa
            rows.append(f"(({name}, {D}%nat, {C}%nat, {nat_list(sz)}), None)")
    emit("Definition gen_nifti_r_payload_samples : list ((nlayout * nat * nat * list nat) * option (list nat * list nat)) :=\n  " + coq_list(rows) + ".")
    emit(f"Definition gen_nifti_snap_generic_branch : bool := {'true' if NpProxy.used else 'false'}.")
    # dtype promotions of the reader
    rows = []
    for dt in ("uint8", "int8", "int16", "uint16", "int32", "uint32", "int64", "float32", "float64"):
        try:
            n = int(np.prod(SMALL))
            data = np.zeros(SMALL, dtype=np.dtype(dt))
            FakeNib.to_load = FakeNiftiFile([3] + SMALL + [1] * 4, np.array([E.const(1)] + [E.var(f"p{i}") for i in range(7)], dtype=object),
                                            symarr("a", 4, 4), 0, data)
            real = (NI.nib, NI.StorageObject, NI.Grid, NI.torch, NI.np)
            NI.nib, NI.StorageObject, NI.Grid, NI.torch, NI.np = FakeNib, FakeStorage, GridCapture, TorchShim, NpProxy()
            try:
                o, _ = NI.read_nifti_image("x.nii")
            finally:
                NI.nib, NI.StorageObject, NI.Grid, NI.torch, NI.np = real
            rows.append(f"({NPTY[dt]}, Some {NPTY[np.asarray(o).dtype.name]})")
        except Exception:  # noqa
            rows.append(f"({NPTY[dt]}, None)")
    emit("Definition gen_nifti_r_type : list (npty * option npty) :=\n  " + coq_list(rows) + ".")


# =================================================================================================
# D. SimpleITK-backed path: write_sitk_image / image_from_tensor / tensor_from_image / Grid.from_sitk
# =================================================================================================
def unimodular(D):
    """integer matrix with pairwise distinct |entries| and determinant +-1 (Grid only checks |det| = 1)"""
    if D == 2:
        return [[2.0, 3.0], [5.0, 7.0]]           # det = -1
    return [[1.0, 2.0, 3.0], [4.0, 9.0, 7.0], [5.0, 11.0, 8.0]] if abs(np.linalg.det(np.array([[1.0, 2.0, 3.0], [4.0, 9.0, 7.0], [5.0, 11.0, 8.0]]))) == 1 else None


def find_unimodular3():
    rng = np.random.RandomState(7)
    for _ in range(200000):
        m = rng.permutation(np.arange(1, 14))[:9].reshape(3, 3).astype(float)
        if abs(abs(np.linalg.det(m)) - 1) < 1e-9:
            return m.tolist()
    raise TraceError("no coding matrix found")


class CodedGrid:
    """grid whose attribute values are position codes (real torch tensors): origin 100+i, spacing 200+i, direction = coding matrix"""

    def __init__(self, D, size, dirm):
        self.ndim, self._size, self.shape = D, size, tuple(reversed(size))
        self._dir = dirm

    def origin(self):
        return torch.tensor([100.0 + i for i in range(self.ndim)])

    def spacing(self):
        return torch.tensor([200.0 + i for i in range(self.ndim)])

    def direction(self):
        return torch.tensor(self._dir)


def gen_sitk():
    emit("(* ---- SimpleITK-backed path: write_sitk_image / image_from_tensor, tensor_from_image / Grid.from_sitk ---- *)")
    from deepali.core.grid import Grid
    dirm = {2: [[2.0, 3.0], [5.0, 7.0]], 3: find_unimodular3()}
    cap = {}
    real_w = SK._write_image
    SK._write_image = lambda image, path, compress=True: cap.update(image=image, compress=compress)
    try:
        for D in (2, 3):
            dm = dirm[D]
            names = {dm[i][j]: E.var(f"d{i}{j}") for i in range(D) for j in range(D)}
            geo = None
            for C in (1, 2, 3):
                SK.write_sitk_image(coded((C,) + tuple(reversed(PRIMES[:D]))), CodedGrid(D, PRIMES[:D], dm), "x.nrrd", compress=False)
                im = cap["image"]
                g = (list(im.GetSize()), list(im.GetOrigin()), list(im.GetSpacing()), list(im.GetDirection()), im.GetNumberOfComponentsPerPixel())
                if g[4] != C:
                    raise TraceError("components per pixel differ from the channel count")
                if geo is None:
                    geo = g
                elif g[:4] != geo[:4]:
                    raise TraceError("sitk geometry depends on the channel count")
            size, o, s, d, _ = geo
            pos = size_syms(size, PRIMES[:D])
            emit(f"Definition gen_sitk_w_size_{D} (n : list nat) : list nat :=\n  match n with {pat_vec('n', D)} => {coq_list(['n%d' % p for p in pos])} | _ => [] end.")
            emit(f"Definition gen_sitk_w_origin_{D} (o : list K) : list K :=\n  match o with {pat_vec('o', D)} => {coq_list([coq_e(decode(v, 100, 'o', D)) for v in o])} | _ => [] end.")
            emit(f"Definition gen_sitk_w_spacing_{D} (s : list K) : list K :=\n  match s with {pat_vec('s', D)} => {coq_list([coq_e(decode(v, 200, 's', D)) for v in s])} | _ => [] end.")
            de = []
            for v in d:
                if v in names:
                    de.append(names[v])
                elif -v in names:
                    de.append(-names[-v])
                else:
                    raise TraceError("direction entry handed to SimpleITK is not a signed selection")
            emit(f"Definition gen_sitk_w_direction_{D} (d : list (list K)) : list K :=\n  match d with {pat_mat('d', D, D)} => {coq_list([coq_e(e) for e in de])} | _ => [] end.")
            # reading: Grid.from_sitk on an image carrying position codes
            im = sitk.GetImageFromArray(np.zeros(tuple(reversed(PRIMES[:D])), dtype=np.int16))
            im.SetOrigin([100.0 + i for i in range(D)])
            im.SetSpacing([200.0 + i for i in range(D)])
            flat = [v for r in dm for v in r]
            im.SetDirection(flat)
            fnames = {flat[k]: E.var(f"t{k}") for k in range(D * D)}
            g = Grid.from_sitk(im)
            pos = size_syms([int(x) for x in g.size()], PRIMES[:D])
            emit(f"Definition gen_sitk_r_size_{D} (n : list nat) : list nat :=\n  match n with {pat_vec('n', D)} => {coq_list(['n%d' % p for p in pos])} | _ => [] end.")
            emit(f"Definition gen_sitk_r_spacing_{D} (s : list K) : list K :=\n  match s with {pat_vec('s', D)} => {coq_list([coq_e(decode(v, 200, 's', D)) for v in g.spacing().tolist()])} | _ => [] end.")
            rows = []
            for r in g.direction().tolist():
                rr = []
                for v in r:
                    if v in fnames:
                        rr.append(coq_e(fnames[v]))
                    elif -v in fnames:
                        rr.append(coq_e(-fnames[-v]))
                    else:
                        raise TraceError("Grid.from_sitk direction entry is not a signed selection")
                rows.append(coq_list(rr))
            emit(f"Definition gen_sitk_r_direction_{D} (t : list K) : list (list K) :=\n  match t with {pat_vec('t', D * D)} => {coq_list(rows)} | _ => [] end.")
        # data without channel dimension (write_image accepts data.ndim == grid.ndim for the native formats)
        same = True
        for D in (2, 3):
            try:
                SK.write_sitk_image(coded(tuple(reversed(SMALL[:D]))), CodedGrid(D, SMALL[:D], dirm[D]), "x.nrrd", compress=False)
                i0 = cap["image"]
                SK.write_sitk_image(coded((1,) + tuple(reversed(SMALL[:D]))), CodedGrid(D, SMALL[:D], dirm[D]), "x.nrrd", compress=False)
                i1 = cap["image"]
                same = same and i0.GetSize() == i1.GetSize() and i0.GetNumberOfComponentsPerPixel() == 1 and \
                    np.array_equal(sitk.GetArrayFromImage(i0), sitk.GetArrayFromImage(i1)) and i0.GetDirection() == i1.GetDirection()
            except Exception:  # noqa
                same = False
        emit(f"Definition gen_sitk_w_nochannel_same_as_c1 : bool := {'true' if same else 'false'}.")
    finally:
        SK._write_image = real_w
    # payload samples: image_from_tensor (buffer order of the sitk image) and tensor_from_image
    rows_w, rows_r = [], []
    for D in (2, 3):
        for C in (1, 2, 3):
            sz = SMALL[:D]
            for layout in LAYOUTS:
                im = ST.image_from_tensor(coded((C,) + tuple(reversed(sz)), layout=layout))
                a = sitk.GetArrayFromImage(im)
                rows_w.append(f"(({D}%nat, {C}%nat, {nat_list(sz)}), ({nat_list(im.GetSize())}, {im.GetNumberOfComponentsPerPixel()}%nat, {nat_list(a.reshape(-1).tolist())}))")
            n = int(np.prod(sz)) * C
            b = np.arange(n).reshape(tuple(reversed(sz)) + ((C,) if C > 1 else ()))
            im2 = sitk.GetImageFromArray(b, isVector=C > 1)
            t = ST.tensor_from_image(im2)
            rows_r.append(f"(({D}%nat, {C}%nat, {nat_list(sz)}), ({nat_list(t.shape)}, {nat_list(t.reshape(-1).tolist())}))")
    emit("Definition gen_sitk_w_payload_samples : list ((nat * nat * list nat) * (list nat * nat * list nat)) :=\n  " + coq_list(rows_w) + ".")
    emit("Definition gen_sitk_r_payload_samples : list ((nat * nat * list nat) * (list nat * list nat)) :=\n  " + coq_list(rows_r) + ".")
    # pixel type promotions of tensor_from_image
    rows = []
    for dt in ("uint8", "int8", "int16", "uint16", "int32", "uint32", "int64", "float32", "float64"):
        try:
            im = sitk.GetImageFromArray(np.zeros((2, 2), dtype=np.dtype(dt)))
            t = ST.tensor_from_image(im)
            rows.append(f"({NPTY[dt]}, Some {NPTY[str(t.dtype).replace('torch.', '')]})")
        except Exception:  # noqa
            rows.append(f"({NPTY[dt]}, None)")
    emit("Definition gen_sitk_r_type : list (npty * option npty) :=\n  " + coq_list(rows) + ".")


# =================================================================================================
# E. flow vectors: Grid.transform_vectors to world axes and back (symbolic, same-grid closed-form path)
# =================================================================================================
def gen_flow():
    emit("(* ---- flow vectors: FlowField.write converts with Grid.transform_vectors(axes -> WORLD); reading back and\n"
         "        .axes(original) converts WORLD -> axes ---- *)")
    G = sym_grid_module()
    AXN = [("GRID", "grid"), ("CUBE", "cube"), ("CUBE_CORNERS", "cube_corners"), ("WORLD", "world")]
    for D in (2, 3):
        g = sym_grid(D)
        u = st.Tensor(symarr("u", D))
        for to_world in (True, False):
            arms = []
            for coqn, val in AXN:
                a = G.Axes(val)
                v = g.transform_vectors(u, a, G.Axes.WORLD) if to_world else g.transform_vectors(u, G.Axes.WORLD, a)
                if v.shape != (D,):
                    raise TraceError("transform_vectors changed the shape")
                arms.append(f"    | {coqn} => {coq_list([coq_e(e) for e in v.a])}")
            nm = f"gen_flow_{'to' if to_world else 'from'}_world_{D}"
            emit(f"Definition {nm} (ax : axes) (n s : list K) (d : list (list K)) (u : list K) : list K :=\n"
                 f"  match n, s, d, u with\n  | {pat_vec('n', D)}, {pat_vec('s', D)}, {pat_mat('d', D, D)}, {pat_vec('u', D)} =>\n"
                 f"    match ax with\n" + "\n".join(arms) + "\n    end\n  | _, _, _, _ => []\n  end.")
    # which axes FlowField.write / read / sitk / from_sitk use by default (read off the source by running it on recorders)
    import deepali.data.flow as DF

    class Rec:
        def __init__(self):
            self.log = []

        def detach(self):
            return self

        def axes(self, a=None):
            self.log.append(a)
            return self

    rec = Rec()
    real_write = DF.Image.write
    DF.Image.write = lambda self, path, compress=True: None
    try:
        DF.FlowField.write(rec, "x.mha")
    finally:
        DF.Image.write = real_write
    w_axes = rec.log[0].value if rec.log else None
    real_read, real_from = DF.Image.read, DF.FlowField.from_image
    seen = {}
    DF.Image.read = classmethod(lambda cls, path, **kw: "img")
    DF.FlowField.from_image = classmethod(lambda cls, image, axes=None: seen.update(axes=axes))
    try:
        DF.FlowField.read("x.mha")
    finally:
        DF.Image.read, DF.FlowField.from_image = real_read, real_from
    r_axes = seen["axes"].value if seen.get("axes") is not None else None
    up = {"grid": "GRID", "cube": "CUBE", "cube_corners": "CUBE_CORNERS", "world": "WORLD"}
    if w_axes not in up or r_axes not in up:
        raise TraceError(f"default axes of FlowField.write/read not recognised: {w_axes}, {r_axes}")
    # align_corners pass-through: the flag requested from FlowField.read / Image.read / Grid.from_reader (from_file) is the
    # flag of the returned grid (it decides what Axes.from_grid means for the vectors read back)
    import deepali.data.image as DI
    from deepali.core.grid import Grid as RealGrid
    rows = []
    for ac in (True, False):
        seen = {}
        real_read, real_from = DF.Image.read, DF.FlowField.from_image
        DF.Image.read = classmethod(lambda cls, path, **kw: seen.update(kw) or "img")
        DF.FlowField.from_image = classmethod(lambda cls, image, axes=None: None)
        try:
            DF.FlowField.read("x.mha", align_corners=ac)
        finally:
            DF.Image.read, DF.FlowField.from_image = real_read, real_from
        got = seen.get("align_corners", None)
        rows.append(("FlowField.read", ac, got))
        real_ri = DI.read_image
        DI.read_image = lambda path: (torch.zeros(1, 2, 3), RealGrid(size=(3, 2), align_corners=not ac))
        try:
            im = DI.Image.read("x.mha", align_corners=ac)
            got = bool(im.grid().align_corners())
        except Exception:  # noqa
            got = None
        finally:
            DI.read_image = real_ri
        rows.append(("Image.read", ac, got))

        class Reader:
            def GetSize(self): return (3, 2)
            def GetOrigin(self): return (0.0, 0.0)
            def GetSpacing(self): return (1.0, 1.0)
            def GetDirection(self): return (1.0, 0.0, 0.0, 1.0)
        try:
            got = bool(RealGrid.from_reader(Reader(), align_corners=ac).align_corners())
        except Exception:  # noqa
            got = None
        rows.append(("Grid.from_reader", ac, got))
    cb = lambda b: "true" if b else "false"
    emit("Definition gen_align_corners_passthrough : list (string * bool * option bool) :=\n  " +
         coq_list([f"(\"{n}\"%string, {cb(a)}, {'None' if g is None else 'Some ' + cb(bool(g))})" for n, a, g in rows]) + ".")
    emit(f"Definition gen_flow_write_axes : axes := {up[w_axes]}.")
    emit(f"Definition gen_flow_read_axes : axes := {up[r_axes]}.")


# =================================================================================================
# F. suffix-based dispatch of read_image / write_image (utils/imageio/__init__.py, and the .mhd / nibabel-less
#    delegation inside meta.py / nifti.py)
# =================================================================================================
def gen_dispatch():
    import deepali.utils.imageio as IO
    import deepali.utils.imageio.sitk as SKM
    emit("(* ---- which backend write_image / read_image (and Image.write / Image.read through them) use per file name suffix ---- *)")
    suffixes = [".mha", ".mhd", ".nii", ".nii.gz", ".nrrd", ".MHA", ".Mhd", ".NII.GZ", ".nia", ".hdr", ".img", ".img.gz", ".hdr.gz",
                ".png", ".tif", ".vtk", ".nhdr", ".dcm"]
    hit = {}

    def rec(tag, ret):
        def f(*a, **k):
            hit["b"] = tag
            return ret
        return f
    saved = (M.read_meta_image_from_fileobj, M.meta_image_bytes, M.StorageObject, NI.nib, NI.StorageObject, NI.unlink_or_mkdir,
             SKM._read_image, SKM._write_image, SKM.tensor_from_image, SKM.image_from_tensor, SKM.Grid)

    class P:   # pathlib-free file stand-in for the .mha reader
        pass
    rows = []
    real_np = NI.np
    try:
        M.meta_image_bytes = rec("BMeta", b"")
        M.StorageObject = FakeStorage
        NI.StorageObject, NI.unlink_or_mkdir = FakeStorage, (lambda p: p)
        real_np, NI.np = NI.np, NpObj()      # symbolic grid attributes are written into constant matrices

        class NibW:
            Nifti1Image = staticmethod(lambda *a, **k: hit.update(b="BNifti"))
            save = staticmethod(lambda *a, **k: None)
            load = staticmethod(lambda *a, **k: (_ for _ in ()).throw(_Stop("BNifti")))
        NI.nib = NibW
        SKM._write_image = rec("BSitk", None)
        SKM.image_from_tensor = lambda *a, **k: None
        SKM._read_image = lambda *a, **k: (_ for _ in ()).throw(_Stop("BSitk"))

        class St(FakeStorage):
            def read_bytes(self):
                raise _Stop("BMeta")
        for suf in suffixes:
            w = r = "BNone"
            hit.clear()
            try:
                IO.write_image(coded((1, 2, 2, 3)), FakeGrid(3, [3, 2, 2]), "file" + suf, compress=True)
                w = hit.get("b", "BNone")
            except _Stop as e:
                w = e.tag
            except Exception:  # noqa
                w = hit.get("b", "BError")
            M.StorageObject = St
            try:
                IO.read_image("file" + suf)
            except _Stop as e:
                r = e.tag
            except Exception:  # noqa
                r = "BError"
            finally:
                M.StorageObject = FakeStorage
            rows.append(f"(\"{suf}\"%string, ({w}, {r}))")
    finally:
        NI.np = real_np
        (M.read_meta_image_from_fileobj, M.meta_image_bytes, M.StorageObject, NI.nib, NI.StorageObject, NI.unlink_or_mkdir,
         SKM._read_image, SKM._write_image, SKM.tensor_from_image, SKM.image_from_tensor, SKM.Grid) = saved
    emit("Definition gen_dispatch : list (string * (backend * backend)) :=\n  " + coq_list(rows) + ".")


class _Stop(Exception):
    def __init__(self, tag):
        self.tag = tag


def main():
    emit("From DV Require Import Model.CodecTypes.")
    emit("Section Gen.\nContext {K : fld}.\n")
    gen_meta_writer()
    gen_meta_reader()
    gen_nifti()
    gen_sitk()
    gen_flow()
    gen_dispatch()
    emit("End Gen.")
    sys.stdout.write("\n##COQ##\n" + "\n".join(out) + "\n")


if __name__ == "__main__":
    try:
        main()
    except Exception as exc:  # fail closed: the unit reports the reason
        sys.stdout.write("\n##FAILED##\n" + f"{type(exc).__name__}: {exc}\n" + traceback.format_exc(limit=8))
        sys.exit(3)
