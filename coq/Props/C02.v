(* C02 -- Grid <-> world convention agrees with ITK for every oriented image geometry.
   Statements only.  itk_phys / itk_index (Model/ItkSpec.v) are ITK's documented convention, validated
   against SimpleITK on every run; gen_* are regenerated from core/grid.py. *)
From Coq Require Import ZArith List.
From DV Require Import Base.Field Base.LinAlg Base.QcInst Model.Enums Model.Homog Model.Grid Model.ItkSpec
  Gen.GridT Gen.GridCtor Gen.SitkGrid Proofs.C02Itk Proofs.C02SitkGrid.
Import ListNotations.
Local Open Scope fld_scope.

(* 1. a grid built from (size, origin, spacing, direction) places every continuous index (inside or
      outside the image) at the physical point ITK assigns to it *)
Theorem C02_index_to_world_is_itk :
  forall (K : fld), is_field K -> char0 K ->
  forall (D : nat), D = 2%nat \/ D = 3%nat ->
  forall (n s o : nat -> K) (d : nat -> nat -> K) (X : list K), length X = D ->
  gen_pts D GRID WORLD (vtab D n) (vtab D s)
    (gen_center_of_origin D (vtab D n) (vtab D s) (tab D D d) (vtab D o)) (tab D D d) X
  = itk_phys (vtab D o) (vtab D s) (tab D D d) X.
Proof. exact index_to_world_is_itk. Qed.
Print Assumptions C02_index_to_world_is_itk.

(* 2. ... and maps physical points back to the same continuous index *)
Theorem C02_world_to_index_inverts_itk :
  forall (K : fld), is_field K -> char0 K ->
  forall (D : nat), D = 2%nat \/ D = 3%nat ->
  forall (n s o : nat -> K) (d : nat -> nat -> K) (X : list K), wf D n s d -> length X = D ->
  gen_pts D WORLD GRID (vtab D n) (vtab D s)
    (gen_center_of_origin D (vtab D n) (vtab D s) (tab D D d) (vtab D o)) (tab D D d)
    (itk_phys (vtab D o) (vtab D s) (tab D D d) X) = X.
Proof. exact world_to_index_inverts_itk. Qed.
Print Assumptions C02_world_to_index_inverts_itk.

(* 3. origin is the position of sample 0 and origin() returns it; both construction routes agree *)
Theorem C02_origin_roundtrip :
  forall (K : fld), is_field K -> char0 K ->
  forall (D : nat), D = 2%nat \/ D = 3%nat ->
  forall (n s o : nat -> K) (d : nat -> nat -> K),
  let Cn := gen_center_of_origin D (vtab D n) (vtab D s) (tab D D d) (vtab D o) in
  gen_origin D (vtab D n) (vtab D s) Cn (tab D D d) = vtab D o /\
  gen_origin_of_center D (vtab D n) (vtab D s) (tab D D d) Cn = vtab D o /\
  gen_pts D GRID WORLD (vtab D n) (vtab D s) Cn (tab D D d) (vzero D) = vtab D o.
Proof. exact origin_roundtrip. Qed.
Print Assumptions C02_origin_roundtrip.

Theorem C02_center_route_consistent :
  forall (K : fld), is_field K -> char0 K ->
  forall (D : nat), D = 2%nat \/ D = 3%nat ->
  forall (n s : nat -> K) (d : nat -> nat -> K) (c : nat -> K),
  gen_center_of_origin D (vtab D n) (vtab D s) (tab D D d)
    (gen_origin_of_center D (vtab D n) (vtab D s) (tab D D d) (vtab D c)) = vtab D c.
Proof. intros K Kf Kc D HD n s d c. exact (center_route_same K Kf Kc D HD n s d c). Qed.
Print Assumptions C02_center_route_consistent.

(* 4. direction columns are the unit steps along each axis *)
Theorem C02_direction_columns_are_steps :
  forall (K : fld), is_field K -> char0 K ->
  forall (D : nat), D = 2%nat \/ D = 3%nat ->
  forall (n s o : nat -> K) (d : nat -> nat -> K) (k : nat), (k < D)%nat ->
  let Cn := gen_center_of_origin D (vtab D n) (vtab D s) (tab D D d) (vtab D o) in
  vsub (gen_pts D GRID WORLD (vtab D n) (vtab D s) Cn (tab D D d) (unit_vec D k))
       (gen_pts D GRID WORLD (vtab D n) (vtab D s) Cn (tab D D d) (vzero D))
  = vscale (s k) (col k (tab D D d)).
Proof. exact direction_columns_are_steps. Qed.
Print Assumptions C02_direction_columns_are_steps.

(* 5. header -> grid -> header: the row-major flattened direction and the origin are reproduced *)
Theorem C02_header_direction_roundtrip :
  forall (K : fld) (D rows : nat) (v : list K),
  length v = (rows * D)%nat -> flatten (unflatten D rows v) = v.
Proof. exact flatten_unflatten. Qed.
Print Assumptions C02_header_direction_roundtrip.

(* 6. the SimpleITK-side grid attributes (utils/simpleitk/grid.py: GridAttrs.transform / inverse_transform)
      use the same convention in both directions: index -> physical = ITK's map, physical -> continuous index
      (before its 12-decimal rounding) = ITK's inverse map S^-1 R^T (p - o), which inverts the former *)
Theorem C02_sitk_grid_attrs_forward :
  forall (K : fld), is_field K ->
  forall (D : nat), D = 2%nat \/ D = 3%nat ->
  forall (s o : nat -> K) (d : nat -> nat -> K) (X : list K), length X = D ->
  (forall i, (i < D)%nat -> s i <> 0) ->
  gen_attrs_i2p D (vtab D s) (vtab D o) (tab D D d) X = itk_phys (vtab D o) (vtab D s) (tab D D d) X.
Proof. exact attrs_index_to_physical_is_itk. Qed.
Print Assumptions C02_sitk_grid_attrs_forward.

Theorem C02_sitk_grid_attrs_inverse :
  forall (K : fld), is_field K ->
  forall (D : nat), D = 2%nat \/ D = 3%nat ->
  forall (s o : nat -> K) (d : nat -> nat -> K) (P : list K), length P = D ->
  (forall i, (i < D)%nat -> s i <> 0) ->
  gen_attrs_p2i D (vtab D s) (vtab D o) (tab D D d) P = itk_index D (vtab D o) (vtab D s) (tab D D d) P.
Proof. exact attrs_physical_to_index_is_itk. Qed.
Print Assumptions C02_sitk_grid_attrs_inverse.

Theorem C02_itk_index_inverts_itk_phys :
  forall (K : fld), is_field K ->
  forall (D : nat) (s o : nat -> K) (d : nat -> nat -> K) (X : list K),
  D = 2%nat \/ D = 3%nat -> (forall i, (i < D)%nat -> s i <> 0) -> orthonormal D (tab D D d) -> length X = D ->
  itk_index D (vtab D o) (vtab D s) (tab D D d) (itk_phys (vtab D o) (vtab D s) (tab D D d) X) = X.
Proof. exact itk_index_inverts_phys. Qed.
Print Assumptions C02_itk_index_inverts_itk_phys.

Example C02_nonvacuous :
  let n : nat -> QcF := fun i => nth i [q 5 1; q 7 1; q 4 1] (q 1 1) in
  let s : nat -> QcF := fun i => nth i [q 1 2; q 2 1; q 3 4] (q 1 1) in
  let o : nat -> QcF := fun i => nth i [q (-10) 1; q 3 1; q 7 2] (q 0 1) in
  let d : nat -> nat -> QcF := fun i j => nth j (nth i [[q 0 1; q (-1) 1; q 0 1]; [q 1 1; q 0 1; q 0 1]; [q 0 1; q 0 1; q 1 1]] []) (q 0 1) in
  veqb (itk_phys (vtab 3 o) (vtab 3 s) (tab 3 3 d) [q 1 1; q 2 1; q 3 1]) [q (-14) 1; q 7 2; q 23 4] = true.
Proof. vm_compute. reflexivity. Qed.
