(* C07 -- for every invertible linear transform class, tensor() with invert=True is the inverse map of
   tensor() with invert=False (both compositions), over every field.  The matrices are the generated
   traces of spatial/linear.py (Gen/LinInv.v). *)
From Coq Require Import ZArith List Field Ring.
From DV Require Import Base.Field Base.FieldFacts Base.LinAlg Base.Tactics Model.Enums Model.Homog Model.Rotation
  Gen.Euler Gen.Quat Gen.LinInv Proofs.C08Euler Proofs.C08Quat.
Import ListNotations.
Local Open Scope fld_scope.

Section Proofs.
Variable K : fld.
Hypothesis Kf : is_field K.
Add Field KF : Kf.

Lemma K1nz' : (1 : K) <> 0.
Proof. destruct Kf as [_ H1 _ _]. exact H1. Qed.
Hint Resolve K1nz' : core.
Ltac side := repeat split; auto.

(* B undoes A and A undoes B, as maps of points, for operands of form f *)
Definition inverts (D : nat) (f : form) (A B : list (list K)) : Prop :=
  forall x : nat -> K,
    form_apply D f B (form_apply D f A (vtab D x)) = vtab D x /\
    form_apply D f A (form_apply D f B (vtab D x)) = vtab D x.

Ltac both := intro x; split; fcbv; list_eq.

(* translation: negation *)
Lemma translation2_inverts (p0 p1 : K) : inverts 2 FT (gen_translation2_fwd p0 p1) (gen_translation2_inv p0 p1).
Proof. both; ring. Qed.
Lemma translation3_inverts (p0 p1 p2 : K) : inverts 3 FT (gen_translation3_fwd p0 p1 p2) (gen_translation3_inv p0 p1 p2).
Proof. both; ring. Qed.

(* scaling: reciprocal, for non-zero factors *)
Lemma isoscale2_inverts (p : K) : p <> 0 -> inverts 2 FA (gen_isoscale2_fwd p) (gen_isoscale2_inv p).
Proof. intro H. both; field; side. Qed.
Lemma isoscale3_inverts (p : K) : p <> 0 -> inverts 3 FA (gen_isoscale3_fwd p) (gen_isoscale3_inv p).
Proof. intro H. both; field; side. Qed.
Lemma anisoscale2_inverts (p0 p1 : K) : p0 <> 0 -> p1 <> 0 ->
  inverts 2 FA (gen_anisoscale2_fwd p0 p1) (gen_anisoscale2_inv p0 p1).
Proof. intros H0 H1. both; field; side. Qed.
Lemma anisoscale3_inverts (p0 p1 p2 : K) : p0 <> 0 -> p1 <> 0 -> p2 <> 0 ->
  inverts 3 FA (gen_anisoscale3_fwd p0 p1 p2) (gen_anisoscale3_inv p0 p1 p2).
Proof. intros H0 H1 H2. both; field; side. Qed.

(* shearing: unit upper triangular, always invertible (t_i = tan of the shear angles) *)
Lemma shear2_inverts (t0 : K) : inverts 2 FA (gen_shear2_fwd t0) (gen_shear2_inv t0).
Proof. both; field; side. Qed.
Lemma shear3_inverts (t0 t1 t2 : K) : inverts 3 FA (gen_shear3_fwd t0 t1 t2) (gen_shear3_inv t0 t1 t2).
Proof. both; field; side. Qed.

(* rotations: transpose, given orthonormality *)
Lemma rotation3_transpose_inverts (M : list (list K)) :
  is3 K M -> is_rotation 3 M -> inverts 3 FA M (mT 3 M).
Proof.
  intros (a00&a01&a02&a10&a11&a12&a20&a21&a22&->) (H1 & H2 & _).
  fcbv_in H1. fcbv_in H2.
  injection H1 as e00 e01 e02 e10 e11 e12 e20 e21 e22.
  injection H2 as f00 f01 f02 f10 f11 f12 f20 f21 f22.
  intro x; split; fcbv; list_eq.
  - transitivity ((a00 * a00 + (a10 * a10 + (a20 * a20 + 0))) * x 0%nat + (a00 * a01 + (a10 * a11 + (a20 * a21 + 0))) * x 1%nat
                  + (a00 * a02 + (a10 * a12 + (a20 * a22 + 0))) * x 2%nat); [ring|]. rewrite e00, e01, e02. ring.
  - transitivity ((a01 * a00 + (a11 * a10 + (a21 * a20 + 0))) * x 0%nat + (a01 * a01 + (a11 * a11 + (a21 * a21 + 0))) * x 1%nat
                  + (a01 * a02 + (a11 * a12 + (a21 * a22 + 0))) * x 2%nat); [ring|]. rewrite e10, e11, e12. ring.
  - transitivity ((a02 * a00 + (a12 * a10 + (a22 * a20 + 0))) * x 0%nat + (a02 * a01 + (a12 * a11 + (a22 * a21 + 0))) * x 1%nat
                  + (a02 * a02 + (a12 * a12 + (a22 * a22 + 0))) * x 2%nat); [ring|]. rewrite e20, e21, e22. ring.
  - transitivity ((a00 * a00 + (a01 * a01 + (a02 * a02 + 0))) * x 0%nat + (a00 * a10 + (a01 * a11 + (a02 * a12 + 0))) * x 1%nat
                  + (a00 * a20 + (a01 * a21 + (a02 * a22 + 0))) * x 2%nat); [ring|]. rewrite f00, f01, f02. ring.
  - transitivity ((a10 * a00 + (a11 * a01 + (a12 * a02 + 0))) * x 0%nat + (a10 * a10 + (a11 * a11 + (a12 * a12 + 0))) * x 1%nat
                  + (a10 * a20 + (a11 * a21 + (a12 * a22 + 0))) * x 2%nat); [ring|]. rewrite f10, f11, f12. ring.
  - transitivity ((a20 * a00 + (a21 * a01 + (a22 * a02 + 0))) * x 0%nat + (a20 * a10 + (a21 * a11 + (a22 * a12 + 0))) * x 1%nat
                  + (a20 * a20 + (a21 * a21 + (a22 * a22 + 0))) * x 2%nat); [ring|]. rewrite f20, f21, f22. ring.
Qed.

(* the traced EulerRotation.tensor is euler_rotation_matrix, resp. its transpose, for all 27 orders *)
Lemma euler3_fwd_is_gen_euler o (c0 c1 c2 s0 s1 s2 : K) :
  gen_euler3_fwd o c0 c1 c2 s0 s1 s2 = gen_euler o c0 c1 c2 s0 s1 s2.
Proof. destruct o as [[[] []] []]; reflexivity. Qed.
Lemma euler3_inv_is_transpose o (c0 c1 c2 s0 s1 s2 : K) :
  gen_euler3_inv o c0 c1 c2 s0 s1 s2 = mT 3 (gen_euler3_fwd o c0 c1 c2 s0 s1 s2).
Proof. destruct o as [[[] []] []]; reflexivity. Qed.

Lemma gen_euler_is3 o (c0 c1 c2 s0 s1 s2 : K) : is3 K (gen_euler o c0 c1 c2 s0 s1 s2).
Proof. destruct o as [[[] []] []]; fcbv; repeat eexists. Qed.

Lemma euler3_inverts o (c0 c1 c2 s0 s1 s2 : K) :
  c0 * c0 + s0 * s0 = 1 -> c1 * c1 + s1 * s1 = 1 -> c2 * c2 + s2 * s2 = 1 ->
  inverts 3 FA (gen_euler3_fwd o c0 c1 c2 s0 s1 s2) (gen_euler3_inv o c0 c1 c2 s0 s1 s2).
Proof.
  intros H0 H1 H2. rewrite euler3_inv_is_transpose, euler3_fwd_is_gen_euler.
  apply rotation3_transpose_inverts; [apply gen_euler_is3 | apply gen_euler_is_rotation; assumption].
Qed.

Lemma euler2_inverts (c s : K) : c * c + s * s = 1 -> inverts 2 FA (gen_euler2_fwd c s) (gen_euler2_inv c s).
Proof.
  intro H. assert (Hc : c * c = 1 - s * s) by (rewrite <- H; ring).
  both; ring [Hc].
Qed.

(* quaternion rotation *)
Lemma quaternion_fwd_is_gen (n w x y z : K) : gen_quaternion_fwd n w x y z = gen_quat_matrix n w x y z.
Proof. reflexivity. Qed.
Lemma quaternion_inv_is_transpose (n w x y z : K) : gen_quaternion_inv n w x y z = mT 3 (gen_quaternion_fwd n w x y z).
Proof. reflexivity. Qed.
Lemma quaternion_inverts (n w x y z : K) :
  n <> 0 -> n * n = gen_quat_norm2 w x y z ->
  inverts 3 FA (gen_quaternion_fwd n w x y z) (gen_quaternion_inv n w x y z).
Proof.
  intros Hn Hnn. rewrite quaternion_inv_is_transpose, quaternion_fwd_is_gen.
  apply rotation3_transpose_inverts; [fcbv; repeat eexists | apply quat_rotation; assumption].
Qed.

(* homogeneous transform: matrix inverse of the augmented matrix, for an invertible linear part *)
Lemma homogeneous2_inverts (h00 h01 h02 h10 h11 h12 : K) :
  h00 * h11 - h01 * h10 <> 0 ->
  inverts 2 FH (gen_homogeneous2_fwd h00 h01 h02 h10 h11 h12) (gen_homogeneous2_inv h00 h01 h02 h10 h11 h12).
Proof. intro Hd. both; field; side. Qed.

Lemma homogeneous3_inverts (h00 h01 h02 h03 h10 h11 h12 h13 h20 h21 h22 h23 : K) :
  det3 [[h00; h01; h02]; [h10; h11; h12]; [h20; h21; h22]] <> 0 ->
  inverts 3 FH (gen_homogeneous3_fwd h00 h01 h02 h03 h10 h11 h12 h13 h20 h21 h22 h23)
               (gen_homogeneous3_inv h00 h01 h02 h03 h10 h11 h12 h13 h20 h21 h22 h23).
Proof.
  intro Hd. fcbv_in Hd. intro x; split; fcbv; list_eq.
  all: field.
  all: intro E; apply Hd; rewrite <- E; ring.
Qed.

End Proofs.
