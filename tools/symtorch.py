"""symtorch -- a tiny symbolic stand-in for the part of the torch API that deepali's closed-form
code uses.  The translator (tools/translate.py) executes deepali's *own source text* with this
module bound to the name ``torch``; every arithmetic operation builds an expression tree over named
symbols, every control-flow decision must be concrete (shapes, enums, strings, Python ints).  It is
fail-closed: anything not implemented here raises TraceError, which aborts the translation of that
function (a broken obligation, never a silently wrong model).

Tensors are numpy object arrays whose elements are ``E`` expressions.
"""
from __future__ import annotations

import builtins as _b
import itertools
import math

builtins_int = _b.int
builtins_float = _b.float
builtins_any = _b.any
builtins_all = _b.all
builtins_max = _b.max
from fractions import Fraction
from typing import Any, Dict, Iterable, List, Optional, Sequence, Tuple

import numpy as np


class TraceError(Exception):
    pass


# ------------------------------------------------------------------------------------------------
# expressions
# ------------------------------------------------------------------------------------------------
class E:
    """Expression node. op in {const,var,add,sub,mul,div,neg,fn}."""

    __slots__ = ("op", "args", "_h")
    __array_priority__ = 1000

    def __init__(self, op: str, *args):
        self.op = op
        self.args = args
        self._h = None

    # -- constructors
    @staticmethod
    def const(x) -> "E":
        if isinstance(x, E):
            return x
        if isinstance(x, bool):
            raise TraceError("bool used as number")
        if isinstance(x, (builtins_int, np.integer)):
            return E("const", Fraction(builtins_int(x)))
        if isinstance(x, Fraction):
            return E("const", x)
        if isinstance(x, (builtins_float, np.floating)):
            x = builtins_float(x)
            if math.isnan(x) or math.isinf(x):
                raise TraceError("non-finite literal")
            # decimal literal by its shortest decimal expansion (0.1 -> 1/10, 0.5 -> 1/2)
            return E("const", Fraction(repr(x)))
        raise TraceError(f"cannot lift {type(x).__name__} to expression")

    @staticmethod
    def var(name: str, **flags) -> "E":
        return E("var", name, tuple(sorted(flags.items())))

    # -- structure
    def is_const(self) -> bool:
        return self.op == "const"

    def value(self) -> Fraction:
        assert self.op == "const"
        return self.args[0]

    def flags(self) -> Dict[str, Any]:
        return dict(self.args[1]) if self.op == "var" else {}

    def key(self):
        if self._h is None:
            if self.op in ("const", "var"):
                self._h = (self.op,) + tuple(self.args[:1])
            elif self.op == "fn":
                self._h = ("fn", self.args[0], self.args[1].key())
            elif self.op == "fn2":
                self._h = ("fn2", self.args[0], self.args[1].key(), self.args[2].key())
            elif self.op == "cmp":
                self._h = ("cmp", self.args[0], self.args[1].key(), self.args[2].key())
            else:
                self._h = (self.op,) + tuple(a.key() for a in self.args)
        return self._h

    def __hash__(self):
        return hash(self.key())

    def same(self, other: "E") -> bool:
        return self.key() == other.key()

    # -- arithmetic with light simplification (keeps generated terms readable; every rule is a
    #    field identity, so it cannot change the meaning)
    def __add__(self, o):
        o = E.const(o)
        if self.is_const() and o.is_const():
            return E.const(self.value() + o.value())
        if self.is_const() and self.value() == 0:
            return o
        if o.is_const() and o.value() == 0:
            return self
        return E("add", self, o)

    __radd__ = lambda self, o: E.const(o).__add__(self)

    def __sub__(self, o):
        o = E.const(o)
        if self.is_const() and o.is_const():
            return E.const(self.value() - o.value())
        if o.is_const() and o.value() == 0:
            return self
        if self.is_const() and self.value() == 0:
            return -o
        return E("sub", self, o)

    __rsub__ = lambda self, o: E.const(o).__sub__(self)

    def __mul__(self, o):
        o = E.const(o)
        if self.is_const() and o.is_const():
            return E.const(self.value() * o.value())
        for a, b in ((self, o), (o, self)):
            if a.is_const():
                if a.value() == 0:
                    return E.const(0)
                if a.value() == 1:
                    return b
                if a.value() == -1:
                    return -b
        return E("mul", self, o)

    __rmul__ = lambda self, o: E.const(o).__mul__(self)

    def __truediv__(self, o):
        o = E.const(o)
        if o.is_const():
            if o.value() == 0:
                raise TraceError("division by literal zero")
            if self.is_const():
                return E.const(self.value() / o.value())
            if o.value() == 1:
                return self
        if self.is_const() and self.value() == 0:
            return E.const(0)
        return E("div", self, o)

    __rtruediv__ = lambda self, o: E.const(o).__truediv__(self)

    def __neg__(self):
        if self.is_const():
            return E.const(-self.value())
        if self.op == "neg":
            return self.args[0]
        return E("neg", self)

    def __pos__(self):
        return self

    def __abs__(self):
        sg = self._sign()
        if sg is None:
            raise TraceError("abs() of value with unknown sign")
        return self if sg >= 0 else -self

    def __pow__(self, n):
        if isinstance(n, E) and n.is_const():
            n = n.value()
        if isinstance(n, (builtins_float, Fraction)) and Fraction(n).denominator == 1:
            n = builtins_int(n)
        if not isinstance(n, (builtins_int, np.integer)):
            raise TraceError("non-integer power")
        n = builtins_int(n)
        if n < 0:
            return E.const(1) / (self ** (-n))
        r = E.const(1)
        for _ in range(n):
            r = r * self
        return r

    # -- comparisons: only when decidable
    def _sign(self) -> Optional[int]:
        if self.is_const():
            v = self.value()
            return (v > 0) - (v < 0)
        f = self.flags()
        if f.get("positive"):
            return 1
        return None

    def _cmp(self, o, what):
        o = E.const(o)
        if self.is_const() and o.is_const():
            a, b = self.value(), o.value()
            return {"lt": a < b, "le": a <= b, "gt": a > b, "ge": a >= b, "eq": a == b, "ne": a != b}[what]
        if o.is_const() and o.value() == 0 and self._sign() == 1:
            return {"lt": False, "le": False, "gt": True, "ge": True, "eq": False, "ne": True}[what]
        if what in ("eq", "ne") and self.same(o):
            return what == "eq"
        if what in ("eq", "ne") and GENERIC_DISTINCT and self.op == "var" and o.op == "var":
            return what == "ne"
        if SYMBOLIC_COND:
            return E("cmp", what, self, o)
        raise TraceError(f"data-dependent comparison ({what}) on symbolic value {self}")

    def __lt__(self, o): return self._cmp(o, "lt")
    def __le__(self, o): return self._cmp(o, "le")
    def __gt__(self, o): return self._cmp(o, "gt")
    def __ge__(self, o): return self._cmp(o, "ge")
    def sym_eq(self, o): return self._cmp(o, "eq")

    def __bool__(self):
        raise TraceError("truth value of symbolic expression")

    def __float__(self):
        if self.is_const():
            return builtins_float(self.value())
        raise TraceError("float() of symbolic expression")

    def __int__(self):
        if self.is_const() and self.value().denominator == 1:
            return builtins_int(self.value())
        raise TraceError("int() of symbolic expression")

    def __repr__(self):
        return to_text(self)

    # -- evaluation
    def eval(self, env: Dict[str, Any], fns: Optional[Dict[str, Any]] = None):
        op = self.op
        if op == "const":
            return self.args[0]
        if op == "var":
            return env[self.args[0]]
        if op == "fn":
            return (fns or {})[self.args[0]](self.args[1].eval(env, fns))
        if op == "fn2":
            return (fns or {})[self.args[0]](self.args[1].eval(env, fns), self.args[2].eval(env, fns))
        a = self.args[0].eval(env, fns)
        if op == "neg":
            return -a
        b = self.args[1].eval(env, fns)
        if op == "add":
            return a + b
        if op == "sub":
            return a - b
        if op == "mul":
            return a * b
        if op == "div":
            return a / b
        raise TraceError(op)

    def free_vars(self, acc=None) -> List[str]:
        acc = [] if acc is None else acc
        if self.op == "var":
            if self.args[0] not in acc:
                acc.append(self.args[0])
        elif self.op == "fn":
            self.args[1].free_vars(acc)
        elif self.op == "fn2":
            self.args[1].free_vars(acc)
            self.args[2].free_vars(acc)
        elif self.op != "const":
            for a in self.args:
                a.free_vars(acc)
        return acc


def fn(name: str, x: E) -> E:
    x = E.const(x)
    if name in ("cos", "sin", "tan") and x.is_const() and x.value() == 0:
        return E.const(1 if name == "cos" else 0)
    return E("fn", name, x)


def to_text(e: E) -> str:
    if e.op == "const":
        return str(e.args[0])
    if e.op == "var":
        return e.args[0]
    if e.op == "fn":
        return f"{e.args[0]}({to_text(e.args[1])})"
    if e.op == "fn2":
        return f"{e.args[0]}({to_text(e.args[1])}, {to_text(e.args[2])})"
    if e.op == "cmp":
        return f"({to_text(e.args[1])} {e.args[0]} {to_text(e.args[2])})"
    if e.op in ("band", "bor"):
        return f"({to_text(e.args[0])} {e.op} {to_text(e.args[1])})"
    if e.op == "bnot":
        return f"(not {to_text(e.args[0])})"
    if e.op == "ite":
        return f"(if {to_text(e.args[0])} then {to_text(e.args[1])} else {to_text(e.args[2])})"
    if e.op == "neg":
        return f"(-{to_text(e.args[0])})"
    s = {"add": "+", "sub": "-", "mul": "*", "div": "/"}[e.op]
    return f"({to_text(e.args[0])} {s} {to_text(e.args[1])})"


def to_coq(e: E, fnmap: Optional[Dict[Tuple[str, str], str]] = None) -> str:
    """Coq term over an abstract field (scope fld_scope).  ``fn`` nodes must be mapped to a
    parameter name through fnmap[(fname, text-of-argument)]."""
    if e.op == "const":
        v = e.args[0]
        if v == 0:
            return "0"
        if v == 1:
            return "1"
        if v.denominator == 1:
            return f"(of_Z ({v.numerator})%Z)"
        return f"(of_Q ({v.numerator})%Z {v.denominator}%positive)"
    if e.op == "var":
        return e.args[0]
    if e.op == "fn2":
        raise TraceError("two-argument transcendental node cannot be emitted as a field term")
    if e.op in ("cmp", "band", "bor", "bnot", "ite"):
        raise TraceError("conditional node cannot be emitted as a field term (the unit must take it apart)")
    if e.op == "fn":
        k = (e.args[0], to_text(e.args[1]))
        if fnmap is None or k not in fnmap:
            raise TraceError(f"transcendental node {k} has no parameter mapping")
        return fnmap[k]
    if e.op == "neg":
        return f"(- {to_coq(e.args[0], fnmap)})"
    s = {"add": "+", "sub": "-", "mul": "*", "div": "/"}[e.op]
    return f"({to_coq(e.args[0], fnmap)} {s} {to_coq(e.args[1], fnmap)})"


# ------------------------------------------------------------------------------------------------
# tensors
# ------------------------------------------------------------------------------------------------
class _DType:
    def __init__(self, name, is_float):
        self.name = name
        self.is_floating_point = is_float

    def __repr__(self):
        return f"symtorch.{self.name}"


float32 = _DType("float32", True)
float64 = _DType("float64", True)
float16 = _DType("float16", True)
int64 = _DType("int64", False)
int32 = _DType("int32", False)
int16 = _DType("int16", False)
int8 = _DType("int8", False)
uint8 = _DType("uint8", False)
bool_ = _DType("bool", False)
float = float32  # noqa: A001  (mirrors torch.float)
double = float64
long = int64
int = int32  # noqa: A001
half = float16
short = int16


class device:  # noqa: N801
    def __init__(self, *a, **k):
        self.type = "cpu"

    def __eq__(self, o):
        return isinstance(o, device) or o == "cpu"

    def __ne__(self, o):
        return not self.__eq__(o)

    def __hash__(self):
        return 0

    def __repr__(self):
        return "device('cpu')"


_CPU = device()
dtype = _DType


class Size(tuple):
    def numel(self):
        r = 1
        for n in self:
            r *= n
        return r

    def __getitem__(self, k):
        r = tuple.__getitem__(self, k)
        return Size(r) if isinstance(k, slice) else r

    def __add__(self, o):
        return Size(tuple.__add__(self, tuple(o)))

    def __radd__(self, o):
        return Size(tuple(o) + tuple(self))


def _lift_array(x) -> np.ndarray:
    if isinstance(x, Tensor):
        return x.a
    arr = np.array(x, dtype=object)
    out = np.empty(arr.shape, dtype=object)
    for idx in np.ndindex(arr.shape):
        v = arr[idx]
        if isinstance(v, Tensor):
            if v.a.ndim != 0:
                raise TraceError("nested tensor in array literal")
            v = v.a[()]
        out[idx] = v if isinstance(v, (bool, np.bool_)) else E.const(v)
    if arr.ndim == 0:
        v = arr[()]
        out = np.empty((), dtype=object)
        out[()] = v if isinstance(v, (bool, np.bool_)) else E.const(v)
    return out


def _bi(f):
    return np.frompyfunc(f, 2, 1)


def _un(f):
    return np.frompyfunc(f, 1, 1)


def _obj(a) -> np.ndarray:
    if isinstance(a, np.ndarray) and a.dtype == object:
        return a
    out = np.empty(np.shape(a), dtype=object)
    for idx in np.ndindex(out.shape):
        out[idx] = np.asarray(a, dtype=object)[idx]
    return out


class Tensor:
    __array_priority__ = 2000
    is_sym = True

    def __init__(self, a, dtype=None, is_bool=False):
        if isinstance(a, Tensor):
            a = a.a
        self.a = _obj(a)
        self.dtype = dtype if dtype is not None else (bool_ if is_bool else float32)
        self.device = _CPU
        self.requires_grad = False

    # ---- structure
    @property
    def shape(self):
        return Size(self.a.shape)

    @property
    def ndim(self):
        return self.a.ndim

    def dim(self):
        return self.a.ndim

    def size(self, i=None):
        return Size(self.a.shape) if i is None else self.a.shape[i]

    def numel(self):
        return self.a.size

    nelement = numel

    def __len__(self):
        if self.a.ndim == 0:
            raise TypeError("len() of a 0-d tensor")
        return self.a.shape[0]

    def __iter__(self):
        for i in range(len(self)):
            yield self[i]

    def _new(self, a, dtype=None):
        return Tensor(a, dtype=self.dtype if dtype is None else dtype)

    def is_floating_point(self):
        return self.dtype.is_floating_point

    def __repr__(self):
        return f"symtensor({self.a.tolist()!r})"

    # ---- indexing
    @staticmethod
    def _idx(key):
        if isinstance(key, tuple):
            return tuple(Tensor._idx1(k) for k in key)
        return Tensor._idx1(key)

    @staticmethod
    def _idx1(k):
        if isinstance(k, Tensor):
            if k.dtype is bool_:
                return np.array(k.a.tolist(), dtype=bool)
            return np.array([[builtins_int(v) for v in row] if isinstance(row, list) else builtins_int(row)
                             for row in k.a.tolist()]) if k.a.ndim else builtins_int(k.a[()])
        if isinstance(k, (list, tuple)):
            return list(k)
        return k

    def __getitem__(self, key):
        r = self.a[self._idx(key)]
        if not isinstance(r, np.ndarray):
            z = np.empty((), dtype=object)
            z[()] = r
            r = z
        return self._new(r)  # numpy basic indexing gives views, like torch

    def __setitem__(self, key, value):
        if isinstance(value, Tensor):
            value = value.a
        elif isinstance(value, (builtins_int, builtins_float, Fraction, E)):
            value = E.const(value)
        else:
            value = _lift_array(value)
        self.a[self._idx(key)] = value

    # ---- creation relative to self
    def new_empty(self, *shape, dtype=None, device=None):
        shape = _shape_arg(shape)
        a = np.empty(shape, dtype=object)
        a.fill(UNINIT)
        return self._new(a, dtype)

    def new_zeros(self, *shape, dtype=None, device=None):
        return self._new(_full(_shape_arg(shape), 0), dtype)

    def new_ones(self, *shape, dtype=None, device=None):
        return self._new(_full(_shape_arg(shape), 1), dtype)

    def new_tensor(self, data, dtype=None, device=None):
        return self._new(_lift_array(data), dtype)

    def clone(self):
        return self._new(self.a.copy())

    def detach(self):
        return self

    def contiguous(self):
        return self

    def to(self, *args, **kwargs):
        dt = kwargs.get("dtype")
        for x in args:
            if isinstance(x, _DType):
                dt = x
            elif isinstance(x, Tensor):
                dt = x.dtype
        return self if dt is None or dt is self.dtype else self._new(self.a, dt)

    def type(self, dt=None):
        if dt is None:
            return self.dtype
        return self._new(self.a, dt)

    def float(self):
        return self._new(self.a, float32)

    def double(self):
        return self._new(self.a, float64)

    def cpu(self):
        return self

    def item(self):
        v = self.a[()] if self.a.ndim == 0 else (self.a.reshape(-1)[0] if self.a.size == 1 else None)
        if v is None:
            raise TraceError("item() of multi-element tensor")
        return v

    def tolist(self):
        return self.a.tolist()

    def __int__(self):
        return builtins_int(self.item())

    def __float__(self):
        return builtins_float(self.item())

    def __index__(self):
        return builtins_int(self.item())

    def __bool__(self):
        v = self.item()
        if isinstance(v, (bool, np.bool_)):
            return bool(v)
        raise TraceError("truth value of symbolic tensor")

    # ---- shape ops
    def unsqueeze(self, dim):
        d = dim
        d = d if d >= 0 else d + self.a.ndim + 1
        return self._new(np.expand_dims(self.a, d))

    def squeeze(self, dim=None):
        d = dim
        if d is None:
            return self._new(np.squeeze(self.a))
        if self.a.shape[d] != 1:
            return self
        return self._new(np.squeeze(self.a, d))

    def reshape(self, *shape):
        return self._new(self.a.reshape(_shape_arg(shape)))

    view = reshape

    def flatten(self, start_dim=0, end_dim=-1):
        nd = self.a.ndim
        e = end_dim if end_dim >= 0 else end_dim + nd
        s = start_dim if start_dim >= 0 else start_dim + nd
        shp = self.a.shape[:s] + (-1,) + self.a.shape[e + 1:]
        return self._new(self.a.reshape(shp))

    def expand(self, *shape):
        shape = _shape_arg(shape)
        nd = len(shape)
        cur = (1,) * (nd - self.a.ndim) + tuple(self.a.shape)
        tgt = tuple(c if s == -1 else s for s, c in zip(shape, cur))
        return self._new(np.broadcast_to(self.a.reshape(cur), tgt))

    def expand_as(self, o):
        return self.expand(*o.shape)

    def repeat(self, *reps):
        reps = _shape_arg(reps)
        return self._new(np.tile(self.a, reps))

    def transpose(self, i, j):
        return self._new(np.swapaxes(self.a, i, j))

    def t(self):
        if self.a.ndim > 2:
            raise TraceError("t() on >2-D tensor")
        return self._new(self.a.T)

    @property
    def T(self):  # noqa: N802
        return self._new(self.a.T)

    def permute(self, *dims):
        return self._new(np.transpose(self.a, _shape_arg(dims)))

    def flip(self, *dims):
        dims = _shape_arg(dims)
        return self._new(np.flip(self.a, dims).copy())

    def narrow(self, dim, start, length):
        sl = [slice(None)] * self.a.ndim
        sl[dim] = slice(start, start + length)
        return self._new(self.a[tuple(sl)])

    def unbind(self, dim=0):
        return tuple(self._new(np.take(self.a, i, axis=dim)) for i in range(self.a.shape[dim]))

    def split(self, n, dim=0):
        if not isinstance(n, builtins_int):
            raise TraceError("split with sizes")
        dim = dim if dim >= 0 else dim + self.a.ndim
        return tuple(self.narrow(dim, i, min(n, self.a.shape[dim] - i)) for i in range(0, self.a.shape[dim], n))

    def chunk(self, chunks, dim=0):
        n = -(-self.a.shape[dim] // chunks)
        return self.split(n, dim)

    # ---- arithmetic
    def _bin(self, o, f, rev=False):
        ob = o.a if isinstance(o, Tensor) else _lift_array(o)
        _check_init(self.a)
        _check_init(ob)
        a, b = (ob, self.a) if rev else (self.a, ob)
        r = _bi(f)(a, b)
        if not isinstance(r, np.ndarray):
            z = np.empty((), dtype=object)
            z[()] = r
            r = z
        dt = self.dtype
        if isinstance(o, Tensor) and o.dtype.is_floating_point and not dt.is_floating_point:
            dt = o.dtype
        return Tensor(r, dtype=dt)

    def _ibin(self, o, f):
        r = self._bin(o, f)
        self.a[...] = np.broadcast_to(r.a, self.a.shape)
        return self

    def __add__(self, o): return self._bin(o, lambda x, y: x + y)
    def __radd__(self, o): return self._bin(o, lambda x, y: x + y, rev=True)
    def __sub__(self, o): return self._bin(o, lambda x, y: x - y)
    def __rsub__(self, o): return self._bin(o, lambda x, y: x - y, rev=True)
    def __mul__(self, o): return self._bin(o, lambda x, y: x * y)
    def __rmul__(self, o): return self._bin(o, lambda x, y: x * y, rev=True)

    def __truediv__(self, o):
        r = self._bin(o, lambda x, y: x / y)
        return r if r.dtype.is_floating_point else Tensor(r.a, float32)

    def __rtruediv__(self, o):
        r = self._bin(o, lambda x, y: x / y, rev=True)
        return r if r.dtype.is_floating_point else Tensor(r.a, float32)

    def __neg__(self): return self._new(_un(lambda x: -x)(self.a))
    def __pos__(self): return self
    def __pow__(self, n): return self._new(_un(lambda x: x ** n)(self.a))
    def __iadd__(self, o): return self._ibin(o, lambda x, y: x + y)
    def __isub__(self, o): return self._ibin(o, lambda x, y: x - y)
    def __imul__(self, o): return self._ibin(o, lambda x, y: x * y)
    def __itruediv__(self, o): return self._ibin(o, lambda x, y: x / y)
    def __matmul__(self, o): return matmul(self, o)

    def add(self, o, alpha=1): return self + (o * alpha if alpha != 1 else o)
    def sub(self, o, alpha=1): return self - (o * alpha if alpha != 1 else o)
    def mul(self, o): return self * o
    def div(self, o): return self / o
    def neg(self): return -self
    def pow(self, n): return self ** n
    def square(self): return self * self
    def add_(self, o, alpha=1): return self.__iadd__(o * alpha if alpha != 1 else o)
    def sub_(self, o, alpha=1): return self.__isub__(o * alpha if alpha != 1 else o)
    def mul_(self, o): return self.__imul__(o)
    def div_(self, o): return self.__itruediv__(o)

    def neg_(self):
        self.a[...] = (-self).a
        return self

    def reciprocal(self): return 1 / self

    def copy_(self, o):
        self.a[...] = np.broadcast_to(o.a, self.a.shape)
        return self

    def fill_(self, v):
        self.a[...] = _full(self.a.shape, v)
        return self

    def zero_(self):
        return self.fill_(0)

    def sum(self, dim=None, keepdim=False):
        _check_init(self.a)
        if dim is None:
            r = E.const(0)
            for v in self.a.reshape(-1):
                r = r + v
            z = np.empty((), dtype=object)
            z[()] = r
            return self._new(z)
        dims = (dim,) if isinstance(dim, builtins_int) else tuple(dim)
        dims = tuple(sorted(d if d >= 0 else d + self.a.ndim for d in dims))
        r = np.sum(self.a, axis=dims, keepdims=keepdim)
        if not isinstance(r, np.ndarray):
            z = np.empty((), dtype=object)
            z[()] = r
            r = z
        out = np.empty(r.shape, dtype=object)
        for idx in np.ndindex(r.shape):
            out[idx] = E.const(r[idx])
        if r.ndim == 0:
            out[()] = E.const(r[()])
        return self._new(out)

    def mean(self, dim=None, keepdim=False):
        s = self.sum(dim, keepdim)
        n = self.a.size // max(s.a.size, 1)
        return s / n

    def mm(self, o): return mm(self, o)
    def matmul(self, o): return matmul(self, o)
    def bmm(self, o): return bmm(self, o)
    def dot(self, o): return (self * o).sum()

    def inverse(self): return inverse(self)
    def det(self): return det(self)

    def cos(self): return cos(self)
    def sin(self): return sin(self)
    def tan(self): return tan(self)
    def tanh(self): return tanh(self)
    def exp(self): return exp(self)
    def sqrt(self): return sqrt(self)

    def abs(self):
        def f(x):
            s = x._sign()
            if s is None:
                return fn("abs", x)  # opaque: may only flow into tolerances, never into emitted terms
            return x if s >= 0 else -x
        return self._new(_un(f)(self.a))

    def max(self, dim=None):
        """opaque maximum of symbolic values (only for tolerances: to_coq refuses to emit it)"""
        if dim is not None:
            raise TraceError("max over a dimension of symbolic values")
        vals = list(self.a.reshape(-1))
        if builtins_all(v.is_const() for v in vals):
            r = E.const(builtins_max(v.value() for v in vals))
        else:
            r = E("fn", "max", E("var", "(" + ", ".join(to_text(v) for v in vals) + ")", ()))
        z = np.empty((), dtype=object)
        z[()] = r
        return self._new(z)

    def ceil(self):
        def f(x):
            if x.flags().get("integer"):
                return x
            if x.is_const():
                return E.const(math.ceil(x.value()))
            raise TraceError("ceil() of non-integer symbolic value")
        return self._new(_un(f)(self.a))

    def floor(self):
        def f(x):
            if x.flags().get("integer"):
                return x
            if x.is_const():
                return E.const(math.floor(x.value()))
            raise TraceError("floor() of non-integer symbolic value")
        return self._new(_un(f)(self.a))

    # ---- comparisons (concrete only)
    def _cmp(self, o, what):
        ob = o.a if isinstance(o, Tensor) else _lift_array(o)
        f = {"lt": lambda x, y: x < y, "le": lambda x, y: x <= y, "gt": lambda x, y: x > y,
             "ge": lambda x, y: x >= y, "eq": lambda x, y: x.sym_eq(y), "ne": lambda x, y: not x.sym_eq(y)}[what]
        r = _bi(f)(self.a, ob)
        if not isinstance(r, np.ndarray):
            z = np.empty((), dtype=object)
            z[()] = r
            r = z
        return Tensor(r, dtype=bool_)

    def lt(self, o): return self._cmp(o, "lt")
    def le(self, o): return self._cmp(o, "le")
    def gt(self, o): return self._cmp(o, "gt")
    def ge(self, o): return self._cmp(o, "ge")
    def eq(self, o): return self._cmp(o, "eq")
    def ne(self, o): return self._cmp(o, "ne")
    __lt__ = lt
    __le__ = le
    __gt__ = gt
    __ge__ = ge

    def __and__(self, o):
        f = lambda a, b: (E("band", a, b) if (isinstance(a, E) or isinstance(b, E)) else (bool(a) and bool(b)))
        r = _bi(f)(self.a, o.a if isinstance(o, Tensor) else o)
        return Tensor(_obj(r), dtype=bool_)

    def __or__(self, o):
        f = lambda a, b: (E("bor", a, b) if (isinstance(a, E) or isinstance(b, E)) else (bool(a) or bool(b)))
        r = _bi(f)(self.a, o.a if isinstance(o, Tensor) else o)
        return Tensor(_obj(r), dtype=bool_)

    def __invert__(self):
        f = lambda a: (E("bnot", a) if isinstance(a, E) else (not bool(a)))
        return Tensor(_obj(_un(f)(self.a)), dtype=bool_)

    def any(self):
        return Tensor(np.array(builtins_any(bool(v) for v in self.a.reshape(-1)), dtype=object), dtype=bool_)

    def all(self):
        return Tensor(np.array(builtins_all(bool(v) for v in self.a.reshape(-1)), dtype=object), dtype=bool_)

    def where(self, cond, other):
        return where(cond, self, other)

    def allclose(self, o, rtol=1e-5, atol=1e-8):
        return allclose(self, o, rtol, atol)

    def type_as(self, o):
        return self._new(self.a, o.dtype)




class _Uninit:
    def __repr__(self):
        return "UNINIT"


UNINIT = _Uninit()


def _check_init(a: np.ndarray):
    for v in a.reshape(-1):
        if v is UNINIT:
            raise TraceError("read of uninitialised tensor element (new_empty/empty)")


def _shape_arg(shape) -> Tuple[int, ...]:
    if len(shape) == 1 and isinstance(shape[0], (tuple, list, Size)):
        shape = tuple(shape[0])
    out = []
    for s in shape:
        if isinstance(s, Tensor):
            s = builtins_int(s)
        out.append(builtins_int(s))
    return tuple(out)


def _full(shape, v) -> np.ndarray:
    a = np.empty(shape, dtype=object)
    c = E.const(v)
    for idx in np.ndindex(a.shape):
        a[idx] = c
    if a.ndim == 0:
        a[()] = c
    return a


# ------------------------------------------------------------------------------------------------
# module-level functions
# ------------------------------------------------------------------------------------------------
def tensor(data, dtype=None, device=None, requires_grad=False):
    if isinstance(data, Tensor):
        return data.clone()
    a = _lift_array(data)
    is_f = builtins_any(isinstance(v, E) and (not v.is_const() or v.value().denominator != 1) for v in a.reshape(-1))
    pyfloat = _contains_pyfloat(data)
    return Tensor(a, dtype=dtype if dtype is not None else (float32 if (is_f or pyfloat) else int64))


def _contains_pyfloat(x):
    if isinstance(x, builtins_float):
        return True
    if isinstance(x, (list, tuple)):
        return builtins_any(_contains_pyfloat(v) for v in x)
    if isinstance(x, Tensor):
        return x.dtype.is_floating_point
    return False


def as_tensor(data, dtype=None, device=None):
    if isinstance(data, Tensor):
        return data if dtype is None or dtype is data.dtype else data.to(dtype=dtype)
    return tensor(data, dtype=dtype)


def is_tensor(x):
    return isinstance(x, Tensor)


def is_floating_point(x):
    return x.dtype.is_floating_point


def zeros(*shape, dtype=None, device=None):
    return Tensor(_full(_shape_arg(shape), 0), dtype=dtype or float32)


def ones(*shape, dtype=None, device=None):
    return Tensor(_full(_shape_arg(shape), 1), dtype=dtype or float32)


def empty(*shape, dtype=None, device=None):
    a = np.empty(_shape_arg(shape), dtype=object)
    a.fill(UNINIT)
    return Tensor(a, dtype=dtype or float32)


def zeros_like(x, dtype=None):
    return Tensor(_full(x.a.shape, 0), dtype=dtype or x.dtype)


def ones_like(x, dtype=None):
    return Tensor(_full(x.a.shape, 1), dtype=dtype or x.dtype)


def eye(n, m=None, dtype=None, device=None):
    m = n if m is None else m
    a = _full((n, m), 0)
    for i in range(min(n, m)):
        a[i, i] = E.const(1)
    return Tensor(a, dtype=dtype or float32)


def arange(*args, dtype=None, device=None):
    vals = list(range(*[builtins_int(v) for v in args]))
    return Tensor(_lift_array(vals), dtype=dtype or int64)


def diag(x):
    if x.a.ndim == 1:
        n = x.a.shape[0]
        a = _full((n, n), 0)
        for i in range(n):
            a[i, i] = x.a[i]
        return x._new(a)
    if x.a.ndim == 2:
        return x._new(np.array([x.a[i, i] for i in range(min(x.a.shape))], dtype=object))
    raise TraceError("diag of >2-D tensor")


def _mm2(a: np.ndarray, b: np.ndarray) -> np.ndarray:
    _check_init(a)
    _check_init(b)
    if a.shape[1] != b.shape[0]:
        raise RuntimeError(f"mat1 and mat2 shapes cannot be multiplied ({a.shape} and {b.shape})")
    out = np.empty((a.shape[0], b.shape[1]), dtype=object)
    for i in range(a.shape[0]):
        for j in range(b.shape[1]):
            r = E.const(0)
            for k in range(a.shape[1]):
                r = r + a[i, k] * b[k, j]
            out[i, j] = r
    return out


def mm(a, b):
    if a.a.ndim != 2 or b.a.ndim != 2:
        raise RuntimeError("mm: 2-D tensors expected")
    return a._new(_mm2(a.a, b.a))


def bmm(a, b):
    if a.a.ndim != 3 or b.a.ndim != 3:
        raise RuntimeError("batch1 must be a 3D tensor")
    if a.a.shape[0] != b.a.shape[0]:
        raise RuntimeError("bmm: batch sizes differ")
    return a._new(np.stack([_mm2(a.a[i], b.a[i]) for i in range(a.a.shape[0])]) if a.a.shape[0]
                  else np.empty((0, a.a.shape[1], b.a.shape[2]), dtype=object))


def matmul(a, b):
    x, y = a.a, b.a
    if x.ndim == 1 and y.ndim == 1:
        return (a * b).sum()
    if x.ndim == 2 and y.ndim == 1:
        return a._new(_mm2(x, y.reshape(-1, 1)).reshape(-1))
    if x.ndim == 1 and y.ndim == 2:
        return a._new(_mm2(x.reshape(1, -1), y).reshape(-1))
    if x.ndim == 2 and y.ndim == 2:
        return a._new(_mm2(x, y))
    # batched with broadcasting of leading dims
    if y.ndim == 1:
        return matmul(a, b.unsqueeze(-1)).squeeze(-1)
    if x.ndim == 1:
        return matmul(a.unsqueeze(0), b).squeeze(-2)
    lead = np.broadcast_shapes(x.shape[:-2], y.shape[:-2])
    xb = np.broadcast_to(x, lead + x.shape[-2:])
    yb = np.broadcast_to(y, lead + y.shape[-2:])
    out = np.empty(lead + (x.shape[-2], y.shape[-1]), dtype=object)
    for idx in np.ndindex(lead):
        out[idx] = _mm2(xb[idx], yb[idx])
    return a._new(out)


def cat(tensors, dim=0):
    tensors = list(tensors)
    nd = tensors[0].a.ndim
    for t in tensors:
        if t.a.ndim != nd:
            raise RuntimeError("Tensors must have same number of dimensions")
    return tensors[0]._new(np.concatenate([t.a for t in tensors], axis=dim))


def stack(tensors, dim=0):
    tensors = list(tensors)
    return tensors[0]._new(np.stack([t.a for t in tensors], axis=dim))


def where(cond, a, b):
    c = cond.a if isinstance(cond, Tensor) else np.asarray(cond)
    av = a.a if isinstance(a, Tensor) else _lift_array(a)
    bv = b.a if isinstance(b, Tensor) else _lift_array(b)
    shp = np.broadcast_shapes(c.shape, av.shape, bv.shape)
    cb, ab, bb = (np.broadcast_to(v, shp) for v in (c, av, bv))
    out = np.empty(shp, dtype=object)

    def pick(c, x, y):
        if isinstance(c, E):
            return x if x.same(y) else E("ite", c, x, y)
        return x if bool(c) else y
    for idx in np.ndindex(shp):
        out[idx] = pick(cb[idx], ab[idx], bb[idx])
    if out.ndim == 0:
        out[()] = pick(cb[()], ab[()], bb[()])
    ref = a if isinstance(a, Tensor) else b
    return ref._new(out) if isinstance(ref, Tensor) else Tensor(out)


def clamp(x, min=None, max=None):
    def f(v):
        if min is not None:
            c = v._cmp(min, "lt")
            if isinstance(c, E):
                v = E("ite", c, E.const(min), v)
            elif c:
                return E.const(min)
        if max is not None:
            c = v._cmp(max, "gt")
            if isinstance(c, E):
                v = E("ite", c, E.const(max), v)
            elif c:
                return E.const(max)
        return v
    return x._new(_un(f)(x.a))


def _fnmap(name):
    def g(x):
        if not isinstance(x, Tensor):
            x = tensor(x)
        return x._new(_un(lambda v: fn(name, v))(x.a))
    return g


cos = _fnmap("cos")
sin = _fnmap("sin")
tan = _fnmap("tan")
tanh = _fnmap("tanh")
exp = _fnmap("exp")
sqrt = _fnmap("sqrt")
log = _fnmap("log")
acos = _fnmap("acos")


def atan2(y, x):
    """two-argument node; never emitted as a field term -- the unit that traces it takes it apart"""
    r = _bi(lambda a, b: E("fn2", "atan2", E.const(a), E.const(b)))(y.a, x.a)
    if not isinstance(r, np.ndarray):
        z = np.empty((), dtype=object)
        z[()] = r
        r = z
    return y._new(r)


def _det2d(a):
    if a.shape == (2, 2):
        return a[0, 0] * a[1, 1] - a[0, 1] * a[1, 0]
    if a.shape == (3, 3):
        return (a[0, 0] * (a[1, 1] * a[2, 2] - a[1, 2] * a[2, 1])
                - a[0, 1] * (a[1, 0] * a[2, 2] - a[1, 2] * a[2, 0])
                + a[0, 2] * (a[1, 0] * a[2, 1] - a[1, 1] * a[2, 0]))
    raise TraceError("det of unsupported shape")


def det(x):
    a = x.a
    _check_init(a)
    lead = a.shape[:-2]
    out = np.empty(lead, dtype=object)
    if not lead:
        out[()] = _det2d(a)
    else:
        for idx in np.ndindex(lead):
            out[idx] = _det2d(a[idx])
    return x._new(out)


def inverse(x):
    a = x.a
    if a.ndim != 2:
        raise TraceError("inverse of batched matrix")
    d = det(x).a[()]
    n = a.shape[0]
    out = np.empty((n, n), dtype=object)
    if n == 2:
        out[0, 0], out[0, 1], out[1, 0], out[1, 1] = a[1, 1] / d, -a[0, 1] / d, -a[1, 0] / d, a[0, 0] / d
    elif n == 3:
        for i in range(3):
            for j in range(3):
                r0, r1 = [k for k in range(3) if k != j]
                c0, c1 = [k for k in range(3) if k != i]
                cof = a[r0, c0] * a[r1, c1] - a[r0, c1] * a[r1, c0]
                out[i, j] = (cof if (i + j) % 2 == 0 else -cof) / d
    else:
        raise TraceError("inverse of unsupported size")
    return x._new(out)


SYMBOLIC_COND = False     # set by a translator unit: undecidable comparisons become 'cmp' nodes, where() builds 'ite' nodes
GENERIC_DISTINCT = False  # set by a translator unit: syntactically different symbols are "not close"
ASSUME_ALLCLOSE = False   # set by a translator unit: symbolic allclose() calls succeed and are LOGGED as obligations
ALLCLOSE_LOG = []         # [(lhs ndarray, rhs ndarray)] -- the unit must emit them to be proved in Coq


def allclose(a, b, rtol=1e-5, atol=1e-8):
    av, bv = np.broadcast_arrays(a.a, b.a)
    for x, y in zip(av.reshape(-1), bv.reshape(-1)):
        if x.same(y):
            continue
        if GENERIC_DISTINCT and x.op == "var" and y.op == "var":
            return False
        if ASSUME_ALLCLOSE:
            ALLCLOSE_LOG.append((av.copy(), bv.copy()))
            return True
        if x.is_const() and y.is_const():
            if abs(x.value() - y.value()) > atol + rtol * abs(y.value()):
                return False
            continue
        raise TraceError("allclose on symbolic values")
    return True


def _delegate(name):
    def g(x, *a, **k):
        if not isinstance(x, Tensor):
            raise TraceError(f"torch.{name} on non-tensor")
        return getattr(x, name)(*a, **k)
    g.__name__ = name
    return g


for _n in ("chunk", "squeeze", "unsqueeze", "transpose", "reshape", "sum", "abs", "flip", "clone",
           "split", "unbind", "narrow", "permute", "neg", "square", "mean", "flatten", "ceil", "floor"):
    globals()[_n] = _delegate(_n)


def mul(a, b): return a * b
def add(a, b): return a + b
def sub(a, b): return a - b
def div(a, b): return a / b


class _FInfo:
    def __init__(self, dt):
        import numpy as _np
        fi = _np.finfo({"float16": _np.float16, "float32": _np.float32, "float64": _np.float64}.get(dt.name, _np.float32))
        self.tiny, self.eps, self.max, self.min = builtins_float(fi.tiny), builtins_float(fi.eps), builtins_float(fi.max), builtins_float(fi.min)


def finfo(dt=None):
    return _FInfo(dt or float32)


class no_grad:  # noqa: N801
    def __enter__(self):
        return self

    def __exit__(self, *a):
        return False

    def __call__(self, f):
        return f


def is_grad_enabled():
    return False


class _Linalg:
    @staticmethod
    def inv(x):
        return inverse(x)

    @staticmethod
    def det(x):
        return det(x)


linalg = _Linalg()


class _Functional:
    @staticmethod
    def linear(x, w, bias=None):
        r = matmul(x, w.t() if w.a.ndim == 2 else w)
        return r if bias is None else r + bias

    @staticmethod
    def normalize(x, p=2.0, dim=-1, eps=1e-12):
        """x / max(||x||_2, eps) with the norm an opaque sqrt node; the clamp is taken to be inactive
        (the model's hypothesis is a non-zero norm)"""
        if p not in (2, 2.0):
            raise TraceError("normalize with p != 2")
        n = sqrt((x * x).sum(dim, keepdim=True))
        return x / n

    def __getattr__(self, name):
        if name.startswith("__"):
            raise AttributeError(name)
        raise TraceError(f"torch.nn.functional.{name} is outside the translator's vocabulary")


functional = _Functional()


class _NN:
    functional = functional

    class Module:
        pass

    class Parameter:
        pass


nn = _NN()


def __getattr__(name):
    if name.startswith("__"):
        raise AttributeError(name)
    raise TraceError(f"torch.{name} is outside the translator's vocabulary")


# ------------------------------------------------------------------------------------------------
# helpers for the translator
# ------------------------------------------------------------------------------------------------
def symvec(prefix: str, n: int, **flags) -> Tensor:
    return Tensor(np.array([E.var(f"{prefix}{i}", **flags) for i in range(n)], dtype=object))


def symmat(prefix: str, n: int, m: int, **flags) -> Tensor:
    a = np.empty((n, m), dtype=object)
    for i in range(n):
        for j in range(m):
            a[i, j] = E.var(f"{prefix}{i}{j}", **flags)
    return Tensor(a)


def consttensor(values) -> Tensor:
    return Tensor(_lift_array(values))


# ------------------------------------------------------------------------------------------------
# extensions for the B-spline / finite-difference units (C14, C12) -- appended, nothing above changed
# ------------------------------------------------------------------------------------------------
class Generator:  # only used in annotations of deepali.core.image
    pass


class LongTensor(Tensor):  # only used in annotations
    pass


def atleast_1d(x):
    if not isinstance(x, Tensor):
        raise TraceError("atleast_1d on non-tensor")
    return x if x.a.ndim >= 1 else x._new(x.a.reshape(1))


def _tile(self, *reps):
    reps = _shape_arg(reps)
    return self._new(np.tile(self.a, reps))


Tensor.tile = _tile

_idx_before_slice_lists = Tensor._idx


def _idx_slice_lists(key):
    """torch reads a *list* of slices used as an index like the tuple of those slices (deprecated but
    still accepted by the pinned torch); numpy would refuse it"""
    if isinstance(key, list) and key and builtins_all(isinstance(k, slice) for k in key):
        key = tuple(key)
    return _idx_before_slice_lists(key)


Tensor._idx = staticmethod(_idx_slice_lists)


def _ntuple(v, n):
    if isinstance(v, (tuple, list)):
        if len(v) != n:
            raise RuntimeError("expected a sequence of length %d" % n)
        return tuple(builtins_int(t) for t in v)
    return (builtins_int(v),) * n


def _conv_nd(nd, x, w, bias=None, stride=1, padding=0, dilation=1, groups=1):
    """cross-correlation exactly as torch.nn.functional.conv{1,2,3}d (zero padding, groups)"""
    if not isinstance(x, Tensor) or not isinstance(w, Tensor):
        raise TraceError("conv on non-tensor")
    xa, wa = x.a, w.a
    _check_init(xa)
    _check_init(wa)
    if xa.ndim != nd + 2 or wa.ndim != nd + 2:
        raise RuntimeError(f"conv{nd}d: expected {nd + 2}-D input and weight, got {xa.ndim}-D and {wa.ndim}-D")
    if isinstance(padding, str):
        raise TraceError("conv with string padding")
    st_, pd, dl = _ntuple(stride, nd), _ntuple(padding, nd), _ntuple(dilation, nd)
    n_, cin = xa.shape[:2]
    cout, cg = wa.shape[:2]
    if cin % groups or cout % groups or cg != cin // groups:
        raise RuntimeError("conv: channel / groups mismatch")
    ks = wa.shape[2:]
    if builtins_any(pd):
        shp = (n_, cin) + tuple(l + 2 * p for l, p in zip(xa.shape[2:], pd))
        xp = _full(shp, 0)
        xp[(slice(None), slice(None)) + tuple(slice(p, p + l) for l, p in zip(xa.shape[2:], pd))] = xa
    else:
        xp = xa
    osz = []
    for l, k, s, d in zip(xp.shape[2:], ks, st_, dl):
        o = (l - d * (k - 1) - 1) // s + 1
        if l - d * (k - 1) - 1 < 0:
            raise RuntimeError("Kernel size can't be greater than actual input size")
        osz.append(o)
    out = np.empty((n_, cout) + tuple(osz), dtype=object)
    per = cout // groups
    for n in range(n_):
        for co in range(cout):
            g = co // per
            for oi in np.ndindex(*osz):
                r = E.const(0)
                for ci in range(cg):
                    for ki in np.ndindex(*ks):
                        pos = tuple(o * s + k * d for o, s, k, d in zip(oi, st_, ki, dl))
                        r = r + wa[(co, ci) + ki] * xp[(n, g * cg + ci) + pos]
                if bias is not None:
                    r = r + bias.a[co]
                out[(n, co) + oi] = r
    return x._new(out)


def _conv_transpose_nd(nd, x, w, bias=None, stride=1, padding=0, output_padding=0, groups=1, dilation=1):
    """torch.nn.functional.conv_transpose{1,2,3}d: weight (Cin, Cout/groups, k...); scatter form"""
    xa, wa = x.a, w.a
    _check_init(xa)
    _check_init(wa)
    if xa.ndim != nd + 2 or wa.ndim != nd + 2:
        raise RuntimeError(f"conv_transpose{nd}d: expected {nd + 2}-D input and weight")
    st_, pd, dl, op = _ntuple(stride, nd), _ntuple(padding, nd), _ntuple(dilation, nd), _ntuple(output_padding, nd)
    n_, cin = xa.shape[:2]
    if wa.shape[0] != cin or cin % groups:
        raise RuntimeError("conv_transpose: channel / groups mismatch")
    cpg = wa.shape[1]
    cout = cpg * groups
    ks = wa.shape[2:]
    for o_, s_, d_ in zip(op, st_, dl):
        if o_ >= s_ and o_ >= d_:
            raise RuntimeError("output padding must be smaller than either stride or dilation")
    full = tuple((l - 1) * s + d * (k - 1) + 1 for l, s, d, k in zip(xa.shape[2:], st_, dl, ks))
    buf = _full((n_, cout) + tuple(f + o_ for f, o_ in zip(full, op)), 0)
    ing = cin // groups
    for n in range(n_):
        for ci in range(cin):
            g = ci // ing
            for co in range(cpg):
                for ii in np.ndindex(*xa.shape[2:]):
                    for ki in np.ndindex(*ks):
                        pos = tuple(i * s + k * d for i, s, k, d in zip(ii, st_, ki, dl))
                        idx = (n, g * cpg + co) + pos
                        buf[idx] = buf[idx] + xa[(n, ci) + ii] * wa[(ci, co) + ki]
    sl = (slice(None), slice(None)) + tuple(slice(p, f + o_ - p) for p, f, o_ in zip(pd, full, op))
    # output length (l-1)s - 2p + d(k-1) + op + 1: drop p on the left and p on the right of the op-extended buffer
    out = buf[sl]
    if bias is not None:
        raise TraceError("conv_transpose with bias")
    return x._new(out.copy())


def _pad(x, pad, mode="constant", value=None):
    """torch.nn.functional.pad for modes constant / replicate; pad = (left_last, right_last, left_prev, ...)"""
    if not isinstance(x, Tensor):
        raise TraceError("pad on non-tensor")
    pad = [builtins_int(p) for p in pad]
    if len(pad) % 2 or len(pad) // 2 > x.a.ndim:
        raise RuntimeError("Padding length must be divisible by 2 and at most twice the number of dimensions")
    if builtins_any(p < 0 for p in pad):
        raise TraceError("negative padding")
    a = x.a
    for k in range(len(pad) // 2):
        ax = a.ndim - 1 - k
        lo, hi = pad[2 * k], pad[2 * k + 1]
        if lo == 0 and hi == 0:
            continue
        n = a.shape[ax]
        if mode == "replicate":
            if n == 0:
                raise RuntimeError("replicate padding of an empty dimension")
            idx = [0] * lo + list(range(n)) + [n - 1] * hi
            a = np.take(a, idx, axis=ax)
        elif mode == "constant":
            shp = list(a.shape)
            shp[ax] = n + lo + hi
            b = _full(tuple(shp), 0 if value is None else value)
            sl = [slice(None)] * a.ndim
            sl[ax] = slice(lo, lo + n)
            b[tuple(sl)] = a
            a = b
        else:
            raise TraceError(f"pad mode {mode!r} is outside the translator's vocabulary")
    return x._new(a)


for _nd in (1, 2, 3):
    setattr(_Functional, f"conv{_nd}d", staticmethod((lambda nd: lambda *a, **k: _conv_nd(nd, *a, **k))(_nd)))
    setattr(_Functional, f"conv_transpose{_nd}d",
            staticmethod((lambda nd: lambda *a, **k: _conv_transpose_nd(nd, *a, **k))(_nd)))
_Functional.pad = staticmethod(_pad)


def to_coq_q(e: E) -> str:
    """Coq term of type Q (scope Q_scope) for a rational expression"""
    if e.op == "const":
        v = e.args[0]
        return f"(({v.numerator}) # {v.denominator})"
    if e.op == "var":
        return e.args[0]
    if e.op == "neg":
        return f"(- {to_coq_q(e.args[0])})"
    if e.op in ("add", "sub", "mul", "div"):
        s = {"add": "+", "sub": "-", "mul": "*", "div": "/"}[e.op]
        return f"({to_coq_q(e.args[0])} {s} {to_coq_q(e.args[1])})"
    raise TraceError(f"cannot emit {e.op} over Q")


# ------------------------------------------------------------------------------------------------
# extension for the loss functions (C16/C17): in-place square, pointwise torch losses, average pooling
# ------------------------------------------------------------------------------------------------
def _square_(self):
    self.a[...] = (self * self).a
    return self


Tensor.square_ = _square_


def _opaque(name):
    def f(*a, **k):
        raise TraceError(f"{name} is outside the translator's vocabulary")
    f.__name__ = name
    return f


# names that deepali modules import at load time but the traced functions never call
for _n in ("Generator", "LongTensor"):
    if _n not in globals():
        globals()[_n] = _opaque("torch." + _n)
for _n in ("binary_cross_entropy_with_logits", "logsigmoid"):
    if _n not in vars(_Functional):
        setattr(_Functional, _n, staticmethod(_opaque("torch.nn.functional." + _n)))


def _reduce_like_torch(t, reduction):
    if reduction == "none":
        return t
    if reduction == "sum":
        return t.sum()
    if reduction == "mean":
        return t.mean()
    raise ValueError(f"{reduction} is not a valid value for reduction")


def _f_l1_loss(input, target, reduction="mean"):
    """|input - target| with an opaque ``abs`` node per element"""
    d = input - target
    return _reduce_like_torch(d._new(_un(lambda v: fn("abs", v))(d.a)), reduction)


def _f_mse_loss(input, target, reduction="mean"):
    d = input - target
    return _reduce_like_torch(d * d, reduction)


def _f_avg_pool(D):
    def pool(x, kernel_size, stride=None, padding=0, ceil_mode=False, count_include_pad=True,
             divisor_override=None):
        if ceil_mode:
            raise TraceError("avg_pool with ceil_mode")
        if x.a.ndim != D + 2:
            raise TraceError(f"avg_pool{D}d on tensor of rank {x.a.ndim}")
        tup = lambda v: (v,) * D if isinstance(v, builtins_int) else tuple(v)
        k = tup(kernel_size)
        s = k if stride is None else tup(stride)
        p = tup(padding)
        if len(k) != D or len(s) != D or len(p) != D:
            raise TraceError("avg_pool argument length")
        for kk, pp in zip(k, p):
            if pp * 2 > kk:
                raise RuntimeError("pad should be at most half of effective kernel size")
        n = x.a.shape[2:]
        on = tuple((n[d] + 2 * p[d] - k[d]) // s[d] + 1 for d in range(D))
        out = np.empty(x.a.shape[:2] + on, dtype=object)
        for o in np.ndindex(*on):
            lo = [o[d] * s[d] - p[d] for d in range(D)]
            hi = [min(lo[d] + k[d], n[d] + p[d]) for d in range(D)]
            pool_size = 1
            for d in range(D):
                pool_size *= hi[d] - lo[d]
            lo_c = [max(lo[d], 0) for d in range(D)]
            hi_c = [min(hi[d], n[d]) for d in range(D)]
            count = 1
            for d in range(D):
                count *= max(hi_c[d] - lo_c[d], 0)
            if divisor_override is not None:
                div = divisor_override
            elif count_include_pad:
                div = pool_size
            else:
                div = count
            for b in np.ndindex(*x.a.shape[:2]):
                acc = E.const(0)
                for j in itertools.product(*[range(lo_c[d], hi_c[d]) for d in range(D)]):
                    acc = acc + x.a[b + tuple(j)]
                out[b + o] = acc / div
        return x._new(out)
    pool.__name__ = f"avg_pool{D}d"
    return staticmethod(pool)


for _n, _f in (("l1_loss", staticmethod(_f_l1_loss)), ("mse_loss", staticmethod(_f_mse_loss)),
               ("avg_pool1d", _f_avg_pool(1)), ("avg_pool2d", _f_avg_pool(2)), ("avg_pool3d", _f_avg_pool(3))):
    if _n not in vars(_Functional):
        setattr(_Functional, _n, _f)


# ---- torch.nn.init (spatial/linear.py, parametric.py: reset_parameters) -- appended for the C07 unit ----
class _Init:
    @staticmethod
    def constant_(t, val):
        return t.fill_(val)


if not hasattr(_NN, "init"):
    _NN.init = _Init()


# ---- torch.inverse for batched and 4 x 4 operands (HomogeneousTransform / Shearing .tensor) -- appended for the
# C07 unit; unbatched 2 x 2 / 3 x 3 operands keep going through the original adjugate code above ----
_inverse_small = inverse


def _minor(a, i, j):
    n = a.shape[0]
    rows = [r for r in range(n) if r != i]
    cols = [c for c in range(n) if c != j]
    return a[np.ix_(rows, cols)]


def _det_any(a):
    n = a.shape[0]
    if n == 1:
        return a[0, 0]
    if n <= 3:
        return _det2d(a)
    acc = None
    for j in range(n):
        if a[0, j].is_const() and a[0, j].value() == 0:
            continue
        term = a[0, j] * _det_any(_minor(a, 0, j))
        if j % 2:
            term = -term
        acc = term if acc is None else acc + term
    return acc if acc is not None else E.const(0)


def _inverse_any(x):
    a = x.a
    _check_init(a)
    if a.ndim == 2 and a.shape[0] in (2, 3):
        return _inverse_small(x)
    if a.ndim > 2:
        out = np.empty(a.shape, dtype=object)
        for idx in np.ndindex(a.shape[:-2]):
            out[idx] = _inverse_any(Tensor(a[idx])).a
        return x._new(out)
    n = a.shape[0]
    if a.shape != (n, n) or n > 4:
        raise TraceError(f"inverse of shape {a.shape}")
    d = _det_any(a)
    out = np.empty((n, n), dtype=object)
    for i in range(n):
        for j in range(n):
            cof = _det_any(_minor(a, j, i))
            out[i, j] = (cof if (i + j) % 2 == 0 else -cof) / d
    return x._new(out)


inverse = _inverse_any


# ---- torch.triu_indices (core/affine.py shear_matrix) -- appended for the C07 unit ----
def triu_indices(row, col, offset=0, dtype=None, device=None):
    r, c = np.triu_indices(builtins_int(row), k=builtins_int(offset), m=builtins_int(col))
    return tensor([[builtins_int(v) for v in r], [builtins_int(v) for v in c]])


# ---- torch.nn.Module / ModuleDict / Parameter machinery (spatial/base.py, parametric.py, composite.py,
# transformer.py: constructors, register_buffer, forward pre-hooks, __call__) -- appended for the C06 unit.
# Only what those files use; attributes are plain Python attributes (no _parameters/_buffers routing). ----
import collections as _collections


class _ModuleDict(_collections.OrderedDict):
    pass


class _HookHandle:
    def __init__(self, hooks, fn):
        self._hooks, self._fn = hooks, fn

    def remove(self):
        if self._fn in self._hooks:
            self._hooks.remove(self._fn)


def _module_init(self, *args, **kwargs):
    self.__dict__.setdefault("_sym_pre_hooks", [])
    self.__dict__.setdefault("_sym_buffers", [])


def _module_register_buffer(self, name, tensor, persistent=True):
    self.__dict__.setdefault("_sym_buffers", [])
    if name not in self._sym_buffers:
        self._sym_buffers.append(name)
    setattr(self, name, tensor)


def _module_register_forward_pre_hook(self, fn):
    self.__dict__.setdefault("_sym_pre_hooks", []).append(fn)
    return _HookHandle(self._sym_pre_hooks, fn)


def _module_call(self, *args, **kwargs):
    for h in list(self.__dict__.get("_sym_pre_hooks", [])):
        h(self, args)
    return self.forward(*args, **kwargs)


def _module_named_buffers(self):
    return [(n, getattr(self, n)) for n in self.__dict__.get("_sym_buffers", []) if hasattr(self, n)]


def _module_buffers(self):
    return [b for _, b in _module_named_buffers(self)]


def _module_parameters(self):
    return [v for v in self.__dict__.values() if isinstance(v, _NN.Parameter)]


def _module_to(self, *args, **kwargs):
    return self


if not hasattr(_NN.Module, "register_buffer"):
    _NN.Module.__init__ = _module_init
    _NN.Module.register_buffer = _module_register_buffer
    _NN.Module.register_forward_pre_hook = _module_register_forward_pre_hook
    _NN.Module.__call__ = _module_call
    _NN.Module.named_buffers = _module_named_buffers
    _NN.Module.buffers = _module_buffers
    _NN.Module.parameters = _module_parameters
    _NN.Module.to = _module_to
if not hasattr(_NN, "ModuleDict"):
    _NN.ModuleDict = _ModuleDict


class SymParameter(Tensor, _NN.Parameter):
    """a Tensor that also answers isinstance(., torch.nn.Parameter); results of operations are plain Tensors"""

    def __init__(self, data, requires_grad=True):
        Tensor.__init__(self, data.a if isinstance(data, Tensor) else data)
        self.requires_grad = requires_grad


# ---- torch.__version__ / meshgrid / flip (core/grid.py Grid.coords) -- appended for the C06 unit ----
__version__ = "2.0.0"


def meshgrid(*tensors, indexing="ij"):
    if len(tensors) == 1 and isinstance(tensors[0], (list, tuple)):
        tensors = tuple(tensors[0])
    if indexing != "ij":
        raise TraceError("meshgrid with indexing other than 'ij'")
    arrs = [t.a for t in tensors]
    shape = tuple(a.shape[0] for a in arrs)
    outs = []
    for k, a in enumerate(arrs):
        o = np.empty(shape, dtype=object)
        for idx in np.ndindex(*shape):
            o[idx] = a[idx[k]]
        outs.append(Tensor(o))
    return tuple(outs)


def flip(x, dims):
    return x.flip(dims)


# extension for the regularisers (C17): in-place abs / pow (abs of a symbolic value is an opaque node)
def _abs_(self):
    def f(v):
        s = v._sign()
        return fn("abs", v) if s is None else (v if s >= 0 else -v)
    self.a[...] = _un(f)(self.a)
    return self


def _pow_(self, n):
    self.a[...] = (self ** n).a
    return self


if not hasattr(Tensor, "abs_"):
    Tensor.abs_ = _abs_
if not hasattr(Tensor, "pow_"):
    Tensor.pow_ = _pow_


# extension (C17): Euclidean norm along one dimension as an opaque sqrt node of the sum of squares
def _norm(self, p=2, dim=None, keepdim=False):
    if p not in (2, 2.0) or dim is None:
        raise TraceError("norm: only p = 2 along a given dimension")
    return sqrt((self * self).sum(dim, keepdim))


if not hasattr(Tensor, "norm"):
    Tensor.norm = _norm


# ---- appended for the transposed B-spline path (C14): integer helper ops used by core/nnutils.py ----
def _fmod(self, o):
    def f(x):
        if not (isinstance(x, E) and x.is_const()):
            raise TraceError("fmod of symbolic value")
        a, b = x.value(), Fraction(o)
        r = _b.abs(a) % _b.abs(b)  # torch.fmod: remainder with the sign of the dividend
        return E.const(r if a >= 0 else -r)
    return self._new(_un(f)(self.a))


Tensor.fmod = _fmod


# ---- allclose: the constant-vs-constant comparison above calls `abs`, which in this module is the torch.abs delegate;
# re-defined with plain rational arithmetic (appended for the C06 unit: Grid.__eq__ on grids with concrete sizes) ----
def _allclose_c06(a, b, rtol=1e-5, atol=1e-8):
    av, bv = np.broadcast_arrays(a.a, b.a)
    for x, y in zip(av.reshape(-1), bv.reshape(-1)):
        if x.same(y):
            continue
        if GENERIC_DISTINCT and x.op == "var" and y.op == "var":
            return False
        if ASSUME_ALLCLOSE:
            ALLCLOSE_LOG.append((av.copy(), bv.copy()))
            return True
        if x.is_const() and y.is_const():
            d = x.value() - y.value()
            d = -d if d < 0 else d
            ay = y.value() if y.value() >= 0 else -y.value()
            if d > Fraction(repr(atol)) + Fraction(repr(rtol)) * ay:
                return False
            continue
        raise TraceError("allclose on symbolic values")
    return True


allclose = _allclose_c06


# ---- nn.Module._buffers (spatial/base.py NonRigidTransform.tensor: `"u" in self._buffers`) -- appended for the C06 unit ----
def _module_buffers_dict(self):
    return {n: getattr(self, n) for n in self.__dict__.get("_sym_buffers", []) if hasattr(self, n)}


if not hasattr(_NN.Module, "_buffers"):
    _NN.Module._buffers = property(_module_buffers_dict)


# extension (C16/C17 module wrappers): container classes that deepali/losses/base.py imports by name
for _n in ("ModuleDict", "ModuleList"):
    if not hasattr(_NN, _n):
        setattr(_NN, _n, type(_n, (_NN.Module,), {}))
