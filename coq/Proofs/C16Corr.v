(* C16: global and windowed correlation losses -- the algebraic facts (every field). *)
From Coq Require Import ZArith List Field Ring Lia Bool.
From DV Require Import Base.Field Base.FieldFacts Base.LinAlg Model.Losses Proofs.C16Lists.
Import ListNotations.
Local Open Scope fld_scope.

Section Corr.
Variable K : fld.
Hypothesis Kf : is_field K.
Add Field KF : Kf.
Notation vec := (list K).

Lemma cc_score_sym (eps a b c : K) : cc_score eps a b c = cc_score eps a c b.
Proof. unfold cc_score. replace (c * b) with (b * c) by ring. reflexivity. Qed.

Lemma cc_map_sym (eps : K) (a b c : vec) : cc_map eps a b c = cc_map eps a c b.
Proof.
  unfold cc_map. revert b c. induction a as [|x a IH]; intros b c; [reflexivity|].
  destruct b as [|y b], c as [|z c]; cbn [combine map fst snd]; try reflexivity.
  rewrite IH, cc_score_sym. reflexivity.
Qed.

(* ---- symmetry ---------------------------------------------------------------------------------- *)
Lemma ncc_symmetric (eps : K) (s t : vec) : ncc_one eps s t = ncc_one eps t s.
Proof. unfold ncc_one. cbv zeta. rewrite cc_score_sym, (dot_comm K Kf (center s) (center t)). reflexivity. Qed.

Lemma lcc_none_symmetric nb (eps : K) (s t : vec) : lcc_none nb eps s t = lcc_none nb eps t s.
Proof. unfold lcc_none. cbv zeta. rewrite cc_map_sym, (vmul_comm K Kf (vsub s _)). reflexivity. Qed.

Lemma lcc_symmetric r nb (eps : K) (s t : vec) m : lcc_loss r nb eps s t m = lcc_loss r nb eps t s m.
Proof. unfold lcc_loss. rewrite lcc_none_symmetric. reflexivity. Qed.

Lemma wlcc_none_symmetric nb (eps : K) (s t : vec) wc ws wt :
  wlcc_none nb eps s t wc ws wt = wlcc_none nb eps t s wc wt ws.
Proof. unfold wlcc_none. cbv zeta. rewrite cc_map_sym, (vmul_comm K Kf (opt_mul (vsub s _) wc)). reflexivity. Qed.

(* exchanging (source, source_mask) with (target, target_mask) *)
Lemma wlcc_symmetric r nb (eps : K) (s t : vec) mask smask tmask :
  wlcc_loss r nb eps s t mask smask tmask = wlcc_loss r nb eps t s mask tmask smask.
Proof.
  unfold wlcc_loss, wlcc_masks.
  destruct mask as [m|], smask as [a|], tmask as [b|]; rewrite ?(vmul_comm K Kf b a);
    rewrite wlcc_none_symmetric; reflexivity.
Qed.

(* without any mask wlcc is lcc *)
Lemma wlcc_no_mask_is_lcc r nb (eps : K) (s t : vec) :
  wlcc_loss r nb eps s t None None None = lcc_loss r nb eps s t None.
Proof. reflexivity. Qed.

(* mask weighting of the windowed losses: local scores are weighted by the mask *)
Lemma lcc_mask_weighting nb (eps : K) (s t m : vec) :
  lcc_loss RNone nb eps s t (Some m) = vmul (lcc_none nb eps s t) m /\
  lcc_loss RSum nb eps s t (Some m) = [dot (lcc_none nb eps s t) m] /\
  lcc_loss RMean nb eps s t (Some m) = [dot (lcc_none nb eps s t) m / vsum m].
Proof. repeat split. Qed.

Lemma wlcc_mask_weighting nb (eps : K) (s t m : vec) :
  let l := wlcc_none nb eps s t (Some m) (Some m) (Some m) in
  wlcc_loss RNone nb eps s t (Some m) None None = vmul l m /\
  wlcc_loss RMean nb eps s t (Some m) None None = [dot l m / vsum m].
Proof. repeat split. Qed.

(* ---- identical inputs -------------------------------------------------------------------------- *)
Lemma cc_score_identical (eps b : K) : b * b + eps <> 0 -> cc_score eps b b b = eps / (b * b + eps).
Proof. intro H. unfold cc_score. field. exact H. Qed.

Lemma ncc_identical (eps : K) (s : vec) :
  let b := dot (center s) (center s) in
  b * b + eps <> 0 -> ncc_one eps s s = eps / (b * b + eps).
Proof. cbv zeta. intro H. unfold ncc_one. cbv zeta. apply cc_score_identical. exact H. Qed.

Lemma ncc_identical_zero (s : vec) :
  dot (center s) (center s) <> 0 -> ncc_one 0 s s = 0.
Proof.
  intro H. pose proof (mul_nz K Kf _ _ H H) as H2.
  rewrite ncc_identical.
  - apply (div_zero_l K Kf).
  - intro E. apply H2. rewrite <- E. ring.
Qed.

Lemma lcc_identical nb (eps : K) (s : vec) :
  let x := vsub s (local_mean nb s) in
  let b := local_sum nb (vmul x x) in
  lcc_none nb eps s s = map (fun bi => cc_score eps bi bi bi) b.
Proof.
  cbv zeta. unfold lcc_none. cbv zeta. unfold cc_map.
  induction (local_sum nb (vmul (vsub s (local_mean nb s)) (vsub s (local_mean nb s)))) as [|bi b IH];
    cbn [combine map fst snd]; [reflexivity | rewrite IH; reflexivity].
Qed.

(* ---- intensity scale and offset ------------------------------------------------------------------ *)
Lemma vsum_affine (a b : K) (s : vec) :
  vsum (map (fun v => a * v + b) s) = a * vsum s + of_nat (length s) * b.
Proof.
  induction s as [|x s IH]; cbn [map vsum length].
  - rewrite (of_nat_0 K). ring.
  - rewrite IH, (of_nat_S K Kf). ring.
Qed.

Lemma center_affine (a b : K) (s : vec) :
  of_nat (K:=K) (length s) <> 0 ->
  center (map (fun v => a * v + b) s) = map (fun v => a * v) (center s).
Proof.
  intro Hn. unfold center, vmean. rewrite vsum_affine, map_length, !map_map.
  apply map_ext. intro v. field. exact Hn.
Qed.

(* replacing s by a s + b (a <> 0) is the same as dividing epsilon by a^2; for epsilon = 0 the
   loss is invariant *)
Lemma ncc_affine (a b eps : K) (s t : vec) :
  a <> 0 -> of_nat (K:=K) (length s) <> 0 ->
  dot (center s) (center s) * dot (center t) (center t) + eps <> 0 ->
  ncc_one (a * a * eps) (map (fun v => a * v + b) s) t = ncc_one eps s t.
Proof.
  intros Ha Hn Hd. unfold ncc_one. cbv zeta. rewrite (center_affine a b s Hn).
  rewrite (dot_scale_l K Kf), (dot_scale_l K Kf), (dot_scale_r K Kf).
  unfold cc_score. field. split; [exact Hd|].
  intro E. apply (mul_nz K Kf _ _ (mul_nz K Kf _ _ Ha Ha) Hd). rewrite <- E. ring.
Qed.

Lemma ncc_affine_eps0 (a b : K) (s t : vec) :
  a <> 0 -> of_nat (K:=K) (length s) <> 0 ->
  dot (center s) (center s) * dot (center t) (center t) <> 0 ->
  ncc_one 0 (map (fun v => a * v + b) s) t = ncc_one 0 s t.
Proof.
  intros Ha Hn Hd. rewrite <- (ncc_affine a b 0 s t Ha Hn).
  - f_equal. ring.
  - intro E. apply Hd. rewrite <- E. ring.
Qed.

(* ---- masked (weighted) global correlation ------------------------------------------------------------------ *)
Lemma vmap2_nil_r (f : K -> K -> K) (l : vec) : vmap2 f l [] = [].
Proof. destruct l; reflexivity. Qed.

Lemma vsum_mul3_swap (x w y : vec) : vsum (vmul (vmul x w) y) = vsum (vmul (vmul y w) x).
Proof.
  unfold vmul. revert w y. induction x as [|a x IH]; intros w y.
  - cbn [vmap2]. rewrite ?vmap2_nil_r. reflexivity.
  - destruct w as [|b w]; [cbn [vmap2]; rewrite ?vmap2_nil_r; reflexivity|].
    destruct y as [|c y]; [cbn [vmap2]; rewrite ?vmap2_nil_r; reflexivity|].
    cbn [vmap2 vsum]. rewrite IH. ring.
Qed.

Lemma ncc_w_symmetric (eps : K) (s t w : vec) : ncc_w eps s t w = ncc_w eps t s w.
Proof. unfold ncc_w. cbv zeta. rewrite cc_score_sym, (vsum_mul3_swap (wcenter s w) w (wcenter t w)). reflexivity. Qed.

Lemma ncc_w_identical (eps : K) (s w : vec) :
  let b := vsum (vmul (vmul (wcenter s w) w) (wcenter s w)) in
  b * b + eps <> 0 -> ncc_w eps s s w = eps / (b * b + eps).
Proof. cbv zeta. intro H. unfold ncc_w. cbv zeta. apply cc_score_identical. exact H. Qed.

(* samples where the mask is zero are ignored entirely *)
Lemma som_weighted_sums (m x x' y y' : vec) (mx my : K) :
  same_on_mask m x x' y y' ->
  vsum (vmul x m) = vsum (vmul x' m) /\ vsum (vmul y m) = vsum (vmul y' m) /\
  vsum (vmul (vmul (map (fun a => a - mx) x) m) (map (fun a => a - my) y))
  = vsum (vmul (vmul (map (fun a => a - mx) x') m) (map (fun a => a - my) y')) /\
  vsum (vmul (vmul (map (fun a => a - mx) x) m) (map (fun a => a - mx) x))
  = vsum (vmul (vmul (map (fun a => a - mx) x') m) (map (fun a => a - mx) x')) /\
  vsum (vmul (vmul (map (fun a => a - my) y) m) (map (fun a => a - my) y))
  = vsum (vmul (vmul (map (fun a => a - my) y') m) (map (fun a => a - my) y')).
Proof.
  unfold vmul.
  induction 1 as [|m x x' y y' a a' b b' _ IH|m x x' y y' w a b _ IH]; cbn [map vmap2 vsum].
  - repeat split; reflexivity.
  - destruct IH as (H1 & H2 & H3 & H4 & H5). rewrite H1, H2, H3, H4, H5. repeat split; ring.
  - destruct IH as (H1 & H2 & H3 & H4 & H5). rewrite H1, H2, H3, H4, H5. repeat split; reflexivity.
Qed.

Lemma ncc_mask_zero_ignored (eps : K) (m x x' y y' : vec) :
  same_on_mask m x x' y y' -> ncc_w eps x y m = ncc_w eps x' y' m.
Proof.
  intro H. unfold ncc_w, wcenter, wmean. cbv zeta.
  destruct (som_weighted_sums m x x' y y' 0 0 H) as (M1 & M2 & _).
  rewrite <- M1, <- M2.
  destruct (som_weighted_sums m x x' y y' (vsum (vmul x m) / vsum m) (vsum (vmul y m) / vsum m) H) as (_ & _ & A & B & C).
  rewrite A, B, C. reflexivity.
Qed.

(* a mask of ones is no mask *)
Lemma vmul_ones_gen (x o : vec) : Forall (fun v => v = 1) o -> length o = length x -> vmul x o = x.
Proof.
  unfold vmul. intro H. revert x. induction H as [|v o Hv _ IH]; intros [|a x] HL; cbn in HL; try discriminate; [reflexivity|].
  cbn [vmap2]. rewrite IH by lia. subst v. f_equal. ring.
Qed.

Lemma ones_spec (n : nat) : Forall (fun v : K => v = 1) (repeat 1 n) /\ length (repeat (1 : K) n) = n /\ vsum (repeat (1 : K) n) = of_nat n.
Proof.
  induction n as [|n (A & B & C)]; cbn [repeat length vsum]; [repeat split; constructor|].
  repeat split; [constructor; [reflexivity | exact A] | f_equal; exact B | rewrite C, (of_nat_S K Kf); ring].
Qed.

Lemma ncc_w_ones (eps : K) (s t : vec) : length s = length t ->
  ncc_w eps s t (repeat 1 (length s)) = ncc_one eps s t.
Proof.
  intro HL. destruct (ones_spec (length s)) as (A & B & C). set (o := repeat 1 (length s)) in *.
  unfold ncc_w, ncc_one, wcenter, center, wmean, vmean, dot. cbv zeta. rewrite C.
  rewrite (vmul_ones_gen s o A B), (vmul_ones_gen t o A) by (rewrite B; exact HL).
  rewrite !(vmul_ones_gen _ o A) by (rewrite map_length, B; first [reflexivity | exact HL]).
  rewrite <- HL. reflexivity.
Qed.

(* ---- the same for the windowed correlation ------------------------------------------------------- *)
(* every window is non-empty and lies inside the image *)
Definition nb_ok (n : nat) (nb : nat -> list nat) : Prop :=
  forall i, (i < n)%nat -> of_nat (K:=K) (length (nb i)) <> 0 /\ Forall (fun j => (j < n)%nat) (nb i).

Lemma gather_affine (a b : K) (nbi : list nat) (s : vec) :
  Forall (fun j => (j < length s)%nat) nbi ->
  gather nbi (map (fun v => a * v + b) s) = map (fun v => a * v + b) (gather nbi s).
Proof.
  intro H. unfold gather. rewrite map_map. apply map_ext_in. intros j Hj.
  rewrite Forall_forall in H. specialize (H j Hj).
  rewrite (nth_indep _ 0 (a * 0 + b)) by (rewrite map_length; exact H).
  apply (map_nth (fun v => a * v + b)).
Qed.

Lemma gather_length (nbi : list nat) (d : vec) : length (gather nbi d) = length nbi.
Proof. apply map_length. Qed.

Lemma local_mean_affine (a b : K) nb (s : vec) :
  nb_ok (length s) nb ->
  local_mean nb (map (fun v => a * v + b) s) = map (fun m => a * m + b) (local_mean nb s).
Proof.
  intro Hnb. unfold local_mean, idxs. rewrite map_length, map_map. apply map_ext_in. intros i Hi.
  apply in_seq in Hi. destruct (Hnb i) as [Hn Hr]; [lia|].
  rewrite (gather_affine a b _ s Hr), vsum_affine, gather_length. field. exact Hn.
Qed.

Lemma vsub_affine (a b : K) (s m : vec) :
  vsub (map (fun v => a * v + b) s) (map (fun v => a * v + b) m) = map (fun v => a * v) (vsub s m).
Proof.
  unfold vsub. revert m. induction s as [|x s IH]; intros [|y m]; cbn [map vmap2]; try reflexivity.
  rewrite IH. f_equal. ring.
Qed.

Lemma vmul_scale_l (a : K) (x y : vec) : vmul (map (fun v => a * v) x) y = map (fun v => a * v) (vmul x y).
Proof.
  unfold vmul. revert y. induction x as [|u x IH]; intros [|v y]; cbn [map vmap2]; try reflexivity.
  rewrite IH. f_equal. ring.
Qed.

Lemma vmul_scale_both (a : K) (x : vec) :
  vmul (map (fun v => a * v) x) (map (fun v => a * v) x) = map (fun v => a * a * v) (vmul x x).
Proof.
  unfold vmul. induction x as [|u x IH]; cbn [map vmap2]; [reflexivity|]. rewrite IH. f_equal. ring.
Qed.

Lemma nth_scale (c : K) (d : vec) j : nth j (map (fun v => c * v) d) 0 = c * nth j d 0.
Proof.
  revert j. induction d as [|u d IH]; intros [|j]; cbn [map nth]; try ring. apply IH.
Qed.

Lemma local_sum_scale (c : K) nb (d : vec) :
  local_sum nb (map (fun v => c * v) d) = map (fun v => c * v) (local_sum nb d).
Proof.
  unfold local_sum, idxs. rewrite map_length, map_map. apply map_ext. intro i.
  unfold gather. induction (nb i) as [|j r IH]; cbn [map vsum]; [ring|].
  rewrite IH, nth_scale. ring.
Qed.

Definition denoms_nz (eps : K) (b c : vec) : Prop :=
  Forall (fun p => fst p * snd p + eps <> 0) (combine b c).

Lemma cc_map_scaled (a eps : K) (A B C : vec) :
  a <> 0 -> denoms_nz eps B C ->
  cc_map (a * a * eps) (map (fun v => a * v) A) (map (fun v => a * a * v) B) C = cc_map eps A B C.
Proof.
  intros Ha. unfold cc_map, denoms_nz. revert B C.
  induction A as [|x A IH]; intros [|y B] [|z C] H; cbn [map combine fst snd]; try reflexivity.
  cbn [combine] in H. inversion H as [|p l Hp Hl]; subst. cbn [fst snd] in Hp.
  rewrite <- (IH B C Hl). cbn [map]. f_equal. unfold cc_score. field. split; [exact Hp|].
  intro E. apply (mul_nz K Kf _ _ (mul_nz K Kf _ _ Ha Ha) Hp). rewrite <- E. ring.
Qed.

Lemma lcc_affine (a b eps : K) nb (s t : vec) :
  a <> 0 -> nb_ok (length s) nb ->
  (let x := vsub s (local_mean nb s) in let y := vsub t (local_mean nb t) in
   denoms_nz eps (local_sum nb (vmul x x)) (local_sum nb (vmul y y))) ->
  lcc_none nb (a * a * eps) (map (fun v => a * v + b) s) t = lcc_none nb eps s t.
Proof.
  cbv zeta. intros Ha Hnb Hd. unfold lcc_none. cbv zeta.
  rewrite (local_mean_affine a b nb s Hnb), vsub_affine, vmul_scale_l, vmul_scale_both, !local_sum_scale.
  apply cc_map_scaled; assumption.
Qed.

End Corr.
