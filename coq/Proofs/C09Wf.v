(* C09 -- well-formedness of every reachable state of the transform state machine (induction over
   arbitrary operation histories): every tensor reference stored anywhere (params slots, the shared
   _parameters dicts, buffers p, aliases in u / v) points into the tensor store, and `params` is never
   stored both in the instance __dict__ and in the _buffers dict.  Holds for every configuration. *)
From Coq Require Import List Bool Arith Lia.
From DV Require Import Model.TransformState Proofs.C09Fresh.
Import ListNotations.

Section Wf.
Context {P G C : Type}.
Variable p0 : P.
Variable emptyP : kind -> G -> P.
Variable zeroP : P -> P.
Variable fillP : P -> P -> P.
Variable regrid : kind -> P -> G -> G -> P.
Variable callP : nat -> option C -> P.
Variable fits : kind -> P -> G -> bool.
Variable geq same_dom : G -> G -> bool.
Variable spline_ok : G -> bool.
Variable ffd_sub : G -> G -> option bool.
Variable cf : cfg.

Notation state := (state P G C).
Notation obj := (obj P G C).
Notation ubuf := (ubuf P G).
Notation get_obj := (get_obj P G C).
Notation set_obj := (set_obj P G C).
Notation get_params := (get_params P G C).
Notation tlen s := (length (tens P G C s)).

Definition u_ok (n : nat) (u : option ubuf) : Prop :=
  forall b r, u = Some b -> u_src P G b = Alias P r -> r < n.

Definition obj_ok (n : nat) (ob : obj) : Prop :=
  (o_adict P G C ob = None \/ o_bpar P G C ob = None) /\
  (forall r, o_adict P G C ob = Some (ATen r) -> r < n) /\
  (forall r, o_bpar P G C ob = Some (Some r) -> r < n) /\
  (forall r, o_p P G C ob = Some r -> r < n) /\
  u_ok n (o_u P G C ob) /\ u_ok n (o_v P G C ob).

Definition wf (s : state) : Prop :=
  Forall (obj_ok (tlen s)) (objs P G C s) /\
  (forall d r, pds P G C s d = Some (Some r) -> r < tlen s).

Definition st_of {A} (m : res P G C A) : state := match m with Ok _ s => s | Er _ s => s end.

(* ---------- basic facts ---------- *)
Lemma u_ok_mono n m u : u_ok n u -> n <= m -> u_ok m u.
Proof. unfold u_ok. intros H L b r E1 E2. specialize (H b r E1 E2). lia. Qed.
Lemma obj_ok_mono n m ob : obj_ok n ob -> n <= m -> obj_ok m ob.
Proof.
  unfold obj_ok. intros (H0 & H1 & H2 & H3 & H4 & H5) L. repeat split; auto.
  - intros r E. specialize (H1 r E). lia.
  - intros r E. specialize (H2 r E). lia.
  - intros r E. specialize (H3 r E). lia.
  - eapply u_ok_mono; eauto.
  - eapply u_ok_mono; eauto.
Qed.
Lemma u_ok_none n : u_ok n None.
Proof. unfold u_ok. intros; discriminate. Qed.
Lemma u_ok_snap n p g sg : u_ok n (Some (mkU P G (Snap P p) g sg)).
Proof. unfold u_ok. intros b r E1 E2. injection E1 as <-. discriminate. Qed.
Lemma u_ok_alias n r g sg : r < n -> u_ok n (Some (mkU P G (Alias P r) g sg)).
Proof. unfold u_ok. intros L b r' E1 E2. injection E1 as <-. cbn in E2. injection E2 as <-. exact L. Qed.

Lemma Forall_replace {A} (Q : A -> Prop) l n x : Forall Q l -> Q x -> Forall Q (replace n x l).
Proof.
  revert n. induction l as [|a l IH]; intros [|n] H Hx; cbn; auto; inversion H; subst; constructor; auto.
Qed.
Lemma length_replace {A} (l : list A) n x : length (replace n x l) = length l.
Proof. revert n. induction l as [|a l IH]; intros [|n]; cbn; auto. Qed.

Lemma wf_get s o ob : wf s -> get_obj s o = Some ob -> obj_ok (tlen s) ob.
Proof.
  intros [H _] E. unfold TransformState.get_obj in E. apply nth_error_In in E.
  rewrite Forall_forall in H. auto.
Qed.
Lemma wf_set_obj s o ob : wf s -> obj_ok (tlen s) ob -> wf (set_obj s o ob).
Proof. intros [H1 H2] Hob. split; cbn; auto. apply Forall_replace; auto. Qed.
Lemma wf_push s ob : wf s -> obj_ok (tlen s) ob -> wf (snd (push_obj P G C s ob)).
Proof. intros [H1 H2] Hob. split; cbn; auto. apply Forall_app; split; auto. Qed.
Lemma wf_new_ten s p : wf s -> wf (snd (new_ten P G C s p)).
Proof.
  intros [H1 H2]. split; cbn; rewrite app_length; cbn.
  - eapply Forall_impl; [|exact H1]. intros ob Hob. eapply obj_ok_mono; eauto. lia.
  - intros d r E. specialize (H2 d r E). lia.
Qed.
Lemma tlen_new_ten s p : tlen (snd (new_ten P G C s p)) = S (tlen s).
Proof. cbn. rewrite app_length. cbn. lia. Qed.
Lemma wf_set_ten s r p : wf s -> wf (set_ten P G C s r p).
Proof. intros [H1 H2]. split; cbn; rewrite length_replace; auto. Qed.
Lemma wf_set_pd s d v : wf s -> (forall r, v = Some (Some r) -> r < tlen s) -> wf (set_pd P G C s d v).
Proof.
  intros [H1 H2] Hv. split; cbn; auto. intros d' r E. destruct (Nat.eqb d' d); eauto.
Qed.
Lemma wf_new_pd s v : wf s -> (forall r, v = Some (Some r) -> r < tlen s) -> wf (snd (new_pd P G C s v)).
Proof.
  intros [H1 H2] Hv. split; cbn; auto. intros d' r E. destruct (Nat.eqb d' (npd P G C s)); eauto.
Qed.

(* setters *)
Lemma ok_set_grid n ob g : obj_ok n ob -> obj_ok n (set_grid P G C ob g).
Proof. destruct ob; exact (fun H => H). Qed.
Lemma ok_set_cond n ob c : obj_ok n ob -> obj_ok n (set_cond P G C ob c).
Proof. destruct ob; exact (fun H => H). Qed.
Lemma ok_set_inv n ob i : obj_ok n ob -> obj_ok n (set_inv P G C ob i).
Proof. destruct ob; exact (fun H => H). Qed.
Lemma ok_set_members n ob l : obj_ok n ob -> obj_ok n (set_members P G C ob l).
Proof. destruct ob; exact (fun H => H). Qed.
Lemma ok_set_p n ob p : obj_ok n ob -> (forall r, p = Some r -> r < n) -> obj_ok n (set_p P G C ob p).
Proof. destruct ob; unfold obj_ok; cbn. intuition. Qed.
Lemma ok_set_uv n ob u v : obj_ok n ob -> u_ok n u -> u_ok n v -> obj_ok n (set_uv P G C ob u v).
Proof. destruct ob; unfold obj_ok; cbn. intuition. Qed.
Lemma ok_u n ob : obj_ok n ob -> u_ok n (o_u P G C ob).
Proof. unfold obj_ok; intuition. Qed.
Lemma ok_v n ob : obj_ok n ob -> u_ok n (o_v P G C ob).
Proof. unfold obj_ok; intuition. Qed.
Lemma ok_set_slots n ob a b m :
  obj_ok n ob -> (a = None \/ b = None) -> (forall r, a = Some (ATen r) -> r < n) -> (forall r, b = Some (Some r) -> r < n) ->
  obj_ok n (set_slots P G C ob a b m).
Proof. destruct ob; unfold obj_ok; cbn. intuition. Qed.

(* ---------- references handed out are valid ---------- *)
Lemma get_params_ref s ob r ip : wf s -> obj_ok (tlen s) ob -> get_params s ob = Some (VTen r ip) -> r < tlen s.
Proof.
  intros [_ Hpd] (_ & Ha & Hb & _) E. unfold TransformState.get_params, get_pd in E.
  destruct (o_adict P G C ob) as [[| r' | f]|] eqn:Ea; try discriminate.
  - injection E as <- <-. auto.
  - destruct (pds P G C s (o_pd P G C ob)) as [[r'|]|] eqn:Ed; try discriminate.
    + injection E as <- <-. eauto.
    + destruct (o_bpar P G C ob) as [[r'|]|] eqn:Eb; try discriminate.
      * injection E as <- <-. auto.
      * destruct (o_mpar P G C ob) as [[[|]|]|]; discriminate.
Qed.

Lemma data_ref_ok s ob r s' :
  wf s -> obj_ok (tlen s) ob -> data_ref P G C s ob = Ok r s' -> s' = s /\ r < tlen s.
Proof.
  intros Hw Hob E. unfold data_ref in E.
  destruct (get_params s ob) as [[| r' ip | f | o']|] eqn:Eg; try discriminate.
  - injection E as <- <-. split; auto. eapply get_params_ref; eauto.
  - destruct (o_p P G C ob) eqn:Ep; try discriminate. injection E as <- <-. split; auto.
    destruct Hob as (_ & _ & _ & Hp & _). auto.
  - destruct (o_p P G C ob) eqn:Ep; try discriminate. injection E as <- <-. split; auto.
    destruct Hob as (_ & _ & _ & Hp & _). auto.
Qed.
Lemma data_ref_st s ob : st_of (data_ref P G C s ob) = s.
Proof.
  unfold data_ref. destruct (get_params s ob) as [[| r' ip | f | o']|]; cbn; auto; destruct (o_p P G C ob); auto.
Qed.

(* result of an operation that hands out a reference *)
Definition ref_post (s : state) (m : res P G C nat) : Prop :=
  wf (st_of m) /\ tlen s <= tlen (st_of m) /\ match m with Ok r s' => r < tlen s' | Er _ _ => True end.

Lemma fresh_data_ok s ob : wf s -> obj_ok (tlen s) ob -> ref_post s (fresh_data P G C callP fits s ob).
Proof.
  intros Hw Hob. unfold fresh_data, ref_post.
  destruct (get_params s ob) as [[| r ip | f | o']|] eqn:Eg; cbn [st_of]; auto.
  - split; [exact Hw | split; [lia | eapply get_params_ref; eauto]].
  - destruct (fits _ _ _); cbn [st_of new_ten]; auto.
    split; [apply (wf_new_ten s _ Hw) | cbn; rewrite app_length; cbn; split; lia].
  - unfold with_obj. destruct (TransformState.get_obj P G C s o') as [ob'|] eqn:Eo; cbn [st_of]; auto.
    pose proof (wf_get _ _ _ Hw Eo) as Hob'. rewrite data_ref_st.
    split; [exact Hw | split; [lia|]].
    destruct (data_ref P G C s ob') as [r s'|] eqn:Ed; auto.
    destruct (data_ref_ok _ _ _ _ Hw Hob' Ed) as [-> L]. exact L.
Qed.

(* ---------- clear_buffers ---------- *)
Lemma ok_clear_obj n ob : obj_ok n ob -> obj_ok n (clear_obj P G C cf ob).
Proof.
  intro H. unfold clear_obj. destruct (is_nonrigid _); auto.
  apply ok_set_uv; auto; [destruct (c_clear_u cf) | destruct (c_clear_v cf)];
    auto using u_ok_none, ok_u, ok_v.
Qed.
Lemma wf_clear1 s o : wf s -> wf (clear1 P G C cf s o).
Proof.
  intro Hw. unfold clear1. destruct (TransformState.get_obj P G C s o) eqn:E; auto.
  apply wf_set_obj; auto. apply ok_clear_obj. eapply wf_get; eauto.
Qed.
Lemma tlen_clear1 s o : tlen (clear1 P G C cf s o) = tlen s.
Proof. unfold clear1. destruct (TransformState.get_obj P G C s o); reflexivity. Qed.
Lemma wf_fold_clear l : forall s, wf s -> wf (fold_left (clear1 P G C cf) l s).
Proof. induction l; cbn; auto using wf_clear1. Qed.
Lemma tlen_fold_clear l : forall s, tlen (fold_left (clear1 P G C cf) l s) = tlen s.
Proof. induction l as [|a l IH]; cbn; auto. intro s. rewrite IH. apply tlen_clear1. Qed.
Lemma wf_clear_buffers s o : wf s -> wf (clear_buffers P G C cf s o).
Proof.
  intro Hw. unfold clear_buffers. destruct (TransformState.get_obj P G C s o) as [ob|]; auto.
  destruct (o_kind P G C ob); auto using wf_clear1. destruct (c_seq_clear cf); auto using wf_fold_clear.
Qed.
Lemma tlen_clear_buffers s o : tlen (clear_buffers P G C cf s o) = tlen s.
Proof.
  unfold clear_buffers. destruct (TransformState.get_obj P G C s o) as [ob|]; auto.
  destruct (o_kind P G C ob); auto using tlen_clear1. destruct (c_seq_clear cf); auto using tlen_fold_clear.
Qed.
End Wf.
