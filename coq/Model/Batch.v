(* C19 -- provenance semantics of the torch operation family and a faithful model of the
   grid bookkeeping in deepali/data/image.py, data/flow.py, data/tensor.py, data/collate.py.

   Definitions only (no proofs).  Everything is executable: the correspondence check runs these
   functions with vm_compute against the implementation.

   Values are abstract tensors: a shape and, for typed values, the grid ids they carry.  The data
   itself is represented by its *provenance*: for every entry along dimension 0 of a result, the
   list of (operand index, dim-0 entry of that operand) pairs whose data it is computed from. *)
From Coq Require Import List ZArith Bool Arith Lia.
From DV Require Import Model.Enums.
Import ListNotations.

Definition gid := nat.
Definition shape := list nat.
Definition src := (nat * nat)%type.          (* operand index, dim-0 entry of that operand *)

Inductive tkind :=
| TPlain
| TBatch (fl : option axes) (gs : list gid)   (* ImageBatch (None) / FlowFields (Some axes) *)
| TSingle (fl : option axes) (g : gid).       (* Image (None) / FlowField (Some axes) *)

Record tval := mkT { t_shape : shape; t_kind : tkind }.

Inductive errk := EValue | EType | EIndex | EAssert | EAttr | ERuntime.

(* result of the tensor-level operation on plain data: shapes and provenance *)
Record dout := mkD { d_shape : shape; d_src : list (list src) }.
Inductive dres := DErr (e : errk) | DOne (o : dout) | DTuple (os : list dout).

(* result of an operation as the user sees it *)
Record oval := mkO { v_shape : shape; v_kind : tkind; v_src : list (list src) }.
Inductive ores := OErr (e : errk) | OOne (o : oval) | OTuple (os : list oval).

(* ---------------------------------------------------------------------------------------------- *)
(* small helpers                                                                                  *)
(* ---------------------------------------------------------------------------------------------- *)
Definition ndim (s : shape) := length s.
Definition nent (s : shape) : nat := match s with [] => 0 | n :: _ => n end.
Definition prod (s : shape) := fold_right Nat.mul 1 s.
Definition sum (s : list nat) := fold_right Nat.add 0 s.
Definition shape_eqb (a b : shape) : bool := if list_eq_dec Nat.eq_dec a b then true else false.
Definition opt_axes_eqb (a b : option axes) : bool :=
  match a, b with
  | None, None => true
  | Some x, Some y => axes_eqb x y
  | _, _ => false
  end.
Definition set_nth {A} (l : list A) (k : nat) (x : A) : list A := firstn k l ++ x :: skipn (S k) l.
Definition del_nth {A} (l : list A) (k : nat) : list A := firstn k l ++ skipn (S k) l.
Definition ins_nth {A} (l : list A) (k : nat) (x : A) : list A := firstn k l ++ x :: skipn k l.

Definition norm_dim (n : nat) (z : Z) : option nat :=
  if ((0 <=? z) && (z <? Z.of_nat n))%Z then Some (Z.to_nat z)
  else if ((- Z.of_nat n <=? z) && (z <? 0))%Z then Some (Z.to_nat (z + Z.of_nat n))
  else None.

Fixpoint norm_dims (n : nat) (zs : list Z) : option (list nat) :=
  match zs with
  | [] => Some []
  | z :: r => match norm_dim n z, norm_dims n r with
              | Some d, Some ds => Some (d :: ds)
              | _, _ => None
              end
  end.

Definition mem (x : nat) (l : list nat) : bool := existsb (Nat.eqb x) l.

Definition ident_src (j n : nat) : list (list src) := map (fun i => [(j, i)]) (seq 0 n).
Definition all_src (j n : nat) : list src := map (fun e => (j, e)) (seq 0 n).
Definition const_src (s : list src) (n : nat) : list (list src) := repeat s n.

(* Python slice semantics (step > 0) on a sequence of length n: the selected positions *)
Definition clampZ (n : nat) (dflt : Z) (o : option Z) : Z :=
  match o with
  | None => dflt
  | Some z => let z' := if (z <? 0)%Z then (z + Z.of_nat n)%Z else z in
              Z.max 0 (Z.min (Z.of_nat n) z')
  end.
Definition slice_sel (n : nat) (a b c : option Z) : option (list nat) :=
  let st := match c with None => 1%Z | Some z => z end in
  if (st <=? 0)%Z then None
  else
    let lo := clampZ n 0%Z a in
    let hi := clampZ n (Z.of_nat n) b in
    Some (filter (fun i => let z := Z.of_nat i in
                           ((lo <=? z) && (z <? hi) && (((z - lo) mod st) =? 0))%Z) (seq 0 n)).
Definition is_full_slice (n : nat) (a b c : option Z) : bool :=
  (match a with None => true | Some z => (z =? 0)%Z end) &&
  (match b with None => true | Some z => (z =? Z.of_nat n)%Z end) &&
  (match c with None => true | Some z => (z =? 1)%Z end).

Definition norm_idx (n : nat) (z : Z) : option nat := norm_dim n z.
Definition norm_idxs (n : nat) (zs : list Z) : option (list nat) := norm_dims n zs.

Fixpoint true_pos (i : nat) (l : list bool) : list nat :=
  match l with
  | [] => []
  | b :: r => if b then i :: true_pos (S i) r else true_pos (S i) r
  end.

(* ---------------------------------------------------------------------------------------------- *)
(* the operation family                                                                           *)
(* ---------------------------------------------------------------------------------------------- *)
Inductive dimarg := DNone | DPos (z : Z) | DKw (z : Z).
Definition dim_value (d : dimarg) : Z := match d with DNone => 0%Z | DPos z | DKw z => z end.
(* what the dispatcher sees in kwargs.get("dim", 0) *)
Definition dim_kw (d : dimarg) : Z := match d with DKw z => z | _ => 0%Z end.

Inductive index := IInt (z : Z) | ISlice (a b c : option Z) | IList (l : list Z) | IBools (l : list bool) | IEll.
Inductive gform := GOne (i : index) | GTup (l : list index).

Inductive copykind := CCopy | CDeep | CPickle.
Inductive buildkind := BFromImages | BCollate.

Inductive op :=
(* through __torch_function__ *)
| OUnary (clone : bool)                       (* elementwise with scalars, casts, clone, contiguous, detach, in-place *)
| OBinary                                     (* elementwise, two tensor operands (broadcast) *)
| OReduce (dims : list Z) (keep : bool)
| OReduceAll
| OScan (dim : Z)                             (* cumsum *)
| ONarrow (dim : Z) (start len : nat)         (* torch.narrow(x, ...) *)
| OSelect (dim : Z) (idx : Z)
| OIndexSelect (dim : Z) (idx : list nat)
| OCat (d : dimarg)                           (* torch.cat(operands, ...) *)
| OStack (d : dimarg)
| OSplit (size : nat) (d : dimarg)            (* torch.split / Tensor.split, int *)
| OSplitL (sizes : list nat) (d : dimarg)     (* torch.split, list *)
| OSplitSizes (sizes : list nat) (d : dimarg)
| OTSplitN (n : nat) (d : dimarg)
| OTSplitI (idx : list nat) (d : dimarg)
| OChunk (n : nat) (d : dimarg)
| OUnbind (d : dimarg)
| OFlip (dims : list Z)
| ORoll (shift : Z) (dim : Z)
| OPermute (perm : list nat)
| OExpand (sizes : list Z)
| ORepeat (reps : list nat)
| OReshape (newshape : list nat)
| OSpatial (c : nat) (sp : list nat)          (* interpolate / pooling / padding / conv: per item, to N :: c :: sp *)
| OGridSample (sp : list nat)
(* handled explicitly by the classes *)
| OGetItem (f : gform)
| OIterBuild (how : buildkind) (sel : list nat)   (* cls.from_images / collate_samples of [list(cur)[k] for k in sel] *)
| OIterPick (k : nat)                              (* list(cur)[k] *)
| ONarrowM (dim : Z) (start : Z) (len : nat)       (* ImageBatch.narrow method (batch and channel dimension); start may be negative *)
| OCopy (c : copykind)
| OAppend                                          (* cur.append(other) *)
| OToBatch                                         (* Image.batch() *)
| OAsFlows.                                        (* FlowFields(cur): the constructor applied to a batch *)

Inductive fclass := FCat | FSplit | FSplitSizes | FTensorSplit | FClone | FGridSample | FGetItem | FOther.
Definition class_of (o : op) : fclass :=
  match o with
  | OUnary true => FClone
  | OCat _ => FCat
  | OSplit _ _ | OSplitL _ _ => FSplit
  | OSplitSizes _ _ => FSplitSizes
  | OTSplitN _ _ | OTSplitI _ _ => FTensorSplit
  | OGridSample _ => FGridSample
  | _ => FOther
  end.

(* ---------------------------------------------------------------------------------------------- *)
(* data-level semantics (torch on plain tensors): shapes and provenance                           *)
(* ---------------------------------------------------------------------------------------------- *)
Definition nth_shape (shs : list shape) (j : nat) : shape := nth j shs [].
(* torch.Tensor.narrow: start in [-size, size], counted from the end when negative *)
Definition norm_start (size : nat) (st : Z) : option nat :=
  if ((- Z.of_nat size <=? st) && (st <=? Z.of_nat size))%Z
  then Some (Z.to_nat (if (st <? 0)%Z then (st + Z.of_nat size)%Z else st)) else None.

(* broadcasting of two shapes, aligned at the right *)
Fixpoint bcast_rev (a b : list nat) : option (list nat) :=
  match a, b with
  | [], r | r, [] => Some r
  | x :: a', y :: b' =>
      match bcast_rev a' b' with
      | None => None
      | Some r => if x =? y then Some (x :: r) else if x =? 1 then Some (y :: r) else if y =? 1 then Some (x :: r) else None
      end
  end.
Definition bcast (a b : shape) : option shape := option_map (@rev nat) (bcast_rev (rev a) (rev b)).

Definition bin_src (j : nat) (sj res : shape) : nat -> list src :=
  fun i => if ndim sj =? ndim res then [(j, if nent sj =? 1 then 0 else i)] else all_src j (nent sj).

Definition pieces (s : shape) (nd : nat) (offs : list (nat * nat)) : list dout :=
  map (fun os => let '(off, size) := os in
                 mkD (set_nth s nd size)
                     (if nd =? 0 then map (fun i => [(0, off + i)]) (seq 0 size) else ident_src 0 (nent s))) offs.

Fixpoint offsets (off : nat) (sizes : list nat) : list (nat * nat) :=
  match sizes with
  | [] => []
  | s :: r => (off, s) :: offsets (off + s) r
  end.

Definition int_sizes (n size : nat) : list nat :=
  repeat size (n / size) ++ (if n mod size =? 0 then [] else [n mod size]).
Definition tsplit_sizes (n k : nat) : list nat :=
  repeat (S (n / k)) (n mod k) ++ repeat (n / k) (k - n mod k).
Fixpoint tsplit_bounds (n : nat) (lo : nat) (idx : list nat) : list (nat * nat) :=
  match idx with
  | [] => [(Nat.min lo n, n - Nat.min lo n)]
  | hi :: r => (Nat.min lo n, Nat.min hi n - Nat.min lo n) :: tsplit_bounds n hi r
  end.

Definition is_perm (n : nat) (p : list nat) : bool :=
  (length p =? n) && forallb (fun k => mem k p) (seq 0 n).

Fixpoint zip_expand (s : list nat) (z : list Z) : option (list nat) :=
  (* s, z of equal length (aligned) *)
  match s, z with
  | [], [] => Some []
  | x :: s', t :: z' =>
      match zip_expand s' z' with
      | None => None
      | Some r => if (t =? -1)%Z then Some (x :: r)
                  else if (t <? 0)%Z then None
                  else if (Z.of_nat x =? t)%Z then Some (x :: r)
                  else if x =? 1 then Some (Z.to_nat t :: r) else None
      end
  | _, _ => None
  end.

Fixpoint zip_mul (a b : list nat) : list nat :=
  match a, b with
  | x :: a', y :: b' => x * y :: zip_mul a' b'
  | _, _ => []
  end.

(* torch indexing with ints / slices and at most one list or mask, in first position *)
Fixpoint index_rest (s : shape) (ix : list index) : option shape :=
  match ix with
  | [] => Some s
  | i :: r =>
      match s with
      | [] => None
      | n :: s' =>
          match i with
          | IInt z => match norm_idx n z with None => None | Some _ => index_rest s' r end
          | ISlice a b c => match slice_sel n a b c, index_rest s' r with
                            | Some l, Some t => Some (length l :: t)
                            | _, _ => None
                            end
          | _ => None
          end
      end
  end.

Inductive sel0 := SInt (e : nat) | SList (l : list nat).
Definition index_first (n : nat) (i : index) : option sel0 :=
  match i with
  | IInt z => option_map SInt (norm_idx n z)
  | ISlice a b c => option_map SList (slice_sel n a b c)
  | IList l => option_map SList (norm_idxs n l)
  | IBools l => if length l =? n then Some (SList (true_pos 0 l)) else None
  | IEll => None
  end.

Definition index_data (s : shape) (ix : list index) : dres :=
  match ix with
  | [] => DOne (mkD s (ident_src 0 (nent s)))
  | i :: r =>
      match s with
      | [] => DErr EIndex
      | n :: s' =>
          match index_first n i, index_rest s' r with
          | Some (SInt e), Some t => DOne (mkD t (const_src [(0, e)] (nent t)))
          | Some (SList l), Some t => DOne (mkD (length l :: t) (map (fun e => [(0, e)]) l))
          | _, _ => DErr EIndex
          end
      end
  end.

Definition eff_dim (o : op) : Z :=
  match o with
  | OCat d | OStack d | OSplit _ d | OSplitL _ d | OSplitSizes _ d | OTSplitN _ d | OTSplitI _ d | OChunk _ d | OUnbind d => dim_value d
  | _ => 0%Z
  end.

Definition same_except (nd : nat) (a b : shape) : bool :=
  (ndim a =? ndim b) && shape_eqb (del_nth a nd) (del_nth b nd).

Definition reshape_src (n0 total n' : nat) : list (list src) :=
  if n' =? n0 then ident_src 0 n0
  else
    let p := total / n0 in let p' := total / n' in
    map (fun i => map (fun e => (0, e))
                   (filter (fun e => (e * p <? (i + 1) * p') && (i * p' <? (e + 1) * p)) (seq 0 n0)))
        (seq 0 n').

Definition data_sem (o : op) (shs : list shape) : dres :=
  let s := nth_shape shs 0 in
  let n0 := nent s in
  let nd_of z := norm_dim (ndim s) z in
  let split_by (z : Z) (mk : nat -> option (list (nat * nat))) : dres :=
      match nd_of z with
      | None => DErr EIndex
      | Some nd => match mk (nth nd s 0) with
                   | None => DErr ERuntime
                   | Some offs => DTuple (pieces s nd offs)
                   end
      end in
  match o with
  | OUnary _ | OCopy _ | OAsFlows => DOne (mkD s (ident_src 0 n0))
  | OBinary =>
      let s1 := nth_shape shs 1 in
      match bcast s s1 with
      | None => DErr ERuntime
      | Some r => DOne (mkD r (map (fun i => bin_src 0 s r i ++ bin_src 1 s1 r i) (seq 0 (nent r))))
      end
  | OReduce dims keep =>
      match norm_dims (ndim s) dims with
      | None => DErr EIndex
      | Some ds =>
          let idx := seq 0 (ndim s) in
          let s' := if keep then map (fun k => if mem k ds then 1 else nth k s 0) idx
                    else map (fun k => nth k s 0) (filter (fun k => negb (mem k ds)) idx) in
          DOne (mkD s' (if mem 0 ds then const_src (all_src 0 n0) (nent s') else ident_src 0 n0))
      end
  | OReduceAll => DOne (mkD [] [])
  | OScan z =>
      match nd_of z with
      | None => DErr EIndex
      | Some nd => DOne (mkD s (if nd =? 0 then map (fun i => all_src 0 (S i)) (seq 0 n0) else ident_src 0 n0))
      end
  | ONarrow z st len =>
      match nd_of z with
      | None => DErr EIndex
      | Some nd => if st + len <=? nth nd s 0
                   then DOne (mkD (set_nth s nd len)
                                  (if nd =? 0 then map (fun i => [(0, st + i)]) (seq 0 len) else ident_src 0 n0))
                   else DErr ERuntime
      end
  | ONarrowM z stz len =>
      match nd_of z with
      | None => DErr EIndex
      | Some nd => match norm_start (nth nd s 0) stz with
                   | None => DErr EIndex
                   | Some st => if st + len <=? nth nd s 0
                                then DOne (mkD (set_nth s nd len)
                                               (if nd =? 0 then map (fun i => [(0, st + i)]) (seq 0 len) else ident_src 0 n0))
                                else DErr ERuntime
                   end
      end
  | OSelect z i =>
      match nd_of z with
      | None => DErr EIndex
      | Some nd => match norm_idx (nth nd s 0) i with
                   | None => DErr EIndex
                   | Some e => let s' := del_nth s nd in
                               DOne (mkD s' (if nd =? 0 then const_src [(0, e)] (nent s') else ident_src 0 n0))
                   end
      end
  | OIndexSelect z idx =>
      match nd_of z with
      | None => DErr EIndex
      | Some nd => if forallb (fun e => e <? nth nd s 0) idx
                   then DOne (mkD (set_nth s nd (length idx))
                                  (if nd =? 0 then map (fun e => [(0, e)]) idx else ident_src 0 n0))
                   else DErr EIndex
      end
  | OCat d =>
      match nd_of (dim_value d) with
      | None => DErr EIndex
      | Some nd =>
          if forallb (same_except nd s) shs
          then let k := length shs in
               DOne (mkD (set_nth s nd (sum (map (fun t => nth nd t 0) shs)))
                         (if nd =? 0 then concat (map (fun j => ident_src j (nent (nth_shape shs j))) (seq 0 k))
                          else map (fun i => map (fun j => (j, i)) (seq 0 k)) (seq 0 n0)))
          else DErr ERuntime
      end
  | OStack d =>
      match norm_dim (S (ndim s)) (dim_value d) with
      | None => DErr EIndex
      | Some nd =>
          if forallb (shape_eqb s) shs
          then let k := length shs in
               DOne (mkD (ins_nth s nd k)
                         (if nd =? 0 then map (fun j => all_src j n0) (seq 0 k)
                          else map (fun i => map (fun j => (j, i)) (seq 0 k)) (seq 0 n0)))
          else DErr ERuntime
      end
  | OSplit size d =>
      split_by (dim_value d) (fun n => if size =? 0 then None else Some (offsets 0 (if n =? 0 then [0] else int_sizes n size)))
  | OSplitL sizes d | OSplitSizes sizes d =>
      split_by (dim_value d) (fun n => if sum sizes =? n then Some (offsets 0 sizes) else None)
  | OTSplitN k d =>
      split_by (dim_value d) (fun n => if k =? 0 then None else Some (offsets 0 (tsplit_sizes n k)))
  | OTSplitI idx d =>
      split_by (dim_value d) (fun n => Some (tsplit_bounds n 0 idx))
  | OChunk k d =>
      split_by (dim_value d) (fun n => if k =? 0 then None
                                       else let size := (n + k - 1) / k in
                                            Some (offsets 0 (if size =? 0 then repeat 0 k else int_sizes n size)))
  | OUnbind d =>
      match nd_of (dim_value d) with
      | None => DErr EIndex
      | Some nd => let s' := del_nth s nd in
                   DTuple (map (fun e => mkD s' (if nd =? 0 then const_src [(0, e)] (nent s') else ident_src 0 n0))
                               (seq 0 (nth nd s 0)))
      end
  | OFlip dims =>
      match norm_dims (ndim s) dims with
      | None => DErr EIndex
      | Some ds => DOne (mkD s (if mem 0 ds then map (fun i => [(0, n0 - 1 - i)]) (seq 0 n0) else ident_src 0 n0))
      end
  | ORoll sh z =>
      match nd_of z with
      | None => DErr EIndex
      | Some nd => DOne (mkD s (if nd =? 0
                                then map (fun i => [(0, Z.to_nat ((Z.of_nat i - sh) mod Z.of_nat n0))]) (seq 0 n0)
                                else ident_src 0 n0))
      end
  | OPermute p =>
      if is_perm (ndim s) p
      then let s' := map (fun k => nth k s 0) p in
           DOne (mkD s' (if hd 0 p =? 0 then ident_src 0 n0 else const_src (all_src 0 n0) (nent s')))
      else DErr ERuntime
  | OExpand sizes =>
      let extra := length sizes - ndim s in
      if length sizes <? ndim s then DErr ERuntime
      else if existsb (fun t => (t <? 0)%Z) (firstn extra sizes) then DErr ERuntime
      else match zip_expand s (skipn extra sizes) with
           | None => DErr ERuntime
           | Some r => let s' := map Z.to_nat (firstn extra sizes) ++ r in
                       DOne (mkD s' (if extra =? 0 then map (fun i => [(0, if n0 =? 1 then 0 else i)]) (seq 0 (nent s'))
                                     else const_src (all_src 0 n0) (nent s')))
           end
  | ORepeat reps =>
      let extra := length reps - ndim s in
      if length reps <? ndim s then DErr ERuntime
      else let s' := zip_mul (repeat 1 extra ++ s) reps in
           DOne (mkD s' (if extra =? 0 then map (fun i => [(0, i mod n0)]) (seq 0 (nent s'))
                         else const_src (all_src 0 n0) (nent s')))
  | OReshape ns =>
      if prod ns =? prod s
      then DOne (mkD ns (match ns, s with
                         | _ :: _, _ :: _ => reshape_src n0 (prod s) (nent ns)
                         | _, _ => const_src (all_src 0 n0) (nent ns)
                         end))
      else DErr ERuntime
  | OSpatial c sp =>
      if 3 <=? ndim s then DOne (mkD (n0 :: c :: sp) (ident_src 0 n0)) else DErr ERuntime
  | OGridSample sp =>
      if 4 <=? ndim s then DOne (mkD (n0 :: nth 1 s 0 :: sp) (ident_src 0 n0)) else DErr ERuntime
  | OGetItem (GOne i) => index_data s [i]
  | OGetItem (GTup l) => index_data s l
  | OIterBuild _ sel =>
      if forallb (fun e => e <? n0) sel
      then DOne (mkD (length sel :: tl s) (map (fun e => [(0, e)]) sel))
      else DErr EIndex
  | OIterPick k =>
      if k <? n0 then DOne (mkD (tl s) (const_src [(0, k)] (nent (tl s)))) else DErr EIndex
  | OAppend =>
      let s1 := nth_shape shs 1 in
      if same_except 0 s s1
      then DOne (mkD (n0 + nent s1 :: tl s) (ident_src 0 n0 ++ ident_src 1 (nent s1)))
      else DErr ERuntime
  | OToBatch => DOne (mkD (1 :: s) [all_src 0 n0])
  end.

(* ---------------------------------------------------------------------------------------------- *)
(* the grid bookkeeping of data/image.py and data/flow.py                                         *)
(* ---------------------------------------------------------------------------------------------- *)
Section Dispatch.
Variable gshape : gid -> shape.     (* Grid.shape, in tensor order *)
Variable gaxes : gid -> axes.       (* Axes.from_grid(grid) *)

Definition is_batch (k : tkind) := match k with TBatch _ _ => true | _ => false end.
Definition is_single (k : tkind) := match k with TSingle _ _ => true | _ => false end.
Definition is_flow (k : tkind) := match k with TBatch (Some _) _ | TSingle (Some _) _ => true | _ => false end.
Definition kind_axes (k : tkind) : option axes := match k with TBatch fl _ | TSingle fl _ => fl | TPlain => None end.
Definition batch_grids (k : tkind) : option (list gid) := match k with TBatch _ gs => Some gs | _ => None end.

(* Image.batch(): what ImageBatch.__torch_function__ does to every top-level Image argument *)
Definition to_batch (v : tval) : tval :=
  match t_kind v with
  | TSingle fl g => mkT (1 :: t_shape v) (TBatch fl [g])
  | _ => v
  end.

(* which class' __torch_function__ runs: first overloaded argument type, subclasses before their bases *)
Inductive disp := DImageBatch | DFlowFields | DImage | DFlowField | DNoDisp.
Definition disp_of (k : tkind) : disp :=
  match k with
  | TPlain => DNoDisp
  | TBatch None _ => DImageBatch | TBatch (Some _) _ => DFlowFields
  | TSingle None _ => DImage | TSingle (Some _) _ => DFlowField
  end.
Definition is_sub (a b : disp) : bool :=   (* a strict subclass of b *)
  match a, b with DFlowFields, DImageBatch | DFlowField, DImage => true | _, _ => false end.
Fixpoint insert_disp (d : disp) (l : list disp) : list disp :=
  match l with
  | [] => [d]
  | x :: r => if is_sub d x then d :: l else x :: insert_disp d r
  end.
Definition disp_eqb (a b : disp) : bool :=
  match a, b with
  | DImageBatch, DImageBatch | DFlowFields, DFlowFields | DImage, DImage | DFlowField, DFlowField | DNoDisp, DNoDisp => true
  | _, _ => false
  end.
Definition choose_disp (ks : list tkind) : disp :=
  let ds := fold_left (fun acc k => let d := disp_of k in
                                    match d with
                                    | DNoDisp => acc
                                    | _ => if existsb (disp_eqb d) acc then acc else insert_disp d acc
                                    end) ks [] in
  hd DNoDisp ds.

(* ImageBatch._torch_function_grid *)
Inductive gres := GNone | GFlat (gs : list gid) | GNested (gss : list (list gid)).

Fixpoint chunks {A} (fuel : nat) (size : nat) (l : list A) : list (list A) :=
  match fuel with
  | 0 => []
  | S f => match l with
           | [] => []
           | _ => firstn size l :: chunks f size (skipn size l)
           end
  end.
Definition py_slice {A} (l : list A) (lo hi : nat) : list A := firstn (hi - lo) (skipn lo l).
Fixpoint bounds_grids {A} (l : list A) (lo : nat) (idx : list nat) : list (list A) :=
  match idx with
  | [] => [py_slice l lo (length l)]
  | hi :: r => py_slice l lo hi :: bounds_grids l hi r
  end.

(* grids[start : start + num] for the pieces of a split, in order *)
Definition slice_grids {A} (l : list A) (offs : list (nat * nat)) : list (list A) :=
  map (fun os => py_slice l (fst os) (fst os + snd os)) offs.

(* dimv: kwargs["dim"], else the positional dim of cat(tensors, dim) / split functions (input, arg, dim), else 0;
   nd0: number of dimensions of the first argument that has grids (negative dims are normalised with it) *)
Definition tf_grid_batch (o : op) (dimv : Z) (nd0 : nat) (argks : list tkind) : gres :=
  let grids := flat_map (fun k => match k with
                                  | TBatch _ gs => [gs]
                                  | TSingle _ g => [[g]]      (* an Image inside a list argument; unreachable for valid data *)
                                  | TPlain => []
                                  end) argks in
  match grids with
  | [] => GNone
  | g0 :: _ =>
      let dim := if (dimv <? 0)%Z then (dimv + Z.of_nat nd0)%Z else dimv in
      let n := length g0 in
      if (dim =? 0)%Z then
        match o with
        | OCat _ => GFlat (concat grids)
        | OSplit size _ =>           (* for start in range(0, max(len(grids), 1), size): grids[start : start + size] *)
            GNested (slice_grids g0 (offsets 0 (if n =? 0 then [0] else int_sizes n size)))
        | OSplitL sizes _ | OSplitSizes sizes _ => GNested (slice_grids g0 (offsets 0 sizes))
        | OTSplitN k _ => GNested (slice_grids g0 (offsets 0 (tsplit_sizes n k)))
        | OTSplitI idx _ => GNested (bounds_grids g0 0 idx)
        | _ => GFlat g0
        end
      else GFlat g0
  end.

(* the dim the dispatcher sees: keyword or positional alike *)
Definition kw_of (o : op) : Z :=
  match o with
  | OCat d | OStack d | OSplit _ d | OSplitL _ d | OSplitSizes _ d | OTSplitN _ d | OTSplitI _ d | OChunk _ d | OUnbind d => dim_value d
  | _ => 0%Z
  end.

Inductive kres := KErr (e : errk) | KOk (k : tkind).

(* constructor checks of ImageBatch(data, grid) *)
Definition mk_batch (fl : option axes) (sh : shape) (gs : list gid) : kres :=
  if ndim sh <? 4 then KErr EValue
  else if negb (forallb (fun g => shape_eqb (gshape g) (skipn 2 sh)) gs) then KErr EValue
  else match fl with
       | None => KOk (TBatch None gs)
       | Some ax => if nth 1 sh 0 =? ndim sh - 2 then KOk (TBatch (Some ax) gs) else KErr EValue
       end.
Definition mk_single (fl : option axes) (sh : shape) (g : gid) : kres :=
  if ndim sh <? 3 then KErr EValue
  else if negb (shape_eqb (gshape g) (skipn 1 sh)) then KErr EValue
  else match fl with
       | None => KOk (TSingle None g)
       | Some ax => if nth 0 sh 0 =? length (gshape g) then KOk (TSingle (Some ax) g) else KErr EValue
       end.

(* ImageBatch._torch_function_result *)
Definition res_batch (sh : shape) (grid : option (list gid)) : kres :=
  match grid with
  | None => KOk TPlain
  | Some [] => if (4 <=? ndim sh) && (nent sh =? 0) then mk_batch None sh [] else KOk TPlain
  | Some ((g0 :: _) as gs) =>
      if (ndim sh =? length (gshape g0) + 2) && (nent sh =? length gs) && shape_eqb (skipn 2 sh) (gshape g0)
      then mk_batch None sh gs else KOk TPlain
  end.
(* FlowFields._torch_function_result *)
Definition res_flow (sh : shape) (grid : option (list gid)) (ax : option axes) : kres :=
  match grid, ax with
  | Some ((g0 :: _) as gs), Some a =>
      if (ndim sh =? length (gshape g0) + 2) && (nent sh =? length gs) && (nth 1 sh 0 =? length (gshape g0))
         && shape_eqb (skipn 2 sh) (gshape g0)
      then mk_batch (Some a) sh gs else res_batch sh grid
  | Some [], Some a => if (4 <=? ndim sh) && (nent sh =? 0) && (nth 1 sh 0 =? ndim sh - 2) then mk_batch (Some a) sh [] else res_batch sh grid
  | _, _ => res_batch sh grid
  end.
(* Image._torch_function_result / FlowField._torch_function_result *)
Definition res_image (sh : shape) (grid : option gid) : kres :=
  match grid with
  | None => KOk TPlain
  | Some g => if (ndim sh =? length (gshape g) + 1) && shape_eqb (skipn 1 sh) (gshape g) then mk_single None sh g else KOk TPlain
  end.
Definition res_flowfield (sh : shape) (grid : option gid) (ax : option axes) : kres :=
  match grid, ax with
  | Some g, Some a =>
      if (ndim sh =? length (gshape g) + 1) && (nth 0 sh 0 =? length (gshape g)) && shape_eqb (skipn 1 sh) (gshape g)
      then mk_single (Some a) sh g else res_image sh grid
  | _, _ => res_image sh grid
  end.

(* FlowFields._torch_function_axes *)
Definition tf_axes (argks : list tkind) : option (option axes) :=   (* None = ValueError (mismatch) *)
  let axs := flat_map (fun k => match kind_axes k with Some a => [a] | None => [] end) argks in
  match axs with
  | [] => Some None
  | a :: r => if forallb (axes_eqb a) r then Some (Some a) else None
  end.

Fixpoint collect (l : list (dout * kres)) : errk + list oval :=
  match l with
  | [] => inr []
  | (d, KErr e) :: _ => inl e
  | (d, KOk k) :: r => match collect r with
                       | inl e => inl e
                       | inr t => inr (mkO (d_shape d) k (d_src d) :: t)
                       end
  end.
Definition tuple_of (l : list (dout * kres)) : ores :=
  match collect l with inl e => OErr e | inr t => OTuple t end.
Definition one_kind (d : dout) (r : kres) : ores :=
  match r with KErr e => OErr e | KOk k => OOne (mkO (d_shape d) k (d_src d)) end.
Definition plain_out (d : dout) : oval := mkO (d_shape d) TPlain (d_src d).

Definition is_split_class (o : op) : bool :=
  match class_of o with FSplit | FSplitSizes | FTensorSplit => true | _ => false end.
Definition flat_of (g : gres) : option (list gid) := match g with GFlat gs => Some gs | _ => None end.

(* ImageBatch.__torch_function__ (flowcls = false) / FlowFields.__torch_function__ (flowcls = true) *)
Definition dispatch_batch (flowcls : bool) (o : op) (args0 : list tval) : ores :=
  let args := if flowcls then args0 else map to_batch args0 in
  let ks := map t_kind args in
  let nd0 := hd 0 (flat_map (fun a => match t_kind a with TPlain => [] | _ => [ndim (t_shape a)] end) args) in
  let grid := tf_grid_batch o (kw_of o) nd0 ks in
  match data_sem o (map t_shape args) with
  | DErr e => OErr e
  | DOne d =>
      match (if flowcls then tf_axes ks else Some None) with
      | None => OErr EValue
      | Some ax =>
          match grid with
          | GNested _ => OErr EAttr       (* unreachable: nested grids only arise for tuple results *)
          | _ =>
              if flowcls then one_kind d (res_flow (d_shape d) (flat_of grid) ax)
              else match class_of o with
                   | FGridSample => OOne (plain_out d)
                   | _ => one_kind d (res_batch (d_shape d) (flat_of grid))
                   end
          end
      end
  | DTuple ds =>
      match (if flowcls then tf_axes ks else Some None) with
      | None => OErr EValue
      | Some ax =>
          if is_split_class o then
            (* a flat grid list (split along another dimension) is replicated for every piece *)
            let nested := match grid with
                          | GNone => None
                          | GFlat gs => Some (repeat gs (length ds))
                          | GNested [] => Some (repeat [] (length ds))          (* all(...) of an empty list is True *)
                          | GNested gss => Some gss
                          end in
            match nested with
            | None => OErr (if flowcls then EType else EAssert)
            | Some gss =>
                if flowcls then      (* zip(data, grid): no length checks *)
                  tuple_of (map (fun dg => (fst dg, res_flow (d_shape (fst dg)) (Some (snd dg)) ax)) (combine ds gss))
                else if negb (length gss =? length ds) then OErr EAssert
                else if negb (forallb (fun dg => nent (d_shape (fst dg)) =? length (snd dg)) (combine ds gss)) then OErr EAssert
                else tuple_of (map (fun dg => (fst dg, res_batch (d_shape (fst dg)) (Some (snd dg)))) (combine ds gss))
            end
          else OTuple (map plain_out ds)     (* a tuple is returned as is: plain tensors *)
      end
  end.

(* Image.__torch_function__ (flowcls = false) / FlowField.__torch_function__ (flowcls = true) *)
Definition first_grid (ks : list tkind) : option gid :=
  hd None (flat_map (fun k => match k with
                              | TSingle _ g => [Some g]
                              | TBatch _ (g :: _) => [Some g]     (* a tuple of grids: fails every shape test below *)
                              | _ => []
                              end) ks).
Definition dispatch_single (flowcls : bool) (o : op) (args : list tval) : ores :=
  match class_of o with
  | FGridSample => OErr EValue
  | _ =>
      let ks := map t_kind args in
      match data_sem o (map t_shape args) with
      | DErr e => OErr e
      | dr =>
          match (if flowcls then tf_axes ks else Some None) with
          | None => OErr EValue
          | Some ax =>
              let grid := if existsb is_batch ks then None else first_grid ks in
              let res d := if flowcls then res_flowfield (d_shape d) grid ax else res_image (d_shape d) grid in
              match dr with
              | DOne d => one_kind d (res d)
              | DTuple ds => if is_split_class o then tuple_of (map (fun d => (d, res d)) ds)
                             else OTuple (map plain_out ds)
              | DErr e => OErr e
              end
          end
      end
  end.

(* ---- explicit handlers ---- *)
(* FlowFields._make_instance / ImageBatch._make_instance *)
Definition make_instance (self_fl : option axes) (sh : shape) (gs : list gid) : kres :=
  match self_fl with
  | Some ax => if nth 1 sh 0 =? ndim sh - 2 then mk_batch (Some ax) sh gs else mk_batch None sh gs
  | None => mk_batch None sh gs
  end.
Definition make_subitem (self_fl : option axes) (sh : shape) (g : gid) : kres :=
  match self_fl with
  | Some ax => if nth 0 sh 0 =? ndim sh - 1 then mk_single (Some ax) sh g else mk_single None sh g
  | None => mk_single None sh g
  end.

(* ellipsis resolution of ImageBatch.__getitem__ *)
Definition is_ell (i : index) : bool := match i with IEll => true | _ => false end.
Fixpoint drop_later_ell (seen : bool) (l : list index) : list index :=
  match l with
  | [] => []
  | i :: r => if is_ell i then (if seen then drop_later_ell true r else i :: drop_later_ell true r)
              else i :: drop_later_ell seen r
  end.
Fixpoint find_ell (l : list index) : option nat :=
  match l with
  | [] => None
  | i :: r => if is_ell i then Some 0 else option_map S (find_ell r)
  end.
Definition resolve_ell (nd : nat) (l : list index) : option (list index) :=   (* None = IndexError on empty tuple *)
  let l1 := drop_later_ell false l in
  match rev l1 with
  | [] => None
  | last :: _ =>
      let l2 := if is_ell last then removelast l1 else l1 in
      match find_ell l2 with
      | None => Some l2
      | Some i => let j := length l2 - i - 1 in
                  Some (firstn i l2 ++ repeat (ISlice None None None) (nd - i - j) ++ skipn (length l2 - j) l2)
      end
  end.

Definition spatial_full (ix : list index) (sh : shape) : bool :=
  forallb (fun p => match fst p with
                    | ISlice a b c => is_full_slice (snd p) a b c
                    | _ => false
                    end) (combine (skipn 2 ix) (skipn 2 sh)).

Inductive gsel := GSOne (g : gid) | GSMany (gs : list gid) | GSErr.
Definition grid_index (gs : list gid) (i : index) : gsel :=
  let n := length gs in
  match i with
  | IInt z => match norm_idx n z with Some e => GSOne (nth e gs 0) | None => GSErr end
  | ISlice a b c => match slice_sel n a b c with Some l => GSMany (map (fun e => nth e gs 0) l) | None => GSErr end
  | IList l => match norm_idxs n l with Some l' => GSMany (map (fun e => nth e gs 0) l') | None => GSErr end
  | IBools l => GSMany (map (fun e => nth e gs 0) (true_pos 0 l))      (* mask.nonzero().flatten().tolist() *)
  | IEll => GSErr
  end.

(* __getitem__ after the index has been brought into tuple form and ellipses have been resolved *)
Definition getitem_finish (fl : option axes) (sh : shape) (gs : list gid) (multi : bool) (ix : list index) : ores :=
  match index_data sh ix with
  | DErr e => OErr e
  | DTuple _ => OErr ERuntime
  | DOne d =>
      let plain := OOne (plain_out d) in
      match ix with
      | [] => OErr EIndex            (* index[0] of an empty tuple *)
      | i0 :: rest =>
          if multi && (match rest with IInt _ :: _ => true | _ => false end) then plain
          else
            match grid_index gs i0 with
            | GSErr => OErr EIndex
            | sel =>
                if multi && (2 <? length ix) && negb (spatial_full ix sh) then plain
                else match sel with
                     | GSOne g => if ndim (d_shape d) <? 3 then plain else one_kind d (make_subitem fl (d_shape d) g)
                     | GSMany gl => if ndim (d_shape d) <? 4 then plain else one_kind d (make_instance fl (d_shape d) gl)
                     | GSErr => OErr EIndex
                     end
            end
      end
  end.

Definition getitem_batch (fl : option axes) (sh : shape) (gs : list gid) (f : gform) : ores :=
  match f with
  | GOne IEll => one_kind (mkD sh (ident_src 0 (nent sh))) (make_instance fl sh gs)
  | GOne (IInt z) => getitem_finish fl sh gs false [IInt z]
  | GOne i => getitem_finish fl sh gs true [i]
  | GTup l => match resolve_ell (ndim sh) l with
              | None => OErr EIndex
              | Some ix => getitem_finish fl sh gs true ix
              end
  end.

(* the whole user-visible operation on [cur; other...] *)
Definition run_op (o : op) (args : list tval) : ores :=
  let cur := nth 0 args (mkT [] TPlain) in
  let sh := t_shape cur in
  match o with
  | OGetItem f =>
      match t_kind cur with
      | TBatch fl gs => getitem_batch fl sh gs f
      | TSingle fl _ => (match f with GOne IEll | GTup _ => OErr ERuntime | _ => dispatch_single (is_flow (t_kind cur)) o args end)
      | TPlain => match data_sem o [sh] with DOne d => OOne (plain_out d) | DErr e => OErr e | DTuple _ => OErr ERuntime end
      end
  | OIterBuild how sel =>
      match t_kind cur, data_sem o [sh] with
      | TBatch fl gs, DOne d =>
          if length gs <? nent sh then OErr EIndex                                 (* list(cur): self._grid[index] *)
          else
          let gl := map (fun e => nth e gs 0) sel in
          match how, fl, gl with
          | _, _, [] => OErr ERuntime                                            (* cat / collate of an empty list *)
          | BFromImages, Some ax, _ => one_kind d (mk_batch (Some ax) (d_shape d) gl)                 (* axes of the first FlowField *)
          | BCollate, Some ax, _ => one_kind d (mk_batch (Some ax) (d_shape d) gl)
          | _, None, _ => one_kind d (mk_batch None (d_shape d) gl)
          end
      | _, DErr e => OErr e
      | _, _ => OErr EType
      end
  | OIterPick k =>
      match t_kind cur, data_sem o [sh] with
      | TBatch fl gs, DOne d => if length gs <? nent sh then OErr EIndex
                                else one_kind d (make_subitem fl (d_shape d) (nth k gs 0))
      | _, DErr e => OErr e
      | _, _ => OErr EType
      end
  | ONarrowM z stz len =>
      (* ImageBatch.narrow: `if dim < 0: dim += self.ndim`, `if start < 0: start += self.shape[dim]`;
         dim == 0 -> grid[start : start + length]; dim > 1 -> every grid narrowed (not modelled); dim == 1 leaves the
         grids as they are *)
      match t_kind cur, data_sem o [sh] with
      | TBatch fl gs, DOne d =>
          let z' := if (z <? 0)%Z then (z + Z.of_nat (ndim sh))%Z else z in
          if (z' =? 0)%Z then match norm_start (nth 0 sh 0) stz with
                              | Some st => one_kind d (make_instance fl (d_shape d) (py_slice gs st (st + len)))
                              | None => OErr EIndex
                              end
          else if (1 <? z')%Z then OErr ERuntime
          else one_kind d (make_instance fl (d_shape d) gs)
      | _, DErr e => OErr e
      | _, _ => OErr EType
      end
  | OCopy c =>
      match t_kind cur with
      | TPlain => OOne (mkO sh TPlain (ident_src 0 (nent sh)))
      | k => OOne (mkO sh k (ident_src 0 (nent sh)))
      end
  | OAppend =>
      let other := nth 1 args (mkT [] TPlain) in
      match t_kind cur, t_kind other, data_sem o (map t_shape args) with
      | TBatch fl gs, TBatch _ gs', DOne d => one_kind d (make_instance fl (d_shape d) (gs ++ gs'))
      | TBatch _ _, TBatch _ _, DErr e => OErr e
      | _, _, _ => OErr EType
      end
  | OToBatch =>
      match t_kind cur, data_sem o [sh] with
      | TSingle fl g, DOne d => one_kind d (mk_batch fl (d_shape d) [g])
      | _, _ => OErr EType
      end
  | OAsFlows =>
      (* FlowFields.__init__(data): axes = data.axes() if data is a FlowFields; grid = data.grids(); ImageBatch.__init__ /
         grid_ (ndim >= 4, every grid of the data's spatial shape -- the NUMBER of grids is not checked); nchannels == sdim;
         axes default Axes.from_grid(self._grid[0]).  Only batches are modelled (a plain tensor gets a new grid). *)
      match t_kind cur with
      | TBatch fl gs =>
          if (ndim sh <? 4) || negb (forallb (fun g => shape_eqb (gshape g) (skipn 2 sh)) gs) || negb (nth 1 sh 0 =? ndim sh - 2)
          then OErr EValue
          else match fl, gs with
               | Some ax, _ => OOne (mkO sh (TBatch (Some ax) gs) (ident_src 0 (nent sh)))
               | None, g0 :: _ => OOne (mkO sh (TBatch (Some (gaxes g0)) gs) (ident_src 0 (nent sh)))
               | None, [] => OErr EIndex
               end
      | _ => OErr EType
      end
  | _ =>
      match choose_disp (map t_kind args) with
      | DNoDisp => match data_sem o (map t_shape args) with
                   | DErr e => OErr e
                   | DOne d => OOne (plain_out d)
                   | DTuple ds => OTuple (map plain_out ds)
                   end
      | DImageBatch => dispatch_batch false o args
      | DFlowFields => dispatch_batch true o args
      | DImage => dispatch_single false o args
      | DFlowField => dispatch_single true o args
      end
  end.

End Dispatch.

(* ---------------------------------------------------------------------------------------------- *)
(* programs                                                                                       *)
(* ---------------------------------------------------------------------------------------------- *)
Inductive oref := RCur | RIn (k : nat).
Record step := mkStep { s_op : op; s_args : list oref; s_pick : nat }.

Definition val_of (o : oval) : tval := mkT (v_shape o) (v_kind o).
Definition resolve (cur : tval) (inputs : list tval) (r : oref) : tval :=
  match r with RCur => cur | RIn k => nth k inputs (mkT [] TPlain) end.
Definition pick_out (r : ores) (k : nat) : option oval :=
  match r with
  | OErr _ => None
  | OOne o => Some o
  | OTuple os => nth_error os k
  end.

(* comparison of a predicted with an observed result *)
Definition err_class (e : errk) : nat :=
  match e with EAssert => 1 | EAttr => 2 | EType => 3 | EValue | EIndex | ERuntime => 0 end.
Fixpoint ins_src (x : src) (l : list src) : list src :=
  match l with
  | [] => [x]
  | y :: r => if (fst x <? fst y) || ((fst x =? fst y) && (snd x <? snd y)) then x :: l
              else if (fst x =? fst y) && (snd x =? snd y) then l
              else y :: ins_src x r
  end.
Definition norm_srcs (l : list src) : list src := fold_right ins_src [] l.
Definition src_eqb (a b : src) : bool := (fst a =? fst b) && (snd a =? snd b).
Fixpoint list_eqb {A} (eqb : A -> A -> bool) (a b : list A) : bool :=
  match a, b with
  | [], [] => true
  | x :: a', y :: b' => eqb x y && list_eqb eqb a' b'
  | _, _ => false
  end.
Definition kind_eqb (a b : tkind) : bool :=
  match a, b with
  | TPlain, TPlain => true
  | TBatch f gs, TBatch f' gs' => opt_axes_eqb f f' && list_eqb Nat.eqb gs gs'
  | TSingle f g, TSingle f' g' => opt_axes_eqb f f' && (g =? g')
  | _, _ => false
  end.
Definition oval_eqb (a b : oval) : bool :=
  list_eqb Nat.eqb (v_shape a) (v_shape b) && kind_eqb (v_kind a) (v_kind b)
  && (existsb (Nat.eqb 0) (tl (v_shape a))     (* entries without elements hold no data: provenance not observable *)
      || list_eqb (list_eqb src_eqb) (map norm_srcs (v_src a)) (map norm_srcs (v_src b))).
Definition ores_eqb (a b : ores) : bool :=
  match a, b with
  | OErr e, OErr e' => err_class e =? err_class e'
  | OOne x, OOne y => oval_eqb x y
  | OTuple xs, OTuple ys => list_eqb oval_eqb xs ys
  | _, _ => false
  end.

Section Programs.
Variable gshape : gid -> shape.
Variable gaxes : gid -> axes.

Definition run_step (cur : tval) (inputs : list tval) (st : step) : ores :=
  run_op gshape gaxes (s_op st) (map (resolve cur inputs) (s_args st)).

(* model run against the observed per-step results: index of the first step that differs, if any *)
Fixpoint check_prog (k : nat) (cur : tval) (inputs : list tval) (steps : list step) (obs : list ores) : option nat :=
  match steps, obs with
  | [], _ => None
  | st :: r, o :: obs' =>
      let m := run_step cur inputs st in
      if ores_eqb m o then
        match pick_out m (s_pick st) with
        | Some v => check_prog (S k) (val_of v) inputs r obs'
        | None => None
        end
      else Some k
  | _ :: _, [] => Some k
  end.
Fixpoint trace_prog (cur : tval) (inputs : list tval) (steps : list step) : list ores :=
  match steps with
  | [] => []
  | st :: r => let m := run_step cur inputs st in
               m :: match pick_out m (s_pick st) with
                    | Some v => trace_prog (val_of v) inputs r
                    | None => []
                    end
  end.
Definition prog_ok (cur : tval) (inputs : list tval) (steps : list step) (obs : list ores) : bool :=
  match check_prog 0 cur inputs steps obs with None => true | Some _ => false end.
End Programs.
