"""Implementation-side runner for C14 (runs against /repo's working tree)."""
import itertools
import json
import math
import random
import sys
from fractions import Fraction

import torch

from vlib import emit_json

from deepali.core import bspline as B
from deepali.core import kernels as KER
from deepali.core.grid import Grid
from deepali.core.image import spatial_derivatives


def err(e):
    return {"error": type(e).__name__, "msg": str(e)[:200]}


def errkind(e):
    return {"ValueError": "ValueErr", "TypeError": "TypeErr", "IndexError": "IndexErr",
            "NotImplementedError": "NotImpl"}.get(type(e).__name__, "Other")


# ------------------------------------------------------------------------------------------------
# correspondence: run the modelled functions on given inputs
# ------------------------------------------------------------------------------------------------
def model_cases(p):
    out = []
    for c in p["cases"]:
        try:
            k = c["kind"]
            if k == "weights":
                w = B.cubic_bspline_interpolation_weights(c["s"], c["d"], dtype=torch.float64)
                out.append({"val": w.tolist(), "shape": list(w.shape)})
            elif k == "bvalue":
                v = KER.cubic_bspline_value(c["x"], derivative=c["d"])
                out.append({"val": float(v)})
            elif k == "kernel1d":
                w = KER.cubic_bspline1d(c["s"])
                out.append({"val": w.double().tolist(), "shape": list(w.shape)})
            elif k == "kernelnd":
                fn = {1: KER.cubic_bspline1d, 2: KER.cubic_bspline2d, 3: KER.cubic_bspline3d}[c["D"]]
                w = fn(c["stride"], derivative=c["d"])
                out.append({"val": w.double().tolist(), "shape": list(w.shape)})
            elif k == "ctrl":
                r = B.cubic_bspline_control_point_grid_size(c["m"], c["s"])
                out.append({"val": [int(v) for v in r] if not isinstance(r, int) else int(r), "scalar": isinstance(r, int)})
            elif k == "eval":
                data = torch.tensor(c["data"], dtype=torch.float64)
                kw = {}
                if c.get("shape") is not None:
                    kw["shape"] = tuple(c["shape"])
                if c.get("size") is not None:
                    kw["size"] = tuple(c["size"])
                if c["transpose"]:
                    r = B.evaluate_cubic_bspline(data, stride=c["stride"], transpose=True, **kw)
                else:
                    r = B.evaluate_cubic_bspline(data, stride=c["stride"], derivative=c["derivative"], **kw)
                out.append({"val": r.tolist(), "shape": list(r.shape)})
            elif k == "subdiv":
                data = torch.tensor(c["data"], dtype=torch.float64)
                r = B.subdivide_cubic_bspline(data, dims=c["dims"])
                out.append({"val": r.tolist(), "shape": list(r.shape)})
            elif k == "ffd":
                from deepali.spatial import FreeFormDeformation
                size = tuple(c["size"])  # (X, Y, ..)
                grid = Grid(size=size, spacing=tuple(c["spacing"]), align_corners=True)
                stride = c["stride"]
                params = torch.tensor(c["params"], dtype=torch.float32)
                ffd = FreeFormDeformation(grid, params=params, stride=stride, transpose=c["transpose"])
                res = {"data_shape": list(ffd.data_shape)}
                u = ffd.update().u
                res["u"] = u.double().tolist()
                res["u_shape"] = list(u.shape)
                if c.get("refine") is not None:
                    new_size = tuple(c["refine"])
                    g2 = grid.resize(new_size) if hasattr(grid, "resize") else None
                    ffd.grid_(g2)
                    res["same_domain"] = bool(g2.same_domain_as(grid))
                    res["new_params"] = ffd.data().double().tolist()
                    res["new_shape"] = list(ffd.data().shape)
                    u2 = ffd.update().u
                    res["u2"] = u2.double().tolist()
                    res["u2_shape"] = list(u2.shape)
                out.append(res)
            elif k == "ctrlgrid":
                g = Grid(size=tuple(c["size"]), spacing=tuple(c["spacing"]), center=tuple(c["center"]), align_corners=True)
                cg = B.cubic_bspline_control_point_grid(g, tuple(c["stride"]) if len(c["stride"]) > 1 or c["seq"] else c["stride"][0])
                pts = torch.tensor(c["ks"], dtype=torch.float64)
                w = cg.index_to_world(pts.to(cg.dtype)).double()
                idx = g.world_to_index(w.to(g.dtype)).double()
                out.append({"size": [int(v) for v in cg.size()], "index": idx.tolist()})
            elif k == "sderiv":
                data = torch.tensor(c["data"], dtype=torch.float64)
                r = spatial_derivatives(data, which=c["which"], mode="bspline", spacing=c["spacing"], stride=c["stride"])
                out.append({"keys": list(r.keys()), "val": {kk: v.tolist() for kk, v in r.items()},
                            "shape": {kk: list(v.shape) for kk, v in r.items()}})
            else:
                out.append({"error": "unknown kind"})
        except Exception as e:  # noqa
            out.append(dict(err(e), kind=errkind(e)))
    return out


# ------------------------------------------------------------------------------------------------
# the property itself, evaluated on the implementation against an independent analytic reference
# ------------------------------------------------------------------------------------------------
def pos3(x):
    return x ** 3 if x > 0 else 0 * x


def Bref(x, d=0):
    """analytic cubic B-spline and derivatives (truncated powers), exact on Fractions"""
    knots = [(-2, 1), (-1, -4), (0, 6), (1, -4), (2, 1)]
    r = 0
    for k, a in knots:
        y = x - k
        if d == 0:
            t = y ** 3 if y > 0 else 0
            r += Fraction(a, 6) * t if isinstance(x, Fraction) else a / 6 * t
        elif d == 1:
            t = y ** 2 if y > 0 else 0
            r += Fraction(a, 2) * t if isinstance(x, Fraction) else a / 2 * t
        elif d == 2:
            t = y if y > 0 else 0
            r += a * t
        elif d == 3:
            t = 1 if y >= 0 else 0  # right-continuous
            r += a * t
        else:
            r += 0
    return r


def spline_ref_1d(c, s, x, d=0):
    """sum_j c[j] B^(d)(x / s - (j - 1)) for image index x (Fraction), control point j at image index (j - 1) s"""
    u = Fraction(x) / s
    return sum(Fraction(cj) * Bref(u - (j - 1), d) for j, cj in enumerate(c) if cj != 0)


def frac_list(t):
    return [Fraction(float(v)) for v in t.reshape(-1).tolist()]


def dy(rng, bits=3, lo=-4, hi=4):
    return rng.randint(lo * 2 ** bits, hi * 2 ** bits) / 2 ** bits


def oracle(p):
    rng = random.Random(p["seed"])
    n = p["n"]
    fails = []
    counts = {}

    def bump(k, by=1):
        counts[k] = counts.get(k, 0) + by

    def fail(key, what, **kw):
        fails.append(dict(key=key, what=what, **kw))

    # 1. weights vs analytic basis, every stride 1..16 and derivative 0..3 (exhaustive), plus a few larger strides
    for s in list(range(1, 17)):
        for d in range(0, 5):
            bump("weights")
            try:
                w = B.cubic_bspline_interpolation_weights(s, d, dtype=torch.float64)
                if tuple(w.shape) != (s, 4):
                    fail(f"C14:cubic_bspline_interpolation_weights:d{d}:shape", f"stride {s}: shape {tuple(w.shape)}", s=s, d=d)
                    continue
                for o in range(s):
                    t = Fraction(o, s)
                    want = [Bref(t + 1 - k, d) for k in range(4)]
                    if d == 3:
                        want = [-1, 3, -3, 1]
                    got = w[o].tolist()
                    if any(abs(g - float(v)) > 1e-12 for g, v in zip(got, want)):
                        fail(f"C14:cubic_bspline_interpolation_weights:d{d}:basis",
                             f"stride {s} offset {o}/{s}: weights {got} differ from the analytic basis {[float(v) for v in want]}",
                             s=s, d=d, o=o)
                        break
                    tot = sum(got)
                    if abs(tot - (1 if d == 0 else 0)) > 1e-12:
                        fail(f"C14:cubic_bspline_interpolation_weights:d{d}:sum", f"stride {s} offset {o}: weights sum to {tot}", s=s, d=d, o=o)
                        break
                    mom = sum(g * (k - 1) for k, g in enumerate(got))
                    wantm = float(t) if d == 0 else (1 if d == 1 else 0)
                    if abs(mom - wantm) > 1e-12:
                        fail(f"C14:cubic_bspline_interpolation_weights:d{d}:linear-precision",
                             f"stride {s} offset {o}: first moment {mom}, expected {wantm}", s=s, d=d, o=o)
                        break
            except Exception as e:  # noqa
                fail(f"C14:cubic_bspline_interpolation_weights:d{d}:raises", f"stride {s}: {type(e).__name__}: {str(e)[:100]}", s=s, d=d)
    # float32 default dtype and the degree=3 entry point
    for s in range(1, 17):
        bump("weights-f32")
        try:
            w = B.bspline_interpolation_weights(3, s)
            ref = torch.tensor([[float(Bref(Fraction(o, s) + 1 - k)) for k in range(4)] for o in range(s)])
            if tuple(w.shape) != (s, 4) or float((w.double() - ref.double()).abs().max()) > 1e-6:
                fail("C14:bspline_interpolation_weights:degree3:basis", f"stride {s}: differs from the analytic basis", s=s)
        except Exception as e:  # noqa
            fail("C14:bspline_interpolation_weights:degree3:raises", f"stride {s}: {type(e).__name__}: {str(e)[:100]}", s=s)

    # 2. cubic_bspline_value vs analytic
    for i in range(max(60, n // 2)):
        d = i % 3
        x = [-2.5, -2.0, -1.5, -1.0, -0.5, 0.0, 0.5, 1.0, 1.5, 2.0, 2.5][i % 11] if i < 33 else dy(rng, 6, -3, 3)
        bump("bvalue")
        try:
            v = KER.cubic_bspline_value(x, derivative=d)
            want = float(Bref(Fraction(x), d))
            if v is None or abs(float(v) - want) > 1e-12:
                fail(f"C14:cubic_bspline_value:d{d}:value", f"B^({d})({x}) = {v}, expected {want}", x=x, d=d)
        except Exception as e:  # noqa
            fail(f"C14:cubic_bspline_value:d{d}:raises", f"x={x}: {type(e).__name__}: {str(e)[:100]}", x=x, d=d)

    # 2b. third derivative (piecewise constant; either one-sided value is accepted at a knot), zero beyond; 1-D kernels of every
    #     order; 2-D / 3-D kernels = outer products of the 1-D kernels for per-axis and scalar strides
    def b3(x):
        ax = abs(x)
        if ax >= 2:
            return 0.0
        v = 3.0 if ax < 1 else -1.0
        return v if x >= 0 else -v
    for x in [-2.5, -1.75, -1.5, -0.5, -0.25, 0.25, 0.5, 1.25, 1.5, 2.5] + [dy(rng, 6, -3, 3) + 1 / 256 for _ in range(10)]:
        bump("bvalue-d3")
        try:
            v = KER.cubic_bspline_value(x, derivative=3)
            if v is None or abs(float(v) - b3(x)) > 1e-12:
                fail("C14:cubic_bspline_value:d3:value", f"third derivative at {x} is {v}, expected {b3(x)}", x=x)
            for d in (4, 5):
                v = KER.cubic_bspline_value(x, derivative=d)
                if v is None or float(v) != 0.0:
                    fail(f"C14:cubic_bspline_value:d{d}:value", f"B^({d})({x}) = {v}, expected 0", x=x)
        except Exception as e:  # noqa
            fail("C14:cubic_bspline_value:d3:raises", f"x={x}: {type(e).__name__}: {str(e)[:100]}", x=x)
    def k1_ref(s_, d):
        r_ = (4 * s_ - 1) // 2
        out_ = []
        for i_ in range(4 * s_ - 1):
            x = Fraction(i_ - r_, s_)
            if d < 3:
                out_.append([float(Bref(x, d))])
            else:
                eps = Fraction(1, 1000)
                out_.append(sorted({b3(float(x - eps)), b3(float(x + eps))}) if x.denominator == 1 else [b3(float(x))])
        return out_
    for s_ in range(1, 9):
        for d in (0, 1, 2, 3):
            bump("kernel1d")
            try:
                k = KER.cubic_bspline1d(s_, derivative=d).double().tolist()
                ref = k1_ref(s_, d)
                if len(k) != len(ref) or any(min(abs(a_ - c_) for c_ in cand) > 1e-6 for a_, cand in zip(k, ref)):
                    fail(f"C14:cubic_bspline1d:d{d}:value", f"cubic_bspline1d({s_}, derivative={d}) = {k} is not B^({d})((i - r) / {s_})", s=s_, d=d)
            except Exception as e:  # noqa
                fail(f"C14:cubic_bspline1d:d{d}:raises", f"cubic_bspline1d({s_}, derivative={d}): {type(e).__name__}: {str(e)[:100]}", s=s_, d=d)
    for D, fn in ((2, KER.cubic_bspline2d), (3, KER.cubic_bspline3d)):
        strides = [tuple(rng.randint(1, 4) for _ in range(D)) for _ in range(5)] + [(2, 3, 1)[:D], (1, 2, 3)[-D:], 2, 3]
        for st_ in strides:
            for d in (0, 1):
                bump(f"kernel{D}d")
                ss_ = (st_,) * D if isinstance(st_, int) else st_
                try:
                    k = fn(st_, derivative=d).double()
                    ref = None
                    for ax in range(D):  # ax = spatial dim, tensor dim D-1-ax
                        k1 = KER.cubic_bspline1d(ss_[ax], derivative=d).double()
                        shp = [1] * D
                        shp[D - 1 - ax] = k1.shape[0]
                        ref = k1.reshape(shp) if ref is None else ref * k1.reshape(shp)
                    if tuple(k.shape) != tuple(ref.shape) or float((k - ref).abs().max()) > 1e-6:
                        fail(f"C14:cubic_bspline{D}d:outer-product", f"cubic_bspline{D}d(stride={st_}, derivative={d}) has shape {tuple(k.shape)}; it is not the outer "
                             f"product of the 1-D kernels (shape {tuple(ref.shape)})", stride=st_, d=d)
                except Exception as e:  # noqa
                    fail(f"C14:cubic_bspline{D}d:raises", f"cubic_bspline{D}d(stride={st_}, derivative={d}): {type(e).__name__}: {str(e)[:100]}", stride=st_, d=d)

    for st_ in ([2], [3, 2], [1, 2, 3], [2, 2], [4, 1, 2]):
        for d in (0, 2):
            bump("kernel-dispatcher")
            try:
                k = KER.cubic_bspline(st_, derivative=d)
                ref = {1: KER.cubic_bspline1d, 2: KER.cubic_bspline2d, 3: KER.cubic_bspline3d}[len(st_)](st_, derivative=d)
                k2 = KER.cubic_bspline(*st_, derivative=d)
                if tuple(k.shape) != tuple(ref.shape) or float((k - ref).abs().max()) > 0 or float((k2 - ref).abs().max()) > 0:
                    fail("C14:cubic_bspline:dispatcher", f"cubic_bspline({st_}, derivative={d}) differs from cubic_bspline{len(st_)}d", stride=st_, d=d)
            except Exception as e:  # noqa
                fail("C14:cubic_bspline:dispatcher:raises", f"cubic_bspline({st_}, derivative={d}): {type(e).__name__}: {str(e)[:100]}", stride=st_, d=d)

    # 3. control grid size: coverage, tightness, agreement of call forms -- exhaustive on m <= 80, s <= 16
    for m in range(1, 81):
        for s in range(1, 17):
            bump("ctrl")
            try:
                nn = B.cubic_bspline_control_point_grid_size(m, s)
                if not isinstance(nn, int):
                    fail("C14:cubic_bspline_control_point_grid_size:type", f"({m}, {s}) -> {nn!r}", m=m, s=s)
                    continue
                # last sample m - 1 lies in cell (m-1)//s and needs control points (m-1)//s .. (m-1)//s + 3
                if (m - 1) // s + 3 > nn - 1 or s * (nn - 3) < m:
                    fail("C14:cubic_bspline_control_point_grid_size:coverage",
                         f"size {m} stride {s}: {nn} control points do not cover the image grid", m=m, s=s, n=nn)
                elif s * (nn - 4) >= m:
                    fail("C14:cubic_bspline_control_point_grid_size:not-minimal",
                         f"size {m} stride {s}: {nn} control points, {nn - 1} would suffice", m=m, s=s, n=nn)
            except Exception as e:  # noqa
                fail("C14:cubic_bspline_control_point_grid_size:raises", f"({m}, {s}): {type(e).__name__}: {str(e)[:100]}", m=m, s=s)
    for _ in range(30):
        D = rng.choice([1, 2, 3])
        ms = [rng.randint(1, 60) for _ in range(D)]
        ss = [rng.randint(1, 16) for _ in range(D)]
        bump("ctrl-seq")
        try:
            r = B.cubic_bspline_control_point_grid_size(ms, ss)
            want = [B.cubic_bspline_control_point_grid_size(a, b) for a, b in zip(ms, ss)]
            if list(r) != want:
                fail("C14:cubic_bspline_control_point_grid_size:per-axis", f"{ms}, {ss} -> {list(r)}, per axis {want}", m=ms, s=ss)
        except Exception as e:  # noqa
            fail("C14:cubic_bspline_control_point_grid_size:raises", f"({ms}, {ss}): {type(e).__name__}: {str(e)[:100]}", m=ms, s=ss)

    # 4. control grid placement: control point k sits at image index (k - 1) * s
    for i in range(12):
        D = [2, 3][i % 2]
        ms = [rng.randint(3, 30) for _ in range(D)]
        ss = [1] * D if i < 2 else [rng.randint(1, 8) for _ in range(D)]
        sp = [rng.choice([0.5, 1.0, 2.0, 0.25]) for _ in range(D)]
        bump("ctrl-grid")
        try:
            kwg = {}
            if D == 2 and i % 3 == 2:
                kwg["direction"] = torch.tensor([[0.6, -0.8], [0.8, 0.6]])  # rotated grid
            elif D == 3 and i % 3 == 2:
                kwg["direction"] = torch.tensor([[0.0, -1.0, 0.0], [0.6, 0.0, -0.8], [0.8, 0.0, 0.6]])
            g = Grid(size=tuple(ms), spacing=tuple(sp), align_corners=True, **kwg)
            cg = B.cubic_bspline_control_point_grid(g, tuple(ss))
            nn = B.cubic_bspline_control_point_grid_size(tuple(ms), tuple(ss))
            if tuple(cg.size()) != tuple(nn):
                fail("C14:cubic_bspline_control_point_grid:size", f"size {tuple(cg.size())} != {tuple(nn)}", m=ms, s=ss)
            worst = 0.0
            for kk in ([0] * D, [1] * D, [2] * D, [int(v) - 1 for v in nn]):
                a = cg.index_to_world(torch.tensor([float(v) for v in kk]))
                b = g.index_to_world(torch.tensor([float((v - 1) * s_) for v, s_ in zip(kk, ss)]))
                worst = max(worst, float((a - b).abs().max()))
            if worst > 1e-4:
                fail("C14:cubic_bspline_control_point_grid:placement",
                     f"image size {ms} spacing {sp} stride {ss}: control point k is not at image index (k-1)*stride "
                     f"(world distance {worst:.4g}; control grid spacing {cg.spacing().tolist()})", m=ms, s=ss, spacing=sp)
        except Exception as e:  # noqa
            fail("C14:cubic_bspline_control_point_grid:raises", f"{ms} {ss}: {type(e).__name__}: {str(e)[:100]}", m=ms, s=ss)

    # 5. evaluate_cubic_bspline: analytic spline, linear exactness, two algorithms, all sizes / strides
    def rand_cfg(i):
        D = [1, 2, 3][i % 3]
        hi = {1: 40, 2: 14, 3: 7}[D]
        ms = [rng.randint(1, hi) for _ in range(D)]          # image size (x, y, z)
        ss = [rng.randint(1, 16 if D == 1 else (8 if D == 2 else 5)) for _ in range(D)]
        if i % 5 == 0:
            ss = [ss[0]] * D
        return D, ms, ss

    for i in range(n):
        D, ms, ss = rand_cfg(i)
        nn = [B.cubic_bspline_control_point_grid_size(a, b) for a, b in zip(ms, ss)]
        N, C = rng.choice([(1, 1), (2, 1), (1, 3), (2, 2)])
        shape_t = tuple(reversed(nn))
        # (a) affine coefficients: c[j] = a0 + sum_i a_i (j_i - 1) s_i
        a0 = [[dy(rng) for _ in range(C)] for _ in range(N)]
        al = [[[dy(rng) for _ in range(D)] for _ in range(C)] for _ in range(N)]
        data = torch.zeros((N, C) + shape_t, dtype=torch.float64)
        idx = torch.meshgrid(*[torch.arange(k, dtype=torch.float64) for k in shape_t], indexing="ij")
        for b_ in range(N):
            for c_ in range(C):
                v = torch.full(shape_t, a0[b_][c_], dtype=torch.float64)
                for ax in range(D):  # ax = spatial dim, tensor dim D-1-ax
                    v = v + al[b_][c_][ax] * (idx[D - 1 - ax] - 1) * ss[ax]
                data[b_, c_] = v
        want = torch.zeros((N, C) + tuple(reversed(ms)), dtype=torch.float64)
        oidx = torch.meshgrid(*[torch.arange(k, dtype=torch.float64) for k in reversed(ms)], indexing="ij")
        for b_ in range(N):
            for c_ in range(C):
                v = torch.full(tuple(reversed(ms)), a0[b_][c_], dtype=torch.float64)
                for ax in range(D):
                    v = v + al[b_][c_][ax] * oidx[D - 1 - ax]
                want[b_, c_] = v
        desc = {"D": D, "size": ms, "stride": ss, "N": N, "C": C}
        for tr in (False, True):
            bump(f"eval-affine:D{D}:transpose={tr}")
            try:
                kw = {"size": tuple(ms)} if i % 2 == 0 else {"shape": tuple(reversed(ms))}
                stride_arg = ss[0] if len(set(ss)) == 1 and i % 2 == 0 else tuple(ss)
                r = B.evaluate_cubic_bspline(data, stride=stride_arg, transpose=tr, **kw)
                tol = 1e-9 if not tr else 2e-4
                if tuple(r.shape) != tuple(want.shape):
                    fail(f"C14:evaluate_cubic_bspline:D{D}:transpose={tr}:shape", f"{desc}: output shape {tuple(r.shape)}, expected {tuple(want.shape)}", case=desc)
                elif float((r - want).abs().max()) > tol * (1 + float(want.abs().max())):
                    fail(f"C14:evaluate_cubic_bspline:D{D}:transpose={tr}:linear-exact",
                         f"{desc}: affine coefficients are not reproduced (max error {float((r - want).abs().max()):.3g})", case=desc,
                         a0=a0, a=al)
            except Exception as e:  # noqa
                fail(f"C14:evaluate_cubic_bspline:D{D}:transpose={tr}:raises", f"{desc}: {type(e).__name__}: {str(e)[:100]}", case=desc)
        # derivative modes on affine coefficients: d/d(control units) along one axis = a_ax * s_ax; second derivatives 0
        for ax in range(D):
            for order in (1, 2, 3):
                bump(f"eval-affine-derivative:D{D}")
                der = [0] * D
                der[ax] = order
                try:
                    r = B.evaluate_cubic_bspline(data, stride=tuple(ss), derivative=tuple(der), size=tuple(ms))
                    for b_ in range(N):
                        for c_ in range(C):
                            wv = al[b_][c_][ax] * ss[ax] if order == 1 else 0.0
                            if float((r[b_, c_] - wv).abs().max()) > 1e-9 * (1 + abs(wv)):
                                fail(f"C14:evaluate_cubic_bspline:D{D}:derivative:affine",
                                     f"{desc}: derivative {der} of affine coefficients is {float(r[b_, c_].reshape(-1)[0])}, expected {wv}", case=desc, der=der)
                                raise StopIteration
                except StopIteration:
                    pass
                except Exception as e:  # noqa
                    fail(f"C14:evaluate_cubic_bspline:D{D}:derivative:raises", f"{desc} {der}: {type(e).__name__}: {str(e)[:100]}", case=desc)
        # (b) random coefficients: analytic tensor-product spline (exact rationals), both algorithms, derivatives
        rdata = torch.tensor([dy(rng) for _ in range(N * C * math.prod(shape_t))], dtype=torch.float64).reshape((N, C) + shape_t)
        der = [rng.choice([0, 0, 1, 2, 3]) for _ in range(D)] if i % 2 else [0] * D
        bump(f"eval-random:D{D}")
        try:
            r = B.evaluate_cubic_bspline(rdata, stride=tuple(ss), derivative=tuple(der), size=tuple(ms))
            pts = [tuple(rng.randrange(k) for k in reversed(ms)) for _ in range(6)] + [tuple(k - 1 for k in reversed(ms)), tuple(0 for _ in ms)]
            b_, c_ = rng.randrange(N), rng.randrange(C)
            for pt in pts:  # tensor order
                val = Fraction(0)
                ranges = []
                for td in range(D):
                    s_ = ss[D - 1 - td]
                    q = pt[td] // s_
                    ranges.append([(q + k, Bref(Fraction(pt[td], s_) - (q + k - 1), der[D - 1 - td]) if der[D - 1 - td] < 3
                                    else [-1, 3, -3, 1][k]) for k in range(4)])
                for combo in itertools.product(*ranges):
                    wgt = Fraction(1)
                    for (_, wv) in combo:
                        wgt *= wv
                    if wgt:
                        val += wgt * Fraction(float(rdata[(b_, c_) + tuple(j for j, _ in combo)]))
                got = float(r[(b_, c_) + pt])
                if abs(got - float(val)) > 1e-9 * (1 + abs(float(val))):
                    fail(f"C14:evaluate_cubic_bspline:D{D}:analytic-spline",
                         f"{desc} derivative {der}: sample {pt} is {got}, analytic spline value {float(val)}", case=desc, der=der)
                    break
            if all(v == 0 for v in der):
                bump(f"eval-two-algorithms:D{D}")
                r2 = B.evaluate_cubic_bspline(rdata, stride=tuple(ss), size=tuple(ms), transpose=True)
                if tuple(r2.shape) != tuple(r.shape) or float((r2 - r).abs().max()) > 2e-5 * (1 + float(r.abs().max())):
                    fail(f"C14:evaluate_cubic_bspline:D{D}:algorithms-disagree",
                         f"{desc}: transpose=True differs from transpose=False by {float((r2 - r).abs().max()) if r2.shape == r.shape else 'shape'}", case=desc)
        except Exception as e:  # noqa
            fail(f"C14:evaluate_cubic_bspline:D{D}:raises", f"{desc} {der}: {type(e).__name__}: {str(e)[:100]}", case=desc)

    # 6. subdivision keeps the function (direct call), D = 1 (as (N, C, X)), 2, 3; repeated
    for i in range(max(12, n // 4)):
        D = [2, 3, 1][i % 3]
        nn = [rng.randint(4, 9 if D < 3 else 6) for _ in range(D)]
        shape_t = tuple(reversed(nn))
        data = torch.tensor([dy(rng) for _ in range(math.prod(shape_t))], dtype=torch.float64).reshape((1, 1) + shape_t)
        reps = 1 + (i % 2)
        bump(f"subdivide:D{D}")
        try:
            cur = data
            for _ in range(reps):
                cur = B.subdivide_cubic_bspline(cur)
            f = 2 ** reps
            exp_shape = tuple(f * (k - 1) + 1 for k in shape_t)
            if tuple(cur.shape[2:]) != exp_shape:
                fail(f"C14:subdivide_cubic_bspline:D{D}:shape", f"{nn} x{reps}: {tuple(cur.shape[2:])}, expected {exp_shape}", n=nn)
                continue
            # compare the two spline functions at random rational points of the original domain [1, n-2] per axis
            worst = 0.0
            for _ in range(8):
                u = [Fraction(rng.randint(8, 8 * (k - 2)), 8) for k in shape_t]  # control index coordinates, tensor order
                def val(cf, uu):
                    tot = Fraction(0)
                    rs = []
                    for td, x in enumerate(uu):
                        q = min(int(x) - 1, cf.shape[2 + td] - 4)
                        rs.append([(q + k, Bref(x - (q + k))) for k in range(4)])
                    for combo in itertools.product(*rs):
                        wgt = Fraction(1)
                        for _, wv in combo:
                            wgt *= wv
                        if wgt:
                            tot += wgt * Fraction(float(cf[(0, 0) + tuple(j for j, _ in combo)]))
                    return tot
                a = val(data, u)
                b = val(cur, [f * x for x in u])
                worst = max(worst, abs(float(a - b)))
            if worst > 1e-9:
                fail(f"C14:subdivide_cubic_bspline:D{D}:function-changed", f"{nn} x{reps}: spline changed by {worst:.3g} inside its domain", n=nn, reps=reps)
        except Exception as e:  # noqa
            k_ = f"C14:subdivide_cubic_bspline:D{D}:raises"
            fail(k_, f"coefficients of shape (1, 1, {', '.join(map(str, shape_t))}): {type(e).__name__}: {str(e)[:100]}", n=nn)

    # 7. FreeFormDeformation: data_shape, linear exactness, refinement by grid_ keeps the function
    try:
        from deepali.spatial import FreeFormDeformation
    except Exception as e:  # noqa
        FreeFormDeformation = None
        fail("C14:FreeFormDeformation:import", f"{type(e).__name__}: {e}")
    for i in range(max(10, n // 4) if FreeFormDeformation else 0):
        D = [2, 3][i % 2]
        ms = [rng.randint(2, 14 if D == 2 else 7) for _ in range(D)]
        ss = [rng.randint(1, 6) for _ in range(D)]
        sp = [rng.choice([1.0, 0.5, 2.0]) for _ in range(D)]
        tr = i % 3 == 2
        desc = {"D": D, "size": ms, "stride": ss, "transpose": tr}
        bump(f"ffd:D{D}")
        try:
            g = Grid(size=tuple(ms), spacing=tuple(sp), align_corners=True)
            ffd = FreeFormDeformation(g, stride=tuple(ss), transpose=tr)
            nn = [B.cubic_bspline_control_point_grid_size(a, b) for a, b in zip(ms, ss)]
            if tuple(ffd.data_shape) != (D,) + tuple(reversed(nn)):
                fail("C14:BSplineTransform.data_shape:size", f"{desc}: {tuple(ffd.data_shape)} != {(D,) + tuple(reversed(nn))}", case=desc)
                continue
            shape_t = tuple(reversed(nn))
            idx = torch.meshgrid(*[torch.arange(k, dtype=torch.float32) for k in shape_t], indexing="ij")
            a0 = [dy(rng, 2) for _ in range(D)]
            al = [[dy(rng, 2, -1, 1) for _ in range(D)] for _ in range(D)]
            prm = torch.zeros((1, D) + shape_t)
            for c_ in range(D):
                v = torch.full(shape_t, a0[c_])
                for ax in range(D):
                    v = v + al[c_][ax] * (idx[D - 1 - ax] - 1) * ss[ax]
                prm[0, c_] = v
            ffd.data_(prm)
            u = ffd.update().u
            oidx = torch.meshgrid(*[torch.arange(k, dtype=torch.float32) for k in reversed(ms)], indexing="ij")
            worst = 0.0
            for c_ in range(D):
                v = torch.full(tuple(reversed(ms)), a0[c_])
                for ax in range(D):
                    v = v + al[c_][ax] * oidx[D - 1 - ax]
                if tuple(u.shape) != (1, D) + tuple(reversed(ms)):
                    worst = float("inf")
                    break
                worst = max(worst, float((u[0, c_] - v).abs().max()))
            if worst > 2e-4 * (1 + max(ms) * max(ss)):
                fail(f"C14:FreeFormDeformation.update:linear-exact:transpose={tr}", f"{desc}: affine coefficients not reproduced (error {worst:.3g})", case=desc)
            # refinement with random coefficients
            rp = torch.tensor([dy(rng, 2) for _ in range(D * math.prod(shape_t))]).reshape((1, D) + shape_t)
            ffd.data_(rp)
            u1 = ffd.update().u.clone()
            which = [rng.random() < 0.7 for _ in range(D)]
            if not any(which):
                which[0] = True
            new = [2 * m_ - 1 if w_ else m_ for m_, w_ in zip(ms, which)]
            g2 = g.resize(tuple(new))
            bump(f"ffd-refine:D{D}")
            ffd.grid_(g2)
            u2 = ffd.update().u
            sl = (slice(None), slice(None)) + tuple(slice(0, None, 2) if w_ else slice(None) for w_ in reversed(which))
            if tuple(u2.shape[2:]) != tuple(reversed(new)):
                fail("C14:BSplineTransform.grid_:shape", f"{desc} -> {new}: u has shape {tuple(u2.shape)}", case=desc, new=new)
            elif float((u2[sl] - u1).abs().max()) > 2e-4 * (1 + float(u1.abs().max())):
                fail(f"C14:BSplineTransform.grid_:function-changed:transpose={tr}",
                     f"{desc} -> grid size {new}: displacement at the original samples changed by {float((u2[sl] - u1).abs().max()):.3g}", case=desc, new=new)
        except Exception as e:  # noqa
            fail(f"C14:FreeFormDeformation:raises:transpose={tr}", f"{desc}: {type(e).__name__}: {str(e)[:120]}", case=desc)

    # 8. spatial_derivatives(mode='bspline'): analytic derivatives of the spline, divided by spacing^order
    for i in range(max(10, n // 4)):
        D = [2, 3][i % 2]
        nn = [rng.randint(4, 8 if D == 2 else 6) for _ in range(D)]
        shape_t = tuple(reversed(nn))
        N = rng.choice([1, 2])
        ss = [rng.randint(1, 4) for _ in range(D)]
        data = torch.tensor([dy(rng) for _ in range(N * math.prod(shape_t))], dtype=torch.float64).reshape((N, 1) + shape_t)
        form = i % 4
        spv = [[rng.choice([0.5, 1.0, 2.0, 0.25]) for _ in range(D)] for _ in range(N)]
        if form == 0:
            spacing, spv = None, [[1.0] * D] * N
        elif form == 1:
            spacing, spv = spv[0][0], [[spv[0][0]] * D] * N
        elif form == 2:
            spacing, spv = list(spv[0]), [spv[0]] * N
        else:
            spacing = [list(r_) for r_ in spv]
        letters = "xyz"[:D]
        keys = [a for a in letters] + [a + b for a in letters for b in letters]
        keys3 = [a + b + c_ for a in letters for b in letters for c_ in letters]
        which = (rng.sample(keys, rng.randint(1, len(keys))) + rng.sample(keys3, 2)) if i % 3 else None
        desc = {"D": D, "shape": list(shape_t), "stride": ss, "spacing": spacing, "which": which}
        bump(f"sderiv-bspline:D{D}")
        try:
            r = spatial_derivatives(data, which=which, mode="bspline", spacing=spacing, stride=tuple(ss),
                                    **({"order": 1} if which is None else {}))
            if which is not None and set(r.keys()) != set(which):
                # mixed keys are returned under the requested spelling
                fail("C14:spatial_derivatives:bspline:keys", f"{desc}: keys {sorted(r.keys())} != requested {sorted(which)}", case=desc)
            for key, v in r.items():
                der = [key.count(letters[ax]) for ax in range(D)]
                want_shape = (N, 1) + tuple((k - 3) * s_ for k, s_ in zip(shape_t, reversed(ss)))
                if tuple(v.shape) != want_shape:
                    fail("C14:spatial_derivatives:bspline:shape", f"{desc} key {key}: shape {tuple(v.shape)} != {want_shape}", case=desc)
                    break
                b_ = rng.randrange(N)
                bad = False
                for _ in range(4):
                    pt = tuple(rng.randrange(k) for k in want_shape[2:])
                    ranges = []
                    for td in range(D):
                        s_ = ss[D - 1 - td]
                        q = pt[td] // s_
                        dd = der[D - 1 - td]
                        ranges.append([(q + k, Bref(Fraction(pt[td], s_) - (q + k - 1), dd)) for k in range(4)])
                    val = Fraction(0)
                    for combo in itertools.product(*ranges):
                        wgt = Fraction(1)
                        for _, wv in combo:
                            wgt *= wv
                        if wgt:
                            val += wgt * Fraction(float(data[(b_, 0) + tuple(j for j, _ in combo)]))
                    den = 1.0
                    for ax in range(D):
                        den *= spv[b_][ax] ** der[ax]
                    wantv = float(val) / den
                    if abs(float(v[(b_, 0) + pt]) - wantv) > 1e-6 * (1 + abs(wantv)):
                        fail(f"C14:spatial_derivatives:bspline:value",
                             f"{desc} key {key}: value {float(v[(b_, 0) + pt])} at {pt}, analytic {wantv}", case=desc, dkey=key)
                        bad = True
                        break
                if bad:
                    break
        except Exception as e:  # noqa
            fail("C14:spatial_derivatives:bspline:raises", f"{desc}: {type(e).__name__}: {str(e)[:120]}", case=desc)
    return {"fails": fails, "counts": counts}


if __name__ == "__main__":
    payload = json.load(sys.stdin)
    fn = payload.pop("fn")
    emit_json({"model_cases": model_cases, "oracle": oracle}[fn](payload))
