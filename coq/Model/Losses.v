(* Hand-written model of deepali/losses/functional.py (image similarity and overlap losses) on
   flattened images: a list of any length is an image of any shape.  Definitions only.
   The algebraic part is over an abstract field K; the parts that need |.| and comparisons take
   them as parameters (fabs, fleb), instantiated by Qc (executable) and R (theorems). *)
From Coq Require Import ZArith List Bool.
From DV Require Import Base.Field Base.LinAlg.
Import ListNotations.
Local Open Scope fld_scope.

Inductive reduction := RNone | RMean | RSum.

(* ---------------------------------------------------------------------------------------------- *)
(* index arithmetic of box windows on a row-major lattice (no field involved)                       *)
(* ---------------------------------------------------------------------------------------------- *)
Definition prodn (l : list nat) : nat := fold_right Nat.mul 1%nat l.

Fixpoint unflat (sh : list nat) (i : nat) : list nat :=
  match sh with
  | [] => []
  | _ :: r => let s := prodn r in (i / s)%nat :: unflat r (i mod s)%nat
  end.

Fixpoint flat (sh idx : list nat) : nat :=
  match sh, idx with
  | _ :: r, c :: cr => (c * prodn r + flat r cr)%nat
  | _, _ => 0%nat
  end.

(* in-range members of the window of size k (padding k/2 on both sides) centred at c, along an
   axis with n samples: j with c - k/2 <= j <= c - k/2 + k - 1 *)
Definition win (n k c : nat) : list nat :=
  filter (fun j => Nat.leb c (j + k / 2) && Nat.leb (j + k / 2 + 1) (c + k)) (seq 0 n).

Fixpoint cart (ls : list (list nat)) : list (list nat) :=
  match ls with
  | [] => [[]]
  | l :: r => flat_map (fun a => map (cons a) (cart r)) l
  end.

Fixpoint wins (sh ks idx : list nat) : list (list nat) :=
  match sh, ks, idx with
  | n :: sr, k :: kr, c :: cr => win n k c :: wins sr kr cr
  | _, _, _ => []
  end.

(* flat indices of the in-domain window members of flat index i (zero padding contributes nothing) *)
Definition box_nb (sh ks : list nat) (i : nat) : list nat :=
  map (flat sh) (cart (wins sh ks (unflat sh i))).

Definition all_odd (ks : list nat) : bool := forallb Nat.odd ks.

(* broadcasting of a leading dimension of size 1 (torch semantics for masks (1|N, 1|C, ...)) *)
Definition expand_dim {A : Type} (n : nat) (l : list A) : option (list A) :=
  match l with
  | [a] => Some (repeat a n)
  | _ => if Nat.eqb (length l) n then Some l else None
  end.

Fixpoint opt_all {A : Type} (l : list (option A)) : option (list A) :=
  match l with
  | [] => Some []
  | None :: _ => None
  | Some a :: r => match opt_all r with Some r' => Some (a :: r') | None => None end
  end.

(* mask of shape (Nm, Cm, X) expanded to (N, C, X); None = the shape check of masked_loss fails *)
Definition expand_mask {A : Type} (N C : nat) (m : list (list A)) : option (list (list A)) :=
  match expand_dim N m with
  | None => None
  | Some mn => opt_all (map (expand_dim C) mn)
  end.

Definition list_eqb (a b : list nat) : bool :=
  Nat.eqb (length a) (length b) && forallb (fun p => Nat.eqb (fst p) (snd p)) (combine a b).

Section Losses.
Context {K : fld}.
Notation vec := (list K).

Definition of_nat (n : nat) : K := of_Z (Z.of_nat n).
Definition vmean (a : vec) : K := vsum a / of_nat (length a).
Definition flat3 (t : list (list vec)) : vec := concat (map (@concat K) t).

(* ---- reduce_loss / masked_loss ---------------------------------------------------------------- *)
Definition masked_loss (l : vec) (m : option vec) : vec :=
  match m with None => l | Some w => vmul l w end.

Definition reduce_loss (r : reduction) (l : vec) (m : option vec) : vec :=
  match r with
  | RNone => l
  | RSum => [vsum l]
  | RMean => match m with None => [vmean l] | Some w => [vsum l / vsum w] end
  end.

(* ---- elementwise losses ------------------------------------------------------------------------ *)
Definition sqd (x y : K) : K := (x - y) * (x - y).

Section Ordered.
Variable fabs : K -> K.
Variable fleb : K -> K -> bool.       (* a <= b *)

Definition absd (x y : K) : K := fabs (x - y).
(* torch.nn.functional.huber_loss / smooth_l1_loss, pointwise *)
Definition huber (delta : K) (x y : K) : K :=
  let d := fabs (x - y) in
  if fleb d delta then d * d / (1 + 1) else delta * (d - delta / (1 + 1)).
Definition smooth_l1 (beta : K) (x y : K) : K :=
  let d := fabs (x - y) in
  if fleb beta d then d - beta / (1 + 1) else d * d / ((1 + 1) * beta).

(* `norm` is applied only when positive *)
Definition apply_norm (norm : option K) (v : vec) : vec :=
  match norm with
  | None => v
  | Some c => if fleb c 0 then v else map (fun a => a / c) v
  end.

(* elementwise_loss / ssd_loss on flattened tensors, mask already broadcast *)
Definition elementwise_loss (f : K -> K -> K) (r : reduction) (x y : vec) (m : option vec)
    (norm : option K) : vec :=
  apply_norm norm (reduce_loss r (masked_loss (vmap2 f x y) m) m).
End Ordered.

(* division by a given non-zero factor (the branch taken for norm > 0) *)
Definition div_norm (c : K) (v : vec) : vec := map (fun a => a / c) v.
Definition pointwise_loss (f : K -> K -> K) (r : reduction) (x y : vec) (m : option vec) : vec :=
  reduce_loss r (masked_loss (vmap2 f x y) m) m.

(* binary masks given by booleans *)
Definition mask_of (b : list bool) : vec := map (fun c : bool => if c then 1 else 0) b.
Fixpoint select (b : list bool) (l : vec) : vec :=
  match b, l with
  | c :: b', a :: l' => if c then a :: select b' l' else select b' l'
  | _, _ => []
  end.

(* specification: (x, y) and (x', y') agree wherever the mask is non-zero *)
Inductive same_on_mask : vec -> vec -> vec -> vec -> vec -> Prop :=
| som_nil : same_on_mask [] [] [] [] []
| som_zero m x x' y y' a a' b b' :
    same_on_mask m x x' y y' -> same_on_mask (0 :: m) (a :: x) (a' :: x') (b :: y) (b' :: y')
| som_keep m x x' y y' w a b :
    same_on_mask m x x' y y' -> same_on_mask (w :: m) (a :: x) (a :: x') (b :: y) (b :: y').

(* ---- correlation ------------------------------------------------------------------------------ *)
Definition cc_score (eps a b c : K) : K := 1 - a * a / (b * c + eps).
Definition center (v : vec) : vec := map (fun a => a - vmean v) v.
(* ncc_loss for one batch item (all channels and points flattened together) *)
Definition ncc_one (eps : K) (s t : vec) : K :=
  let x := center s in let y := center t in cc_score eps (dot x y) (dot x x) (dot y y).

(* ncc_loss with a mask: weighted normalized cross correlation (weights w = mask broadcast to the image) *)
Definition wmean (v w : vec) : K := vsum (vmul v w) / vsum w.
Definition wcenter (v w : vec) : vec := map (fun a => a - wmean v w) v.
Definition ncc_w (eps : K) (s t w : vec) : K :=
  let x := wcenter s w in let y := wcenter t w in
  cc_score eps (vsum (vmul (vmul x w) y)) (vsum (vmul (vmul x w) x)) (vsum (vmul (vmul y w) y)).

(* windows: nb i = indices that contribute to the window sum at i *)
Definition gather (nbi : list nat) (d : vec) : vec := map (fun j => nth j d 0) nbi.
Definition idxs (d : vec) : list nat := seq 0 (length d).
Definition local_sum (nb : nat -> list nat) (d : vec) : vec :=
  map (fun i => vsum (gather (nb i) d)) (idxs d).
(* avg_pool(count_include_pad=False): divisor = number of in-domain window members *)
Definition local_mean (nb : nat -> list nat) (d : vec) : vec :=
  map (fun i => vsum (gather (nb i) d) / of_nat (length (nb i))) (idxs d).
(* weighted local mean of wlcc_loss *)
Definition local_wmean (nb : nat -> list nat) (eps : K) (d w : vec) : vec :=
  vdiv (local_sum nb (vmul d w)) (map (fun b => b + eps) (local_sum nb w)).

Definition cc_map (eps : K) (a b c : vec) : vec :=
  map (fun p => cc_score eps (fst (fst p)) (snd (fst p)) (snd p)) (combine (combine a b) c).

Definition lcc_none (nb : nat -> list nat) (eps : K) (s t : vec) : vec :=
  let x := vsub s (local_mean nb s) in
  let y := vsub t (local_mean nb t) in
  cc_map eps (local_sum nb (vmul x y)) (local_sum nb (vmul x x)) (local_sum nb (vmul y y)).

Definition lcc_loss (r : reduction) (nb : nat -> list nat) (eps : K) (s t : vec) (m : option vec) : vec :=
  reduce_loss r (masked_loss (lcc_none nb eps s t) m) m.

(* wlcc_loss for one image; wc / ws / wt = mask / source_mask / target_mask after the defaulting
   rules of the code (see wlcc_masks) *)
Definition opt_mul (x : vec) (w : option vec) : vec := match w with None => x | Some m => vmul x m end.
Definition wmean_opt (nb : nat -> list nat) (eps : K) (d : vec) (w : option vec) : vec :=
  match w with None => local_mean nb d | Some m => local_wmean nb eps d m end.
Definition wlcc_none (nb : nat -> list nat) (eps : K) (s t : vec) (wc ws wt : option vec) : vec :=
  let x := opt_mul (vsub s (wmean_opt nb eps s ws)) wc in
  let y := opt_mul (vsub t (wmean_opt nb eps t wt)) wc in
  cc_map eps (local_sum nb (vmul x y)) (local_sum nb (vmul x x)) (local_sum nb (vmul y y)).
(* defaulting of the three masks: (mask, source_mask, target_mask) -> (wc, ws, wt) *)
Definition wlcc_masks (mask smask tmask : option vec) : option vec * option vec * option vec :=
  match mask, smask, tmask with
  | Some m, None, None => (Some m, Some m, Some m)
  | None, Some a, Some b => (Some (vmul a b), Some a, Some b)
  | _, _, _ => (mask, smask, tmask)
  end.
Definition wlcc_loss (r : reduction) (nb : nat -> list nat) (eps : K) (s t : vec)
    (mask smask tmask : option vec) : vec :=
  let '(wc, ws, wt) := wlcc_masks mask smask tmask in
  reduce_loss r (masked_loss (wlcc_none nb eps s t wc ws wt) wc) wc.

(* ---- overlap ----------------------------------------------------------------------------------- *)
Definition dotw (a b : vec) (w : option vec) : K :=
  match w with None => dot a b | Some m => vsum (vmul (vmul a b) m) end.
Definition ones_minus (a : vec) : vec := map (fun v => 1 - v) a.
Definition dice_score (eps : K) (p t : vec) (w : option vec) : K :=
  (dotw p t w * (1 + 1) + eps) / (dotw p p w + dotw t t w + eps).
Definition tversky_index (alpha beta eps : K) (p t : vec) (w : option vec) : K :=
  let num := dotw p t w + eps in
  num / (num + dotw p (ones_minus t) w * alpha + dotw (ones_minus p) t w * beta).
Definition binary (v : vec) : Prop := Forall (fun a => a = 0 \/ a = 1) v.

(* ---- mutual information: structure only (Parzen window pw and logarithm lg abstract) ----------- *)
Section MI.
Variable pw : K -> nat -> K.          (* response of bin a to intensity v *)
Variable lg : K -> K.
Variable nbins : nat.
Definition sumn (n : nat) (f : nat -> K) : K := vsum (map f (seq 0 n)).
Definition hist_joint (x y : vec) (a b : nat) : K := dot (map (fun v => pw v a) x) (map (fun v => pw v b) y).
Definition hist_norm (x y : vec) (c : K) : K := sumn nbins (fun a => sumn nbins (fun b => hist_joint x y a b)) + c.
Definition p_joint (x y : vec) (c : K) (a b : nat) : K := hist_joint x y a b / hist_norm x y c.
Definition ent (c : K) (n : nat) (p : nat -> K) : K := - sumn n (fun a => p a * lg (p a + c)).
Definition ent_in (x y : vec) (c : K) := ent c nbins (fun a => sumn nbins (fun b => p_joint x y c a b)).
Definition ent_tg (x y : vec) (c : K) := ent c nbins (fun b => sumn nbins (fun a => p_joint x y c a b)).
Definition ent_joint (x y : vec) (c : K) :=
  - sumn nbins (fun a => sumn nbins (fun b => p_joint x y c a b * lg (p_joint x y c a b + c))).
Definition mi_one (x y : vec) (c : K) : K := ent_in x y c + ent_tg x y c - ent_joint x y c.
Definition nmi_one (x y : vec) (c : K) : K := (ent_in x y c + ent_tg x y c) / ent_joint x y c.
End MI.
End Losses.

(* ---- batched entry points (N x C x X nested lists) used by the correspondence -------------------- *)
Section Batched.
Context {K : fld}.
Notation vec := (list K).
Notation img := (list (list (list K))).
Variable fabs : K -> K.
Variable fleb : K -> K -> bool.

Definition nchan (x : img) : nat := match x with [] => 0%nat | c :: _ => length c end.

(* masked_loss shape rule; None = ValueError *)
Definition bmask (x : img) (shx : list nat) (m : option (img * list nat)) : option (option vec) :=
  match m with
  | None => Some None
  | Some (mm, shm) =>
      if list_eqb shm shx then
        match expand_mask (length x) (nchan x) mm with
        | Some e => Some (Some (flat3 e))
        | None => None
        end
      else None
  end.

Definition b_elementwise (f : K -> K -> K) (r : reduction) (x y : img) (shx : list nat)
    (m : option (img * list nat)) (norm : option K) : option vec :=
  match bmask x shx m with
  | None => None
  | Some mo => Some (elementwise_loss fleb f r (flat3 x) (flat3 y) mo norm)
  end.

Definition map2o {A B C : Type} (f : A -> B -> C) (a : list A) (b : list B) : list C :=
  map (fun p => f (fst p) (snd p)) (combine a b).

(* lcc_loss: windows per (n, c) image *)
Definition b_lcc (r : reduction) (sh ks : list nat) (eps : K) (x y : img) (m : option (img * list nat)) : option vec :=
  if all_odd ks then
    match bmask x sh m with
    | None => None
    | Some mo =>
        let l := concat (map2o (fun xn yn => concat (map2o (fun xc yc => lcc_none (box_nb sh ks) eps xc yc) xn yn)) x y) in
        Some (reduce_loss r (masked_loss l mo) mo)
    end
  else None.

Definition oimg (N C : nat) (m : option (img * list nat)) : option (option img) :=
  match m with
  | None => Some None
  | Some (mm, _) => match expand_mask N C mm with Some e => Some (Some e) | None => None end
  end.
Definition pick (m : option img) (n c : nat) : option vec :=
  match m with None => None | Some e => Some (nth c (nth n e []) []) end.

Definition b_wlcc (r : reduction) (sh ks : list nat) (eps : K) (x y : img)
    (mask smask tmask : option (img * list nat)) : option vec :=
  if all_odd ks then
    match oimg (length x) (nchan x) mask, oimg (length x) (nchan x) smask, oimg (length x) (nchan x) tmask with
    | Some mo, Some so, Some to =>
        let cell n c :=
          let '(wc, ws, wt) := wlcc_masks (pick mo n c) (pick so n c) (pick to n c) in
          (wlcc_none (box_nb sh ks) eps (nth c (nth n x []) []) (nth c (nth n y []) []) wc ws wt, wc) in
        let cells := flat_map (fun n => map (fun c => cell n c) (seq 0 (nchan x))) (seq 0 (length x)) in
        let l := concat (map fst cells) in
        let w := match fst (fst (wlcc_masks (pick mo 0 0) (pick so 0 0) (pick to 0 0))) with
                 | None => None
                 | Some _ => Some (concat (map (fun p => match snd p with Some v => v | None => [] end) cells))
                 end in
        Some (reduce_loss r (masked_loss l w) w)
    | _, _, _ => None
    end
  else None.

(* ncc_loss: one score per batch item (all channels and points of the item flattened together); a mask of shape
   (1|N, 1|C, X) is broadcast to the image and used as weight *)
Definition b_ncc (r : reduction) (eps : K) (x y : img) (shx : list nat) (m : option (img * list nat)) : option vec :=
  match m with
  | None => Some (reduce_loss r (map2o (fun xn yn => ncc_one eps (concat xn) (concat yn)) x y) None)
  | Some (mm, shm) =>
      if list_eqb shm shx then
        match expand_mask (length x) (nchan x) mm with
        | Some e => Some (reduce_loss r (map (fun p => ncc_w eps (concat (fst (fst p))) (concat (snd (fst p))) (concat (snd p)))
                                           (combine (combine x y) e)) None)
        | None => None
        end
      else None
  end.

(* dice_score / tversky_index: one value per (n, c); weight (1|N, 1|C, X) *)
Definition b_overlap (score : vec -> vec -> option vec -> K) (r : reduction) (x y : img)
    (w : option (img * list nat)) : option vec :=
  match oimg (length x) (nchan x) w with
  | None => None
  | Some wo =>
      let cells := flat_map (fun n => map (fun c => score (nth c (nth n x []) []) (nth c (nth n y []) []) (pick wo n c))
                                          (seq 0 (nchan x))) (seq 0 (length x)) in
      Some (reduce_loss r cells None)
  end.
End Batched.

(* ---- tversky_loss: (1 - Tversky index)^gamma; gamma = 0 stands for None (and gamma = 1): no exponent;
   non-integer or smaller exponents are outside the model (gamma < 1 is rejected by the code) ----------- *)
Section TverskyLoss.
Context {K : fld}.
Fixpoint fpow (x : K) (n : nat) : K := match n with O => 1 | S n' => x * fpow x n' end.
Definition tversky_loss (gamma : nat) (alpha beta eps : K) (p t : list K) (w : option (list K)) : K :=
  fpow (1 - tversky_index alpha beta eps p t w) (Nat.max gamma 1).
Definition dice_loss (eps : K) (p t : list K) (w : option (list K)) : K := 1 - dice_score eps p t w.
End TverskyLoss.
