From Coq Require Import ZArith List Field Ring Lia.
From DV Require Import Base.Field Base.FieldFacts Base.LinAlg Base.Tactics Model.Enums Model.Homog Model.Grid
  Gen.GridT Proofs.C01Grid.
Import ListNotations.
Local Open Scope fld_scope.

Definition cube_T {K : fld} (D : nat) (to_world corners : bool) (e c : list K) (d : list (list K)) : list (list K) :=
  match D, to_world, corners with
  | 2%nat, true, false => gen_cubeT_CW_2 e c d | 2%nat, true, true => gen_cubeT_KW_2 e c d
  | 2%nat, false, false => gen_cubeT_WC_2 e c d | 2%nat, false, true => gen_cubeT_WK_2 e c d
  | 3%nat, true, false => gen_cubeT_CW_3 e c d | 3%nat, true, true => gen_cubeT_KW_3 e c d
  | 3%nat, false, false => gen_cubeT_WC_3 e c d | 3%nat, false, true => gen_cubeT_WK_3 e c d
  | _, _, _ => []
  end.

Section Cube.
Variable K : fld.
Hypothesis Kf : is_field K.
Hypothesis Kc : char0 K.
Add Field KF4 : Kf.
Let K1 := K1nz K Kf.
Let K2 := K2nz K Kf Kc.
Hint Resolve K1 K2 : core.
Ltac side := repeat split; auto.
Ltac len2 X H := destruct X as [|?x0 [|?x1 [|? ?]]]; try discriminate H; clear H.
Ltac len3 X H := destruct X as [|?x0 [|?x1 [|?x2 [|? ?]]]]; try discriminate H; clear H.

(* the cube <-> world maps of the domain object are the CUBE_CORNERS <-> WORLD maps of the grid with
   three samples per axis, spacing extent/2, the same center and direction (for either cube axes name) *)
Lemma rule2' (a b r : K) : a + (b + 0) = r -> a = r - b.
Proof. intros <-. ring. Qed.
Lemma rule3' (a b c r : K) : a + (b + (c + 0)) = r -> a = r - b - c.
Proof. intros <-. ring. Qed.

Lemma cube_is_three_point_grid (D : nat) (corners : bool) (e c : nat -> K) (d : nat -> nat -> K) (X : list K) :
  D = 2%nat \/ D = 3%nat -> (forall i, (i < D)%nat -> e i <> 0) -> orthonormal D (tab D D d) -> length X = D ->
  let three := vtab D (fun _ => 1 + 1 + 1) in
  let sp := vtab D (fun i => e i / (1 + 1)) in
  happly D (cube_T D true corners (vtab D e) (vtab D c) (tab D D d)) X
  = gen_pts D CUBE_CORNERS WORLD three sp (vtab D c) (tab D D d) X
  /\ happly D (cube_T D false corners (vtab D e) (vtab D c) (tab D D d)) X
  = gen_pts D WORLD CUBE_CORNERS three sp (vtab D c) (tab D D d) X.
Proof.
  intros HD He [Ho _] HX.
  assert (K3 : (1 + 1 + 1 : K) <> 0).
  { intro E. apply (Kc 3%positive). cbn [of_pos]. rewrite <- E. ring. }
  destruct HD as [-> | ->]; [len2 X HX | len3 X HX];
    pose proof (He 0%nat ltac:(lia)); pose proof (He 1%nat ltac:(lia)); try pose proof (He 2%nat ltac:(lia));
    fcbv_in Ho.
  - injection Ho as R00 R01 R10 R11. apply rule2' in R00, R01, R11.
    destruct corners; split; fcbv; list_eq; field [R00 R01 R11]; side.
  - injection Ho as R00 R01 R02 R10 R11 R12 R20 R21 R22.
    apply rule3' in R00, R01, R02, R11, R12, R22.
    destruct corners; (split; (fcbv; (list_eq; [field [R00 R01 R02] | field [R01 R11 R12] | field [R02 R12 R22]]))); side.
Qed.
End Cube.

(* two cubes: the matrix Cube.transform returns when to_cube is given *)
Definition cube2_T {K : fld} (D : nat) (from_world to_world vectors : bool) (e c : list K) (d : list (list K))
    (te tc : list K) (td : list (list K)) : list (list K) :=
  match D, from_world, to_world, vectors with
  | 2%nat, false, false, false => gen_cube2T_CC_2 e c d te tc td | 2%nat, false, false, true => gen_cube2Tv_CC_2 e c d te tc td
  | 2%nat, false, true, false => gen_cube2T_CW_2 e c d te tc td | 2%nat, false, true, true => gen_cube2Tv_CW_2 e c d te tc td
  | 2%nat, true, false, false => gen_cube2T_WC_2 e c d te tc td | 2%nat, true, false, true => gen_cube2Tv_WC_2 e c d te tc td
  | 3%nat, false, false, false => gen_cube2T_CC_3 e c d te tc td | 3%nat, false, false, true => gen_cube2Tv_CC_3 e c d te tc td
  | 3%nat, false, true, false => gen_cube2T_CW_3 e c d te tc td | 3%nat, false, true, true => gen_cube2Tv_CW_3 e c d te tc td
  | 3%nat, true, false, false => gen_cube2T_WC_3 e c d te tc td | 3%nat, true, false, true => gen_cube2Tv_WC_3 e c d te tc td
  | _, _, _, _ => []
  end.
Definition cube_Tv {K : fld} (D : nat) (to_world : bool) (e c : list K) (d : list (list K)) : list (list K) :=
  match D, to_world with
  | 2%nat, true => gen_cubeTv_CW_2 e c d | 2%nat, false => gen_cubeTv_WC_2 e c d
  | 3%nat, true => gen_cubeTv_CW_3 e c d | 3%nat, false => gen_cubeTv_WC_3 e c d
  | _, _ => []
  end.

Section TwoCubes.
Variable K : fld.
Hypothesis Kf : is_field K.
Hypothesis Kc : char0 K.
Add Field KF4b : Kf.
Let K2 := K2nz K Kf Kc.
Hint Resolve K2 : core.
Ltac len2 X H := destruct X as [|?x0 [|?x1 [|? ?]]]; try discriminate H; clear H.
Ltac len3 X H := destruct X as [|?x0 [|?x1 [|?x2 [|? ?]]]]; try discriminate H; clear H.

(* with to_cube given, every axes pair is "this cube -> world -> other cube": points and vectors, D = 2, 3, any two
   cubes with non-zero extents (no orthonormality needed: it is associativity of the matrix products the code forms) *)
Lemma cube_two_through_world (D : nat) (e c te tc : nat -> K) (d td : nat -> nat -> K) (X : list K) :
  D = 2%nat \/ D = 3%nat -> (forall i, (i < D)%nat -> e i <> 0) -> (forall i, (i < D)%nat -> te i <> 0) -> length X = D ->
  let E := vtab D e in let C := vtab D c in let Dm := tab D D d in
  let TE := vtab D te in let TC := vtab D tc in let TD := tab D D td in
  (* CUBE -> CUBE of the other cube *)
  happly D (cube2_T D false false false E C Dm TE TC TD) X
    = happly D (cube_T D false false TE TC TD) (happly D (cube_T D true false E C Dm) X) /\
  mv (cube2_T D false false true E C Dm TE TC TD) X = mv (cube_Tv D false TE TC TD) (mv (cube_Tv D true E C Dm) X) /\
  (* WORLD -> CUBE of the other cube: the other cube's map, not this cube's *)
  happly D (cube2_T D true false false E C Dm TE TC TD) X = happly D (cube_T D false false TE TC TD) X /\
  mv (cube2_T D true false true E C Dm TE TC TD) X = mv (cube_Tv D false TE TC TD) X /\
  (* CUBE -> WORLD does not depend on the other cube *)
  happly D (cube2_T D false true false E C Dm TE TC TD) X = happly D (cube_T D true false E C Dm) X /\
  mv (cube2_T D false true true E C Dm TE TC TD) X = mv (cube_Tv D true E C Dm) X.
Proof.
  intros HD He Hte HX.
  destruct HD as [-> | ->]; [len2 X HX | len3 X HX];
    pose proof (He 0%nat ltac:(lia)); pose proof (He 1%nat ltac:(lia)); try pose proof (He 2%nat ltac:(lia));
    pose proof (Hte 0%nat ltac:(lia)); pose proof (Hte 1%nat ltac:(lia)); try pose proof (Hte 2%nat ltac:(lia));
    repeat split; fcbv; list_eq; field; repeat split; auto.
Qed.
End TwoCubes.
