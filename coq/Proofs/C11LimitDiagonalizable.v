(* Convergence of the closed form of scaling and squaring for DIAGONALISABLE linear generators in 2-D (off-diagonal entries
   allowed): G = P diag(gx, gy) P^-1 with det P <> 0 (every symmetric generator, every generator with two distinct real
   eigenvalues).  (I + G/2^k)^(2^k) = P diag((1+gx/2^k)^(2^k), (1+gy/2^k)^(2^k)) P^-1 for every k, hence every entry tends to
   the entry of P diag(e^gx, e^gy) P^-1 = exp(G). *)
From Coq Require Import Reals Lra Lia List.
From Coquelicot Require Import Coquelicot.
From DV Require Import Base.Field Base.LinAlg Base.RInst Base.Tactics Model.Sampler Model.Flow Proofs.C11Compose
  Proofs.C11Limit Proofs.C11LimitModel.
Import ListNotations.
Local Open Scope R_scope.

(* P diag(a, b) P^-1 for P = [[p q] [r s]], as a homogeneous matrix without translation *)
Definition conj_diag (p q r s a b : R) : list (list R) :=
  let d := p * s - q * r in
  H2 (K:=RF) ((p * a * s - q * b * r) / d) ((q * b * p - p * a * q) / d) 0
             ((r * a * s - s * b * r) / d) ((s * b * p - r * a * q) / d) 0.

Lemma conj_diag_one p q r s : p * s - q * r <> 0 -> conj_diag p q r s 1 1 = hid (K:=RF) 2.
Proof. intro Hd. unfold conj_diag, hid, H2. cbn. list_eq; cbn; field; exact Hd. Qed.

Lemma conj_diag_mul p q r s a b c d : p * s - q * r <> 0 ->
  hcomp (K:=RF) 2 (conj_diag p q r s a b) (conj_diag p q r s c d) = conj_diag p q r s (a * c) (b * d).
Proof.
  intro Hd. unfold conj_diag. rewrite (hcomp2_H2 RF RF_field). unfold H2. list_eq; cbn; field; exact Hd.
Qed.

Lemma hpow_conj_diag p q r s a b m : p * s - q * r <> 0 ->
  hpow (K:=RF) 2 (conj_diag p q r s a b) m = conj_diag p q r s (a ^ m) (b ^ m).
Proof.
  intro Hd. induction m as [|m IH]; cbn [hpow pow].
  - symmetry. apply conj_diag_one. exact Hd.
  - rewrite IH. apply conj_diag_mul. exact Hd.
Qed.

Lemma hone_plus_conj_diag p q r s c gx gy : p * s - q * r <> 0 ->
  hone_plus (K:=RF) 2 c (conj_diag p q r s gx gy) = conj_diag p q r s (1 + c * gx) (1 + c * gy).
Proof. intro Hd. unfold hone_plus, hid, conj_diag, H2. cbn. list_eq; cbn; field; exact Hd. Qed.

Lemma lim_lincomb (u v : nat -> R) (a b lu lv : R) :
  is_lim_seq u lu -> is_lim_seq v lv -> is_lim_seq (fun k => a * u k + b * v k) (a * lu + b * lv).
Proof.
  intros Hu Hv. apply is_lim_seq_plus'.
  - apply (is_lim_seq_scal_l u a (Finite lu)). exact Hu.
  - apply (is_lim_seq_scal_l v b (Finite lv)). exact Hv.
Qed.

Theorem closed_form_converges_diagonalisable2 (p q r s gx gy : R) : p * s - q * r <> 0 ->
  let A := fun k : nat => hpow (K:=RF) 2 (hone_plus (K:=RF) 2 (/ 2 ^ k) (conj_diag p q r s gx gy)) (2 ^ k) in
  let E := conj_diag p q r s (exp gx) (exp gy) in
  (forall k, A k = conj_diag p q r s ((1 + gx / 2 ^ k) ^ (2 ^ k)) ((1 + gy / 2 ^ k) ^ (2 ^ k))) /\
  (forall i j, (i < 2)%nat -> (j < 3)%nat -> is_lim_seq (fun k => hentry (A k) i j) (hentry E i j)).
Proof.
  intros Hd A E.
  assert (EA : forall k, A k = conj_diag p q r s ((1 + gx / 2 ^ k) ^ (2 ^ k)) ((1 + gy / 2 ^ k) ^ (2 ^ k))).
  { intro k. unfold A. rewrite hone_plus_conj_diag by exact Hd. rewrite hpow_conj_diag by exact Hd.
    unfold Rdiv. now rewrite !(Rmult_comm (/ 2 ^ k)). }
  split; [exact EA|].
  pose proof (scalar_scaling_and_squaring_converges gx) as Lx.
  pose proof (scalar_scaling_and_squaring_converges gy) as Ly.
  set (d := p * s - q * r) in *.
  intros i j Hi Hj.
  destruct i as [|[|i]]; [| |lia]; (destruct j as [|[|[|j]]]; [| | |lia]).
  - apply is_lim_seq_ext with (fun k => (p * s / d) * (1 + gx / 2 ^ k) ^ (2 ^ k) + (- (q * r) / d) * (1 + gy / 2 ^ k) ^ (2 ^ k)).
    + intro k. rewrite EA. unfold conj_diag, H2, hentry. cbn. fold d. field. exact Hd.
    + replace (hentry E 0 0) with ((p * s / d) * exp gx + (- (q * r) / d) * exp gy)
        by (unfold E, conj_diag, H2, hentry; cbn; fold d; field; exact Hd).
      apply lim_lincomb; assumption.
  - apply is_lim_seq_ext with (fun k => (- (p * q) / d) * (1 + gx / 2 ^ k) ^ (2 ^ k) + (q * p / d) * (1 + gy / 2 ^ k) ^ (2 ^ k)).
    + intro k. rewrite EA. unfold conj_diag, H2, hentry. cbn. fold d. field. exact Hd.
    + replace (hentry E 0 1) with ((- (p * q) / d) * exp gx + (q * p / d) * exp gy)
        by (unfold E, conj_diag, H2, hentry; cbn; fold d; field; exact Hd).
      apply lim_lincomb; assumption.
  - apply is_lim_seq_ext with (fun _ => 0); [intro k; now rewrite EA | apply is_lim_seq_const].
  - apply is_lim_seq_ext with (fun k => (r * s / d) * (1 + gx / 2 ^ k) ^ (2 ^ k) + (- (s * r) / d) * (1 + gy / 2 ^ k) ^ (2 ^ k)).
    + intro k. rewrite EA. unfold conj_diag, H2, hentry. cbn. fold d. field. exact Hd.
    + replace (hentry E 1 0) with ((r * s / d) * exp gx + (- (s * r) / d) * exp gy)
        by (unfold E, conj_diag, H2, hentry; cbn; fold d; field; exact Hd).
      apply lim_lincomb; assumption.
  - apply is_lim_seq_ext with (fun k => (- (r * q) / d) * (1 + gx / 2 ^ k) ^ (2 ^ k) + (s * p / d) * (1 + gy / 2 ^ k) ^ (2 ^ k)).
    + intro k. rewrite EA. unfold conj_diag, H2, hentry. cbn. fold d. field. exact Hd.
    + replace (hentry E 1 1) with ((- (r * q) / d) * exp gx + (s * p / d) * exp gy)
        by (unfold E, conj_diag, H2, hentry; cbn; fold d; field; exact Hd).
      apply lim_lincomb; assumption.
  - apply is_lim_seq_ext with (fun _ => 0); [intro k; now rewrite EA | apply is_lim_seq_const].
Qed.

(* the conjugated matrix really is P diag(a, b) P^-1: multiplying by P on the right gives P diag(a, b) *)
Lemma conj_diag_is_conjugation p q r s a b : p * s - q * r <> 0 ->
  hcomp (K:=RF) 2 (conj_diag p q r s a b) (H2 (K:=RF) p q 0 r s 0) = hcomp (K:=RF) 2 (H2 (K:=RF) p q 0 r s 0) (H2 (K:=RF) a 0 0 0 b 0).
Proof.
  intro Hd. unfold conj_diag. rewrite !(hcomp2_H2 RF RF_field). unfold H2. list_eq; cbn; field; exact Hd.
Qed.

(* non-vacuity: the symmetric generator [[0 1] [1 0]] (eigenvalues 1, -1; P = [[1 1] [1 -1]]) is of this form *)
Example conj_diag_symmetric : conj_diag 1 1 1 (-1) 1 (-1) = H2 (K:=RF) 0 1 0 1 0 0.
Proof. unfold conj_diag, H2. list_eq; cbn; field. Qed.
