(* C12: second derivatives (repeated first differences, with the prewitt / sobel cross-smoothing) of quadratic fields
   are exact two points away from the boundary, in 2-D and 3-D, for all six modes, pure and mixed keys. *)
From Coq Require Import ZArith List Field Ring Lia Bool.
From DV Require Import Base.Field Base.FieldFacts Base.LinAlg Base.Tactics Model.BSplineBase Gen.BSpline Model.BSpline
  Gen.FlowDeriv Model.FiniteDiff Proofs.C14Tac Proofs.C14Eval Proofs.C12FD Proofs.C12ND Proofs.C12ND3.
Import ListNotations.
Local Open Scope fld_scope.

Section Defs.
Context {K : fld}.
(* mass the smoothing adds to t^2: (1/3)(1 + 0 + 1) = 2/3 (prewitt), (1/4)(1 + 0 + 1) = 1/2 (sobel) *)
Definition kap (m : fdmode) : K := match m with Prewitt => of_Q 2 3 | Sobel => of_Q 1 2 | _ => 0 end.
(* offset of the one-sided differences on t^2 *)
Definition sig (m : fdmode) : K := match m with Fwd => 1 | Bwd => - (1) | _ => 0 end.
(* index i is at least k away from both ends of an axis of length n *)
Definition inm (k n i : nat) : Prop := (k <= i)%nat /\ (i + k < n)%nat.

(* quadratic polynomial in (X, Y, Z) = (x hx, y hy, z hz) *)
Record quad3 := mkQ3 { qxx : K; qxy : K; qxz : K; qyy : K; qyz : K; qzz : K; lx : K; ly : K; lz : K; c0 : K }.
Definition ev3q (hx hy hz : K) (q : quad3) (z y x : nat) : K :=
  let X := zn x * hx in let Y := zn y * hy in let Z := zn z * hz in
  qxx q * (X * X) + qxy q * (X * Y) + qxz q * (X * Z) + qyy q * (Y * Y) + qyz q * (Y * Z) + qzz q * (Z * Z)
  + lx q * X + ly q * Y + lz q * Z + c0 q.
Definition addc (q : quad3) (c : K) : quad3 :=
  mkQ3 (qxx q) (qxy q) (qxz q) (qyy q) (qyz q) (qzz q) (lx q) (ly q) (lz q) (c0 q + c).
(* what one differentiation step along an axis makes of the polynomial (mode offset sig * q_aa * h_a included) *)
Definition Dq (m : fdmode) (hx hy hz : K) (sd : nat) (q : quad3) : quad3 :=
  match sd with
  | 0%nat => mkQ3 0 0 0 0 0 0 ((1 + 1) * qxx q) (qxy q) (qxz q) (lx q + sig m * (qxx q * hx))
  | 1%nat => mkQ3 0 0 0 0 0 0 (qxy q) ((1 + 1) * qyy q) (qyz q) (ly q + sig m * (qyy q * hy))
  | _ => mkQ3 0 0 0 0 0 0 (qxz q) (qyz q) ((1 + 1) * qzz q) (lz q + sig m * (qzz q * hz))
  end.
Definition quad_field3 (hx hy hz : K) (q : quad3) (nx ny nz : nat) : list (list (list K)) :=
  tab3 nz ny nx (fun z y x => ev3q hx hy hz q z y x).
(* tensor T agrees with the polynomial at every point that is (kz, ky, kx) away from the boundary *)
Definition validm (hx hy hz : K) (nz ny nx kz ky kx : nat) (T : list (list (list K))) (q : quad3) : Prop :=
  forall z y x, inm kz nz z -> inm ky ny y -> inm kx nx x -> at3 T z y x = ev3q hx hy hz q z y x.
End Defs.

Section Proofs.
Variable K : fld.
Hypothesis Kf : is_field K.
Hypothesis Kc : char0 K.
Add Field KF : Kf.
Ltac side := refold K; repeat split; auto; try (nz Kc).

(* ---- local line lemmas: only the stencil's own samples have to be quadratic ---- *)
Section Line.
Variables (al be ga h : K) (n : nat) (g : nat -> K).
Let P (j : nat) : K := al * ((zn j * h) * (zn j * h)) + be * (zn j * h) + ga.

Lemma smooth_local (m : fdmode) (i : nat) : (1 <= i)%nat -> (i + 1 < n)%nat ->
  g (i - 1)%nat = P (i - 1) -> g i = P i -> g (i + 1)%nat = P (i + 1) ->
  nth i (smooth1 m (map g (seq 0 n))) 0 = P i + kap m * (al * (h * h)).
Proof.
  intros H1 H2 Ea Eb Ec.
  assert (G : forall j, (j < n)%nat -> nth j (map g (seq 0 n)) 0 = g j) by (intros; apply (nth_map_seq g); assumption).
  destruct i as [|j]; [lia|]. replace (S j - 1)%nat with j in * by lia. replace (S j + 1)%nat with (S (S j)) in * by lia.
  destruct m; try (cbn [smooth1 kap]; rewrite G by lia; rewrite Eb; ring);
  unfold smooth1; rewrite (nth_avg1 K) by (rewrite map_length, seq_length; lia); rewrite map_length, seq_length;
  cbn [Nat.pred]; unfold nxt; replace (Nat.min (S (S j)) (n - 1)) with (S (S j)) by lia; rewrite !G by lia;
  rewrite Ea, Eb, Ec; unfold P; rewrite !(zn_S K Kf); fcbv; field; side.
Qed.

Lemma diff_local (m : fdmode) (i : nat) : h <> 0 -> (1 <= i)%nat -> (i + 1 < n)%nat ->
  g (i - 1)%nat = P (i - 1) -> g i = P i -> g (i + 1)%nat = P (i + 1) ->
  nth i (fd1 m h (map g (seq 0 n))) 0 = (1 + 1) * al * (zn i * h) + be + sig m * (al * h).
Proof.
  intros Hh H1 H2 Ea Eb Ec.
  assert (G : forall j, (j < n)%nat -> nth j (map g (seq 0 n)) 0 = g j) by (intros; apply (nth_map_seq g); assumption).
  rewrite (nth_fd1 K) by (rewrite map_length, seq_length; lia). rewrite map_length, seq_length.
  destruct i as [|j]; [lia|]. replace (S j - 1)%nat with j in * by lia. replace (S j + 1)%nat with (S (S j)) in * by lia.
  destruct m; cbn [sig Nat.pred]; unfold nxt;
  try replace (Nat.min (S (S j)) (n - 1)) with (S (S j)) by lia;
  try (replace (S j =? 0)%nat with false by reflexivity);
  try (replace (S j =? n - 1)%nat with false by (symmetry; apply Nat.eqb_neq; lia));
  rewrite !G by lia; rewrite ?Ea, ?Eb, ?Ec; unfold P; rewrite !(zn_S K Kf); fcbv; field; side.
Qed.
End Line.

(* ---- tensor steps: each operation keeps agreement with a polynomial on a region shrunk by one along its axis ---- *)
Section Steps.
Variables (m : fdmode) (hx hy hz : K) (nz ny nx : nat).
Hypothesis Hnz : (1 <= nz)%nat.
Hypothesis Hny : (1 <= ny)%nat.
Hypothesis Hnx : (1 <= nx)%nat.
Notation valid := (validm hx hy hz nz ny nx).
Notation box := (box3 nz ny nx).

Lemma inm_lt k n i : inm k n i -> (i < n)%nat.
Proof. unfold inm. lia. Qed.
Lemma inm_S k n i : inm (S k) n i -> inm k n (i - 1) /\ inm k n i /\ inm k n (i + 1) /\ (1 <= i)%nat /\ (i + 1 < n)%nat.
Proof. unfold inm. lia. Qed.

Lemma Sx (T : list (list (list K))) q kz ky kx : box T -> valid kz ky kx T q ->
  box (along_x3 (smooth1 m) T) /\ valid kz ky (S kx) (along_x3 (smooth1 m) T) (addc q (kap m * (qxx q * (hx * hx)))).
Proof.
  intros B V. destruct (Lx K (smooth1 m) T nz ny nx (lenpres_smooth K m) B) as [B' A]. split; [exact B'|].
  intros z y x Iz Iy Ix. destruct (inm_S _ _ _ Ix) as [Ia [Ib [Ic [H1 H2]]]].
  rewrite A by (eapply inm_lt; eassumption).
  rewrite (smooth_local (qxx q) (qxy q * (zn y * hy) + qxz q * (zn z * hz) + lx q)
             (qyy q * ((zn y * hy) * (zn y * hy)) + qyz q * ((zn y * hy) * (zn z * hz)) + qzz q * ((zn z * hz) * (zn z * hz))
              + ly q * (zn y * hy) + lz q * (zn z * hz) + c0 q) hx nx (fun x' => at3 T z y x') m x H1 H2);
  try (rewrite V by assumption); unfold ev3q, addc; cbn [qxx qxy qxz qyy qyz qzz lx ly lz c0]; ring.
Qed.

Lemma Sy (T : list (list (list K))) q kz ky kx : box T -> valid kz ky kx T q ->
  box (along_y3 (smooth1 m) T) /\ valid kz (S ky) kx (along_y3 (smooth1 m) T) (addc q (kap m * (qyy q * (hy * hy)))).
Proof.
  intros B V. destruct (Ly K (smooth1 m) T nz ny nx (lenpres_smooth K m) B Hny Hnx) as [B' A]. split; [exact B'|].
  intros z y x Iz Iy Ix. destruct (inm_S _ _ _ Iy) as [Ia [Ib [Ic [H1 H2]]]].
  rewrite A by (eapply inm_lt; eassumption).
  rewrite (smooth_local (qyy q) (qxy q * (zn x * hx) + qyz q * (zn z * hz) + ly q)
             (qxx q * ((zn x * hx) * (zn x * hx)) + qxz q * ((zn x * hx) * (zn z * hz)) + qzz q * ((zn z * hz) * (zn z * hz))
              + lx q * (zn x * hx) + lz q * (zn z * hz) + c0 q) hy ny (fun y' => at3 T z y' x) m y H1 H2);
  try (rewrite V by assumption); unfold ev3q, addc; cbn [qxx qxy qxz qyy qyz qzz lx ly lz c0]; ring.
Qed.

Lemma Sz (T : list (list (list K))) q kz ky kx : box T -> valid kz ky kx T q ->
  box (along_z3 (smooth1 m) T) /\ valid (S kz) ky kx (along_z3 (smooth1 m) T) (addc q (kap m * (qzz q * (hz * hz)))).
Proof.
  intros B V. destruct (Lz K (smooth1 m) T nz ny nx (lenpres_smooth K m) B Hnz Hny Hnx) as [B' A]. split; [exact B'|].
  intros z y x Iz Iy Ix. destruct (inm_S _ _ _ Iz) as [Ia [Ib [Ic [H1 H2]]]].
  rewrite A by (eapply inm_lt; eassumption).
  rewrite (smooth_local (qzz q) (qxz q * (zn x * hx) + qyz q * (zn y * hy) + lz q)
             (qxx q * ((zn x * hx) * (zn x * hx)) + qxy q * ((zn x * hx) * (zn y * hy)) + qyy q * ((zn y * hy) * (zn y * hy))
              + lx q * (zn x * hx) + ly q * (zn y * hy) + c0 q) hz nz (fun z' => at3 T z' y x) m z H1 H2);
  try (rewrite V by assumption); unfold ev3q, addc; cbn [qxx qxy qxz qyy qyz qzz lx ly lz c0]; ring.
Qed.

Lemma Dx (T : list (list (list K))) q kz ky kx : hx <> 0 -> box T -> valid kz ky kx T q ->
  box (along_x3 (fd1 m hx) T) /\ valid kz ky (S kx) (along_x3 (fd1 m hx) T) (Dq m hx hy hz 0 q).
Proof.
  intros Hh B V. destruct (Lx K (fd1 m hx) T nz ny nx (lenpres_fd K m hx) B) as [B' A]. split; [exact B'|].
  intros z y x Iz Iy Ix. destruct (inm_S _ _ _ Ix) as [Ia [Ib [Ic [H1 H2]]]].
  rewrite A by (eapply inm_lt; eassumption).
  rewrite (diff_local (qxx q) (qxy q * (zn y * hy) + qxz q * (zn z * hz) + lx q)
             (qyy q * ((zn y * hy) * (zn y * hy)) + qyz q * ((zn y * hy) * (zn z * hz)) + qzz q * ((zn z * hz) * (zn z * hz))
              + ly q * (zn y * hy) + lz q * (zn z * hz) + c0 q) hx nx (fun x' => at3 T z y x') m x Hh H1 H2);
  try (rewrite V by assumption); unfold ev3q, Dq; cbn [qxx qxy qxz qyy qyz qzz lx ly lz c0]; ring.
Qed.

Lemma Dy (T : list (list (list K))) q kz ky kx : hy <> 0 -> box T -> valid kz ky kx T q ->
  box (along_y3 (fd1 m hy) T) /\ valid kz (S ky) kx (along_y3 (fd1 m hy) T) (Dq m hx hy hz 1 q).
Proof.
  intros Hh B V. destruct (Ly K (fd1 m hy) T nz ny nx (lenpres_fd K m hy) B Hny Hnx) as [B' A]. split; [exact B'|].
  intros z y x Iz Iy Ix. destruct (inm_S _ _ _ Iy) as [Ia [Ib [Ic [H1 H2]]]].
  rewrite A by (eapply inm_lt; eassumption).
  rewrite (diff_local (qyy q) (qxy q * (zn x * hx) + qyz q * (zn z * hz) + ly q)
             (qxx q * ((zn x * hx) * (zn x * hx)) + qxz q * ((zn x * hx) * (zn z * hz)) + qzz q * ((zn z * hz) * (zn z * hz))
              + lx q * (zn x * hx) + lz q * (zn z * hz) + c0 q) hy ny (fun y' => at3 T z y' x) m y Hh H1 H2);
  try (rewrite V by assumption); unfold ev3q, Dq; cbn [qxx qxy qxz qyy qyz qzz lx ly lz c0]; ring.
Qed.

Lemma Dz (T : list (list (list K))) q kz ky kx : hz <> 0 -> box T -> valid kz ky kx T q ->
  box (along_z3 (fd1 m hz) T) /\ valid (S kz) ky kx (along_z3 (fd1 m hz) T) (Dq m hx hy hz 2 q).
Proof.
  intros Hh B V. destruct (Lz K (fd1 m hz) T nz ny nx (lenpres_fd K m hz) B Hnz Hny Hnx) as [B' A]. split; [exact B'|].
  intros z y x Iz Iy Ix. destruct (inm_S _ _ _ Iz) as [Ia [Ib [Ic [H1 H2]]]].
  rewrite A by (eapply inm_lt; eassumption).
  rewrite (diff_local (qzz q) (qxz q * (zn x * hx) + qyz q * (zn y * hy) + lz q)
             (qxx q * ((zn x * hx) * (zn x * hx)) + qxy q * ((zn x * hx) * (zn y * hy)) + qyy q * ((zn y * hy) * (zn y * hy))
              + lx q * (zn x * hx) + ly q * (zn y * hy) + c0 q) hz nz (fun z' => at3 T z' y x) m z Hh H1 H2);
  try (rewrite V by assumption); unfold ev3q, Dq; cbn [qxx qxy qxz qyy qyz qzz lx ly lz c0]; ring.
Qed.

Lemma valid_weaken (T : list (list (list K))) q kz ky kx kz' ky' kx' :
  (kz <= kz')%nat -> (ky <= ky')%nat -> (kx <= kx')%nat -> valid kz ky kx T q -> valid kz' ky' kx' T q.
Proof. intros A B C V z y x Iz Iy Ix. apply V; unfold inm in *; lia. Qed.

Lemma Dq_addc sd q c : Dq m hx hy hz sd (addc q c) = Dq m hx hy hz sd q.
Proof. destruct sd as [|[|sd]]; reflexivity. Qed.

(* one differentiation step of spatial_derivatives along spatial dim sd: margin + 1 on every axis *)
Lemma dstep3_valid (sd : nat) (T : list (list (list K))) q k : (sd < 3)%nat -> nth sd [hx; hy; hz] 1 <> 0 -> box T ->
  valid k k k T q ->
  box (dstep3 m sd (nth sd [hx; hy; hz] 1) T) /\ valid (S k) (S k) (S k) (dstep3 m sd (nth sd [hx; hy; hz] 1) T) (Dq m hx hy hz sd q).
Proof.
  intros Hsd Hh B V. destruct sd as [|[|[|sd]]]; [| | |lia]; cbn [nth] in *; unfold dstep3.
  - destruct (Sy T q k k k B V) as [B1 V1]. destruct (Sz _ _ _ _ _ B1 V1) as [B2 V2].
    destruct (Dx _ _ _ _ _ Hh B2 V2) as [B3 V3]. rewrite !Dq_addc in V3. split; [exact B3|exact V3].
  - destruct (Sx T q k k k B V) as [B1 V1]. destruct (Sz _ _ _ _ _ B1 V1) as [B2 V2].
    destruct (Dy _ _ _ _ _ Hh B2 V2) as [B3 V3]. rewrite !Dq_addc in V3. split; [exact B3|exact V3].
  - destruct (Sx T q k k k B V) as [B1 V1]. destruct (Sy _ _ _ _ _ B1 V1) as [B2 V2].
    destruct (Dz _ _ _ _ _ Hh B2 V2) as [B3 V3]. rewrite !Dq_addc in V3. split; [exact B3|exact V3].
Qed.
End Steps.

Lemma box_quad (hx hy hz : K) q nx ny nz : box3 nz ny nx (quad_field3 hx hy hz q nx ny nz).
Proof.
  unfold quad_field3, tab3, tab2. split; [rewrite map_length, seq_length; reflexivity|]. intros z Lz'.
  rewrite (nth_map_seq (fun z => map (fun y => map (fun x => ev3q hx hy hz q z y x) (seq 0 nx)) (seq 0 ny))) by exact Lz'.
  rewrite map_length, seq_length. split; [reflexivity|]. intros y Ly'.
  rewrite (nth_map_seq (fun y => map (fun x => ev3q hx hy hz q z y x) (seq 0 nx))) by exact Ly'.
  rewrite map_length, seq_length. reflexivity.
Qed.

Lemma valid_quad (hx hy hz : K) q nx ny nz : validm hx hy hz nz ny nx 0 0 0 (quad_field3 hx hy hz q nx ny nz) q.
Proof.
  intros z y x [_ Iz] [_ Iy] [_ Ix]. unfold at3, quad_field3, tab3, tab2.
  rewrite (nth_map_seq (fun z => map (fun y => map (fun x => ev3q hx hy hz q z y x) (seq 0 nx)) (seq 0 ny))) by lia.
  rewrite (nth_map_seq (fun y => map (fun x => ev3q hx hy hz q z y x) (seq 0 nx))) by lia.
  rewrite (nth_map_seq (fun x => ev3q hx hy hz q z y x)) by lia. reflexivity.
Qed.

(* the analytic second derivative d^2 / dX_a dX_b of the polynomial *)
Definition d2q (q : quad3 (K:=K)) (a b : nat) : K :=
  match a, b with
  | 0%nat, 0%nat => (1 + 1) * qxx q | 1%nat, 1%nat => (1 + 1) * qyy q | 2%nat, 2%nat => (1 + 1) * qzz q
  | 0%nat, 1%nat | 1%nat, 0%nat => qxy q | 0%nat, 2%nat | 2%nat, 0%nat => qxz q | _, _ => qyz q
  end.

(* D = 3: spatial_derivatives for the (sorted) key [a; b], all six modes, all shapes >= 5, all spacings <> 0 *)
Theorem second_derivative_quadratic_3d (m : fdmode) (hx hy hz : K) (q : quad3 (K:=K)) (nx ny nz a b x y z : nat) :
  hx <> 0 -> hy <> 0 -> hz <> 0 -> (a < 3)%nat -> (b < 3)%nat ->
  inm 2 nx x -> inm 2 ny y -> inm 2 nz z ->
  at3 (deriv3 m [hx; hy; hz] [a; b] (quad_field3 hx hy hz q nx ny nz)) z y x = d2q q a b.
Proof.
  intros Hx Hy Hz Ha Hb Ix Iy Iz.
  assert (Nz : (1 <= nz)%nat) by (unfold inm in Iz; lia). assert (Ny : (1 <= ny)%nat) by (unfold inm in Iy; lia).
  assert (Nx : (1 <= nx)%nat) by (unfold inm in Ix; lia).
  assert (Hh : forall sd, (sd < 3)%nat -> nth sd [hx; hy; hz] 1 <> 0).
  { intros [|[|[|sd]]] H; cbn; auto. lia. }
  unfold deriv3. cbn [fold_left].
  destruct (dstep3_valid m hx hy hz nz ny nx Nz Ny Nx a _ q 0 Ha (Hh a Ha) (box_quad hx hy hz q nx ny nz) (valid_quad hx hy hz q nx ny nz)) as [B1 V1].
  destruct (dstep3_valid m hx hy hz nz ny nx Nz Ny Nx b _ _ 1 Hb (Hh b Hb) B1 V1) as [_ V2].
  rewrite (V2 z y x Iz Iy Ix).
  destruct a as [|[|[|a]]]; [| | |lia]; (destruct b as [|[|[|b]]]; [| | |lia]);
  unfold ev3q, Dq, d2q; cbn [qxx qxy qxz qyy qyz qzz lx ly lz c0]; ring.
Qed.
End Proofs.
