(* compose_flows: the zero field is a two-sided identity (any fields, any lattice size, both conventions). *)
From Coq Require Import ZArith List Field Ring Lia Bool.
From DV Require Import Base.Field Base.FieldFacts Base.LinAlg Base.Tactics Model.Sampler Model.Flow
  Proofs.SamplerFacts Proofs.C11Interp Proofs.C11Compose.
Import ListNotations.
Local Open Scope fld_scope.

Section ComposeId.
Variable K : fld.
Hypothesis Kf : is_field K.
Hypothesis Kc : char0 K.
Add Field KFZ : Kf.
Variable floorK : K -> Z.

Definition zero2 (nx ny : Z) : list (list (list K)) := [tab2 nx ny (fun _ _ => 0); tab2 nx ny (fun _ _ => 0)].
Definition zero3 (nx ny nz : Z) : list (list (list (list K))) :=
  [tab3 nx ny nz (fun _ _ _ => 0); tab3 nx ny nz (fun _ _ _ => 0); tab3 nx ny nz (fun _ _ _ => 0)].
Definition field2 (nx ny : Z) (f0 f1 : Z -> Z -> K) : list (list (list K)) := [tab2 nx ny f0; tab2 nx ny f1].
Definition field3 (nx ny nz : Z) (f0 f1 f2 : Z -> Z -> Z -> K) : list (list (list (list K))) :=
  [tab3 nx ny nz f0; tab3 nx ny nz f1; tab3 nx ny nz f2].

(* sampling the zero image gives zero everywhere *)
Lemma gs2_zero ac nx ny (px py : K) : (1 <= nx)%Z -> (1 <= ny)%Z ->
  grid_sample2 floorK PBorder ac (tab2 nx ny (fun _ _ => 0)) px py = 0.
Proof.
  intros Hx Hy. unfold grid_sample2, sample2.
  destruct (cell floorK _) as [ix tx]. destruct (cell floorK _) as [iy ty].
  rewrite (interp2_tab K) by lia. unfold lerp. ring.
Qed.
Lemma gs3_zero ac nx ny nz (px py pz : K) : (1 <= nx)%Z -> (1 <= ny)%Z -> (1 <= nz)%Z ->
  grid_sample3 floorK PBorder ac (tab3 nx ny nz (fun _ _ _ => 0)) px py pz = 0.
Proof.
  intros Hx Hy Hz. unfold grid_sample3, sample3.
  destruct (cell floorK _) as [ix tx]. destruct (cell floorK _) as [iy ty]. destruct (cell floorK _) as [iz tz].
  rewrite (interp3_tab K) by lia. rewrite !(interp2_tab K) by lia. unfold lerp. ring.
Qed.

Theorem compose2_zero_r ac nx ny f0 f1 : (1 <= nx)%Z -> (1 <= ny)%Z ->
  compose2 floorK ac (field2 nx ny f0 f1) (zero2 nx ny) = field2 nx ny f0 f1.
Proof.
  intros Hx Hy. unfold compose2, compose2g, field2, zero2. cbn [seq map nth].
  rewrite zlen_tab2, zlen_hd_tab2 by lia.
  f_equal; [|f_equal]; apply tab2_ext; intros x y Hxr Hyr; rewrite !get2_tab2 by lia; rewrite gs2_zero by lia; ring.
Qed.
Theorem compose3_zero_r ac nx ny nz f0 f1 f2 : (1 <= nx)%Z -> (1 <= ny)%Z -> (1 <= nz)%Z ->
  compose3 floorK ac (field3 nx ny nz f0 f1 f2) (zero3 nx ny nz) = field3 nx ny nz f0 f1 f2.
Proof.
  intros Hx Hy Hz. unfold compose3, compose3g, field3, zero3. cbn [seq map nth].
  rewrite zlen_tab3, zlen_hd_tab3, zlen_hd_hd_tab3 by lia.
  f_equal; [|f_equal; [|f_equal]]; apply tab3_ext; intros x y z Hxr Hyr Hzr; rewrite !get3_tab3 by lia;
    rewrite gs3_zero by lia; ring.
Qed.

(* un-normalising a lattice coordinate gives back the sample index: the two conventions must match *)
Lemma unnorm_ncoord ac n i : (2 <= n)%Z -> unnorm (K:=K) ac n (ncoord ac n i) = of_Z i.
Proof.
  intro H. unfold ncoord, ncoordK, unnorm. replace (n =? 1)%Z with false by (symmetry; apply Z.eqb_neq; lia).
  pose proof (nm1_nz K Kf Kc n H). pose proof (n_nz K Kf Kc n H). pose proof (two_nz K Kf Kc).
  destruct ac; field; auto.
Qed.

Hypothesis floor_ok : forall i : Z, floorK (of_Z i) = i.

Lemma cell_of_Z i : cell floorK (of_Z i) = (i, 0).
Proof. unfold cell. rewrite floor_ok. f_equal. ring. Qed.

Lemma clampz_in i n : (0 <= i < n)%Z -> clampz i n = i.
Proof. unfold clampz. lia. Qed.

Lemma gs2_own_coords ac nx ny (g : Z -> Z -> K) x y : (2 <= nx)%Z -> (2 <= ny)%Z -> (0 <= x < nx)%Z -> (0 <= y < ny)%Z ->
  grid_sample2 floorK PBorder ac (tab2 nx ny g) (ncoord ac nx x + 0) (ncoord ac ny y + 0) = g x y.
Proof.
  intros Hx Hy Hxr Hyr. unfold grid_sample2. rewrite zlen_tab2, zlen_hd_tab2 by lia.
  replace (ncoord ac nx x + 0) with (ncoord (K:=K) ac nx x) by ring. replace (ncoord ac ny y + 0) with (ncoord (K:=K) ac ny y) by ring.
  rewrite !unnorm_ncoord by lia. unfold sample2. rewrite !cell_of_Z. rewrite (interp2_tab K) by lia.
  rewrite !clampz_in by lia. unfold lerp. ring.
Qed.
Lemma gs3_own_coords ac nx ny nz (g : Z -> Z -> Z -> K) x y z : (2 <= nx)%Z -> (2 <= ny)%Z -> (2 <= nz)%Z ->
  (0 <= x < nx)%Z -> (0 <= y < ny)%Z -> (0 <= z < nz)%Z ->
  grid_sample3 floorK PBorder ac (tab3 nx ny nz g) (ncoord ac nx x + 0) (ncoord ac ny y + 0) (ncoord ac nz z + 0) = g x y z.
Proof.
  intros Hx Hy Hz Hxr Hyr Hzr. unfold grid_sample3. rewrite zlen_tab3, zlen_hd_tab3, zlen_hd_hd_tab3 by lia.
  replace (ncoord ac nx x + 0) with (ncoord (K:=K) ac nx x) by ring. replace (ncoord ac ny y + 0) with (ncoord (K:=K) ac ny y) by ring.
  replace (ncoord ac nz z + 0) with (ncoord (K:=K) ac nz z) by ring.
  rewrite !unnorm_ncoord by lia. unfold sample3. rewrite !cell_of_Z. rewrite (interp3_tab K) by lia.
  rewrite !(interp2_tab K) by lia. rewrite !clampz_in by lia. unfold lerp. ring.
Qed.

Theorem compose2_zero_l ac nx ny g0 g1 : (2 <= nx)%Z -> (2 <= ny)%Z ->
  compose2 floorK ac (zero2 nx ny) (field2 nx ny g0 g1) = field2 nx ny g0 g1.
Proof.
  intros Hx Hy. unfold compose2, compose2g, field2, zero2. cbn [seq map nth].
  rewrite zlen_tab2, zlen_hd_tab2 by lia.
  f_equal; [|f_equal]; apply tab2_ext; intros x y Hxr Hyr; rewrite !get2_tab2 by lia; rewrite gs2_own_coords by lia; ring.
Qed.
Theorem compose3_zero_l ac nx ny nz g0 g1 g2 : (2 <= nx)%Z -> (2 <= ny)%Z -> (2 <= nz)%Z ->
  compose3 floorK ac (zero3 nx ny nz) (field3 nx ny nz g0 g1 g2) = field3 nx ny nz g0 g1 g2.
Proof.
  intros Hx Hy Hz. unfold compose3, compose3g, field3, zero3. cbn [seq map nth].
  rewrite zlen_tab3, zlen_hd_tab3, zlen_hd_hd_tab3 by lia.
  f_equal; [|f_equal; [|f_equal]]; apply tab3_ext; intros x y z Hxr Hyr Hzr; rewrite !get3_tab3 by lia;
    rewrite gs3_own_coords by lia; ring.
Qed.
End ComposeId.
