From Coq Require Import ZArith List Field Ring Lia.
From DV Require Import Base.Field Base.FieldFacts Base.LinAlg Base.Tactics Model.Enums Model.Homog Model.Grid Model.ItkSpec
  Gen.SitkGrid Proofs.C01Grid.
Import ListNotations.
Local Open Scope fld_scope.

Section SitkGrid.
Variable K : fld.
Hypothesis Kf : is_field K.
Add Field KF8 : Kf.
Let K1 := K1nz K Kf.
Hint Resolve K1 : core.
Ltac side := repeat split; auto.
Ltac len2 X H := destruct X as [|?x0 [|?x1 [|? ?]]]; try discriminate H; clear H.
Ltac len3 X H := destruct X as [|?x0 [|?x1 [|?x2 [|? ?]]]]; try discriminate H; clear H.

Variable D : nat.
Hypothesis HD : D = 2%nat \/ D = 3%nat.
Variables (s o : nat -> K) (d : nat -> nat -> K).
Notation S := (vtab D s). Notation O := (vtab D o). Notation Dm := (tab D D d).

(* the SimpleITK-side grid attributes place a continuous index where ITK places it ... *)
Lemma attrs_index_to_physical_is_itk (X : list K) : length X = D ->
  (forall i, (i < D)%nat -> s i <> 0) ->
  gen_attrs_i2p D S O Dm X = itk_phys O S Dm X.
Proof.
  intros HX Hs. destruct HD as [-> | ->]; [len2 X HX | len3 X HX];
    pose proof (Hs 0%nat ltac:(lia)); pose proof (Hs 1%nat ltac:(lia)); try pose proof (Hs 2%nat ltac:(lia));
    fcbv; list_eq; field; side.
Qed.

(* ... and world -> continuous index is ITK's inverse map S^-1 R^T (p - o) ... *)
Lemma attrs_physical_to_index_is_itk (P : list K) : length P = D ->
  (forall i, (i < D)%nat -> s i <> 0) ->
  gen_attrs_p2i D S O Dm P = itk_index D O S Dm P.
Proof.
  intros HP Hs. destruct HD as [-> | ->]; [len2 P HP | len3 P HP];
    pose proof (Hs 0%nat ltac:(lia)); pose proof (Hs 1%nat ltac:(lia)); try pose proof (Hs 2%nat ltac:(lia));
    fcbv; list_eq; field; side.
Qed.
End SitkGrid.
