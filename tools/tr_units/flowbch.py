"""Gen/FlowBCH.v -- core/flow.py compose_svfs and logv, traced from the source text (helpers in flowalg.py):

* gen_bch_terms terms     compose_svfs(u, v, bch_terms) as a linear combination with rational coefficients of u, v and
                          nested brackets (lie_bracket replaced by an opaque recorded operator; its arguments must be u, v
                          or earlier brackets; the derivative options must be forwarded; components must not mix;
                          bch_terms outside [0, 5] must be rejected)
* gen_logv_expv_* / gen_logv_compose_*
                          which align_corners flag reaches Grid.coords / F.grid_sample (and the padding) in the expv step
                          and in the compose_flows step of logv, as functions of the caller's align_corners.
* gen_lie_opts_first_arg / gen_lie_opts_second_arg
                          which of (mode, sigma, spacing, stride) lie_bracket forwards to flow_derivatives (through
                          jacobian_dict) for each of its two Jacobians (flow_derivatives replaced by a recorder; any other
                          value than the caller's or None, another derivative order or other keys abort the translation)."""
from tr_units.bspline import simple_float_literals
from tr_units.flowalg import bch_section, logv_section, lie_opts_section, logv_spacing_section, emit_flags


def generate(loader):
    flow_mod = loader.load("deepali.core.flow")
    img = loader.load("deepali.core.image")
    grid_mod = loader.load("deepali.core.grid")
    with simple_float_literals():
        bch = bch_section(flow_mod)
        lflags = logv_section((flow_mod, img, grid_mod))
        lie = lie_opts_section(flow_mod)
        lsp = logv_spacing_section(flow_mod, img)
    out = ["From DV Require Import Model.Sampler Model.BCH.", "",
           "(* compose_svfs(u, v, bch_terms): linear combination of u, v and nested brackets (lie_bracket opaque) *)", bch,
           "(* logv(flow, align_corners = ac): flags reaching Grid.coords / F.grid_sample in its expv step and in its compose_flows step *)"]
    out += emit_flags("gen_logv_expv", lflags["expv"])
    out += emit_flags("gen_logv_compose", lflags["compose"])
    out.append(lie)
    out.append(lsp)
    return "\n".join(out) + "\n"
