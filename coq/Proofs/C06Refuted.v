(* C06: concrete witnesses (over the executable instance Qc) for the clauses the faithful model refutes. *)
From Coq Require Import ZArith QArith Qcanon List Bool Lia.
From DV Require Import Base.Field Base.LinAlg Base.QcInst Model.Enums Model.Homog Model.Grid Model.Sampler Model.SamplerQc
  Model.Transform Model.TransformQc Gen.Hmm Gen.GridT Gen.Transform.
Import ListNotations.

Lemma qeqb_refl (a : Qc) : qeqb a a = true.
Proof. unfold qeqb. apply Qeq_eq_bool. reflexivity. Qed.
Lemma veqb_refl (a : list Qc) : veqb a a = true.
Proof. induction a as [|x a IH]; [reflexivity|]. cbn. now rewrite qeqb_refl, IH. Qed.
Lemma veqb_neq (a b : list Qc) : veqb a b = false -> a <> b.
Proof. intros H E. subst. rewrite veqb_refl in H. discriminate. Qed.


Definition I2 : list (list Qc) := [[q 1 1; q 0 1]; [q 0 1; q 1 1]].

(* resizing a field to a lattice is NOT interpolating it at points that are not that lattice: this is why ImageTransformer may
   tell the transform that its points are the undeformed lattice only when the target covers the transform's domain.
   Field u = (0, 1, 2, 3) / 8 on a 4-sample grid; a 2-sample target covering part of the domain, whose points have
   transform-cube coordinates 0 and 1/3 *)
Definition u_w : list Qc := [q 0 1; q 1 8; q 2 8; q 3 8].
Definition xs_w : list Qc := [q 0 1; q 1 3].
Lemma resize_differs_off_lattice :
  warp_grid1 (K:=QcF) floorQ true u_w xs_w <> map (warp_points1 (K:=QcF) floorQ true u_w) xs_w.
Proof. apply veqb_neq. vm_compute. reflexivity. Qed.
