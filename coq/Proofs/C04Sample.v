(* C04: sampling on another grid (Image.sample(grid), the C05 pipeline) moves data and grid in lock-step: a ramp image
   a.x + b on the source grid is returned as the same ramp on the TARGET grid, inside the source field of view, for every
   padding argument, both flags, every pair of oriented grids (2-D and 3-D). *)
From Coq Require Import ZArith List Field Ring Lia Bool.
From DV Require Import Base.Field Base.FieldFacts Base.LinAlg Base.Tactics Model.Enums Model.Homog Model.Grid Model.ItkSpec
  Model.Sampler Gen.GridT Gen.SampleT Model.Resample Model.ImageOps Proofs.SamplerFacts Proofs.C01Grid Proofs.C01Laws
  Proofs.C05Index Proofs.C05Kernel Proofs.C05Main Proofs.C04World.
Import ListNotations.
Local Open Scope fld_scope.

Section C04Sample.
Variable K : fld.
Hypothesis Kf : is_field K.
Hypothesis Kc : char0 K.
Add Field KF_C04Sample : Kf.
Variable floorK : K -> Z.
Variable nearK : K -> Z.

(* bilinear / trilinear interpolation of an accessor that is affine in the index *)
Lemma bil_affine (a0 a1 b : K) (ix iy : Z) (tx ty : K) :
  bil (fun jy jx => a0 * of_Z jx + a1 * of_Z jy + b) ix iy tx ty = a0 * (of_Z ix + tx) + a1 * (of_Z iy + ty) + b.
Proof. unfold bil, lerp. rewrite !(of_Z_add K Kf). cbn [of_Z of_pos]. ring. Qed.
Lemma tril_affine (a0 a1 a2 b : K) (ix iy iz : Z) (tx ty tz : K) :
  tril (fun jz jy jx => a0 * of_Z jx + a1 * of_Z jy + a2 * of_Z jz + b) ix iy iz tx ty tz
  = a0 * (of_Z ix + tx) + a1 * (of_Z iy + ty) + a2 * (of_Z iz + tz) + b.
Proof. unfold tril, bil, lerp. rewrite !(of_Z_add K Kf). cbn [of_Z of_pos]. ring. Qed.

Lemma sample2_affine (img : list (list K)) (a0 a1 b x y : K) :
  rect2 (zlen (hd [] img)) img ->
  (forall iy ix, (0 <= iy < zlen img)%Z -> (0 <= ix < zlen (hd [] img))%Z -> val2 img iy ix = a0 * of_Z ix + a1 * of_Z iy + b) ->
  in_fov floorK (zlen (hd [] img)) x -> in_fov floorK (zlen img) y ->
  sample2 floorK PBorder img x y = a0 * x + a1 * y + b.
Proof.
  intros HR Hv Hx Hy. apply (in_fov_cell K floorK nearK) in Hx, Hy. destruct Hx as [Hx Hx'], Hy as [Hy Hy'].
  unfold sample2, cell. rewrite (interp2_bil K).
  assert (Hag : forall jy jx, (0 <= jy < zlen img)%Z -> (0 <= jx < zlen (hd [] img))%Z ->
                 acc2 PBorder img jy jx = (fun jy jx => a0 * of_Z jx + a1 * of_Z jy + b) jy jx).
  { intros jy jx Hjy Hjx. rewrite (acc2_in K _ (zlen (hd [] img))) by auto. apply Hv; auto. }
  rewrite (bil_fov K Kf _ _ (zlen (hd [] img)) (zlen img) _ _ _ _ Hag Hx Hx' Hy Hy').
  rewrite bil_affine. ring.
Qed.

Lemma sample3_affine (img : list (list (list K))) (a0 a1 a2 b x y z : K) :
  rect3 (zlen (hd [] (hd [] img))) (zlen (hd [] img)) img ->
  (forall iz iy ix, (0 <= iz < zlen img)%Z -> (0 <= iy < zlen (hd [] img))%Z -> (0 <= ix < zlen (hd [] (hd [] img)))%Z ->
     val3 img iz iy ix = a0 * of_Z ix + a1 * of_Z iy + a2 * of_Z iz + b) ->
  in_fov floorK (zlen (hd [] (hd [] img))) x -> in_fov floorK (zlen (hd [] img)) y -> in_fov floorK (zlen img) z ->
  sample3 floorK PBorder img x y z = a0 * x + a1 * y + a2 * z + b.
Proof.
  intros HR Hv Hx Hy Hz. apply (in_fov_cell K floorK nearK) in Hx, Hy, Hz. destruct Hx as [Hx Hx'], Hy as [Hy Hy'], Hz as [Hz Hz'].
  unfold sample3, cell. rewrite (interp3_tril K).
  assert (Hag : forall jz jy jx, (0 <= jz < zlen img)%Z -> (0 <= jy < zlen (hd [] img))%Z -> (0 <= jx < zlen (hd [] (hd [] img)))%Z ->
                 acc3 PBorder img jz jy jx = (fun jz jy jx => a0 * of_Z jx + a1 * of_Z jy + a2 * of_Z jz + b) jz jy jx).
  { intros jz jy jx Hjz Hjy Hjx. rewrite (acc3_in K _ (zlen (hd [] (hd [] img))) (zlen (hd [] img))) by auto. apply Hv; auto. }
  rewrite (tril_fov K Kf _ _ (zlen (hd [] (hd [] img))) (zlen (hd [] img)) (zlen img) _ _ _ _ _ _ Hag Hx Hx' Hy Hy' Hz Hz').
  rewrite tril_affine. ring.
Qed.

Lemma to_index_GRID (D : nat) (n s c : list K) (d : list (list K)) (x : list K) : to_index D GRID n s c d x = x.
Proof. reflexivity. Qed.

(* the source grid places ITK's continuous source index of target sample J where the target grid places J *)
Lemma source_index_world (D : nat) (tn ts tc sn ss sc : nat -> K) (td sd : nat -> nat -> K) (J : list K) :
  D = 2%nat \/ D = 3%nat -> wf D tn ts td -> wf D sn ss sd -> length J = D ->
  gen_pts D GRID WORLD (vtab D sn) (vtab D ss) (vtab D sc) (tab D D sd)
    (itk_cindex D (vtab D tn) (vtab D ts) (vtab D tc) (tab D D td) (vtab D sn) (vtab D ss) (vtab D sc) (tab D D sd) J)
  = gen_pts D GRID WORLD (vtab D tn) (vtab D ts) (vtab D tc) (tab D D td) J.
Proof.
  intros HD Ht Hs HJ. rewrite <- (world_index_is_itk K Kf Kc D HD).
  rewrite (pts_is_T_map K Kf Kc D GRID WORLD sn ss sc sd) by
    (auto; try (intros [? ?]; discriminate); apply (to_index_length K); auto; apply (from_index_length K); auto).
  rewrite (pts_is_T_map K Kf Kc D GRID WORLD tn ts tc td) by (auto; intros [? ?]; discriminate).
  unfold T_map. rewrite !to_index_GRID.
  apply (from_to_index K Kf Kc); auto. apply (from_index_length K); auto.
Qed.

Theorem ramp_sample2 (p : padarg) (ac : bool) (tn ts tc : nat -> K) (td : nat -> nat -> K) (ss sc : nat -> K) (sd : nat -> nat -> K)
        (img : list (list K)) (A : list K) (b : K) (J : list K) :
  wf 2 tn ts td -> wf 2 (zsz (sz2 img)) ss sd -> rect2 (zlen (hd [] img)) img -> length J = 2%nat -> length A = 2%nat ->
  (forall iy ix, (0 <= iy < zlen img)%Z -> (0 <= ix < zlen (hd [] img))%Z ->
     val2 img iy ix = dot A (gen_pts 2 GRID WORLD (zvec (isizes2 img)) (vtab 2 ss) (vtab 2 sc) (tab 2 2 sd) [of_Z ix; of_Z iy]) + b) ->
  fov_ok floorK (isizes2 img)
    (itk_cindex 2 (vtab 2 tn) (vtab 2 ts) (vtab 2 tc) (tab 2 2 td) (zvec (isizes2 img)) (vtab 2 ss) (vtab 2 sc) (tab 2 2 sd) J) ->
  dp_sample2 floorK nearK Linear p ac (vtab 2 tn) (vtab 2 ts) (vtab 2 tc) (tab 2 2 td) (vtab 2 ss) (vtab 2 sc) (tab 2 2 sd) img J
  = dot A (gen_pts 2 GRID WORLD (vtab 2 tn) (vtab 2 ts) (vtab 2 tc) (tab 2 2 td) J) + b.
Proof.
  intros Ht Hs HR HJ HA Hramp Hfov.
  rewrite (sample_matches_itk2 K Kf Kc floorK nearK Linear p ac 0 tn ts tc td ss sc sd img J) by auto.
  unfold itk_resample2.
  rewrite <- (source_index_world 2 tn ts tc (zsz (sz2 img)) ss sc td sd J (or_introl eq_refl) Ht Hs HJ).
  rewrite (zvec2 K) in *.
  pose proof (itk_cindex_length K 2 tn ts tc (zsz (sz2 img)) ss sc td sd J (or_introl eq_refl) HJ) as LX.
  set (X := itk_cindex 2 (vtab 2 tn) (vtab 2 ts) (vtab 2 tc) (tab 2 2 td) (vtab 2 (zsz (sz2 img))) (vtab 2 ss) (vtab 2 sc) (tab 2 2 sd) J) in *.
  destruct X as [|x [|y [|? ?]]]; try discriminate LX.
  inversion Hfov as [|? ? ? ? [Fx Ix] H2]; subst. inversion H2 as [|? ? ? ? [Fy Iy] H3]; subst.
  unfold itk_linear2. rewrite Ix, Iy. cbn [andb].
  rewrite (ramp_is_affine K Kf Kc 2 (or_introl eq_refl) (zsz (sz2 img)) ss sc sd A b [x; y]) by auto.
  rewrite (sample2_affine img (ramp_coef K 2 ss sd A 0) (ramp_coef K 2 ss sd A 1) (ramp_off K 2 (zsz (sz2 img)) ss sc sd A b) x y HR); auto.
  - unfold dot, vmul. cbn. ring.
  - intros iy ix Hy Hx. rewrite Hramp by auto.
    rewrite (ramp_is_affine K Kf Kc 2 (or_introl eq_refl) (zsz (sz2 img)) ss sc sd A b [of_Z ix; of_Z iy]) by auto.
    unfold dot, vmul. cbn. ring.
Qed.

Theorem ramp_sample3 (p : padarg) (ac : bool) (tn ts tc : nat -> K) (td : nat -> nat -> K) (ss sc : nat -> K) (sd : nat -> nat -> K)
        (img : list (list (list K))) (A : list K) (b : K) (J : list K) :
  wf 3 tn ts td -> wf 3 (zsz (sz3 img)) ss sd -> rect3 (zlen (hd [] (hd [] img))) (zlen (hd [] img)) img ->
  length J = 3%nat -> length A = 3%nat ->
  (forall iz iy ix, (0 <= iz < zlen img)%Z -> (0 <= iy < zlen (hd [] img))%Z -> (0 <= ix < zlen (hd [] (hd [] img)))%Z ->
     val3 img iz iy ix = dot A (gen_pts 3 GRID WORLD (zvec (isizes3 img)) (vtab 3 ss) (vtab 3 sc) (tab 3 3 sd) [of_Z ix; of_Z iy; of_Z iz]) + b) ->
  fov_ok floorK (isizes3 img)
    (itk_cindex 3 (vtab 3 tn) (vtab 3 ts) (vtab 3 tc) (tab 3 3 td) (zvec (isizes3 img)) (vtab 3 ss) (vtab 3 sc) (tab 3 3 sd) J) ->
  dp_sample3 floorK nearK Linear p ac (vtab 3 tn) (vtab 3 ts) (vtab 3 tc) (tab 3 3 td) (vtab 3 ss) (vtab 3 sc) (tab 3 3 sd) img J
  = dot A (gen_pts 3 GRID WORLD (vtab 3 tn) (vtab 3 ts) (vtab 3 tc) (tab 3 3 td) J) + b.
Proof.
  intros Ht Hs HR HJ HA Hramp Hfov.
  rewrite (sample_matches_itk3 K Kf Kc floorK nearK Linear p ac 0 tn ts tc td ss sc sd img J) by auto.
  unfold itk_resample3.
  rewrite <- (source_index_world 3 tn ts tc (zsz (sz3 img)) ss sc td sd J (or_intror eq_refl) Ht Hs HJ).
  rewrite (zvec3 K) in *.
  pose proof (itk_cindex_length K 3 tn ts tc (zsz (sz3 img)) ss sc td sd J (or_intror eq_refl) HJ) as LX.
  set (X := itk_cindex 3 (vtab 3 tn) (vtab 3 ts) (vtab 3 tc) (tab 3 3 td) (vtab 3 (zsz (sz3 img))) (vtab 3 ss) (vtab 3 sc) (tab 3 3 sd) J) in *.
  destruct X as [|x [|y [|z [|? ?]]]]; try discriminate LX.
  inversion Hfov as [|? ? ? ? [Fx Ix] H2]; subst. inversion H2 as [|? ? ? ? [Fy Iy] H3]; subst.
  inversion H3 as [|? ? ? ? [Fz Iz] H4]; subst.
  unfold itk_linear3. rewrite Ix, Iy, Iz. cbn [andb].
  rewrite (ramp_is_affine K Kf Kc 3 (or_intror eq_refl) (zsz (sz3 img)) ss sc sd A b [x; y; z]) by auto.
  rewrite (sample3_affine img (ramp_coef K 3 ss sd A 0) (ramp_coef K 3 ss sd A 1) (ramp_coef K 3 ss sd A 2)
             (ramp_off K 3 (zsz (sz3 img)) ss sc sd A b) x y z HR); auto.
  - unfold dot, vmul. cbn. ring.
  - intros iz iy ix Hz Hy Hx. rewrite Hramp by auto.
    rewrite (ramp_is_affine K Kf Kc 3 (or_intror eq_refl) (zsz (sz3 img)) ss sc sd A b [of_Z ix; of_Z iy; of_Z iz]) by auto.
    unfold dot, vmul. cbn. ring.
Qed.
End C04Sample.
