(* C09 -- freshness of composite calls: a call of a SequentialTransform whose members hold their
   parameters as tensor, Parameter or callable (no links) returns, for every member in order, exactly
   the evaluation of what that member held when the call started -- in every well-formed state, hence
   (Proofs/C09Wf.v) after every history. *)
From Coq Require Import List Bool Arith Lia.
From DV Require Import Model.TransformState Proofs.C09Fresh Proofs.C09Wf.
Import ListNotations.

Lemma replace_same {A} (l : list A) n x : nth_error l n = Some x -> replace n x l = l.
Proof. revert n. induction l as [|a l IH]; intros [|n] H; cbn in *; try discriminate; [congruence | f_equal; auto]. Qed.
Lemma replace_replace {A} (l : list A) n x y : replace n x (replace n y l) = replace n x l.
Proof. revert n. induction l as [|a l IH]; intros [|n]; cbn; auto. f_equal; auto. Qed.

Section Seq.
Context {P G C : Type}.
Variable p0 : P.
Variable callP : nat -> option C -> P.
Variable fits : kind -> P -> G -> bool.
Variable spline_ok : G -> bool.
Variable cf : cfg.
Hypothesis Hcf : cfg_all cf = true.

Notation state := (state P G C).
Notation obj := (obj P G C).
Notation tval := (tval P G C p0).
Notation get_obj := (get_obj P G C).
Notation set_obj := (set_obj P G C).
Notation get_params := (get_params P G C).
Notation data_ref := (data_ref P G C).
Notation fresh_data := (fresh_data P G C callP fits).
Notation update1 := (update1 P G C p0 callP fits spline_ok cf).
Notation update_all := (update_all P G C p0 callP fits spline_ok cf).
Notation tensor1 := (tensor1 P G C p0 callP fits spline_ok cf).
Notation tensor_all := (tensor_all P G C p0 callP fits spline_ok cf).
Notation call := (call P G C p0 callP fits spline_ok cf).
Notation held := (held P G C p0 callP).
Notation wf := (@wf P G C).
Notation tlen s := (length (tens P G C s)).

(* objects that differ only in their buffers *)
Definition same_spec (a b : obj) : Prop :=
  o_kind P G C a = o_kind P G C b /\ o_grid P G C a = o_grid P G C b /\ o_cond P G C a = o_cond P G C b /\
  o_adict P G C a = o_adict P G C b /\ o_pd P G C a = o_pd P G C b /\ o_bpar P G C a = o_bpar P G C b /\
  o_mpar P G C a = o_mpar P G C b /\ o_inv P G C a = o_inv P G C b.
Lemma same_spec_refl a : same_spec a a.
Proof. repeat split. Qed.
Lemma same_spec_trans a b c : same_spec a b -> same_spec b c -> same_spec a c.
Proof. unfold same_spec. intuition congruence. Qed.
Lemma same_spec_set_p a p : same_spec (set_p P G C a p) a.
Proof. destruct a; repeat split. Qed.
Lemma same_spec_set_uv a u v : same_spec (set_uv P G C a u v) a.
Proof. destruct a; repeat split. Qed.

(* the footprint of update(): tensors appended, one object rewritten in its buffers only *)
Definition touches (m : nat) (s s1 : state) : Prop :=
  exists extra ob ob1,
    tens P G C s1 = tens P G C s ++ extra /\ pds P G C s1 = pds P G C s /\
    get_obj s m = Some ob /\ objs P G C s1 = replace m ob1 (objs P G C s) /\ same_spec ob1 ob /\
    (is_nonrigid (o_kind P G C ob) = true -> o_u P G C ob1 <> None).

Lemma data_ref_same s ob r s' : data_ref s ob = Ok r s' -> s' = s.
Proof. intro E. pose proof (data_ref_st s ob) as H. rewrite E in H. exact H. Qed.

Lemma update1_touches s m s1 ob :
  get_obj s m = Some ob -> update1 s m = Ok tt s1 -> touches m s s1.
Proof.
  destruct (cfg_all_fields _ Hcf) as (_ & _ & _ & _ & _ & _ & _ & Hup & _ & Huu & _).
  intros Hg Hu.
  unfold TransformState.update1, with_obj in Hu. fold (get_obj s m) in Hu. rewrite Hg, Hup, Huu in Hu.
  unfold bind at 1 in Hu.
  match type of Hu with context [match ?x with Ok a s => _ | Er e s => Er e s end] => destruct x as [ob1 s1'|] eqn:Er end;
    try discriminate.
  (* stage 1 *)
  assert (S1 : exists extra, tens P G C s1' = tens P G C s ++ extra /\ pds P G C s1' = pds P G C s /\
                 objs P G C s1' = replace m ob1 (objs P G C s) /\ same_spec ob1 ob).
  { destruct (o_p P G C ob) eqn:Ep.
    - unfold bind, TransformState.fresh_data in Er.
      destruct (get_params s ob) as [[| r ip | f | o']|]; try discriminate.
      + injection Er as <- <-. exists []. rewrite app_nil_r. repeat split; auto using same_spec_set_p.
      + destruct (fits _ _ _); try discriminate. cbn in Er. injection Er as <- <-.
        eexists [_]. cbn. repeat split; auto using same_spec_set_p.
      + unfold with_obj in Er. destruct (TransformState.get_obj P G C s o') as [ob'|]; try discriminate.
        destruct (data_ref s ob') as [r s'|] eqn:Ed; try discriminate.
        apply data_ref_same in Ed. subst s'. injection Er as <- <-.
        exists []. rewrite app_nil_r. repeat split; auto using same_spec_set_p.
    - injection Er as <- <-. exists []. rewrite app_nil_r. repeat split; auto.
      symmetry. apply replace_same. exact Hg. }
  destruct S1 as (extra & Et & Ep & Eo & Hss).
  assert (Hk : o_kind P G C ob1 = o_kind P G C ob) by apply Hss.
  destruct (o_kind P G C ob1) eqn:Ek1.
  all: try (unfold bind in Hu; destruct (data_ref s1' ob1) as [r s2'|] eqn:Ed; try discriminate;
            apply data_ref_same in Ed; subst s2'; cbn [is_spline andb] in Hu;
            repeat match type of Hu with context [if ?c then _ else _] => destruct c; try discriminate end;
            injection Hu as <-;
            eexists extra, ob, _;
            (split; [exact Et | split; [exact Ep | split; [exact Hg | split; [cbn; rewrite Eo, replace_replace; reflexivity |
             split; [eapply same_spec_trans; [apply same_spec_set_uv | exact Hss] | intros _; rewrite u_set_uv; discriminate]]]]])).
  all: injection Hu as <-; exists extra, ob, ob1;
    (split; [exact Et | split; [exact Ep | split; [exact Hg | split; [exact Eo | split; [exact Hss |
     intro Hnr; rewrite <- Hk in Hnr; cbn in Hnr; discriminate]]]]]).
Qed.

(* ---------- consequences of a footprint ---------- *)
Definition prefix (s s1 : state) : Prop := exists extra, tens P G C s1 = tens P G C s ++ extra.
Lemma prefix_tval s s1 r : prefix s s1 -> r < tlen s -> tval s1 r = tval s r.
Proof. intros [extra E] L. unfold TransformState.tval. rewrite E. apply app_nth1. exact L. Qed.
Lemma prefix_refl s : prefix s s.
Proof. exists []. rewrite app_nil_r. reflexivity. Qed.
Lemma prefix_trans a b c : prefix a b -> prefix b c -> prefix a c.
Proof. intros [x E1] [y E2]. exists (x ++ y). rewrite E2, E1, app_assoc. reflexivity. Qed.

(* every object keeps its specification part *)
Definition ext (s s1 : state) : Prop :=
  prefix s s1 /\ pds P G C s1 = pds P G C s /\
  forall n, match get_obj s n, get_obj s1 n with
            | Some a, Some b => same_spec b a
            | None, None => True
            | _, _ => False
            end.
Lemma ext_refl s : ext s s.
Proof. split; [apply prefix_refl|]. split; auto. intro n. destruct (get_obj s n); auto using same_spec_refl. Qed.
Lemma ext_trans a b c : ext a b -> ext b c -> ext a c.
Proof.
  intros (P1 & D1 & O1) (P2 & D2 & O2). split; [eapply prefix_trans; eauto|]. split; [congruence|].
  intro n. specialize (O1 n). specialize (O2 n).
  destruct (get_obj a n), (get_obj b n), (get_obj c n); try contradiction; auto.
  eapply same_spec_trans; eauto.
Qed.

Lemma touches_ext m s s1 : touches m s s1 -> ext s s1.
Proof.
  intros (extra & ob & ob1 & Et & Ep & Hg & Eo & Hss & _).
  split; [exists extra; exact Et|]. split; auto. intro n.
  unfold TransformState.get_obj in *. rewrite Eo.
  destruct (Nat.eq_dec m n) as [<-|Hne].
  - rewrite Hg. erewrite nth_error_replace_same by exact Hg. exact Hss.
  - rewrite nth_error_replace_other by exact Hne. destruct (nth_error (objs P G C s) n); auto using same_spec_refl.
Qed.

(* another object is not touched at all *)
Definition frame (n : nat) (s s1 : state) : Prop :=
  prefix s s1 /\ pds P G C s1 = pds P G C s /\ get_obj s1 n = get_obj s n.
Lemma frame_refl n s : frame n s s.
Proof. split; [apply prefix_refl | split; reflexivity]. Qed.
Lemma frame_trans n a b c : frame n a b -> frame n b c -> frame n a c.
Proof. intros (P1 & D1 & O1) (P2 & D2 & O2). split; [eapply prefix_trans; eauto | split; congruence]. Qed.
Lemma touches_frame m n s s1 : m <> n -> touches m s s1 -> frame n s s1.
Proof.
  intros Hne (extra & ob & ob1 & Et & Ep & Hg & Eo & _).
  split; [exists extra; exact Et|]. split; auto.
  unfold TransformState.get_obj. rewrite Eo. apply nth_error_replace_other. exact Hne.
Qed.

(* a member that is a plain parametric transform: not a composite, not linked *)
Definition plain (s : state) (m : nat) : Prop :=
  exists ob, get_obj s m = Some ob /\ o_kind P G C ob <> KSeq /\ forall o', get_params s ob <> Some (VLink o').

Lemma get_params_same_spec s s1 a b :
  pds P G C s1 = pds P G C s -> same_spec b a -> get_params s1 b = get_params s a.
Proof.
  intros Ep (_ & _ & _ & Ha & Hd & Hb & Hm & _). unfold TransformState.get_params, get_pd.
  rewrite Ep, Ha, Hd, Hb, Hm. reflexivity.
Qed.

Lemma held_ext s s1 m : wf s -> ext s s1 -> plain s m -> held s1 m = held s m.
Proof.
  intros Hw (Hp & Ep & Ho) (ob & Hg & Hk & Hnl). specialize (Ho m). rewrite Hg in Ho.
  destruct (get_obj s1 m) as [ob1|] eqn:Hg1; [|contradiction].
  unfold TransformState.held. fold (get_obj s m) (get_obj s1 m). rewrite Hg, Hg1.
  rewrite (get_params_same_spec s s1 ob ob1 Ep Ho).
  destruct Ho as (Ek & Egr & Ec & _ & _ & _ & _ & Ei).
  assert (Es : sign_of P G C ob1 = sign_of P G C ob) by (unfold sign_of; rewrite Ek, Ei; reflexivity).
  destruct (get_params s ob) as [[| r ip | f | o']|] eqn:Egp; auto.
  - rewrite Egr, Es. rewrite (prefix_tval s s1 r Hp); auto.
    eapply get_params_ref; eauto. eapply wf_get; eauto.
  - rewrite Egr, Es, Ec. reflexivity.
  - exfalso. eapply Hnl; eauto.
Qed.

Lemma plain_ext s s1 m : ext s s1 -> plain s m -> plain s1 m.
Proof.
  intros (Hp & Ep & Ho) (ob & Hg & Hk & Hnl). specialize (Ho m). rewrite Hg in Ho.
  destruct (get_obj s1 m) as [ob1|] eqn:Hg1; [|contradiction].
  exists ob1. split; auto. split; [destruct Ho as (Ek & _); congruence|].
  intro o'. rewrite (get_params_same_spec s s1 ob ob1 Ep Ho). apply Hnl.
Qed.

(* the cascade *)
Lemma update_all_ext l : forall s s1, update_all s l = Ok tt s1 -> ext s s1.
Proof.
  induction l as [|m l IH]; intros s s1 H; cbn in H.
  - injection H as <-. apply ext_refl.
  - unfold bind in H. destruct (update1 s m) as [[] sa|] eqn:Eu; try discriminate.
    eapply ext_trans; [|eapply IH; eauto].
    destruct (get_obj s m) as [ob|] eqn:Hg.
    + eapply touches_ext. eapply update1_touches; eauto.
    + unfold TransformState.update1, with_obj in Eu. fold (get_obj s m) in Eu. rewrite Hg in Eu. discriminate.
Qed.
Lemma update_all_frame n l : forall s s1, ~ In n l -> update_all s l = Ok tt s1 -> frame n s s1.
Proof.
  induction l as [|m l IH]; intros s s1 Hn H; cbn in H.
  - injection H as <-. apply frame_refl.
  - unfold bind in H. destruct (update1 s m) as [[] sa|] eqn:Eu; try discriminate.
    eapply frame_trans; [|eapply IH; eauto; intro; apply Hn; right; assumption].
    destruct (get_obj s m) as [ob|] eqn:Hg.
    + eapply touches_frame; [|eapply update1_touches; eauto]. intro E. apply Hn. left. exact E.
    + unfold TransformState.update1, with_obj in Eu. fold (get_obj s m) in Eu. rewrite Hg in Eu. discriminate.
Qed.

(* reading a member that has just been updated and was not touched since *)
Lemma tensor1_frame sa s1 m ob t s2 :
  wf sa -> frame m sa s1 -> get_obj sa m = Some ob -> o_kind P G C ob <> KSeq ->
  (is_nonrigid (o_kind P G C ob) = true -> o_u P G C ob <> None) ->
  tensor1 s1 m = Ok t s2 -> s2 = s1 /\ tensor1 sa m = Ok t sa.
Proof.
  intros Hw (Hp & Ep & Ho) Hg Hk Hu Ht. pose proof (wf_get _ _ _ Hw Hg) as Hob.
  unfold TransformState.tensor1, with_obj in *. fold (get_obj s1 m) in Ht. fold (get_obj sa m).
  rewrite Ho, Hg in Ht. rewrite Hg.
  destruct (o_kind P G C ob) eqn:Ek; try congruence.
  1-4: (destruct (o_u P G C ob) as [u|] eqn:Eu; [|exfalso; apply Hu; auto]);
    injection Ht as <- <-; split; auto; f_equal;
    unfold TransformState.tag_of; destruct (u_src P G u) eqn:Es; auto;
    f_equal; f_equal; symmetry; apply (prefix_tval sa s1 _ Hp);
    (eapply (ok_u _ _ Hob); [exact Eu | exact Es]).
  (* KLin *)
  unfold bind in *. unfold TransformState.data_ref in *.
  rewrite (get_params_pds sa s1 ob Ep) in Ht.
  destruct (get_params sa ob) as [[| r ip | f | o']|] eqn:Egp; try discriminate.
  - injection Ht as <- <-. split; auto. f_equal. f_equal. f_equal. symmetry. apply (prefix_tval sa s1 _ Hp).
    eapply get_params_ref; eauto.
  - destruct (o_p P G C ob) eqn:Epp; try discriminate. injection Ht as <- <-. split; auto.
    f_equal. f_equal. f_equal. symmetry. apply (prefix_tval sa s1 _ Hp). destruct Hob as (_ & _ & _ & H3 & _). auto.
  - destruct (o_p P G C ob) eqn:Epp; try discriminate. injection Ht as <- <-. split; auto.
    f_equal. f_equal. f_equal. symmetry. apply (prefix_tval sa s1 _ Hp). destruct Hob as (_ & _ & _ & H3 & _). auto.
Qed.

Lemma update_all_fresh l : forall s s1,
  wf s -> Forall (plain s) l -> update_all s l = Ok tt s1 ->
  forall m, In m l -> forall t s2, tensor1 s1 m = Ok t s2 -> s2 = s1 /\ held s m = Some t.
Proof.
  induction l as [|m0 l IH]; intros s s1 Hw Hpl H m Hin t s2 Ht; [contradiction|].
  cbn in H. unfold bind in H. destruct (update1 s m0) as [[] sa|] eqn:Eu; try discriminate.
  inversion Hpl as [|? ? Hp0 Hpl']; subst.
  destruct Hp0 as (ob0 & Hg0 & Hk0 & Hnl0).
  pose proof (update1_touches _ _ _ _ Hg0 Eu) as Htch.
  pose proof (touches_ext _ _ _ Htch) as Hext.
  assert (Hwa : wf sa).
  { pose proof (update1_post p0 (fun _ _ => p0) (fun x => x) (fun x _ => x) (fun _ x _ _ => x) callP fits (fun _ _ => true) (fun _ _ => true) spline_ok (fun _ _ => None) cf s m0 Hw) as [Hx _]. rewrite Eu in Hx. exact Hx. }
  destruct (in_dec Nat.eq_dec m l) as [Hl|Hnl].
  - (* updated again later in the cascade *)
    assert (Hpa : Forall (plain sa) l).
    { rewrite Forall_forall in *. intros x Hx. eapply plain_ext; eauto. }
    destruct (IH sa s1 Hwa Hpa H m Hl t s2 Ht) as [-> Hh]. split; auto.
    rewrite <- Hh. symmetry. apply held_ext; auto.
    rewrite Forall_forall in Hpl'. auto.
  - (* the head, not touched afterwards *)
    destruct Hin as [<-|Hin]; [|contradiction].
    destruct Htch as (extra & ob & ob1 & Et & Ep & Hg & Eo & Hss & Hu1).
    rewrite Hg0 in Hg. injection Hg as <-.
    assert (Hga : get_obj sa m0 = Some ob1).
    { unfold TransformState.get_obj. rewrite Eo. eapply nth_error_replace_same. exact Hg0. }
    assert (Hk1 : o_kind P G C ob1 = o_kind P G C ob0) by apply Hss.
    pose proof (update_all_frame m0 l sa s1 Hnl H) as Hfr.
    destruct (tensor1_frame sa s1 m0 ob1 t s2 Hwa Hfr Hga) as [-> Hta]; auto; try congruence.
    { rewrite Hk1. exact Hu1. }
    split; auto.
    eapply (update1_then_tensor p0 callP fits spline_ok cf Hcf s m0 sa); eauto.
    unfold single. fold (get_obj s m0). rewrite Hg0. exact Hk0.
Qed.

(* ---------- the theorem ---------- *)
Lemma tensor_all_fresh s s1 (ms : list nat) : forall l s2 (sub : list nat),
  (forall m, In m sub -> forall t s2, tensor1 s1 m = Ok t s2 -> s2 = s1 /\ held s m = Some t) ->
  tensor_all s1 sub = Ok l s2 -> s2 = s1 /\ Forall2 (fun t m => held s m = Some t) l sub.
Proof.
  intros l s2 sub. revert l s2. induction sub as [|m sub IH]; intros l s2 Hall H; cbn in H.
  - injection H as <- <-. split; constructor.
  - unfold bind in H. destruct (tensor1 s1 m) as [t sx|] eqn:Et; try discriminate.
    destruct (Hall m (or_introl eq_refl) t sx Et) as [-> Hh].
    destruct (tensor_all s1 sub) as [ts sy|] eqn:Ea; try discriminate.
    destruct (IH ts sy (fun m' Hm => Hall m' (or_intror Hm)) eq_refl) as [-> Hf].
    injection H as <- <-. split; auto.
Qed.

Theorem seq_call_is_fresh s o ob l s' :
  wf s -> get_obj s o = Some ob -> o_kind P G C ob = KSeq ->
  Forall (plain s) (o_members P G C ob) ->
  call s o = Ok l s' ->
  Forall2 (fun t m => held s m = Some t) l (o_members P G C ob).
Proof.
  destruct (cfg_all_fields _ Hcf) as (_ & _ & _ & _ & _ & _ & _ & _ & Hh & _ & _ & _ & Hsu & _).
  intros Hw Hg Hk Hpl Hc.
  unfold TransformState.call in Hc. rewrite Hh in Hc.
  unfold TransformState.update, with_obj in Hc. fold (get_obj s o) in Hc. rewrite Hg, Hk, Hsu in Hc.
  unfold bind in Hc. destruct (update_all s (o_members P G C ob)) as [[] s1|] eqn:Eu; try discriminate.
  (* the composite object itself is not a member's target: members are not composites *)
  assert (Hgo : get_obj s1 o = Some ob).
  { assert (Hno : ~ In o (o_members P G C ob)).
    { intro Hin. rewrite Forall_forall in Hpl. destruct (Hpl o Hin) as (ob' & Hg' & Hk' & _). congruence. }
    destruct (update_all_frame o _ s s1 Hno Eu) as (_ & _ & E). rewrite E. exact Hg. }
  unfold TransformState.forward, with_obj in Hc. fold (get_obj s1 o) in Hc. rewrite Hgo, Hk in Hc.
  eapply (tensor_all_fresh s s1 (o_members P G C ob)); [|exact Hc].
  intros m Hm t s2 Ht. eapply update_all_fresh; eauto.
Qed.

End Seq.
