(* lie_bracket = the generated pointwise formula (Gen/FlowDeriv.v gen_lie2 / gen_lie3, traced from core/flow.py by the
   C12 unit) applied to the Jacobians of its two arguments, where the partial derivative along axis k is an arbitrary
   operator `dx k` on scalar fields (linearity is a hypothesis of the theorems; flow_derivatives' finite-difference /
   convolution operators are linear).  Definitions only. *)
From Coq Require Import ZArith List Bool.
From DV Require Import Base.Field Base.LinAlg Model.BCH Gen.FlowDeriv Gen.FlowBCH.
Import ListNotations.
Local Open Scope fld_scope.

Section Lie.
Context {K : fld}.
Variable P : Type.                        (* sample points *)
Notation sf := (P -> K).
Variable dx : nat -> sf -> sf.            (* partial derivative along spatial axis k (0 = x) *)

Definition vf2 := (sf * sf)%type.
Definition vf3 := (sf * sf * sf)%type.
(* general form: dxv differentiates the first argument v, dxu the second argument u *)
Definition lie2g (dxv dxu : nat -> sf -> sf) (v u : vf2) : vf2 :=
  let '(v0, v1) := v in let '(u0, u1) := u in
  let g := fun p => gen_lie2 (dxv 0%nat v0 p) (dxv 1%nat v0 p) (dxv 0%nat v1 p) (dxv 1%nat v1 p) (dxu 0%nat u0 p) (dxu 1%nat u0 p) (dxu 0%nat u1 p) (dxu 1%nat u1 p)
                             (v0 p) (v1 p) (u0 p) (u1 p) in
  (fun p => nth 0 (g p) 0, fun p => nth 1 (g p) 0).
Definition lie3g (dxv dxu : nat -> sf -> sf) (v u : vf3) : vf3 :=
  let '(v0, v1, v2) := v in let '(u0, u1, u2) := u in
  let g := fun p => gen_lie3 (dxv 0%nat v0 p) (dxv 1%nat v0 p) (dxv 2%nat v0 p) (dxv 0%nat v1 p) (dxv 1%nat v1 p) (dxv 2%nat v1 p) (dxv 0%nat v2 p) (dxv 1%nat v2 p) (dxv 2%nat v2 p)
                             (dxu 0%nat u0 p) (dxu 1%nat u0 p) (dxu 2%nat u0 p) (dxu 0%nat u1 p) (dxu 1%nat u1 p) (dxu 2%nat u1 p) (dxu 0%nat u2 p) (dxu 1%nat u2 p) (dxu 2%nat u2 p)
                             (v0 p) (v1 p) (v2 p) (u0 p) (u1 p) (u2 p) in
  (fun p => nth 0 (g p) 0, fun p => nth 1 (g p) 0, fun p => nth 2 (g p) 0).
Definition lie2 := lie2g dx dx.
Definition lie3 := lie3g dx dx.
(* lie_bracket as coded: the derivative operator (finite differences of `mode` / `spacing` / `stride`, Gaussian smoothing of
   `sigma`, ...) is a function dxo of WHICH of the caller's options reach flow_derivatives; each Jacobian uses the operator
   of the options the source forwards for it (generated: Gen/FlowBCH.v) *)
Variable dxo : lopts -> nat -> sf -> sf.
Definition lie2_code := lie2g (dxo gen_lie_opts_first_arg) (dxo gen_lie_opts_second_arg).
Definition lie3_code := lie3g (dxo gen_lie_opts_first_arg) (dxo gen_lie_opts_second_arg).

Definition sadd (f g : sf) : sf := fun p => f p + g p.
Definition sscale (c : K) (f : sf) : sf := fun p => c * f p.
Definition vadd2 (a b : vf2) : vf2 := (sadd (fst a) (fst b), sadd (snd a) (snd b)).
Definition vscale2 (c : K) (a : vf2) : vf2 := (sscale c (fst a), sscale c (snd a)).
Definition vadd3 (a b : vf3) : vf3 := (sadd (fst (fst a)) (fst (fst b)), sadd (snd (fst a)) (snd (fst b)), sadd (snd a) (snd b)).
Definition vscale3 (c : K) (a : vf3) : vf3 := (sscale c (fst (fst a)), sscale c (snd (fst a)), sscale c (snd a)).
(* equality of vector fields = equality at every sample point *)
Definition veq2 (a b : vf2) : Prop := forall p, fst a p = fst b p /\ snd a p = snd b p.
Definition veq3 (a b : vf3) : Prop := forall p, fst (fst a) p = fst (fst b) p /\ snd (fst a) p = snd (fst b) p /\ snd a p = snd b p.
Definition linear_opg (d : nat -> sf -> sf) : Prop :=
  (forall k f g p, d k (sadd f g) p = d k f p + d k g p) /\ (forall k c f p, d k (sscale c f) p = c * d k f p).
Definition linear_op : Prop := linear_opg dx.
End Lie.
