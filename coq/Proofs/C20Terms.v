(* C20 -- facts about the generated AD terms (coq/Gen/ADTerms.v, traced from deepali's source):
   the Euler-matrix terms evaluate to the C08 model's closed forms (so the C08 theorems speak about them), and the
   terms without non-constant denominators / sqrt / ln are defined at every input (their gradients are the
   derivative everywhere). *)
From Coq Require Import Reals QArith Qreals List Lra Bool.
From Coquelicot Require Import Coquelicot.
From DV Require Import Base.Field Base.LinAlg Base.RInst Model.Enums Model.AD Gen.ADTerms Gen.Euler Proofs.C20AD.
Import ListNotations.
Local Open Scope R_scope.

Lemma ad_euler_2d_agrees (env : nat -> R) :
  map (evalR env) gen_ad_euler_2d = List.concat (gen_euler2d (K:=RF) (cos (env 0%nat)) (sin (env 0%nat))).
Proof. reflexivity. Qed.

Lemma ad_euler_ZXZ_agrees (env : nat -> R) :
  map (evalR env) gen_ad_euler_ZXZ =
  List.concat (gen_euler (K:=RF) (AZ, AX, AZ) (cos (env 0%nat)) (cos (env 1%nat)) (cos (env 2%nat))
                         (sin (env 0%nat)) (sin (env 1%nat)) (sin (env 2%nat))).
Proof. reflexivity. Qed.

Lemma ad_euler_XYZ_agrees (env : nat -> R) :
  map (evalR env) gen_ad_euler_XYZ =
  List.concat (gen_euler (K:=RF) (AX, AY, AZ) (cos (env 0%nat)) (cos (env 1%nat)) (cos (env 2%nat))
                         (sin (env 0%nat)) (sin (env 1%nat)) (sin (env 2%nat))).
Proof. reflexivity. Qed.

(* terms that are defined everywhere: divisions only by non-zero constants, no sqrt / ln *)
Fixpoint total (e : expr) : bool :=
  match e with
  | EC _ | EV _ => true
  | EAdd a b | ESub a b | EMul a b => total a && total b
  | EDiv a (EC q) => total a && negb (Qeq_bool q 0)
  | EDiv _ _ => false
  | ENeg a => total a
  | EU Usqrt _ | EU Uln _ => false
  | EU _ a => total a
  end.

Lemma total_defined (e : expr) : total e = true -> forall env, defined env e.
Proof.
  induction e as [q | j | a IHa b IHb | a IHa b IHb | a IHa b IHb | a IHa b IHb | a IHa | f a IHa]; simpl; intros H env; auto.
  - apply andb_prop in H as [H1 H2]. split; auto.
  - apply andb_prop in H as [H1 H2]. split; auto.
  - apply andb_prop in H as [H1 H2]. split; auto.
  - destruct b; try discriminate. apply andb_prop in H as [H1 H2]. repeat split; auto.
    simpl. intro E. apply negb_true_iff in H2. apply Qeq_bool_neq in H2. apply H2.
    apply eqR_Qeq. rewrite E. unfold Q2R; simpl; lra.
  - destruct f; try discriminate; auto.
Qed.

Definition total_families : list (list expr) :=
  [gen_ad_euler_XYZ; gen_ad_euler_ZXZ; gen_ad_euler_XYX; gen_ad_euler_2d; gen_ad_homogeneous_transform_2d;
   gen_ad_homogeneous_transform_3d; gen_ad_hmm_affine_translation; gen_ad_hmm_3d; gen_ad_mse_loss; gen_ad_ssd_loss;
   gen_ad_divergence_loss; gen_ad_bending_loss_fcb; gen_ad_curvature_loss_fcb; gen_ad_jacobian_det_2d; gen_ad_divergence_2d;
   gen_ad_curl_2d; gen_ad_affine_flow].

Lemma total_families_total : forallb (forallb total) total_families = true.
Proof. vm_compute. reflexivity. Qed.

Lemma total_families_gradients (outs : list expr) (e : expr) (env : nat -> R) (i : nat) :
  In outs total_families -> In e outs ->
  is_derive (fun t => evalR (upd env i t) e) (env i) (evalR env (D i e)).
Proof.
  intros Ho He. apply D_sound. apply total_defined.
  pose proof total_families_total as H. rewrite forallb_forall in H.
  specialize (H outs Ho). rewrite forallb_forall in H. apply H, He.
Qed.
