(* C04: the traced ImageBatch methods (Gen/ImageOpsT.v) are the model's operations and keep data and grid in lock-step. *)
From Coq Require Import ZArith List Field Ring Lia Bool.
From DV Require Import Base.Field Base.FieldFacts Base.LinAlg Base.Tactics Model.Enums Model.Homog Model.Grid Model.Sampler
  Gen.GridT Gen.ImageOpsT Model.ImageOps Model.ImageOpsCheck Proofs.C01Grid.
Import ListNotations.
Local Open Scope fld_scope.

Section C04GenA.
Variable K : fld.
Hypothesis Kf : is_field K.
Hypothesis Kc : char0 K.
Add Field KF_C04GenA : Kf.

(* numerals are non-zero in characteristic 0 *)
Lemma nz1 : (of_Z 1 : K) <> 0. Proof. apply (of_Z_nz K Kf Kc); lia. Qed.
Lemma nz2 : (of_Z 2 : K) <> 0. Proof. apply (of_Z_nz K Kf Kc); lia. Qed.
Lemma nz3 : (of_Z 3 : K) <> 0. Proof. apply (of_Z_nz K Kf Kc); lia. Qed.
Lemma nz4 : (of_Z 4 : K) <> 0. Proof. apply (of_Z_nz K Kf Kc); lia. Qed.
Lemma nz5 : (of_Z 5 : K) <> 0. Proof. apply (of_Z_nz K Kf Kc); lia. Qed.
Lemma nz6 : (of_Z 6 : K) <> 0. Proof. apply (of_Z_nz K Kf Kc); lia. Qed.
Lemma nz7 : (of_Z 7 : K) <> 0. Proof. apply (of_Z_nz K Kf Kc); lia. Qed.
Lemma nz8 : (of_Z 8 : K) <> 0. Proof. apply (of_Z_nz K Kf Kc); lia. Qed.
Let K1 := K1nz K Kf.
Let K2 := K2nz K Kf Kc.
Lemma K4 : ((1 + 1) * (1 + 1) : K) <> 0.
Proof. intro E. apply K2. transitivity ((1 + 1) * (1 + 1) / (1 + 1) : K); [field; exact K2 | rewrite E; field; exact K2]. Qed.
Hint Resolve K1 K2 K4 nz1 nz2 nz3 nz4 nz5 nz6 nz7 nz8 : core.
Lemma rszZ_is_rsz (ac : bool) (n m : Z) (x : K) : rszZ ac n m x = rsz ac (of_Z n) (of_Z m) x.
Proof. unfold rszZ, rsz. rewrite !of_Z_sub by auto. reflexivity. Qed.
Lemma K3 : (1 + (1 + 1) : K) <> 0.
Proof. intro E. apply nz3. cbn [of_Z of_pos]. rewrite <- E. ring. Qed.
Lemma K3' : ((1 + 1) + 1 : K) <> 0.
Proof. intro E. apply nz3. cbn [of_Z of_pos]. rewrite <- E. ring. Qed.
Hint Resolve K3 K3' : core.
Lemma mul_nz (a b : K) : a <> 0 -> b <> 0 -> a * b <> 0.
Proof. intros Ha Hb E. apply Ha. transitivity (a * b / b); [field; exact Hb | rewrite E; field; exact Hb]. Qed.
(* closed numerals in any shape (as field leaves them, with unfolded projections): reify up to conversion *)
Ltac zofc e :=
  match e with
  | ?f ?a ?b => let _ := constr:(eq_refl : f = @fadd K) in let x := zofc a in let y := zofc b in constr:((x + y)%Z)
  | ?f ?a ?b => let _ := constr:(eq_refl : f = @fmul K) in let x := zofc a in let y := zofc b in constr:((x * y)%Z)
  | ?f ?a ?b => let _ := constr:(eq_refl : f = @fsub K) in let x := zofc a in let y := zofc b in constr:((x - y)%Z)
  | _ => let _ := constr:(eq_refl : e = @f1 K) in constr:(1%Z)
  | _ => let _ := constr:(eq_refl : e = @f0 K) in constr:(0%Z)
  end.
Ltac foldc e :=
  match e with
  | ?f ?a ?b => let _ := constr:(eq_refl : f = @fadd K) in let x := foldc a in let y := foldc b in constr:(@fadd K x y)
  | ?f ?a ?b => let _ := constr:(eq_refl : f = @fmul K) in let x := foldc a in let y := foldc b in constr:(@fmul K x y)
  | ?f ?a ?b => let _ := constr:(eq_refl : f = @fsub K) in let x := foldc a in let y := foldc b in constr:(@fsub K x y)
  | _ => let _ := constr:(eq_refl : e = @f1 K) in constr:(@f1 K)
  | _ => let _ := constr:(eq_refl : e = @f0 K) in constr:(@f0 K)
  end.
Ltac numnz :=
  match goal with
  | |- ?e <> _ =>
      let z := zofc e in let z' := eval compute in z in let e' := foldc e in
      change (e' <> 0);
      let E := fresh in
      assert (E : e' = of_Z (K:=K) z') by (cbn [of_Z of_pos]; ring);
      rewrite E; apply (of_Z_nz K Kf Kc); lia
  end.
Ltac side := repeat split; auto; try numnz.


Lemma ok_crop_num_holds : ok_crop_num K.
Proof. split; [intros; reflexivity | split; [reflexivity | intros s c d; unfold src_ok; repeat constructor; fcbv; list_eq; field; side]]. Qed.
Lemma ok_crop_margin_holds : ok_crop_margin K.
Proof. split; [intros; reflexivity | split; [reflexivity | intros s c d; unfold src_ok; repeat constructor; fcbv; list_eq; field; side]]. Qed.
Lemma ok_crop_mixed_holds : ok_crop_mixed K.
Proof. split; [intros; reflexivity | split; [reflexivity | intros s c d; unfold src_ok; repeat constructor; fcbv; list_eq; field; side]]. Qed.
Lemma ok_pad_num_holds : ok_pad_num K.
Proof. split; [intros; reflexivity | split; [reflexivity | intros s c d; unfold src_ok; repeat constructor; fcbv; list_eq; field; side]]. Qed.
Lemma ok_pad_margin_holds : ok_pad_margin K.
Proof. split; [intros; reflexivity | split; [reflexivity | intros s c d; unfold src_ok; repeat constructor; fcbv; list_eq; field; side]]. Qed.
Lemma ok_center_crop_holds : ok_center_crop K.
Proof. split; [intros; reflexivity | split; [reflexivity | intros s c d; unfold src_ok; repeat constructor; fcbv; list_eq; field; side]]. Qed.
Lemma ok_center_crop_odd_holds : ok_center_crop_odd K.
Proof. split; [intros; reflexivity | split; [reflexivity | intros s c d; unfold src_ok; repeat constructor; fcbv; list_eq; field; side]]. Qed.
Lemma ok_center_pad_holds : ok_center_pad K.
Proof. split; [intros; reflexivity | split; [reflexivity | intros s c d; unfold src_ok; repeat constructor; fcbv; list_eq; field; side]]. Qed.
Lemma ok_center_pad_odd_holds : ok_center_pad_odd K.
Proof. split; [intros; reflexivity | split; [reflexivity | intros s c d; unfold src_ok; repeat constructor; fcbv; list_eq; field; side]]. Qed.
Lemma ok_narrow_x_holds : ok_narrow_x K.
Proof. split; [intros; reflexivity | split; [reflexivity | intros s c d; unfold src_ok; repeat constructor; fcbv; list_eq; field; side]]. Qed.
Lemma ok_narrow_y_holds : ok_narrow_y K.
Proof. split; [intros; reflexivity | split; [reflexivity | intros s c d; unfold src_ok; repeat constructor; fcbv; list_eq; field; side]]. Qed.
Lemma ok_crop3_holds : ok_crop3 K.
Proof. split; [intros; reflexivity | split; [reflexivity | intros s c d; unfold src_ok; repeat constructor; fcbv; list_eq; field; side]]. Qed.
Lemma ok_roi3_holds : ok_roi3 K.
Proof. split; [intros; reflexivity | split; [reflexivity | intros s c d; unfold src_ok; repeat constructor; fcbv; list_eq; field; side]]. Qed.
Lemma ok_narrow_z_holds : ok_narrow_z K.
Proof. split; [intros; reflexivity | split; [reflexivity | intros s c d; unfold src_ok; repeat constructor; fcbv; list_eq; field; side]]. Qed.
Lemma ok_pool2_holds : ok_pool2 K.
Proof. split; [intros; fcbv; list_eq; field; side | reflexivity]. Qed.
Lemma ok_pool_aniso_holds : ok_pool_aniso K.
Proof. split; [intros; fcbv; list_eq; field; side | split; reflexivity]. Qed.
Lemma ok_roi2_holds : ok_roi2 K.
Proof. split; [intros; reflexivity | split; [reflexivity | intros s c d; unfold src_ok; repeat constructor; fcbv; list_eq; field; side]]. Qed.
Lemma ok_roi2_pad_holds : ok_roi2_pad K.
Proof. split; [intros; reflexivity | split; [reflexivity | intros s c d; unfold src_ok; repeat constructor; fcbv; list_eq; field; side]]. Qed.
Lemma ok_conv2_holds : ok_conv2 K.
Proof. unfold ok_conv2. intros. fcbv. list_eq; ring. Qed.
End C04GenA.
