(* C18 -- Images and flow fields survive a write/read round trip in every supported format.
   Statements only; every proof is `exact <lemma>` (or a one-line instantiation).  What is proved is the
   CONVENTION LAYER (Model/Codec.v over Gen/Codec.v, which is traced from deepali's I/O source on every
   run): channel-axis moves, DimSize / size order, TransformMatrix transposition, element-type tables and
   promotions, LPS<->RAS flips and direction = affine / spacing, SimpleITK direction flattening, flow
   vectors to world axes and back.  Bytes, zlib, nibabel, ITK are runtime (correspondence on real files). *)
From Coq Require Import String ZArith QArith List Bool Arith.
From DV Require Import Base.Field Base.LinAlg Base.QcInst Model.Enums Model.CodecTypes Gen.Codec Model.Codec
  Proofs.C18Layout Proofs.C18Codec Proofs.C18Field Proofs.C18Tie.
Import ListNotations.
Local Open Scope fld_scope.

(* 1. moving the channel axis last (write) and first (read) are inverse: every channel count, every number of
      voxels (hence D = 2, 3 and every size) *)
Theorem C18_channel_axis_roundtrip :
  forall (A : Type) (C N : nat) (l : list A),
  length l = (C * N)%nat -> chan_first C N (chan_last C N l) = l.
Proof. exact (@chan_first_last). Qed.
Print Assumptions C18_channel_axis_roundtrip.

(* ... and the move is the transposition it is meant to be: entry (j, i) of the moved array is entry (i, j) *)
Theorem C18_channel_axis_is_transposition :
  forall (A : Type) (d : A) (r c : nat) (m : list (list A)) (i j : nat),
  rect r c m -> (i < r)%nat -> (j < c)%nat -> nth i (nth j (tr c m) []) d = nth j (nth i m []) d.
Proof. exact (@nth_tr). Qed.
Print Assumptions C18_channel_axis_is_transposition.

(* 2. SimpleITK-backed formats (.mhd, .nrrd, ...): image -> sitk image -> image is the identity; D = 2, 3, any
      channel count, size, grid, every torch element type.  FULL statement. *)
Theorem C18_sitk_formats_roundtrip :
  forall (K : fld) (A : Type) (D : nat) (x : image K A),
  D = 2%nat \/ D = 3%nat -> wf_image D x -> In (i_type x) torch_types ->
  read_sitk D (write_sitk D x) = Some x.
Proof. exact sitk_roundtrip. Qed.
Print Assumptions C18_sitk_formats_roundtrip.

(* 3. a .mha written by the library is, read under ITK's MetaImage convention, exactly Image.sitk().  FULL. *)
Theorem C18_mha_read_by_itk :
  forall (K : fld) (A : Type) (D : nat) (c : bool) (x : image K A),
  D = 2%nat \/ D = 3%nat -> wf_image D x -> In (i_type x) torch_types ->
  exists f, write_meta D c x = Some f /\ itk_read_mha f = Some (write_sitk D x).
Proof. exact mha_read_by_itk. Qed.
Print Assumptions C18_mha_read_by_itk.

(* 4. native .mha round trip.  FULL: D = 2, 3, every channel count, size, oriented anisotropic grid, torch element
      type, compressed or not.  (Obtained from the conditional form: the reader accepts every configuration --
      gen_meta_r_status, regenerated from meta.py -- and the header conventions of both dimensions invert each other.) *)
Theorem C18_meta_roundtrip :
  forall (K : fld) (A : Type) (D : nat) (c : bool) (x : image K A),
  D = 2%nat \/ D = 3%nat -> wf_image D x -> In (i_type x) torch_types ->
  exists f, write_meta D c x = Some f /\ read_meta f = Some x.
Proof. exact meta_roundtrip. Qed.
Print Assumptions C18_meta_roundtrip.

(* the conditional form it is derived from (kept: it is what survives if a reader branch breaks again) *)
Theorem C18_meta_roundtrip_conditional :
  forall (K : fld) (A : Type) (D : nat) (c : bool) (x : image K A),
  D = 2%nat \/ D = 3%nat -> wf_image D x -> In (i_type x) torch_types ->
  meta_r_status D (i_chan x) c = ROk -> meta_geo_ok K D ->
  exists f, write_meta D c x = Some f /\ read_meta f = Some x.
Proof. exact meta_roundtrip_cond. Qed.
Print Assumptions C18_meta_roundtrip_conditional.

(* data handed to write_image WITHOUT a channel dimension (data.ndim = grid.ndim) produces exactly the file of the
   same data with one channel (header and payload, D = 2, 3, compressed or not; traced), so the theorem above with
   C = 1 covers it: it reads back as the (1, ..., X) image *)
Theorem C18_meta_no_channel_dim : gen_meta_w_nochannel_ok = true /\ gen_meta_w_nochannel_same_as_c1 = true.
Proof. exact meta_nochannel_ok. Qed.
Print Assumptions C18_meta_no_channel_dim.

(* 5. a .mha written by ITK (its convention) is read back by the library.  FULL: D = 2, 3, any channel count *)
Theorem C18_itk_mha_read :
  forall (K : fld) (A : Type) (D : nat) (c : bool) (x : image K A),
  D = 2%nat \/ D = 3%nat -> wf_image D x -> In (i_type x) torch_types ->
  exists f, itk_write_mha D c (write_sitk D x) = Some f /\ read_meta f = Some x.
Proof. exact itk_mha_read. Qed.
Print Assumptions C18_itk_mha_read.

(* 6. NIfTI.  FULL (theorems C18_nifti_roundtrip and C18_nifti_read_itk near the end of this file): the native round trip
      write_nifti -> read_nifti is exact and files in ITK's scalar and vector layouts are read back exactly, D = 2, 3, every
      channel count, size, torch element type, non-zero spacing.  They are instances of the conditional forms below (which
      hold for every layout and are what survives if a writer / reader branch breaks again). *)

(* conditional forms (what a repaired writer / reader has to satisfy; they hold for every layout, channel count and size):
   reading inverts the LPS -> RAS affine for every accepted ITK layout, and the native round trip is exact whenever the
   writer hands nibabel a modelled layout with the RAS affine of the grid and the reader accepts that layout *)
Theorem C18_nifti_read_itk_conditional :
  forall (K : fld), is_field K -> forall (A : Type) (D : nat) (x : image K A),
  D = 2%nat \/ D = 3%nat -> wf_image D x -> In (i_type x) torch_types ->
  Forall (fun s => s <> 0) (i_spacing x) ->
  nifti_r_status (if Nat.eqb (i_chan x) 1 then LScalar else LItkVector) D (i_chan x) = ROk ->
  read_nifti (itk_write_nii D x) = Some x.
Proof. exact nifti_read_itk_cond. Qed.
Print Assumptions C18_nifti_read_itk_conditional.

Theorem C18_nifti_roundtrip_conditional :
  forall (K : fld), is_field K -> forall (A : Type) (L : nlayout) (D : nat) (x : image K A),
  D = 2%nat \/ D = 3%nat -> wf_image D x -> In (i_type x) torch_types ->
  Forall (fun s => s <> 0) (i_spacing x) ->
  nifti_w_status D (i_chan x) = ROk -> nifti_w_layout D (i_chan x) = Some L ->
  sel D (gen_nifti_w_affine_2 (i_origin x) (i_spacing x) (i_dir x)) (gen_nifti_w_affine_3 (i_origin x) (i_spacing x) (i_dir x)) None
    = Some (lps_to_ras_affine D (i_origin x) (i_spacing x) (i_dir x)) ->
  nifti_r_status L D (i_chan x) = ROk ->
  exists f, write_nifti D x = Some f /\ read_nifti f = Some x.
Proof. exact nifti_roundtrip_cond. Qed.
Print Assumptions C18_nifti_roundtrip_conditional.



(* 7. element types: every torch element type is written under a MetaImage name that reads back as the same
      type (library reader and ITK naming) and passes through SimpleITK unchanged; every promotion any reader
      performs (uint16 -> int32, uint32 -> int64) keeps every representable value.  Finite tables, complete. *)
Theorem C18_element_type_tables : type_tables_ok = true.
Proof. exact type_tables_hold. Qed.
Print Assumptions C18_element_type_tables.

Theorem C18_promotions_value_preserving : promotions_ok = true.
Proof. exact promotions_hold. Qed.
Print Assumptions C18_promotions_value_preserving.

(* 8. flow fields are written with world-space vectors and labelled as such on reading; converting back to the
      original axes recovers the vectors (orthonormal direction, non-zero spacing, n <> 0 for CUBE, n <> 1 for
      CUBE_CORNERS) *)
Theorem C18_flow_axes_world : gen_flow_write_axes = WORLD /\ gen_flow_read_axes = WORLD.
Proof. exact flow_axes_world. Qed.
Print Assumptions C18_flow_axes_world.

Theorem C18_flow_roundtrip_2d :
  forall (K : fld), is_field K ->
  forall (ax : axes) (n0 n1 s0 s1 d00 d01 d10 d11 u0 u1 : K),
  (1 + 1 : K) <> 0 -> s0 <> 0 -> s1 <> 0 -> axes_guard K ax [n0; n1] ->
  orthonormal 2 [[d00; d01]; [d10; d11]] ->
  flow_from_file 2 ax [n0; n1] [s0; s1] [[d00; d01]; [d10; d11]]
    (flow_to_file 2 ax [n0; n1] [s0; s1] [[d00; d01]; [d10; d11]] [u0; u1]) = [u0; u1].
Proof. exact flow_roundtrip_2. Qed.
Print Assumptions C18_flow_roundtrip_2d.

Theorem C18_flow_roundtrip_3d :
  forall (K : fld), is_field K ->
  forall (ax : axes) (n0 n1 n2 s0 s1 s2 d00 d01 d02 d10 d11 d12 d20 d21 d22 u0 u1 u2 : K),
  (1 + 1 : K) <> 0 -> s0 <> 0 -> s1 <> 0 -> s2 <> 0 -> axes_guard K ax [n0; n1; n2] ->
  orthonormal 3 [[d00; d01; d02]; [d10; d11; d12]; [d20; d21; d22]] ->
  flow_from_file 3 ax [n0; n1; n2] [s0; s1; s2] [[d00; d01; d02]; [d10; d11; d12]; [d20; d21; d22]]
    (flow_to_file 3 ax [n0; n1; n2] [s0; s1; s2] [[d00; d01; d02]; [d10; d11; d12]; [d20; d21; d22]] [u0; u1; u2])
  = [u0; u1; u2].
Proof. exact flow_roundtrip_3. Qed.
Print Assumptions C18_flow_roundtrip_3d.

(* 9. the hand-written payload model is the permutation deepali's own functions perform on every traced sample *)
Theorem C18_payload_model_matches_traces :
  tie_meta_w = true /\ tie_meta_r = true /\ tie_sitk_w = true /\ tie_sitk_r = true /\ tie_nifti_r = true /\ tie_nifti_w = true.
Proof. exact payload_model_matches_traces. Qed.
Print Assumptions C18_payload_model_matches_traces.

(* 10. the align_corners flag requested when reading (FlowField.read, Image.read, Grid.from_file) is the flag of the returned grid *)
Theorem C18_align_corners_passthrough : align_corners_passthrough_ok = true.
Proof. exact align_corners_passthrough_holds. Qed.
Print Assumptions C18_align_corners_passthrough.

(* 11. suffix-based dispatch of write_image / read_image: same backend on both sides for every suffix, the property's formats
       on the backends the model assumes *)
Theorem C18_dispatch_consistent : dispatch_ok = true.
Proof. exact dispatch_holds. Qed.
Print Assumptions C18_dispatch_consistent.

Theorem C18_nifti_roundtrip :
  forall (K : fld), is_field K -> forall (A : Type) (D : nat) (x : image K A),
  D = 2%nat \/ D = 3%nat -> wf_image D x -> In (i_type x) torch_types -> Forall (fun s => s <> 0) (i_spacing x) ->
  exists f, write_nifti D x = Some f /\ read_nifti f = Some x.
Proof. exact nifti_roundtrip. Qed.
Print Assumptions C18_nifti_roundtrip.

Theorem C18_nifti_read_itk :
  forall (K : fld), is_field K -> forall (A : Type) (D : nat) (x : image K A),
  D = 2%nat \/ D = 3%nat -> wf_image D x -> In (i_type x) torch_types -> Forall (fun s => s <> 0) (i_spacing x) ->
  read_nifti (itk_write_nii D x) = Some x.
Proof. exact nifti_read_itk. Qed.
Print Assumptions C18_nifti_read_itk.

Theorem C18_big_endian_and_channelless : msb_and_nochannel_ok = true.
Proof. exact msb_and_nochannel_hold. Qed.
Print Assumptions C18_big_endian_and_channelless.

(* non-vacuity: a rotated anisotropic 2-D grid with 2 channels is well-formed, its direction is orthonormal,
   the channel move really permutes, and the SimpleITK round trip returns it *)
Definition ex_img : image QcF nat :=
  @mkImage QcF nat [3; 2]%nat 2%nat I16 [q 3 2; q (-9) 4] [q 1 2; q 5 4] [[q 3 5; q (-4) 5]; [q 4 5; q 3 5]] (seq 0 12).
Example C18_nonvacuous :
  (length (i_data ex_img) = i_chan ex_img * nprod (i_size ex_img))%nat /\
  chan_last 2 6 (i_data ex_img) = [0; 6; 1; 7; 2; 8; 3; 9; 4; 10; 5; 11]%nat /\
  mclose 0%Q (mm (K:=QcF) 2 (mT 2 (i_dir ex_img)) (i_dir ex_img)) (eye (K:=QcF) 2) = true /\
  (match read_sitk 2 (write_sitk 2 ex_img) with Some y => Nat.eqb (length (i_data y)) 12 | None => false end) = true /\
  vclose 0%Q (flow_from_file (K:=QcF) 2 CUBE [q 3 1; q 2 1] (i_spacing ex_img) (i_dir ex_img)
               (flow_to_file (K:=QcF) 2 CUBE [q 3 1; q 2 1] (i_spacing ex_img) (i_dir ex_img) [q 1 3; q (-2) 7])) [q 1 3; q (-2) 7] = true.
Proof. vm_compute. repeat split. Qed.
