(* Translation combined with an ARBITRARY invertible linear 2-D part: G = [M | h], det M <> 0.  The translation t_k of the closed
   form (I + G/2^k)^(2^k) satisfies M t_k = (B_k - I) h for every k, B_k the linear part of the closed form; hence it converges to
   M^-1 (E - I) h whenever B_k -> E entrywise (E = exp M by the 2-D theorems), the translation column of exp [M h; 0 0]. *)
From Coq Require Import Reals Lra Lia List.
From Coquelicot Require Import Coquelicot.
From DV Require Import Base.Field Base.LinAlg Base.RInst Base.Tactics Model.Sampler Model.Flow Proofs.C11Compose
  Proofs.C11Limit Proofs.C11LimitModel Proofs.C11LimitConj2 Proofs.C11LimitAnalysis Proofs.C11LimitForms2 Proofs.C11LimitClass2.
Import ListNotations.
Local Open Scope R_scope.

(* powers of x -> B x + s, B = I + M/n, s = h/n written with explicit entries; the invariant ties translation and linear part *)
Lemma hpow_affine_invariant (a b c d h0 h1 n : R) (m : nat) : n <> 0 ->
  exists a' b' c' d' u v : R,
    hpow (K:=RF) 2 (H2 (K:=RF) (1 + a / n) (b / n) (h0 / n) (c / n) (1 + d / n) (h1 / n)) m = H2 (K:=RF) a' b' u c' d' v /\
    hpow (K:=RF) 2 (L2 (1 + a / n) (b / n) (c / n) (1 + d / n)) m = L2 a' b' c' d' /\
    a * u + b * v = (a' - 1) * h0 + b' * h1 /\ c * u + d * v = c' * h0 + (d' - 1) * h1.
Proof.
  intro Hn. induction m as [|m [a' [b' [c' [d' [u [v [E1 [E2 [I1 I2]]]]]]]]]]; cbn [hpow].
  - exists 1, 0, 0, 1, 0, 0. split; [|split; [apply hid_L2 | split; ring]].
    unfold hid, H2. cbn. list_eq; cbn; ring.
  - rewrite E1, E2, hcomp_L2, (hcomp2_H2 RF RF_field).
    eexists _, _, _, _, _, _. split; [reflexivity|]. split; [reflexivity|].
    cbn.
    split.
    + transitivity ((1 + a / n) * (a * u + b * v) + (b / n) * (c * u + d * v) + (a * h0 + b * h1) / n); [field; exact Hn|].
      rewrite I1, I2. field. exact Hn.
    + transitivity ((c / n) * (a * u + b * v) + (1 + d / n) * (c * u + d * v) + (c * h0 + d * h1) / n); [field; exact Hn|].
      rewrite I1, I2. field. exact Hn.
Qed.

Lemma hone_plus_H2_div (n a b h0 c d h1 : R) :
  hone_plus (K:=RF) 2 (/ n) (H2 (K:=RF) a b h0 c d h1) = H2 (K:=RF) (1 + a / n) (b / n) (h0 / n) (c / n) (1 + d / n) (h1 / n).
Proof.
  transitivity (H2 (K:=RF) (1 + / n * a) (/ n * b) (/ n * h0) (/ n * c) (1 + / n * d) (/ n * h1)).
  - unfold hone_plus, hid, H2. cbn. list_eq; cbn; ring.
  - unfold Rdiv. now rewrite !(Rmult_comm (/ n)).
Qed.
Lemma hone_plus_L2_div (n a b c d : R) :
  hone_plus (K:=RF) 2 (/ n) (L2 a b c d) = L2 (1 + a / n) (b / n) (c / n) (1 + d / n).
Proof. rewrite hone_plus_L2. unfold Rdiv. now rewrite !(Rmult_comm (/ n)). Qed.

(* translation entries of the closed form as functions of its linear part *)
Definition tr0 (a b c d h0 h1 : R) (B : list (list R)) : R :=
  (d * ((hentry B 0 0 - 1) * h0 + hentry B 0 1 * h1) - b * (hentry B 1 0 * h0 + (hentry B 1 1 - 1) * h1)) / (a * d - b * c).
Definition tr1 (a b c d h0 h1 : R) (B : list (list R)) : R :=
  (a * (hentry B 1 0 * h0 + (hentry B 1 1 - 1) * h1) - c * ((hentry B 0 0 - 1) * h0 + hentry B 0 1 * h1)) / (a * d - b * c).

Theorem closed_form_translation2 (a b c d h0 h1 : R) (k : nat) : a * d - b * c <> 0 ->
  let A := hpow (K:=RF) 2 (hone_plus (K:=RF) 2 (/ 2 ^ k) (H2 (K:=RF) a b h0 c d h1)) (2 ^ k) in
  let B := hpow (K:=RF) 2 (hone_plus (K:=RF) 2 (/ 2 ^ k) (L2 a b c d)) (2 ^ k) in
  hentry A 0 2 = tr0 a b c d h0 h1 B /\ hentry A 1 2 = tr1 a b c d h0 h1 B /\
  hentry A 0 0 = hentry B 0 0 /\ hentry A 0 1 = hentry B 0 1 /\ hentry A 1 0 = hentry B 1 0 /\ hentry A 1 1 = hentry B 1 1.
Proof.
  intros Hd A B. pose proof (pow2_pos k) as Hp. assert (Hn : 2 ^ k <> 0) by lra.
  unfold A, B. rewrite hone_plus_H2_div, hone_plus_L2_div.
  destruct (hpow_affine_invariant a b c d h0 h1 (2 ^ k) (2 ^ k) Hn) as [a' [b' [c' [d' [u [v [E1 [E2 [I1 I2]]]]]]]]].
  rewrite E1, E2. unfold tr0, tr1.
  destruct (hentry_L2 a' b' c' d') as [E00 [E01 [E10 E11]]]. rewrite E00, E01, E10, E11.
  change (hentry (H2 (K:=RF) a' b' u c' d' v) 0 2) with u. change (hentry (H2 (K:=RF) a' b' u c' d' v) 1 2) with v.
  repeat split.
  - rewrite <- I1, <- I2. field. exact Hd.
  - rewrite <- I1, <- I2. field. exact Hd.
Qed.

Theorem translation_converges2 (a b c d h0 h1 : R) (E : list (list R)) : a * d - b * c <> 0 ->
  conv2 (fun k : nat => hpow (K:=RF) 2 (hone_plus (K:=RF) 2 (/ 2 ^ k) (L2 a b c d)) (2 ^ k)) E ->
  let A := fun k : nat => hpow (K:=RF) 2 (hone_plus (K:=RF) 2 (/ 2 ^ k) (H2 (K:=RF) a b h0 c d h1)) (2 ^ k) in
  is_lim_seq (fun k => hentry (A k) 0 2) (tr0 a b c d h0 h1 E) /\ is_lim_seq (fun k => hentry (A k) 1 2) (tr1 a b c d h0 h1 E) /\
  (forall i j, (i < 2)%nat -> (j < 2)%nat -> is_lim_seq (fun k => hentry (A k) i j) (hentry E i j)).
Proof.
  intros Hd HB A.
  pose proof (HB 0%nat 0%nat ltac:(lia) ltac:(lia)) as L00. pose proof (HB 0%nat 1%nat ltac:(lia) ltac:(lia)) as L01.
  pose proof (HB 1%nat 0%nat ltac:(lia) ltac:(lia)) as L10. pose proof (HB 1%nat 1%nat ltac:(lia) ltac:(lia)) as L11.
  set (B := fun k : nat => hpow (K:=RF) 2 (hone_plus (K:=RF) 2 (/ 2 ^ k) (L2 a b c d)) (2 ^ k)) in *.
  set (D := a * d - b * c) in *.
  split; [|split].
  - apply is_lim_seq_ext with (fun k => (d * h0 / D) * hentry (B k) 0 0 + (d * h1 / D) * hentry (B k) 0 1
                                         + (- b * h0 / D) * hentry (B k) 1 0 + (- b * h1 / D) * hentry (B k) 1 1 + (b * h1 - d * h0) / D).
    + intro k. destruct (closed_form_translation2 a b c d h0 h1 k Hd) as [T0 _]. unfold A. rewrite T0. unfold tr0. fold (B k). fold D.
      field. exact Hd.
    + replace (tr0 a b c d h0 h1 E) with ((d * h0 / D) * hentry E 0 0 + (d * h1 / D) * hentry E 0 1
                                         + (- b * h0 / D) * hentry E 1 0 + (- b * h1 / D) * hentry E 1 1 + (b * h1 - d * h0) / D)
        by (unfold tr0; fold D; field; exact Hd).
      apply is_lim_seq_plus'; [apply lim_lincomb4; assumption | apply is_lim_seq_const].
  - apply is_lim_seq_ext with (fun k => (- c * h0 / D) * hentry (B k) 0 0 + (- c * h1 / D) * hentry (B k) 0 1
                                         + (a * h0 / D) * hentry (B k) 1 0 + (a * h1 / D) * hentry (B k) 1 1 + (c * h0 - a * h1) / D).
    + intro k. destruct (closed_form_translation2 a b c d h0 h1 k Hd) as [_ [T1 _]]. unfold A. rewrite T1. unfold tr1. fold (B k). fold D.
      field. exact Hd.
    + replace (tr1 a b c d h0 h1 E) with ((- c * h0 / D) * hentry E 0 0 + (- c * h1 / D) * hentry E 0 1
                                         + (a * h0 / D) * hentry E 1 0 + (a * h1 / D) * hentry E 1 1 + (c * h0 - a * h1) / D)
        by (unfold tr1; fold D; field; exact Hd).
      apply is_lim_seq_plus'; [apply lim_lincomb4; assumption | apply is_lim_seq_const].
  - intros i j Hi Hj. apply is_lim_seq_ext with (fun k => hentry (B k) i j); [|apply HB; assumption].
    intro k. destruct (closed_form_translation2 a b c d h0 h1 k Hd) as [_ [_ [A00 [A01 [A10 A11]]]]].
    destruct i as [|[|i]]; [| |lia]; (destruct j as [|[|j]]; [| |lia]); unfold A, B; symmetry; assumption.
Qed.

(* with the classification: every generator [M | h] with det M <> 0 *)
Theorem every_affine_generator_converges2 (a b c d h0 h1 : R) : a * d - b * c <> 0 ->
  exists p q r s J EJ, p * s - q * r <> 0 /\ canonical J EJ /\ L2 a b c d = conj2m p q r s J /\
  let E := conj2m p q r s EJ in
  let A := fun k : nat => hpow (K:=RF) 2 (hone_plus (K:=RF) 2 (/ 2 ^ k) (H2 (K:=RF) a b h0 c d h1)) (2 ^ k) in
  is_lim_seq (fun k => hentry (A k) 0 2) (tr0 a b c d h0 h1 E) /\ is_lim_seq (fun k => hentry (A k) 1 2) (tr1 a b c d h0 h1 E) /\
  (forall i j, (i < 2)%nat -> (j < 2)%nat -> is_lim_seq (fun k => hentry (A k) i j) (hentry E i j)).
Proof.
  intro Hd. destruct (every_linear_generator_converges2 a b c d) as [p [q [r [s [J [EJ [HP [Hc [EM HB]]]]]]]]].
  exists p, q, r, s, J, EJ. split; [exact HP|]. split; [exact Hc|]. split; [exact EM|].
  apply translation_converges2; assumption.
Qed.

(* tr0 / tr1 are M^-1 (E - I) h:  M (tr0, tr1) = (E - I) h *)
Lemma tr_solves (a b c d h0 h1 : R) (E : list (list R)) : a * d - b * c <> 0 ->
  a * tr0 a b c d h0 h1 E + b * tr1 a b c d h0 h1 E = (hentry E 0 0 - 1) * h0 + hentry E 0 1 * h1 /\
  c * tr0 a b c d h0 h1 E + d * tr1 a b c d h0 h1 E = hentry E 1 0 * h0 + (hentry E 1 1 - 1) * h1.
Proof. intro Hd. unfold tr0, tr1. split; field; exact Hd. Qed.
