"""C08 -- homogeneous-transform and rotation algebra."""
import itertools
import math

import vlib
from vlib import Violation, qc, qc_mat, qc_vec, coq_list

ID = "C08"
GEN_UNITS = ["Euler", "Hmm", "Quat", "LinParams"]
PROPS_FILE = "Props/C08.v"
PROPS_MOD = "Props.C08"
COQ_TARGETS = ["Props/C08.vo"]
SOURCES = ["deepali/core/linalg.py", "deepali/core/affine.py", "deepali/core/_kornia.py", "deepali/spatial/linear.py"]
TRUSTED = [
    "Coq 8.16.1 kernel + vm_compute",
    "translator: tools/symtorch.py semantics of the traced torch subset (validated by this run's correspondence)",
    "modelled not verified: torch.cos/sin/sqrt (enter as parameters c,s,n with c^2+s^2=1, n^2=|q|^2), atan2/acos quadrant logic, float rounding",
]
ASSUMPTIONS = [
    "batched operands: items are processed independently (checked structurally on N=2 traces, numerically on N=3)",
    "F.normalize's eps clamp inactive (|q| > 1e-12)",
]
COLS = {"T": lambda D: 1, "A": lambda D: D, "H": lambda D: D + 1}
COQF = {"T": "FT", "A": "FA", "H": "FH"}
AX = {"X": "AX", "Y": "AY", "Z": "AZ"}


def dy(rng, bits=6, lo=-4, hi=4):
    """dyadic rational, exactly representable, so float64 products of a few of them are exact"""
    return rng.randint(lo * 2 ** bits, hi * 2 ** bits) / 2 ** bits


def correspondence(ctx):
    rng = ctx.rng
    cases = []
    n = ctx.n(120, 4500)
    dist = {}
    for i in range(n):
        D = rng.choice([2, 3])
        k = ["hmm", "ashom", "apply", "euler", "quat"][i % 5]
        if k == "hmm":
            fa, fb = rng.choice("TAH"), rng.choice("TAH")
            a = [[dy(rng) for _ in range(COLS[fa](D))] for _ in range(D)]
            b = [[dy(rng) for _ in range(COLS[fb](D))] for _ in range(D)]
            cases.append({"kind": k, "D": D, "fa": fa, "fb": fb, "a": a, "b": b})
            tag = f"hmm:{fa}{fb}:{D}"
        elif k == "ashom":
            f = rng.choice("TAH")
            cases.append({"kind": k, "D": D, "f": f, "a": [[dy(rng) for _ in range(COLS[f](D))] for _ in range(D)]})
            tag = f"ashom:{f}:{D}"
        elif k == "apply":
            f = rng.choice("TAH")
            cases.append({"kind": k, "D": D, "f": f, "vectors": rng.random() < 0.5,
                          "a": [[dy(rng) for _ in range(COLS[f](D))] for _ in range(D)],
                          "x": [dy(rng) for _ in range(D)]})
            tag = f"apply:{f}:{D}"
        elif k == "euler":
            if rng.random() < 0.15:
                cases.append({"kind": k, "order": None, "angles": [rng.uniform(-math.pi, math.pi)]})
                tag = "euler:2d"
            else:
                o = "".join(rng.choice("XYZ") for _ in range(3))
                cases.append({"kind": k, "order": o, "angles": [rng.uniform(-math.pi, math.pi) for _ in range(3)]})
                tag = "euler:" + o
        else:
            cases.append({"kind": k, "q": [dy(rng) or 1.0 for _ in range(4)]})
            tag = "quat"
        dist[tag] = dist.get(tag, 0) + 1
    res = vlib.run_impl("c08_impl", {"fn": "model_cases", "cases": cases})
    lines = ["From Coq Require Import ZArith QArith List String.",
             "From DV Require Import Base.Field Base.LinAlg Base.QcInst Model.Enums Gen.Hmm Gen.Euler Gen.Quat.",
             "Import ListNotations.", "Definition tol : Q := 1 # 1000000000."]
    names = []
    failures = []
    for i, (c, r) in enumerate(zip(cases, res)):
        if "error" in r:
            failures.append({"case": c, "impl": r, "why": "implementation raised where the model is defined"})
            continue
        k = c["kind"]
        if k == "hmm":
            term = f"mclose tol (gen_hmm (K:=QcF) {c['D']} {COQF[c['fa']]} {COQF[c['fb']]} {qc_mat(c['a'])} {qc_mat(c['b'])}) {qc_mat(r['val'])}"
        elif k == "ashom":
            term = f"mclose tol (gen_ashom (K:=QcF) {c['D']} {COQF[c['f']]} {qc_mat(c['a'])}) {qc_mat(r['val'])}"
        elif k == "apply":
            term = (f"vclose tol (gen_apply (K:=QcF) {c['D']} {COQF[c['f']]} {'true' if c['vectors'] else 'false'} "
                    f"{qc_mat(c['a'])} {qc_vec(c['x'])}) {qc_vec(r['val'])}")
        elif k == "euler":
            cs = " ".join(qc(v) for v in r["cos"] + r["sin"])
            if c["order"] is None:
                term = f"mclose tol (gen_euler2d (K:=QcF) {cs}) {qc_mat(r['val'])}"
            else:
                o = c["order"]
                term = f"mclose tol (gen_euler (K:=QcF) ({AX[o[0]]}, {AX[o[1]]}, {AX[o[2]]}) {cs}) {qc_mat(r['val'])}"
        else:
            term = f"mclose tol (gen_quat_matrix (K:=QcF) {qc(r['norm'])} {' '.join(qc(v) for v in c['q'])}) {qc_mat(r['val'])}"
        names.append((i, term))
    bad, errs = vlib.run_cases(ctx.scratch, lines, names, name="cases_c08")
    for e in errs:
        failures.append({"why": "case file did not evaluate (generated definitions missing or ill-typed)", "coq": e[-600:]})
    for i in bad:
        failures.append({"case": cases[i], "impl": res[i], "why": "model value differs from implementation"})
    samples = [{"case": cases[i], "impl": res[i]} for i in range(min(3, len(cases)))]
    return {"evaluations": len(cases), "distinct_nontrivial": len({str(c) for c in cases}),
            "rule": "seeded random operands (dyadic rationals, all 9 form pairs, D in {2,3}), Euler orders (27 + 2-D) with angles in (-pi,pi], "
                    "quaternions; non-trivial = every case (no zero/identity operand is generated on purpose); distinct by full input",
            "samples": samples, "failures": failures, "distribution": dist,
            "tolerances": {"model_vs_impl": "1e-9 absolute on float64 outputs converted exactly to rationals"}}


def search(ctx, broken, corr_failures):
    n = ctx.n(150, 8000)
    r = vlib.run_impl("c08_impl", {"fn": "oracle", "seed": ctx.seed, "n": n})
    ctx.notes.append(f"implementation-side property evaluation: {r['counts']}")
    out = []
    seen = set()
    for f in r["fails"]:
        if f["key"] in seen:
            continue
        seen.add(f["key"])
        out.append(Violation(key=f["key"], what=f["what"], replay={"oracle": "c08", "seed": ctx.seed, "n": n, "failure": f}))
    return out


def explains(broken_item, found):
    """a concrete failing input explains a broken obligation when it is about the same source function"""
    keys = " ".join(v.key for v in found)
    b = broken_item.lower()
    if "linparams" in b or "c08params" in b or "transform_classes_use_their_order" in b or "linear.py" in b:
        # the structural unit about the transform classes (spatial/linear.py) failed closed: explained by any new
        # concrete failing input of a class getter/setter/tensor
        return any(c in keys for c in ("Rotation", "Scaling", "Shearing", "Translation", "Homogeneous"))
    if "euler" in b or "affine.py" in b or "angles" in b or "order" in b:
        return "euler" in keys.lower()
    if "hmm" in b or "linalg.py" in b or "ashom" in b or "apply" in b:
        return any(s in keys for s in ("homogeneous", "hmm"))
    if "quat" in b or "_kornia" in b:
        return "quat" in keys.lower() or "angle_axis" in keys
    return bool(found)


def replay(ctx, data):
    f = data.get("failure") or {}
    r = vlib.run_impl("c08_impl", {"fn": "oracle", "seed": data.get("seed", ctx.seed), "n": data.get("n", 150)})
    for g in r["fails"]:
        if g["key"] == f.get("key"):
            return g["what"]
    return None

MANIFEST_ENTRY = {
    "text": "Theorems (Coq, closed under the global context except the R instance) over every field: all 9 operand-form pairs of "
            "homogeneous_matmul compose like sequential application for D in {2,3}; as_homogeneous_matrix preserves the map; "
            "vectors=True is exactly the linear part; all 27 Euler orders (5 closed forms + generic fallback) equal the product of "
            "elementary rotations and are proper rotations (also for all real angles); order-string table complete (finite sweep); "
            "angle extraction hands atan2/acos the (rho sin a_i, rho cos a_i) of the i-th angle; quaternion matrices are proper "
            "rotations, invariant under sign and scale; every branch of rotation_matrix_to_quaternion (nested torch.where traced with symbolic "
            "conditions) returns +-(w,x,y,z) of its input's unit quaternion (eps = 0). The model (coq/Gen/Euler.v, Hmm.v, Quat.v) is regenerated from linalg.py, "
            "affine.py, _kornia.py on every run by symbolic tracing; batched operands are checked structurally against the unbatched forms.",
    "note": "Partial: atan2/acos quadrant logic, which matrix->quaternion branch is taken and its eps-regularised square root, angle-axis conversions and the transforms' "
            "tanh/exp re-parameterisations are covered by implementation-side round-trip evaluation only (numeric). Trusted: Coq kernel, "
            "vm_compute, tools/symtorch.py (validated each run against torch on the traced functions), float rounding outside the model.",
}
