(* The configuration of the transform state machine as the source has it now: every flag is read
   off the generated skeleton (Gen/TState.v).  Definitions only. *)
From Coq Require Import List Bool String Arith.
From DV Require Import Model.TransformState Gen.TState.
Import ListNotations.
Open Scope string_scope.

Definition sk_body (sk : list (string * list string)) (m : string) : list string :=
  match find (fun p => String.eqb (fst p) m) sk with Some p => snd p | None => [] end.
Definition sk_has (sk : list (string * list string)) (m tok : string) : bool :=
  existsb (String.eqb tok) (sk_body sk m).

(* position of a token in a method body (length of the body if absent) *)
Fixpoint tok_index (tok : string) (l : list string) : nat :=
  match l with
  | [] => 0
  | t :: r => if String.eqb t tok then 0 else S (tok_index tok r)
  end.
Definition sk_before (sk : list (string * list string)) (m a b : string) : bool :=
  sk_has sk m a && sk_has sk m b && Nat.ltb (tok_index a (sk_body sk m)) (tok_index b (sk_body sk m)).

Definition cfg_of (sk : list (string * list string)) : cfg :=
  let has := sk_has sk in
  mkCfg
    (has "ParametricTransform.data_" "call:self.clear_buffers()")
    (has "ParametricTransform.reset_parameters" "call:self.clear_buffers()")
    (has "SpatialTransform.condition_" "call:self.clear_buffers()")
    (has "SpatialTransform.grid_" "call:self.clear_buffers()")
    (has "NonRigidTransform.clear_buffers" "for:name in ('u', 'v')" && has "NonRigidTransform.clear_buffers" "call:delattr(self, name)")
    (has "NonRigidTransform.clear_buffers" "for:name in ('u', 'v')" && has "NonRigidTransform.clear_buffers" "call:delattr(self, name)")
    (has "NonRigidTransform.tensor" "call:self.update()")
    (has "ParametricTransform.update" "call:self._data()" && has "ParametricTransform.update" "call:self.register_buffer('p', p, persistent=False)")
    (has "SpatialTransform.__init__" "call:self.register_update_hook()"
     && has "SpatialTransform.register_update_hook" "call:self.register_forward_pre_hook(self._update_hook)"
     && has "SpatialTransform._update_hook" "call:transform.update()")
    (has "DisplacementFieldTransform.update" "call:self.register_buffer('u', u, persistent=False)"
     && has "StationaryVelocityFieldTransform.update" "call:self.register_buffer('u', u, persistent=False)"
     && has "StationaryVelocityFieldTransform.update" "call:self.register_buffer('v', v, persistent=False)"
     && has "FreeFormDeformation.update" "call:self.register_buffer('u', u, persistent=False)"
     && has "StationaryVelocityFreeFormDeformation.update" "call:self.register_buffer('u', u, persistent=False)"
     && has "StationaryVelocityFreeFormDeformation.update" "call:self.register_buffer('v', v, persistent=False)")
    (has "InvertibleParametricTransform.inverse" "set:inv.invert=not self.invert"
     && has "StationaryVelocityFieldTransform.inverse" "set:inv.exp=cast(ExpFlow, self.exp).inverse()"
     && has "StationaryVelocityFreeFormDeformation.inverse" "set:inv.exp=cast(ExpFlow, self.exp).inverse()"
     && has "ExpFlow.inverse" "aug:copy.scaleMult=-1")
    (has "InvertibleParametricTransform.inverse" "call:inv.link_(self)"
     && has "StationaryVelocityFieldTransform.inverse" "call:inv.link_(self)"
     && has "StationaryVelocityFreeFormDeformation.inverse" "call:inv.link_(self)")
    (has "CompositeTransform.update" "call:transform.update()")
    (has "CompositeTransform.clear_buffers" "call:transform.clear_buffers()")
    (has "CompositeTransform.condition_" "call:transform.condition_(*args, **kwargs)")
    (has "DenseVectorFieldTransform.grid_" "call:self.data_(flow.tensor())")
    (has "BSplineTransform.grid_" "call:self.clear_buffers()")
    (sk_before sk "StationaryVelocityFieldTransform.inverse" "set:inv.exp=cast(ExpFlow, self.exp).inverse()" "if:update_buffers"
     && sk_before sk "StationaryVelocityFreeFormDeformation.inverse" "set:inv.exp=cast(ExpFlow, self.exp).inverse()" "if:update_buffers")
    (sk_before sk "ParametricTransform.link_" "if:self._parameters.get('params') is not None" "set:self._parameters=self._parameters.copy()"
     && sk_before sk "ParametricTransform.link_" "set:self._parameters=self._parameters.copy()" "del:self._parameters['params']"
     && sk_before sk "ParametricTransform.link_" "del:self._parameters['params']" "set:self.params=other").

Definition gen_cfg : cfg := cfg_of gen_skeleton.

(* StationaryVelocityFieldTransform.grid_ installs a private (shallow-copied) ExpFlow instead of writing
   align_corners into the module it shares with shallow copies *)
Definition gen_private_exp : bool :=
  sk_before gen_skeleton "StationaryVelocityFieldTransform.grid_" "call:shallow_copy(self.exp)" "set:exp.align_corners=grid.align_corners()"
  && sk_before gen_skeleton "StationaryVelocityFieldTransform.grid_" "set:exp.align_corners=grid.align_corners()" "set:self.exp=exp"
  && negb (sk_has gen_skeleton "StationaryVelocityFieldTransform.grid_" "set:self.exp.align_corners=grid.align_corners()").

(* GenericSpatialTransform.inverse replaces `params` (the callable producing the member parameters) ONLY when
   link=True; without link the shallow copy keeps the callable, so its update() re-runs it; and update() writes
   the predicted parameters into the members before it cascades *)
Definition gen_generic_inverse_ok : bool :=
  sk_before gen_skeleton "GenericSpatialTransform.inverse" "if:link" "set:inv.params=self"
  && sk_before gen_skeleton "GenericSpatialTransform.inverse" "set:inv.params=self" "endif"
  && Nat.eqb (List.length (sk_body gen_skeleton "GenericSpatialTransform.inverse")) 5
  && sk_before gen_skeleton "GenericSpatialTransform.update" "call:self._data()" "call:transform.data_(p)"
  && sk_before gen_skeleton "GenericSpatialTransform.update" "call:transform.data_(p)" "call:super().update()".

(* the functional accessors data(arg), grid(arg), unlink() give their shallow copy a private _parameters dict;
   condition(...) and grid(arg) of a composite copy the members one level *)
Definition gen_accessor_private : bool :=
  sk_before gen_skeleton "ParametricTransform.data" "call:shallow_copy(self)" "set:copy._parameters=copy._parameters.copy()"
  && sk_before gen_skeleton "SpatialTransform.grid" "call:shallow_copy(self)" "set:copy._parameters=copy._parameters.copy()"
  && sk_before gen_skeleton "SpatialTransform.grid" "set:copy._parameters=copy._parameters.copy()" "call:copy.grid_(grid)"
  && sk_before gen_skeleton "ParametricTransform.unlink" "call:shallow_copy(self)" "set:copy._parameters=copy._parameters.copy()"
  && sk_has gen_skeleton "CompositeTransform.condition" "call:self._copy_with_transforms().condition_(*args, **kwargs)"
  && sk_has gen_skeleton "CompositeTransform.grid" "call:self._copy_with_transforms().grid_(grid)"
  && sk_has gen_skeleton "CompositeTransform._copy_with_transforms" "call:shallow_copy(transform)".

(* DenseVectorFieldTransform.grid_ reads the old parameters on the OLD lattice with the OLD grid's own flags
   (prev_grid.reshape(params.shape[2:]), no override), samples them on the data grid of the new grid and converts the
   vectors to the new axes; __deepcopy__ gives the copy CLONES of the cached non-leaf buffers *)
Definition gen_regrid_reads_old_lattice : bool :=
  sk_before gen_skeleton "DenseVectorFieldTransform.grid_" "call:prev_grid.reshape(params.shape[2:])" "call:flow.sample(self.data_grid(grid))"
  && sk_before gen_skeleton "DenseVectorFieldTransform.grid_" "call:flow.sample(self.data_grid(grid))" "call:flow.axes(grid_axes)"
  && sk_before gen_skeleton "DenseVectorFieldTransform.grid_" "call:flow.axes(grid_axes)" "call:self.data_(flow.tensor())".
Definition gen_deepcopy_clones : bool :=
  sk_has gen_skeleton "SpatialTransform.__deepcopy__" "call:buf.detach().clone()"
  && sk_before gen_skeleton "SpatialTransform.__deepcopy__" "call:buf.detach().clone()" "call:deepcopy(self.__dict__, memo)".
