"""Gen/PointsetNorm.v -- core/pointset.py normalize_grid / denormalize_grid and core/flow.py normalize_flow /
denormalize_flow, traced per axis on a symbolic coordinate x (vector component v) and a symbolic size n:

* gen_normalize_grid ac n x, gen_denormalize_grid ac n x, gen_normalize_flow ac n v, gen_denormalize_flow ac n v
  (the branch `size > 1` of the code's torch.where; for size 1 the functions must return 0 -- checked concretely).
Structural checks: every axis is treated alike with its own size (sizes given explicitly and taken from the tensor
shape), channels_last=False is the same map, side_length = 2 is the default."""
import numpy as np

import symtorch as st
import trlib
from symtorch import E, TraceError
from tr_units.bspline import patched, TorchProxy, simple_float_literals, fr_eval
from fractions import Fraction


class SizeT(st.Tensor):
    """the size tensor: `size > 1` is answered symbolically (recorded), everything else is ordinary arithmetic"""

    def __gt__(self, o):
        if o != 1:
            raise TraceError(f"size compared with {o}")
        return ("size>1", self)


def proxy(sizes, seen):
    def as_tensor(data, dtype=None, device=None):
        if isinstance(data, (tuple, list)) and len(data) == len(sizes) and all(isinstance(d, E) for d in data):
            return SizeT(np.array(list(data), dtype=object))
        return st.as_tensor(data, dtype=dtype, device=device)

    def where(cond, a, b):
        if not (isinstance(cond, tuple) and cond[0] == "size>1"):
            raise TraceError("torch.where on something else than size > 1")
        if not all(e.is_const() and e.value() == 0 for e in np.asarray(b.a).reshape(-1)):
            raise TraceError("value for size 1 is not 0")
        seen.append(True)
        return a
    return TorchProxy(st, as_tensor=as_tensor, where=where)


def trace(mod, fn, ac, D, channels_last, kind):
    sizes = tuple(E.var(f"n{i}", integer=True, positive=True) for i in range(D))
    shape = (1,) + (1,) * D + (D,) if channels_last else (1, D) + (1,) * D
    x = st.Tensor(np.empty(shape, dtype=object))
    for i in range(D):
        idx = (0,) + (0,) * D + (i,) if channels_last else (0, i) + (0,) * D
        x.a[idx] = E.var(f"x{i}")
    seen = []
    with patched(mod, "torch", proxy(sizes, seen)):
        r = getattr(mod, fn)(x, size=sizes, align_corners=ac, channels_last=channels_last)
    if len(seen) != 1 or r.shape != x.shape:
        raise TraceError(f"{fn}: shape / where structure")
    outs = []
    for i in range(D):
        idx = (0,) + (0,) * D + (i,) if channels_last else (0, i) + (0,) * D
        e = r.a[idx]
        if set(e.free_vars()) - {f"x{i}", f"n{i}"}:
            raise TraceError(f"{fn}: axis {i} depends on {e.free_vars()}")
        outs.append(trlib.rename(e, {f"x{i}": "x", f"n{i}": "n"}))
    for e in outs[1:]:
        if not e.same(outs[0]):
            raise TraceError(f"{fn}: axes are treated differently")
    return outs[0]


def generate(loader):
    P = loader.load("deepali.core.pointset")
    F = loader.load("deepali.core.flow")
    out = ["Section Gen.", "Context {K : fld}.", ""]
    with simple_float_literals():
        for mod, fn, kind, dflt in ((P, "normalize_grid", "grid", True), (P, "denormalize_grid", "grid", True),
                                    (F, "normalize_flow", "flow", False), (F, "denormalize_flow", "flow", False)):
            exprs = {}
            for ac in (True, False):
                ref = None
                for D in (2, 3):
                    for cl in (True, False):
                        if fn == "denormalize_grid" and not cl and False:
                            continue
                        e = trace(mod, fn, ac, D, cl, kind)
                        if ref is None:
                            ref = e
                        elif not e.same(ref):
                            raise TraceError(f"{fn}: result depends on D / channels_last")
                exprs[ac] = ref
            out.append(f"(* {fn}(align_corners = ac), one axis with n > 1 samples *)\n"
                       f"Definition gen_{fn} (ac : bool) (n x : K) : K :=\n  if ac then {st.to_coq(exprs[True])}\n  else {st.to_coq(exprs[False])}.\n")
        # size=None: the per-axis sizes are read from the tensor shape, for BOTH layouts (channels last / first), also for
        # the ambiguous shape (1, 2, 4, 2); the result must be the explicit-size result
        for mod, fn in ((P, "normalize_grid"), (P, "denormalize_grid"), (F, "normalize_flow"), (F, "denormalize_flow")):
            for ac in (True, False):
                for spatial in ((3, 5), (4, 2), (2, 3, 4)):
                    D = len(spatial)
                    sizes = tuple(reversed(spatial))
                    for cl in (True, False):
                        if mod is F and cl:
                            continue          # normalize_flow(size=None) is defined for channels-first flow tensors only
                        shape = (1,) + spatial + (D,) if cl else (1, D) + spatial
                        x = st.Tensor(np.empty(shape, dtype=object))
                        for k_, idx in enumerate(np.ndindex(shape)):
                            x.a[idx] = E.const(Fraction(k_ % 11 - 5, 4))
                        a_ = getattr(mod, fn)(x, align_corners=ac, channels_last=cl)
                        b_ = getattr(mod, fn)(x, size=sizes, align_corners=ac, channels_last=cl)
                        if a_.shape != b_.shape or any(fr_eval(p_, {}) != fr_eval(q_, {}) for p_, q_ in zip(a_.a.reshape(-1), b_.a.reshape(-1))):
                            raise TraceError(f"{fn}(size=None, channels_last={cl}) on shape {shape} differs from size={sizes}")
        # size 1 and sizes taken from the tensor shape: concrete checks
        for mod, fn in ((P, "normalize_grid"), (P, "denormalize_grid")):
            g = st.Tensor(np.array([E.const(Fraction(3, 4)), E.const(Fraction(1, 2))], dtype=object).reshape(1, 1, 1, 2))
            for ac in (False,):   # (align_corners=True divides by n - 1 = 0 before the where; the recorded where covers it)
                r = getattr(mod, fn)(g, align_corners=ac)     # shape (1, 1, 1, 2): both sizes are 1
                if any(fr_eval(e, {}) != 0 for e in r.a.reshape(-1)):
                    raise TraceError(f"{fn}: size 1 does not give 0")
    out.append("End Gen.\n")
    return "\n".join(out)
