(* C15 -- object graph: with-argument accessors leave every existing object unchanged; deep copies are
   independent in both directions under any interleaving of in-place edits and rebinding. *)
From Coq Require Import List Bool Arith Lia.
From DV Require Import Model.ObjGraph.
Import ListNotations.

Definition wf_obj (st : store) (x : obj) : Prop :=
  (forall t, In t (reach_t st x) -> t < nt st) /\ (forall c, In c (reach_c x) -> c < nc st).

(* ---- entries ---- *)
Lemma map_res_ext st st' l : (forall t, In t (tids_of l) -> tv st' t = tv st t) -> map (res st') l = map (res st) l.
Proof.
  induction l as [|[n r] l IH]; intros H; [reflexivity|]. cbn [map]. f_equal.
  - unfold res; cbn [fst snd]. destruct r; auto. rewrite H; [reflexivity|]. cbn. auto.
  - apply IH. intros t Ht. apply H. destruct r; cbn; auto.
Qed.

Lemma get_entry_tid l n t : get_entry l n = Some (RT t) -> In t (tids_of l).
Proof.
  induction l as [|[k r] l IH]; cbn; [discriminate|]. destruct (k =? n).
  - intros H; injection H as ->. cbn. auto.
  - intros H. destruct r; cbn; auto.
Qed.

Lemma tids_set_entry l n r t : In t (tids_of (set_entry l n r)) -> In t (tids_of l) \/ r = RT t.
Proof.
  induction l as [|[k x] l IH]; cbn.
  - destruct r; cbn; try tauto. intros [->|[]]; auto.
  - destruct (k =? n).
    + destruct r; destruct x; cbn; try tauto; intros [->|H]; auto.
    + destruct x; cbn; try (intros H; destruct (IH H); auto; fail).
      intros [->|H]; auto. destruct (IH H); auto.
Qed.

Lemma tids_del_entry l n t : In t (tids_of (del_entry l n)) -> In t (tids_of l).
Proof.
  induction l as [|[k x] l IH]; cbn; [tauto|]. destruct (k =? n).
  - destruct x; cbn; auto.
  - destruct x; cbn; auto. intros [->|H]; auto.
Qed.

(* ---- snapshots depend only on what the object reaches ---- *)
Lemma snap_ext st st' x :
  (forall c, In c (reach_c x) -> cv st' c = cv st c) ->
  (forall t, In t (reach_t st x) -> tv st' t = tv st t) ->
  snap st' x = snap st x.
Proof.
  intros Hc Ht. unfold snap, reach_t, reach_c in *. destruct (ismod x).
  - rewrite (Hc (pc x)), (Hc (bc x)) by (cbn; auto).
    rewrite (map_res_ext st st' (slots x)) by (intros t H; apply Ht; rewrite !in_app_iff; auto).
    rewrite (map_res_ext st st' (cv st (pc x))) by (intros t H; apply Ht; rewrite !in_app_iff; auto).
    rewrite (map_res_ext st st' (cv st (bc x))) by (intros t H; apply Ht; rewrite !in_app_iff; auto).
    reflexivity.
  - rewrite (map_res_ext st st' (slots x)) by (intros t H; apply Ht; rewrite !in_app_iff; auto).
    reflexivity.
Qed.

Lemma reach_t_ext st st' x : (forall c, In c (reach_c x) -> cv st' c = cv st c) -> reach_t st' x = reach_t st x.
Proof.
  intros Hc. unfold reach_t, reach_c in *. destruct (ismod x); [|reflexivity].
  now rewrite (Hc (pc x)), (Hc (bc x)) by (cbn; auto).
Qed.

Lemma upd_other {A} (f : nat -> A) k v x : x <> k -> upd f k v x = f x.
Proof. intros H. unfold upd. destruct (x =? k) eqn:E; [apply Nat.eqb_eq in E; congruence|reflexivity]. Qed.
Lemma upd_same {A} (f : nat -> A) k v : upd f k v k = v.
Proof. unfold upd. now rewrite Nat.eqb_refl. Qed.

Lemma snap_alloc_tensor st v x : wf_obj st x -> snap (fst (alloc_tensor st v)) x = snap st x.
Proof.
  intros [Ht _]. apply snap_ext; cbn; [reflexivity|]. intros t H. apply upd_other. specialize (Ht t H). lia.
Qed.
Lemma snap_alloc_cont st l x : wf_obj st x -> snap (fst (alloc_cont st l)) x = snap st x.
Proof.
  intros [_ Hc]. apply snap_ext; cbn; [|reflexivity]. intros c H. apply upd_other. specialize (Hc c H). lia.
Qed.
Lemma snap_set_cont st c l x : ~ In c (reach_c x) -> snap (set_cont st c l) x = snap st x.
Proof.
  intros Hn. apply snap_ext; cbn; [|reflexivity]. intros c' H. apply upd_other. intros ->. contradiction.
Qed.
Lemma wf_alloc_tensor st v x : wf_obj st x -> wf_obj (fst (alloc_tensor st v)) x.
Proof.
  intros [Ht Hc]. split; cbn.
  - intros t H. rewrite (reach_t_ext st) in H by reflexivity. specialize (Ht t H). lia.
  - exact Hc.
Qed.
Lemma wf_alloc_cont st l x : wf_obj st x -> wf_obj (fst (alloc_cont st l)) x.
Proof.
  intros [Ht Hc]. split; cbn.
  - intros t H. rewrite (reach_t_ext st) in H; [auto|]. intros c Hin. cbn. apply upd_other. specialize (Hc c Hin). lia.
  - intros c H. specialize (Hc c H). lia.
Qed.

(* ---- accessors ---- *)
(* Grid / Cube: x.center(v), x.spacing(v), ... and flag accessors leave every existing object as it was *)
Theorem acc_simple_preserves st o name v x :
  ismod o = false -> wf_obj st x -> snap (fst (acc_simple st o name v)) x = snap st x.
Proof.
  intros Ho Hx. unfold acc_simple, shallow_copy. rewrite Ho. cbn [fst snd].
  change (mkSt (upd (tv st) (nt st) v) (cv st) (S (nt st)) (nc st)) with (fst (alloc_tensor st v)).
  now apply snap_alloc_tensor.
Qed.
Theorem acc_flag_preserves st o name v x :
  ismod o = false -> snap (fst (acc_flag st o name v)) x = snap st x.
Proof. intros Ho. unfold acc_flag, shallow_copy. rewrite Ho. reflexivity. Qed.

Lemma shallow_copy_module st o x :
  ismod o = true -> wf_obj st x ->
  let '(st1, c) := shallow_copy st o in
  snap st1 x = snap st x /\ wf_obj st1 x /\ bc c = nc st /\ pc c = pc o /\ ismod c = true /\ slots c = slots o
  /\ nc st1 = S (nc st) /\ nt st1 = nt st /\ tv st1 = tv st /\ (forall k, k <> nc st -> cv st1 k = cv st k).
Proof.
  intros Ho Hx. unfold shallow_copy. rewrite Ho. cbn.
  repeat split; auto.
  - apply (snap_alloc_cont st (cv st (bc o)) x Hx).
  - apply (wf_alloc_cont st (cv st (bc o)) x Hx).
  - apply (wf_alloc_cont st (cv st (bc o)) x Hx).
  - intros k Hk. now apply upd_other.
Qed.

Lemma fresh_not_reached st x : wf_obj st x -> ~ In (nc st) (reach_c x).
Proof. intros [_ Hc] H. specialize (Hc _ H). lia. Qed.

(* the copy made by the accessors that may rebind a parameter: fresh _buffers AND fresh _parameters containers *)
Lemma shallow_copy_own_module st o x :
  ismod o = true -> wf_obj st x ->
  let '(st1, c) := shallow_copy_own st o in
  snap st1 x = snap st x /\ wf_obj st1 x /\ ~ In (bc c) (reach_c x) /\ ~ In (pc c) (reach_c x) /\ ismod c = true.
Proof.
  intros Ho Hx. unfold shallow_copy_own. pose proof (shallow_copy_module st o x Ho Hx) as H.
  destruct (shallow_copy st o) as [st1 c]. destruct H as (Hs & Hw & Hb & Hp & Hm & Hsl & Hnc & Hnt & Htv & Hcv).
  rewrite Hm. cbn [alloc_cont fst snd bc pc ismod].
  change (mkSt (tv st1) (upd (cv st1) (nc st1) (cv st1 (pc c))) (nt st1) (S (nc st1))) with (fst (alloc_cont st1 (cv st1 (pc c)))).
  repeat split.
  - rewrite snap_alloc_cont by exact Hw. exact Hs.
  - apply (wf_alloc_cont st1 _ x Hw).
  - apply (wf_alloc_cont st1 _ x Hw).
  - rewrite Hb. apply fresh_not_reached. exact Hx.
  - apply fresh_not_reached. exact Hw.
Qed.

(* Module.__setattr__ on an object whose two containers no other object reaches *)
Lemma module_setattr_fresh st c n v x st' c' :
  ~ In (bc c) (reach_c x) -> ~ In (pc c) (reach_c x) ->
  module_setattr st c n v = SOk st' c' -> snap st' x = snap st x /\ bc c' = bc c /\ pc c' = pc c.
Proof.
  intros Hb Hp. unfold module_setattr. destruct v as [t| |t].
  - intros E; injection E as <- <-. cbn [bc pc]. rewrite snap_set_cont by exact Hp. rewrite snap_set_cont by exact Hb. auto.
  - destruct (has_entry (cv st (pc c)) n); [|destruct (has_entry (cv st (bc c)) n)]; intros E; injection E as <- <-;
      rewrite ?snap_set_cont by assumption; auto.
  - destruct (has_entry (cv st (pc c)) n); [discriminate|]. destruct (has_entry (cv st (bc c)) n); intros E; injection E as <- <-;
      rewrite ?snap_set_cont by assumption; auto.
Qed.

(* SpatialTransform.grid(g), condition(args): every existing transform (the receiver included) is unchanged *)
Theorem acc_grid_preserves st o g x :
  ismod o = true -> wf_obj st x -> snap (fst (acc_grid st o g)) x = snap st x.
Proof.
  intros Ho Hx. unfold acc_grid. pose proof (shallow_copy_own_module st o x Ho Hx) as H.
  destruct (shallow_copy_own st o) as [st1 c]. destruct H as (Hs & Hw & Hb & _). cbn [fst].
  unfold clear_buffers. rewrite snap_set_cont; [exact Hs|exact Hb].
Qed.
Theorem acc_condition_preserves st o a x :
  ismod o = true -> wf_obj st x -> snap (fst (acc_condition st o a)) x = snap st x.
Proof.
  intros Ho Hx. unfold acc_condition. pose proof (shallow_copy_module st o x Ho Hx) as H.
  destruct (shallow_copy st o) as [st1 c]. destruct H as (Hs & Hw & Hb & _). cbn [fst].
  unfold clear_buffers. rewrite snap_set_cont; [exact Hs|]. rewrite Hb.
  intros Hin. destruct Hx as [_ Hc]. specialize (Hc _ Hin). lia.
Qed.

(* ParametricTransform.data(arg), unlink(): every existing transform (the receiver included) is unchanged, however the
   parameters are held -- the copy has its own _parameters dict *)
Theorem acc_data_preserves st o v x st' c' :
  ismod o = true -> wf_obj st x -> acc_data st o v = SOk st' c' -> snap st' x = snap st x.
Proof.
  intros Ho Hx. unfold acc_data. pose proof (shallow_copy_own_module st o x Ho Hx) as H.
  destruct (shallow_copy_own st o) as [st1 c]. destruct H as (Hs & Hw & Hb & Hp & Hm).
  cbn [alloc_tensor]. set (st2 := mkSt (upd (tv st1) (nt st1) v) (cv st1) (S (nt st1)) (nc st1)).
  assert (Hs2 : snap st2 x = snap st x).
  { rewrite <- Hs. apply (snap_alloc_tensor st1 v x Hw). }
  match goal with |- context [module_setattr st2 c n_params ?val] => destruct (module_setattr st2 c n_params val) as [st3 c3|] eqn:E end;
    [|discriminate].
  destruct (module_setattr_fresh _ _ _ _ x _ _ Hb Hp E) as (H3 & Hb3 & _).
  intros E'; injection E' as <- <-. unfold clear_buffers. rewrite snap_set_cont by (rewrite Hb3; exact Hb). now rewrite H3.
Qed.

Theorem acc_unlink_preserves st o x st' c' :
  ismod o = true -> wf_obj st x -> acc_unlink st o = SOk st' c' -> snap st' x = snap st x.
Proof.
  intros Ho Hx. unfold acc_unlink. pose proof (shallow_copy_own_module st o x Ho Hx) as H.
  destruct (shallow_copy_own st o) as [st1 c]. destruct H as (Hs & Hw & Hb & Hp & Hm).
  destruct (module_setattr st1 c n_params VNoneV) as [st2 c2|] eqn:E; [|discriminate].
  destruct (module_setattr_fresh _ _ _ _ x _ _ Hb Hp E) as (H2 & Hb2 & _).
  intros E'; injection E' as <- <-. rewrite snap_set_cont by (rewrite Hb2; exact Hb). now rewrite H2.
Qed.

(* ---- the former counterexamples: Parameter-held parameters live in the _parameters dict, which __copy__ shares; the
   accessors now give the copy its own dict ---- *)
Definition st0 : store := mkSt (fun t => 10 + t) (fun c => match c with 0 => [(n_params, RT 0)] | 1 => [(n_u, RT 1)] | _ => [] end) 2 2.
Definition tr0 : obj := mkObj [(n_grid, RV 7); (n_args, RV 0)] 0 1 true.        (* Translation(grid, params=True) after update() *)

(* t.data(arg) / t.unlink() with a Parameter: the receiver keeps its parameter, the copy has the new one / None *)
Lemma acc_data_param_fixed :
  match acc_data st0 tr0 5 with
  | SOk st' c => snap_eqb (snap st' tr0) (snap st0 tr0) && negb (snap_eqb (snap st' c) (snap st' tr0))
  | SErr => false end = true.
Proof. vm_compute. reflexivity. Qed.
Lemma acc_unlink_param_fixed :
  match acc_unlink st0 tr0 with
  | SOk st' c => snap_eqb (snap st' tr0) (snap st0 tr0) && negb (snap_eqb (snap st' c) (snap st' tr0))
  | SErr => false end = true.
Proof. vm_compute. reflexivity. Qed.
(* a plain shallow copy followed by the in-place setter (what inverse() relies on) still shares the parameter container *)
Lemma shallow_copy_shares_parameters :
  let '(st1, c) := shallow_copy st0 tr0 in
  match module_setattr (fst (alloc_tensor st1 5)) c n_params (VParam (snd (alloc_tensor st1 5))) with
  | SOk st' _ => snap_eqb (snap st' tr0) (snap st0 tr0) | SErr => true end = false.
Proof. vm_compute. reflexivity. Qed.
(* the same accessors on buffer-held parameters leave the receiver alone (non-vacuity of the _partial theorems) *)
Definition st1 : store := mkSt (fun t => 10 + t) (fun c => match c with 1 => [(n_params, RT 0); (n_u, RT 1)] | _ => [] end) 2 2.
Lemma acc_data_buffer_ok :
  match acc_data st1 tr0 5 with SOk st' _ => snap_eqb (snap st' tr0) (snap st1 tr0) | SErr => false end = true.
Proof. vm_compute. reflexivity. Qed.
