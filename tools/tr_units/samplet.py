"""Gen/SampleT.v -- the resampling glue of deepali traced from its own source (C05):

  core/image.py   grid_sample:      padding branch table (mode / constant c emulated by subtract, zeros
                                     padding, add), interpolation-mode names, align_corners pass-through;
                  sample_image:      pseudo-grid reshape and its inverse keep the point order;
                  check_sample_grid: batch broadcasting of data / grid;
  modules/sample.py SampleImage._matrix (precomputed target -> source-cube matrix) for the 4 axes x both
                  flags x D in {2,3}; default axes; AlignImage / TransformImage forward without a
                  transform: the coordinates handed to grid_sample for a concrete small target lattice;
  data/image.py   ImageBatch.sample(grid): the coordinates handed to grid_sample (composition
                  coords(target, ac of SOURCE) -> target cube -> source cube) for a concrete small target
                  lattice and symbolic spacing / center / direction of both grids, both flags, D in {2,3};
                  pairing of grids with batch entries (shared target grid, per-image grids).

torch kernels are not executed: F.grid_sample / U.grid_sample are replaced by recorders that return
fresh symbols, torch.arange is evaluated exactly on rationals, round_decimals is recorded and
returned unrounded (rounding is C01's separate error-bound theorem).  Everything else is deepali's
code running on symbols.  Fail-closed: any structural expectation that does not hold raises."""
import contextlib
import itertools
import math
import types
from fractions import Fraction

import numpy as np

import symtorch as st
import trlib
from symtorch import E, TraceError
from tr_units.grid import mk_grid, grid_inputs, AXN, SH

MAGIC = (1234.5, 77.25)  # padding constants used to recover the symbolic dependence on c


# ------------------------------------------------------------------------------------------------
def _arange_exact(*args, dtype=None, device=None):
    """torch.arange(start, stop, step) in exact arithmetic: ceil((stop-start)/step) elements (validated as
    the arange model by C01's lattice correspondence)"""
    if len(args) == 1:
        a, b, s = 0, args[0], 1
    elif len(args) == 2:
        a, b, s = args[0], args[1], 1
    else:
        a, b, s = args

    def fr(x):
        if isinstance(x, float):
            f = Fraction(x)  # the float's exact binary value
            if f.denominator > 2 ** 20:
                raise TraceError("arange literal is not a small dyadic rational (choose lattice sizes that make it exact)")
            return f
        return Fraction(int(x))
    # start and step must be exact small dyadics; stop only bounds the count (its exact float value is used)
    a, b, s = fr(a), (Fraction(b) if isinstance(b, float) else Fraction(int(b))), fr(s)
    k = max(0, math.ceil((b - a) / s))
    vals = [E.const(a + i * s) for i in range(k)]
    isint = all(isinstance(x, int) for x in args)
    return st.Tensor(np.array(vals, dtype=object), dtype=dtype or (st.int64 if isint else st.float32))


def _meshgrid(*ts, indexing="ij"):
    if indexing != "ij":
        raise TraceError("meshgrid indexing")
    arrs = np.meshgrid(*[t.a for t in ts], indexing="ij")
    return tuple(st.Tensor(a.copy(), dtype=ts[0].dtype) for a in arrs)


def _flip(x, dims):
    return x.flip(*dims) if isinstance(dims, (tuple, list)) else x.flip(dims)


@contextlib.contextmanager
def patched(obj, **attrs):
    missing = object()
    old = {k: obj.__dict__.get(k, missing) if hasattr(obj, "__dict__") else missing for k in attrs}
    for k, v in attrs.items():
        setattr(obj, k, v)
    try:
        yield
    finally:
        for k, v in old.items():
            if v is missing:
                try:
                    delattr(obj, k)
                except AttributeError:
                    pass
            else:
                setattr(obj, k, v)


class Recorder:
    """stand-in for F.grid_sample / U.grid_sample: records its arguments, returns fresh symbols"""

    def __init__(self, name="y"):
        self.calls = []
        self.name = name

    def __call__(self, data, grid, *a, **k):
        if a:
            raise TraceError("grid_sample called with extra positional arguments")
        self.calls.append(dict(data=data, grid=grid, **k))
        shp = tuple(data.shape[:2]) + tuple(grid.shape[1:-1])
        n = len(self.calls)
        arr = np.empty(shp, dtype=object)
        for j, idx in enumerate(np.ndindex(*shp)):
            arr[idx] = E.var(f"{self.name}{n}_{j}")
        return st.Tensor(arr, dtype=data.dtype)


def subst_const(e, val, var):
    """replace the magic constant (and its negation) by a variable"""
    if e.op == "const":
        if e.args[0] == val:
            return E.var(var)
        if e.args[0] == -val:
            return -E.var(var)
        return e
    if e.op == "var":
        return e
    if e.op == "fn":
        return E("fn", e.args[0], subst_const(e.args[1], val, var))
    return E(e.op, *[subst_const(a, val, var) for a in e.args])


def has_const(e, pred):
    if e.op == "const":
        return pred(e.args[0])
    if e.op == "var":
        return False
    return any(has_const(a, pred) for a in e.args if isinstance(a, E))


def cstr(s):
    return '"' + s + '"%string'


# ------------------------------------------------------------------------------------------------
def trace_grid_sample(I, out):
    F = I.F
    Sampling, PaddingMode = I.Sampling, I.PaddingMode
    D = 2
    data = st.Tensor(np.array([[[[E.var("v0"), E.var("v1")], [E.var("v2"), E.var("v3")]]]], dtype=object), dtype=st.float32)
    grid = st.Tensor(np.array([[[[E.var(f"g{i}{j}{k}") for k in range(2)] for j in range(2)] for i in range(2)]], dtype=object),
                     dtype=st.float32)

    def run(mode, padding, ac):
        rec = Recorder()
        with patched(F, grid_sample=rec):
            res = I.grid_sample(data, grid, mode=mode, padding=padding, align_corners=ac)
        if len(rec.calls) != 1:
            raise TraceError("grid_sample: F.grid_sample not called exactly once")
        c = rec.calls[0]
        if not trlib.same_tensor(c["grid"].a, grid.a):
            raise TraceError("grid_sample: coordinates are modified before F.grid_sample")
        if c.get("align_corners") is not ac:
            raise TraceError("grid_sample: align_corners not passed through")
        if tuple(res.shape) != (1, 1, 2, 2):
            raise TraceError("grid_sample: result shape")
        return c, res

    # data must be left untouched (out-of-place subtraction when the converted tensor aliases the input)
    before = data.a.copy()
    # constant padding: recover pre / post maps symbolically in c
    pres, posts = [], []
    for mval in MAGIC:
        c, res = run("linear", mval, True)
        if c.get("padding_mode") != "zeros":
            raise TraceError("grid_sample: constant padding does not sample with zeros padding")
        fr = Fraction(repr(mval))
        pres.append([subst_const(e, fr, "c") for e in c["data"].a.reshape(-1)])
        posts.append([subst_const(e, fr, "c") for e in res.a.reshape(-1)])
    if not trlib.same_tensor(data.a, before):
        raise TraceError("grid_sample modifies its input data in place")
    for a, b in zip(pres[0] + posts[0], pres[1] + posts[1]):
        if not a.same(b) or has_const(a, lambda v: abs(v) > 50):
            raise TraceError("grid_sample: dependence on the padding constant is not recovered by substitution")
    # every element treated alike
    pre0 = trlib.rename(pres[0][0], {"v0": "v"})
    post0 = trlib.rename(posts[0][0], {"y1_0": "y"})
    for j in range(4):
        if not trlib.rename(pres[0][j], {f"v{j}": "v"}).same(pre0) or not trlib.rename(posts[0][j], {f"y1_{j}": "y"}).same(post0):
            raise TraceError("grid_sample: padding emulation is not elementwise uniform")
    if sorted(pre0.free_vars()) != ["c", "v"] or sorted(post0.free_vars()) != ["c", "y"]:
        raise TraceError(f"grid_sample: unexpected variables in padding emulation {pre0.free_vars()} {post0.free_vars()}")
    out.append("(* core.image.grid_sample with scalar padding c: data is mapped by gen_gs_pre before F.grid_sample(padding_mode='zeros'),\n"
               "   its result by gen_gs_post *)")
    out.append(f"Definition gen_gs_pre (c v : K) : K := {st.to_coq(pre0)}.")
    out.append(f"Definition gen_gs_post (c y : K) : K := {st.to_coq(post0)}.\n")
    # padding given as a mode (or nothing / zero): no data modification; which torch mode
    table = []
    args = [("none", None), ("zeros", "zeros"), ("border", "border"), ("reflection", "reflection"),
            ("enum_zeros", PaddingMode.ZEROS), ("enum_border", PaddingMode.BORDER), ("enum_reflect", PaddingMode.REFLECT),
            ("enum_constant", PaddingMode.CONSTANT), ("constant", "constant"),
            ("zero_int", 0), ("zero_float", 0.0)]
    for nm, arg in args:
        for ac in (True, False):
            c, res = run("linear", arg, ac)
            if not trlib.same_tensor(c["data"].a, data.a):
                raise TraceError(f"grid_sample(padding={nm}): data modified")
            if not all(e.op == "var" and e.args[0].startswith("y") for e in res.a.reshape(-1)):
                raise TraceError(f"grid_sample(padding={nm}): result modified")
        table.append((nm, c["padding_mode"]))
    out.append("Definition gen_gs_padtable : list (string * string) :=\n  [" +
               "; ".join(f"({cstr(a)}, {cstr(b)})" for a, b in table) + "].\n")
    # interpolation mode names handed to torch, D = 2 and 3 (3-D via a 5-D tensor)
    data3 = st.Tensor(np.array([[[[[E.var(f"w{i}{j}{k}") for k in range(2)] for j in range(2)] for i in range(2)]]], dtype=object),
                      dtype=st.float32)
    grid3 = st.Tensor(np.array([[[[[E.var(f"h{i}{j}") for j in range(3)] for i in range(2)]]]], dtype=object), dtype=st.float32)
    mt = []
    for nm, arg in (("none", None), ("linear", "linear"), ("nearest", "nearest"), ("nn", "nn"),
                    ("enum_linear", Sampling.LINEAR), ("enum_nearest", Sampling.NEAREST)):
        c, _ = run(arg, None, True)
        rec = Recorder()
        with patched(F, grid_sample=rec):
            I.grid_sample(data3, grid3, mode=arg, padding=None, align_corners=False)
        mt.append((nm, c["mode"], rec.calls[0]["mode"]))
    out.append("Definition gen_gs_modetable : list (string * string * string) :=\n  [" +
               "; ".join(f"({cstr(a)}, {cstr(b)}, {cstr(c)})" for a, b, c in mt) + "].\n")


def trace_sample_image(I):
    """sample_image: coords of any shape -> pseudo grid -> grid_sample -> reshape back, order preserved;
    batch broadcasting of check_sample_grid"""
    data = st.Tensor(np.array([[[[E.var(f"v{i}{j}") for j in range(3)] for i in range(2)]]], dtype=object), dtype=st.float32)
    for shape in ((1, 5, 2), (1, 2, 3, 2), (2, 4, 2)):
        arr = np.empty(shape, dtype=object)
        for j, idx in enumerate(np.ndindex(*shape)):
            arr[idx] = E.var(f"p{j}")
        coords = st.Tensor(arr, dtype=st.float32)
        rec = Recorder()
        with patched(I, grid_sample=rec):
            res = I.sample_image(data, coords, mode="linear", padding="border", align_corners=False)
        c = rec.calls[0]
        N = shape[0]
        g = c["grid"]
        if tuple(g.shape) != (N, 1, int(np.prod(shape[1:-1])), 2):
            raise TraceError(f"sample_image: pseudo grid shape {tuple(g.shape)}")
        if not trlib.same_tensor(g.a.reshape(shape), coords.a):
            raise TraceError("sample_image: pseudo grid reorders the points")
        if c.get("mode") != "linear" or c.get("padding") != "border" or c.get("align_corners") is not False:
            raise TraceError("sample_image: options not passed through")
        if tuple(c["data"].shape) != (N, 1, 2, 3):
            raise TraceError("sample_image: data not expanded to the coords batch")
        if tuple(res.shape) != (N, 1) + tuple(shape[1:-1]):
            raise TraceError("sample_image: result shape")
        flat = [e.args[0] for e in res.a.reshape(-1)]
        if flat != [f"y1_{j}" for j in range(len(flat))]:
            raise TraceError("sample_image: result reorders the samples")
    # check_sample_grid broadcasting table
    def csg(nd, ng, batched=True):
        d = st.Tensor(np.full((nd, 1, 2, 2), E.var("a"), dtype=object), dtype=st.float32)
        shp = ((ng,) if batched else ()) + (2, 2, 2)
        g = st.Tensor(np.full(shp, E.var("b"), dtype=object), dtype=st.float32)
        try:
            return tuple(I.check_sample_grid("f", d, g).shape)
        except ValueError:
            return "ValueError"
    expect = {(1, 1, True): (1, 2, 2, 2), (1, 3, True): (3, 2, 2, 2), (3, 1, True): (3, 2, 2, 2), (3, 3, True): (3, 2, 2, 2),
              (2, 3, True): "ValueError", (1, 0, False): (1, 2, 2, 2), (3, 0, False): (3, 2, 2, 2)}
    for (nd, ng, b), want in expect.items():
        got = csg(nd, ng, b)
        if got != want:
            raise TraceError(f"check_sample_grid(data N={nd}, grid N={ng}, batched={b}) -> {got}, expected {want}")


# ------------------------------------------------------------------------------------------------
def concrete_grid(Grid, D, sizes, p, align):
    """grid whose lattice (shape / size(), used by coords()) is concrete while the size attribute used by the
    coordinate maps stays symbolic (p+n_i); the generated coordinates are later instantiated at n = sizes in Coq"""
    class CG(Grid):
        __slots__ = ()

        def size(self, i=None):
            t = st.Size(list(sizes))
            return t if i is None else t[i]

        @property
        def shape(self):
            return st.Size(list(reversed(sizes)))

    g = mk_grid(CG, D, p=p, align=align)
    return g


def tsizes(ac, D):
    """small target lattice on which arange's float literals are exact: n-1 (ac) resp. n (not ac) a power of two"""
    return ([3, 2, 2] if ac else [4, 2, 2])[:D]


def coords_inputs(t, s):
    return grid_inputs(t, "t") + grid_inputs(s, "s")


def trace_modules(G, S, out):
    Grid, Axes = G.Grid, G.Axes
    forms = set()
    for D in (2, 3):
        for a in AXN:
            for ac in (True, False):
                tgt, src = mk_grid(Grid, D, p="t", align=ac), mk_grid(Grid, D, p="s", align=not ac)
                m = object.__new__(S.SampleImage)
                m._target, m._source, m._axes, m._align_centers = tgt, src, Axes(a.lower()), False
                st.GENERIC_DISTINCT = True
                try:
                    mat = m._matrix()
                finally:
                    st.GENERIC_DISTINCT = False
                if tuple(mat.shape) != (1, D, D + 1):
                    raise TraceError(f"SampleImage._matrix shape {tuple(mat.shape)}")
                out.append(trlib.emit_match_def(f"gen_smat_{SH[a]}{'a' if ac else 'n'}_{D}", grid_inputs(tgt, "t") + grid_inputs(src, "s"),
                                                [], mat[0], comment=f"SampleImage._matrix, axes={a}, target.align_corners={ac}, D={D}"))
    # the same with the source grid omitted (source = target, the SAME object): Grid.transform takes its same-grid branch
    # (axes -> cube axes of the target's flag).  A (D, D) result (linear map, as homogeneous_transform applies it) is emitted
    # with a zero translation column.
    for D in (2, 3):
        for a in AXN:
            for ac in (True, False):
                tgt = mk_grid(Grid, D, p="t", align=ac)
                m = object.__new__(S.SampleImage)
                m._target, m._source, m._axes, m._align_centers = tgt, tgt, Axes(a.lower()), False
                mat = m._matrix()
                if tuple(mat.shape) == (1, D, D):
                    arr = np.empty((D, D + 1), dtype=object)
                    arr[:, :D] = mat.a[0]
                    for i in range(D):
                        arr[i, D] = E.const(0)
                    mat0 = st.Tensor(arr, dtype=mat.dtype)
                elif tuple(mat.shape) == (1, D, D + 1):
                    mat0 = mat[0]
                else:
                    raise TraceError(f"SampleImage._matrix (own grid) shape {tuple(mat.shape)}")
                out.append(trlib.emit_match_def(f"gen_smat_own_{SH[a]}{'a' if ac else 'n'}_{D}", grid_inputs(tgt, "t"),
                                                [], mat0, comment=f"SampleImage._matrix, source omitted, axes={a}, target.align_corners={ac}, D={D}"))
    arms = []
    for D in (2, 3):
        for a in AXN:
            for ac in (True, False):
                arms.append(f"  | {D}%nat, {a}, {'true' if ac else 'false'} => gen_smat_own_{SH[a]}{'a' if ac else 'n'}_{D} tn ts tc td")
    out.append("Definition gen_smat_own (D : nat) (a : axes) (ac : bool) (tn ts tc : list K) (td : list (list K)) "
               ": list (list K) :=\n  match D, a, ac with\n" + "\n".join(arms) + "\n  | _, _, _ => []\n  end.\n")
    arms = []
    for D in (2, 3):
        for a in AXN:
            for ac in (True, False):
                arms.append(f"  | {D}%nat, {a}, {'true' if ac else 'false'} => gen_smat_{SH[a]}{'a' if ac else 'n'}_{D} tn ts tc td sn ss sc sd")
    out.append("Definition gen_smat (D : nat) (a : axes) (ac : bool) (tn ts tc : list K) (td : list (list K)) "
               "(sn ss sc : list K) (sd : list (list K)) : list (list K) :=\n  match D, a, ac with\n" + "\n".join(arms) +
               "\n  | _, _, _ => []\n  end.\n")
    # constructor: default axes = cube axes of the target's flag; options stored; AlignImage / TransformImage forward(None)
    def regbuf(self, name, value, persistent=True):
        object.__setattr__(self, name, value)
    U = S.U
    first = {}
    for cls_name in ("SampleImage", "AlignImage", "TransformImage"):
        cls = getattr(S, cls_name)
        for D in (2,):
            for a in AXN + [None]:
                for ac in (True, False):
                    # lattice on which the normalised coordinates the class generates are exact dyadic numbers
                    sizes = tsizes(False if (a == "CUBE" or (a is None and not ac)) else True, D)
                    tgt = concrete_grid(Grid, D, sizes, "t", ac)
                    src = mk_grid(Grid, D, p="s", align=not ac)
                    with patched(S.Module, register_buffer=regbuf, __init__=lambda self: None), \
                            patched(G, round_decimals=lambda t, decimals=0, out=None: t):
                        st.GENERIC_DISTINCT = True
                        try:
                            m = cls(tgt, src, axes=None if a is None else Axes(a.lower()), sampling="nearest", padding=3.5)
                            rec = Recorder()
                            inp = st.Tensor(np.array([[[[E.var(f"v{i}{j}") for j in range(2)] for i in range(2)]]], dtype=object), dtype=st.float32)
                            with patched(U, grid_sample=rec):
                                if cls_name == "SampleImage":
                                    pts = tgt.points(m.axes()) if a is not None else tgt.coords(align_corners=ac)
                                    m.forward(pts, inp)
                                else:
                                    m.forward(None, inp)
                        finally:
                            st.GENERIC_DISTINCT = False
                    if a is None and m.axes() is not (Axes.CUBE_CORNERS if ac else Axes.CUBE):
                        raise TraceError(f"{cls_name}: default axes are not the cube axes of the target's align_corners flag")
                    c = rec.calls[0]
                    if c.get("align_corners") is not ac:
                        raise TraceError(f"{cls_name}: grid_sample align_corners is not the target grid's flag")
                    if c.get("padding") != 3.5 or str(getattr(c.get("mode"), "value", c.get("mode"))) != "nearest":
                        raise TraceError(f"{cls_name}: sampling / padding options not passed to grid_sample")
                    if not trlib.same_tensor(c["data"].a, inp.a):
                        raise TraceError(f"{cls_name}: input data modified")
                    g = c["grid"]
                    want = (1,) + tuple(reversed(sizes)) + (D,)
                    if tuple(g.shape) != want:
                        raise TraceError(f"{cls_name}: grid shape {tuple(g.shape)} != {want}")
                    an = "D" if a is None else SH[a]
                    key = (an, ac, D)
                    if cls_name == "SampleImage":
                        first[key] = g[0].a
                    elif trlib.same_tensor(first[key], g[0].a):
                        sfx = f"{an}{'a' if ac else 'n'}_{D}"
                        out.append(f"(* {cls_name}.forward(None): syntactically the coordinates of SampleImage.forward on target.points(axes) *)\n"
                                   f"Definition gen_{cls_name.lower()}_coords_{sfx} := gen_sampleimage_coords_{sfx}.\n")
                        continue
                    out.append(trlib.emit_match_def(f"gen_{cls_name.lower()}_coords_{an}{'a' if ac else 'n'}_{D}", coords_inputs(tgt, src), [], g[0],
                                                    comment=f"{cls_name}.forward coordinates handed to grid_sample, axes={a}, target size {sizes}, "
                                                            f"target.align_corners={ac}"))


def trace_batch_sample(G, DI, U, out):
    Grid = G.Grid

    class FakeBatch:
        """duck-typed stand-in for ImageBatch (its tensor-subclass constructor is torch C machinery);
        ImageBatch.sample itself is deepali's code"""

        def __init__(self, data, grids):
            self._data, self._grid, self.device = data, tuple(grids), None

        def tensor(self):
            return self._data

        def align_corners(self):
            return DI.ImageBatch.align_corners(self)

        def __len__(self):
            return self._data.shape[0]

        def _make_instance(self, data, grid):
            return ("instance", data, tuple(grid))

    def run(D, ac, n_src, n_tgt):
        sizes = tsizes(ac, D)
        tg = [concrete_grid(Grid, D, sizes, f"t{k}" if n_tgt > 1 else "t", not ac) for k in range(n_tgt)]
        sg = [mk_grid(Grid, D, p=(f"s{k}" if n_src > 1 else "s"), align=ac) for k in range(n_src)]
        shp = (n_src, 1) + (2,) * D
        arr = np.empty(shp, dtype=object)
        for j, idx in enumerate(np.ndindex(*shp)):
            arr[idx] = E.var(f"v{j}")
        data = st.Tensor(arr, dtype=st.float32)
        fb = FakeBatch(data, sg)
        rec = Recorder()
        seen = []

        def rd(t, decimals=0, out=None):
            seen.append(decimals)
            return t
        with patched(U, grid_sample=rec), patched(G, round_decimals=rd):
            st.GENERIC_DISTINCT = True
            try:
                res = DI.ImageBatch.sample(fb, tg[0] if n_tgt == 1 else tg, mode="nearest", padding=3.5)
            finally:
                st.GENERIC_DISTINCT = False
        if not (isinstance(res, tuple) and res[0] == "instance"):
            raise TraceError("ImageBatch.sample(grid) does not build a new instance from the sampled data")
        nb = max(n_src, n_tgt)
        want_grids = tuple(tg) if n_tgt == nb else tuple(tg) * nb
        if len(res[2]) != nb or any(a is not b for a, b in zip(res[2], want_grids)):
            raise TraceError(f"ImageBatch.sample: the returned instance does not carry one target grid per image "
                             f"({len(res[2])} grid(s) for {nb} image(s))")
        c = rec.calls[0]
        if res[1] is None or not all(e.op == "var" and e.args[0].startswith("y") for e in res[1].a.reshape(-1)):
            raise TraceError("ImageBatch.sample: sampled data modified after grid_sample")
        if c.get("align_corners") is not ac:
            raise TraceError("ImageBatch.sample: grid_sample align_corners is not the source image's flag")
        if c.get("padding") != 3.5 or c.get("mode") != "nearest":
            raise TraceError("ImageBatch.sample: mode / padding not passed to grid_sample")
        if not trlib.same_tensor(c["data"].a, data.a):
            raise TraceError("ImageBatch.sample: data modified")
        g = c["grid"]
        want = (max(n_src, n_tgt),) + tuple(reversed(sizes)) + (D,)
        if tuple(g.shape) != want:
            raise TraceError(f"ImageBatch.sample: coords shape {tuple(g.shape)} != {want}")
        return tg, sg, g, seen

    decs = set()
    for D in (2, 3):
        for ac in (True, False):
            tg, sg, g, seen = run(D, ac, 1, 1)
            decs.update(seen)
            out.append(trlib.emit_match_def(f"gen_bs_coords_{'a' if ac else 'n'}_{D}", coords_inputs(tg[0], sg[0]), [], g[0],
                                            comment=f"ImageBatch.sample(grid): coordinates handed to grid_sample, target size {tsizes(ac, D)}, "
                                                    f"source.align_corners={ac}, D={D}"))
    # pairing of grids and batch entries (D = 2): entry k must use source grid k and target grid k (or the shared one)
    base = {}
    for ac in (True, False):
        tg, sg, g, _ = run(2, ac, 1, 1)
        base[ac] = g
    for ac in (True, False):
        for n_src, n_tgt in ((2, 1), (2, 2)):
            tg, sg, g, _ = run(2, ac, n_src, n_tgt)
            for k in range(2):
                ren = {}
                for i in range(2):
                    ren[f"s{k}s{i}"] = f"ss{i}"
                    ren[f"s{k}c{i}"] = f"sc{i}"
                    ren[f"s{k}n{i}"] = f"sn{i}"
                    for j in range(2):
                        ren[f"s{k}d{i}{j}"] = f"sd{i}{j}"
                    if n_tgt > 1:
                        ren[f"t{k}s{i}"] = f"ts{i}"
                        ren[f"t{k}c{i}"] = f"tc{i}"
                        ren[f"t{k}n{i}"] = f"tn{i}"
                        for j in range(2):
                            ren[f"t{k}d{i}{j}"] = f"td{i}{j}"
                got = np.vectorize(lambda e: trlib.rename(e, ren), otypes=[object])(g.a[k])
                if not trlib.same_tensor(got, base[ac].a[0]):
                    raise TraceError(f"ImageBatch.sample: batch entry {k} is not sampled with its own source/target grid "
                                     f"(N={n_src}, {n_tgt} target grid(s))")
    # ONE shared target that is the grid of image 0, images on DIFFERENT grids: the "already on the target grid" shortcut
    # must not fire (it has to compare the target with EVERY image's grid); entry 0 is sampled at its own lattice, entry 1
    # through the two-grid map of ITS grid
    for ac in (True, False):
        sizes = tsizes(ac, 2)
        s0 = concrete_grid(Grid, 2, sizes, "t", ac)
        s1 = mk_grid(Grid, 2, p="s", align=ac)
        arr = np.empty((2, 1, 2, 2), dtype=object)
        for j, idx in enumerate(np.ndindex(2, 1, 2, 2)):
            arr[idx] = E.var(f"v{j}")
        fb = FakeBatch(st.Tensor(arr, dtype=st.float32), [s0, s1])
        rec = Recorder()
        with patched(U, grid_sample=rec), patched(G, round_decimals=lambda t, decimals=0, out=None: t):
            st.GENERIC_DISTINCT = True
            try:
                res = DI.ImageBatch.sample(fb, s0, mode="linear", padding="zeros")
            finally:
                st.GENERIC_DISTINCT = False
        if not (isinstance(res, tuple) and res[0] == "instance") or len(rec.calls) != 1:
            raise TraceError("ImageBatch.sample(target = grid of image 0) on images with different grids returns the batch unsampled")
        if len(res[2]) != 2 or any(g_ is not s0 for g_ in res[2]):
            raise TraceError("ImageBatch.sample(target = grid of image 0): result does not carry the target grid once per image")
        gc = rec.calls[0]["grid"]
        if tuple(gc.shape)[0] != 2:
            raise TraceError(f"ImageBatch.sample(target = grid of image 0): coordinates built for {tuple(gc.shape)[0]} of 2 images")
        if not all(e.is_const() for e in gc.a[0].reshape(-1)):
            raise TraceError("ImageBatch.sample(target = grid of image 0): image 0 is not sampled at its own lattice")
        if not trlib.same_tensor(gc.a[1], base[ac].a[0]):
            raise TraceError("ImageBatch.sample(target = grid of image 0): image 1 is not sampled through the map into ITS grid")
    d = sorted(x for x in decs if x is not None)
    out.append(f"(* default rounding applied by grid_transform_points to the source-cube coordinates: decimals = {d} *)")
    out.append("Definition gen_bs_round_decimals : list Z := [" + "; ".join(f"({x})%Z" for x in d) + "].\n")


def generate(loader):
    stub = types.ModuleType("sym.deepali.utils.imageio")
    stub.read_image = None
    stub.write_image = None
    loader.mods.setdefault("deepali.utils.imageio", stub)
    G = loader.load("deepali.core.grid")
    I = loader.load("deepali.core.image")
    S = loader.load("deepali.modules.sample")
    DI = loader.load("deepali.data.image")
    out = ["Section Gen.", "Context {K : fld}.", ""]
    with patched(st, arange=_arange_exact, meshgrid=_meshgrid, flip=_flip, __version__="2.0.0"), \
            patched(st.Tensor, data_ptr=lambda self: id(self.a), as_subclass=lambda self, cls: self):
        trace_grid_sample(I, out)
        trace_sample_image(I)
        trace_modules(G, S, out)
        trace_batch_sample(G, DI, DI.U, out)
    out.append("End Gen.\n")
    return "\n".join(out)
