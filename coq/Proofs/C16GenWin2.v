(* C16 (windowed losses): the list model (Model/Losses.v) specialised to short vectors IS the formula traced from
   losses/functional.py (Gen/Losses.v): coefficients, epsilons, argument order, mask handling,
   reductions and window geometry of the model are those of the source text. *)
From Coq Require Import ZArith List Field Ring Lia Bool String.
From DV Require Import Base.Field Base.FieldFacts Base.LinAlg Base.Tactics Model.Losses Gen.Losses.
Import ListNotations.
Local Open Scope fld_scope.

Ltac has_div t := match t with context [fdiv _ _] => idtac end.
Ltac no_div t := tryif has_div t then fail else idtac.

Section G.
Variable K : fld.
Hypothesis Kf : is_field K.
Add Field KF : Kf.
Variable fabs : K -> K.
Variable fleb : K -> K -> bool.

(* congruence closure on quotients: name an innermost quotient, identify every quotient that is
   equal to it up to ring equations of numerator and denominator, repeat; then ring *)
Ltac abstract_one_div :=
  match goal with
  | |- context [fdiv ?a ?b] =>
      no_div a; no_div b;
      let q := fresh "q" in
      set (q := fdiv a b);
      repeat match goal with
             | |- context [fdiv ?a' ?b'] =>
                 no_div a'; no_div b';
                 replace (fdiv a' b') with q by (subst q; f_equal; ring)
             end;
      clearbody q
  end.
Ltac div_congr := repeat abstract_one_div; ring.
Ltac gen_tac := fcbv; list_eq; div_congr.

Section V4.
Variables x0 x1 x2 x3 y0 y1 y2 y3 w0 w1 w2 w3 u0 u1 u2 u3 v0 v1 v2 v3 : K.
Let X := [x0; x1; x2; x3].
Let Y := [y0; y1; y2; y3].
Let W := [w0; w1; w2; w3].
Let U := [u0; u1; u2; u3].
Let V := [v0; v1; v2; v3].

(* ---- windowed correlation, 1 x 4 image, window (1, 3) ----------------------------------------------- *)
Let nb14 := box_nb [1; 4]%nat [1; 3]%nat.

Lemma gen_wlcc14_mask_ok (eps : K) :
  gen_wlcc14_mask eps X Y W = wlcc_loss RMean nb14 eps X Y (Some W) None None.
Proof. gen_tac. Qed.

Lemma gen_wlcc14_st_ok (eps : K) :
  gen_wlcc14_st eps X Y U V = wlcc_loss RMean nb14 eps X Y None (Some U) (Some V).
Proof. gen_tac. Qed.

End V4.
End G.
