(* C19 -- torch.split (int and list), split_with_sizes and tensor_split (sections) of an image batch along the batch
   dimension: every piece that is typed as a batch carries exactly the grids of the items it holds, for any batch size
   and any sizes / number of sections. *)
From Coq Require Import List ZArith Bool Arith Lia.
From DV Require Import Model.Enums Model.Batch Model.BatchSpec Proofs.C19Base Proofs.C19Generic Proofs.C19GetItem.
Import ListNotations.
Local Arguments ndim : simpl never.

Lemma sum_repeat a k : sum (repeat a k) = a * k.
Proof. induction k as [|k IH]; cbn [repeat sum fold_right]; [lia|]. unfold sum in IH. rewrite IH. lia. Qed.
Lemma sum_app a b : sum (a ++ b) = sum a + sum b.
Proof. unfold sum. induction a as [|x a IH]; cbn; [reflexivity|]. rewrite IH. lia. Qed.

Lemma int_sizes_sum n size : size <> 0 -> sum (int_sizes n size) = n.
Proof.
  intros Hs. unfold int_sizes. rewrite sum_app, sum_repeat.
  pose proof (Nat.div_mod n size Hs) as H.
  destruct (n mod size =? 0) eqn:E; [apply Nat.eqb_eq in E; cbn; lia|cbn; lia].
Qed.
Lemma tsplit_sizes_sum n k : k <> 0 -> sum (tsplit_sizes n k) = n.
Proof.
  intros Hk. unfold tsplit_sizes. rewrite sum_app, !sum_repeat.
  pose proof (Nat.div_mod n k Hk) as H. pose proof (Nat.mod_upper_bound n k Hk) as Hm. nia.
Qed.

Lemma offsets_bound sizes : forall a os, In os (offsets a sizes) -> a <= fst os /\ fst os + snd os <= a + sum sizes.
Proof.
  induction sizes as [|x r IH]; intros a os; cbn [offsets]; [intros []|].
  intros [<-|H]; cbn [fst snd sum fold_right].
  - unfold sum. lia.
  - destruct (IH (a + x) os H) as [A B]. unfold sum in *. cbn [fold_right]. lia.
Qed.

Lemma combine_map2 {A B C} (f : A -> B) (h : A -> C) l : combine (map f l) (map h l) = map (fun x => (f x, h x)) l.
Proof. induction l as [|x l IH]; cbn; [reflexivity|]. now rewrite IH. Qed.

Lemma collect_in l os o : collect l = inr os -> In o os ->
  exists d k, In (d, KOk k) l /\ o = mkO (d_shape d) k (d_src d).
Proof.
  revert os. induction l as [|[d r] l IH]; intros os; cbn [collect].
  - intros H; injection H as <-. intros [].
  - destruct r as [e|k]; [discriminate|]. destruct (collect l) as [e|t] eqn:E; [discriminate|].
    intros H; injection H as <-. intros [<-|Hin].
    + exists d, k. split; [left; reflexivity|reflexivity].
    + destruct (IH t eq_refl Hin) as (d' & k' & Hl & Ho). exists d', k'. split; [right; exact Hl|exact Ho].
Qed.

Lemma py_slice_clamp {A} (l : list A) lo hi :
  py_slice l lo hi = py_slice l (Nat.min lo (length l)) (Nat.min lo (length l) + (Nat.min hi (length l) - Nat.min lo (length l))).
Proof.
  unfold py_slice. set (n := length l).
  destruct (Nat.le_gt_cases n lo) as [Hge|Hlt].
  - rewrite (skipn_all2 l) by exact Hge. rewrite Nat.min_r by exact Hge. rewrite (skipn_all2 l) by (unfold n; lia).
    now rewrite !firstn_nil.
  - rewrite (Nat.min_l lo n) by lia. replace (lo + (Nat.min hi n - lo) - lo) with (Nat.min hi n - lo) by lia.
    destruct (Nat.le_gt_cases hi n) as [Hh|Hh].
    + now rewrite Nat.min_l by exact Hh.
    + rewrite Nat.min_r by lia. rewrite !firstn_all2; [reflexivity| |]; rewrite skipn_length; fold n; lia.
Qed.

Lemma bounds_grids_slices {A} (l : list A) idx : forall lo,
  bounds_grids l lo idx = slice_grids l (tsplit_bounds (length l) lo idx).
Proof.
  induction idx as [|hi r IH]; intros lo; cbn [bounds_grids tsplit_bounds slice_grids map fst snd].
  - f_equal. rewrite (py_slice_clamp l lo (length l)). now rewrite Nat.min_id.
  - f_equal; [apply py_slice_clamp|]. apply IH.
Qed.

Lemma tsplit_bounds_bound n idx : forall lo os, In os (tsplit_bounds n lo idx) -> fst os + snd os <= n.
Proof.
  induction idx as [|hi r IH]; intros lo os; cbn [tsplit_bounds].
  - intros [<-|[]]. cbn. lia.
  - intros [<-|H]; [cbn; lia|]. eapply IH; eauto.
Qed.

Section Split.
Variable gshape : gid -> shape.
Variable gaxes : gid -> axes.

(* the operations and the piece sizes they produce on a dimension of size n *)
Definition split_offs (o : op) (n : nat) : option (list (nat * nat)) :=
  match o with
  | OSplit size _ => if size =? 0 then None else Some (offsets 0 (if n =? 0 then [0] else int_sizes n size))
  | OSplitL sizes _ | OSplitSizes sizes _ => if sum sizes =? n then Some (offsets 0 sizes) else None
  | OTSplitN k _ => if k =? 0 then None else Some (offsets 0 (tsplit_sizes n k))
  | OTSplitI idx _ => Some (tsplit_bounds n 0 idx)
  | _ => None
  end.
Definition split_dim0 (o : op) : Prop :=
  match o with
  | OSplit _ d | OSplitL _ d | OSplitSizes _ d | OTSplitN _ d | OTSplitI _ d => dim_value d = 0%Z
  | _ => False
  end.

Lemma split_offs_bound o n offs os : split_offs o n = Some offs -> In os offs -> fst os + snd os <= n.
Proof.
  unfold split_offs. destruct o; try discriminate.
  - destruct (size =? 0) eqn:Es; [discriminate|]. apply Nat.eqb_neq in Es. intros H; injection H as <-. intros Hin.
    apply offsets_bound in Hin. destruct (n =? 0) eqn:En.
    + apply Nat.eqb_eq in En. cbn in Hin. lia.
    + rewrite int_sizes_sum in Hin by exact Es. lia.
  - destruct (sum sizes =? n) eqn:E; [|discriminate]. apply Nat.eqb_eq in E. intros H; injection H as <-. intros Hin.
    apply offsets_bound in Hin. lia.
  - destruct (sum sizes =? n) eqn:E; [|discriminate]. apply Nat.eqb_eq in E. intros H; injection H as <-. intros Hin.
    apply offsets_bound in Hin. lia.
  - destruct (n0 =? 0) eqn:Ek; [discriminate|]. apply Nat.eqb_neq in Ek. intros H; injection H as <-. intros Hin.
    apply offsets_bound in Hin. rewrite tsplit_sizes_sum in Hin by exact Ek. lia.
  - intros H; injection H as <-. apply tsplit_bounds_bound.
Qed.

Theorem split_batch_dim_sound o s gs :
  split_dim0 o -> wf_val gshape (mkT s (TBatch None gs)) ->
  res_sound gshape [mkT s (TBatch None gs)] (run_op gshape gaxes o [mkT s (TBatch None gs)]).
Proof.
  intros Hd Hwf. pose proof Hwf as Hwf0.
  unfold wf_val in Hwf; cbn [t_kind t_shape] in Hwf. destruct Hwf as (HL & H4 & HF).
  destruct s as [|n s']; [unfold ndim in H4; cbn in H4; lia|]. cbn [nent] in HL.
  assert (Hn : norm_dim (ndim (n :: s')) 0 = Some 0).
  { unfold norm_dim, ndim. cbn [length]. destruct ((0 <=? 0)%Z && (0 <? Z.of_nat (S (length s')))%Z) eqn:E; [reflexivity|].
    apply andb_false_iff in E. destruct E as [E|E]; [discriminate|]. apply Z.ltb_ge in E. lia. }
  (* the common shape of the four operations *)
  assert (Hrun : run_op gshape gaxes o [mkT (n :: s') (TBatch None gs)] =
                 match split_offs o n with
                 | None => OErr ERuntime
                 | Some offs =>
                     let ds := pieces (n :: s') 0 offs in
                     let gss := match slice_grids gs offs with [] => repeat [] (length ds) | x => x end in
                     if negb (length gss =? length ds) then OErr EAssert
                     else if negb (forallb (fun dg => nent (d_shape (fst dg)) =? length (snd dg)) (combine ds gss)) then OErr EAssert
                     else tuple_of (map (fun dg => (fst dg, res_batch gshape (d_shape (fst dg)) (Some (snd dg)))) (combine ds gss))
                 end).
  { destruct o; cbn [split_dim0] in Hd; try contradiction; unfold run_op;
      cbn [nth t_shape t_kind map choose_disp fold_left disp_of existsb insert_disp hd];
      unfold dispatch_batch; cbn [map to_batch t_kind t_shape flat_map app hd kw_of];
      unfold tf_grid_batch; cbn [flat_map app]; rewrite Hd; cbn [Z.ltb Z.eqb Z.compare];
      unfold split_offs; cbn [data_sem nth_shape nth]; rewrite Hd, Hn; cbn [nth]; rewrite ?bounds_grids_slices; unfold gid in *; rewrite ?HL;
      cbv [is_split_class class_of];
      repeat match goal with |- context [if ?c then _ else _] => destruct c end; try reflexivity;
      match goal with |- context [match slice_grids ?a ?b with _ => _ end] => destruct (slice_grids a b) end; reflexivity. }
  rewrite Hrun. destruct (split_offs o n) as [offs|] eqn:Eo; [|exact I]. cbv zeta.
  set (ds := pieces (n :: s') 0 offs).
  assert (Hgss : match slice_grids gs offs with [] => repeat [] (length ds) | x => x end = slice_grids gs offs).
  { subst ds. destruct offs; reflexivity. }
  rewrite Hgss.
  destruct (negb (length (slice_grids gs offs) =? length ds)); [exact I|].
  destruct (negb (forallb _ (combine ds (slice_grids gs offs)))); [exact I|].
  unfold tuple_of. destruct (collect _) as [e|os] eqn:EC; [exact I|].
  cbn [res_sound]. apply Forall_forall. intros ov Hov.
  destruct (collect_in _ _ _ EC Hov) as (d & k & Hin & ->).
  apply in_map_iff in Hin. destruct Hin as ([d' g] & Heq & Hin). cbn [fst snd] in Heq. injection Heq as <- Hk.
  unfold ds, pieces, slice_grids in Hin. rewrite combine_map2 in Hin. apply in_map_iff in Hin.
  destruct Hin as ([off size] & Heq & Hoff). injection Heq as <- <-. cbn [fst snd] in *.
  pose proof (split_offs_bound o n offs (off, size) Eo Hoff) as Hb. cbn [fst snd] in Hb.
  change (res_batch gshape (set_nth (n :: s') 0 size) (Some (py_slice gs off (off + size))) = KOk k) in Hk.
  unfold out_sound; cbn [v_kind v_shape v_src d_shape d_src Nat.eqb].
  destruct k as [|fl gs'|fl g]; [exact I| |exfalso; exact (res_batch_not_single gshape _ _ _ _ Hk)].
  apply res_batch_typed in Hk. destruct Hk as (-> & -> & HN & H4' & HF').
  assert (Hlen : length (py_slice gs off (off + size)) = size).
  { unfold py_slice. rewrite firstn_length, skipn_length. lia. }
  split; [unfold wf_val, val_of; cbn [t_kind t_shape v_shape v_kind]; repeat split; auto|].
  intros i Hi. rewrite Hlen in Hi. rewrite nth_map_seq by exact Hi. cbn [Nat.add].
  split; [apply coherent_single|]. split.
  - exists (0, off + i). split; [left; reflexivity|]. unfold entry_grid; cbn.
    unfold py_slice. rewrite nth_firstn_lt by lia. rewrite nth_skipn_add. apply nth_error_nth'. lia.
  - intros ax Hax; discriminate Hax.
Qed.
(* the same functions along any other (non-negative) dimension: every piece keeps all grids *)
Definition split_other_dim (o : op) : Prop :=
  match o with
  | OSplit _ d | OSplitL _ d | OSplitSizes _ d | OTSplitN _ d | OTSplitI _ d => (0 < dim_value d)%Z
  | _ => False
  end.

Lemma in_combine_repeat {A B} (l : list A) (g : B) x y : In (x, y) (combine l (repeat g (length l))) -> In x l /\ y = g.
Proof.
  induction l as [|a l IH]; cbn; [tauto|]. intros [H|H]; [injection H as <- <-; auto|]. destruct (IH H); auto.
Qed.

Theorem split_other_dim_sound o s gs :
  split_other_dim o -> wf_val gshape (mkT s (TBatch None gs)) ->
  res_sound gshape [mkT s (TBatch None gs)] (run_op gshape gaxes o [mkT s (TBatch None gs)]).
Proof.
  intros Hd Hwf.
  unfold wf_val in Hwf; cbn [t_kind t_shape] in Hwf. destruct Hwf as (HL & H4 & HF).
  assert (Hrun : exists z, (0 < z)%Z /\
            run_op gshape gaxes o [mkT s (TBatch None gs)] =
            match data_sem o [s] with
            | DErr e => OErr e
            | DOne d => one_kind d (res_batch gshape (d_shape d) (Some gs))
            | DTuple ds =>
                let gss := repeat gs (length ds) in
                if negb (length gss =? length ds) then OErr EAssert
                else if negb (forallb (fun dg => nent (d_shape (fst dg)) =? length (snd dg)) (combine ds gss)) then OErr EAssert
                else tuple_of (map (fun dg => (fst dg, res_batch gshape (d_shape (fst dg)) (Some (snd dg)))) (combine ds gss))
            end /\ (forall ds, data_sem o [s] = DTuple ds -> forall d, In d ds -> d_src d = ident_src 0 (nent s))
            /\ (forall dd, data_sem o [s] <> DOne dd)).
  { destruct o; cbn [split_other_dim] in Hd; try contradiction; exists (dim_value d); (split; [exact Hd|]); (split; [|split]).
    all: try (unfold run_op;
      cbn [nth t_shape t_kind map choose_disp fold_left disp_of existsb insert_disp hd];
      unfold dispatch_batch; cbn [map to_batch t_kind t_shape flat_map app hd kw_of];
      unfold tf_grid_batch; cbn [flat_map app];
      assert (Hlt : (dim_value d <? 0)%Z = false) by (apply Z.ltb_ge; lia);
      assert (Hne : (dim_value d =? 0)%Z = false) by (apply Z.eqb_neq; lia);
      rewrite Hlt, Hne;
      match goal with |- context [data_sem ?oo ?l] => destruct (data_sem oo l) as [e|dd|ds] end; try reflexivity;
      cbv [is_split_class class_of tf_axes]; reflexivity).
    all: try (intros ds Hds dd Hin; cbn [data_sem nth_shape nth] in Hds;
      destruct (norm_dim (ndim s) (dim_value d)) as [nd|] eqn:En; [|discriminate Hds];
      assert (Hnd : nd <> 0) by
        (unfold norm_dim in En;
         match type of En with context [if ?c then _ else _] => destruct c eqn:E1 end;
         [injection En as <-; lia|];
         match type of En with context [if ?c then _ else _] => destruct c eqn:E2 end; [|discriminate En];
         apply andb_true_iff in E2; destruct E2 as [_ E2]; apply Z.ltb_lt in E2; lia);
      try (match type of Hds with context [match ?m with _ => _ end] => destruct m as [offs|]; [|discriminate Hds] end);
      injection Hds as <-; unfold pieces in Hin; apply in_map_iff in Hin; destruct Hin as ([off0 size0] & <- & _);
      cbn [d_src]; destruct (nd =? 0) eqn:E0; [apply Nat.eqb_eq in E0; contradiction|reflexivity]).
    all: (intros dd Hdd; cbn [data_sem nth_shape nth] in Hdd;
      repeat match type of Hdd with context [match ?m with _ => _ end] => destruct m end; discriminate Hdd). }
  destruct Hrun as (z & Hz & Hrun & Hsrc & Hnone). rewrite Hrun.
  destruct (data_sem o [s]) as [e|d|ds] eqn:ED; [exact I|exfalso; exact (Hnone d eq_refl)|]. cbv zeta.
  destruct (negb (length (repeat gs (length ds)) =? length ds)); [exact I|].
  destruct (negb (forallb _ (combine ds (repeat gs (length ds))))); [exact I|].
  unfold tuple_of. destruct (collect _) as [e|os] eqn:EC; [exact I|].
  cbn [res_sound]. apply Forall_forall. intros ov Hov.
  destruct (collect_in _ _ _ EC Hov) as (d & k & Hin & ->).
  apply in_map_iff in Hin. destruct Hin as ([d' g] & Heq & Hin). cbn [fst snd] in Heq. injection Heq as <- Hk.
  apply in_combine_repeat in Hin. destruct Hin as (Hin & ->).
  change (res_batch gshape (d_shape d') (Some gs) = KOk k) in Hk.
  unfold out_sound; cbn [v_kind v_shape v_src].
  destruct k as [|fl gs'|fl g]; [exact I| |exfalso; exact (res_batch_not_single gshape _ _ _ _ Hk)].
  apply res_batch_typed in Hk. destruct Hk as (-> & -> & HN & H4' & HF').
  split; [unfold wf_val, val_of; cbn [t_kind t_shape v_shape v_kind]; repeat split; auto|].
  intros i Hi. rewrite (Hsrc ds eq_refl d' Hin). rewrite nth_ident_src by lia.
  split; [apply coherent_single|]. split.
  - exists (0, i). split; [left; reflexivity|]. unfold entry_grid; cbn. now apply nth_error_nth'.
  - intros ax Hax; discriminate Hax.
Qed.
End Split.
