(* The generated closed forms of Grid.transform_vectors (one grid) are the specified vector maps of Model/Grid.v:
   through index space, v -> from_index_vec B (to_index_vec A v); e.g. WORLD -> CUBE is diag(2/n) diag(1/s) R^T v. *)
From Coq Require Import ZArith List Field Ring Lia Bool.
From DV Require Import Base.Field Base.FieldFacts Base.LinAlg Base.Tactics Model.Enums Model.Homog Model.Grid Model.Sampler
  Model.Flow Model.FlowRepr Gen.GridT.
Import ListNotations.
Local Open Scope fld_scope.

Section Spec.
Variable K : fld.
Hypothesis Kf : is_field K.
Hypothesis Kc : char0 K.
Add Field KFSp : Kf.
Definition not_both_world (A B : axes) : Prop := match A, B with WORLD, WORLD => False | _, _ => True end.
Lemma gvecs_spec2 A B (n s c : nat -> K) d (v0 v1 : K) : wf 2 n s d -> not_both_world A B ->
  gvecs 2 A B (n, s, c, d) [v0; v1] = Tv_map 2 A B (vtab 2 n) (vtab 2 s) (tab 2 2 d) [v0; v1].
Proof.
  intros [Hs [Hn [Hn1 _]]] HW.
  pose proof (Hs 0%nat ltac:(lia)). pose proof (Hs 1%nat ltac:(lia)). pose proof (Hn 0%nat ltac:(lia)). pose proof (Hn 1%nat ltac:(lia)).
  pose proof (Hn1 0%nat ltac:(lia)). pose proof (Hn1 1%nat ltac:(lia)). pose proof (two_nz K Kf Kc).
  destruct A, B; try contradiction; fcbv; list_eq; field; auto.
Qed.
Lemma gvecs_spec3 A B (n s c : nat -> K) d (v0 v1 v2 : K) : wf 3 n s d -> not_both_world A B ->
  gvecs 3 A B (n, s, c, d) [v0; v1; v2] = Tv_map 3 A B (vtab 3 n) (vtab 3 s) (tab 3 3 d) [v0; v1; v2].
Proof.
  intros [Hs [Hn [Hn1 _]]] HW.
  pose proof (Hs 0%nat ltac:(lia)). pose proof (Hs 1%nat ltac:(lia)). pose proof (Hs 2%nat ltac:(lia)).
  pose proof (Hn 0%nat ltac:(lia)). pose proof (Hn 1%nat ltac:(lia)). pose proof (Hn 2%nat ltac:(lia)).
  pose proof (Hn1 0%nat ltac:(lia)). pose proof (Hn1 1%nat ltac:(lia)). pose proof (Hn1 2%nat ltac:(lia)). pose proof (two_nz K Kf Kc).
  destruct A, B; try contradiction; fcbv; list_eq; field; auto.
Qed.
End Spec.
