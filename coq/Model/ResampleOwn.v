(* C05, module API with the source grid omitted (source = target): the continuous index at which SampleImage / AlignImage /
   TransformImage (identity transform) sample the image for target index J, through the traced precomputed matrix
   gen_smat_own (Grid.transform's same-grid branch: axes -> cube axes of the target's flag).  Definitions only. *)
From Coq Require Import ZArith List.
From DV Require Import Base.Field Base.LinAlg Model.Enums Model.Homog Model.Grid Model.Sampler Gen.GridT Gen.SampleT Model.Resample.
Import ListNotations.

Section ResampleOwn.
Context {K : fld}.
Definition mod_own_index (D : nat) (A : axes) (ac : bool) (nz : list Z) (s c : list K) (d : list (list K)) (J : list K) : list K :=
  vunnorm ac nz (happly D (gen_smat_own D A ac (zvec nz) s c d) (dp_points D A (zvec nz) s c d J)).
End ResampleOwn.
